(* C19/Spec.v — the property as a reference monitor over OBSERVED traces.

   A trace element is (operation, output, view of the client after the operation); the
   monitor never looks at the model.  It keeps a small ghost state written from the
   property text:
     g_know   what may be returned: the latest session information accepted for
              (subject, issuer) with its not-on-or-after time, forgotten as soon as the
              subject has no session any more;
     g_txn    the logout transactions in progress: subject, the involved identity
              providers that have not answered yet, the deadline;
     g_owner  which logout request (id) belongs to which transaction and whom it was sent to.
   Clauses (one per sentence of the property):
     cl_iso     information is returned only for that subject and issuer            (isolation)
     cl_exp     ... only until its not-on-or-after time                             (expiry)
     cl_after   ... never after the subject has been logged out                     (no_info_after_logout)
     cl_request a LogoutRequest ends the session only if it names the current subject
     cl_pending a LogoutResponse is consumed only if it answers a pending request
     cl_ends    the session ends exactly when the last involved IdP has answered or
                the deadline has passed (and at no other occasion, for no other subject)
     cl_others  one subject's logout (its start, the answers to its requests) leaves the pending
                requests of every other subject as they were                         (never leaks across subjects).
   Round 6: "a pending logout request" is a request the service provider has SENT and that has not been
   answered - learnt from the client's state AND from the requests its output hands out (`news_of`). *)
From Coq Require Import List Bool Arith ZArith Lia.
From Verif Require Import C19.Model.
Import ListNotations.
Local Open Scope Z_scope.

(* ---------------------------------------------------------------- reading a view *)
Definition present (v : view) (s : subj) : bool := mem s (map fst (v_subjects v)).
Definition issuers_of (v : view) (s : subj) : list issuer :=
  match lookup s (v_subjects v) with Some l => l | None => [] end.
Definition pending_ids (v : view) : list rid := map fst (v_pending v).
Definition new_pending (vb va : view) : list (rid * pview) :=
  filter (fun rp => negb (mem (fst rp) (pending_ids vb))) (v_pending va).

(* ---------------------------------------------------------------- ghost state *)
Record txn := { t_subj : subj; t_wait : list issuer; t_deadline : option Z; t_soap : bool }.
Record ghost := {
  g_now : Z;
  g_know : subj -> issuer -> option (Z * tok);
  g_txn : nat -> option txn;
  g_owner : rid -> option (nat * issuer);
  g_moot : rid -> option (nat * issuer);   (* requests whose addressee has answered through another request *)
  g_ntxn : nat
}.
Definition ghost0 (t0 : Z) : ghost :=
  {| g_now := t0; g_know := fun _ _ => None; g_txn := fun _ => None; g_owner := fun _ => None;
     g_moot := fun _ => None; g_ntxn := 0 |}.

Definition asked_by_soap (w : world) (j : issuer) : bool :=
  match choose w j with Some SOAP => true | _ => false end.
Definition soap_ok (w : world) (ans : list soap_answer) (j : issuer) : bool :=
  asked_by_soap w j && match answer ans j with SA_ok => true | _ => false end.

(* does this LogoutResponse answer a pending logout request?  Known InResponseTo of a
   transaction in progress, sent by the party the request went to, status Success. *)
Definition answering (g : ghost) (r : rid) (i : issuer) (success : bool) : option (nat * txn) :=
  if success then
    match g_owner g r with
    | Some (n, a) =>
        if (a =? i)%nat then match g_txn g n with Some T => Some (n, T) | None => None end else None
    | None => None
    end
  else None.

Definition now_after (g : ghost) (o : op) : Z :=
  match o with Tick dt => g_now g + dt | _ => g_now g end.

Definition know_set (k : subj -> issuer -> option (Z * tok)) (s : subj) (i : issuer) (v : option (Z * tok)) :=
  fun s' i' => if (s' =? s)%nat && (i' =? i)%nat then v else k s' i'.

(* The not-on-or-after time of the information a Response carries, from the text: the end of the session as
   stated by the IdP (AuthnStatement/@SessionNotOnOrAfter); when it states none, the end of the assertion's
   validity (Conditions/@NotOnOrAfter); when neither is stated, no time (0: never returnable under the check).
   `effective_nooa` (used by the monitor below) is this time for every Response accepted at a clock after the
   epoch: Proofs.accepted_expiry_is_session_end. *)
Definition info_nooa (cond_nooa sess_nooa : option Z) : Z :=
  match sess_nooa with Some t => t | None => match cond_nooa with Some t => t | None => 0 end end.

Definition know_op (g : ghost) (o : op) (ou : out) : subj -> issuer -> option (Z * tok) :=
  match o, ou with
  | Login s i nooa t, _ => know_set (g_know g) s i (Some (nooa, t))
  | AcceptResponse s i cn sn t RGood, OAccepted => know_set (g_know g) s i (Some (effective_nooa cn sn, t))
  | Reset s i, _ => know_set (g_know g) s i None
  | _, _ => g_know g
  end.
(* nothing is known about a subject without a session *)
Definition know_after (g : ghost) (o : op) (ou : out) (va : view) : subj -> issuer -> option (Z * tok) :=
  fun s i => if present va s then know_op g o ou s i else None.

(* One pass of logout requests over the IdPs still waited for, in their order.  The pass stops (the
   client raises) at the first IdP that has no single-logout endpoint, whose stored session information
   is void (Cache.reset), or that answers a failure status over SOAP; an IdP answers synchronously in the
   pass iff the pass reaches it and it answers Success over SOAP.  `know` is what is stored for the subject. *)
Definition is_none {A} (o : option A) : bool := match o with None => true | Some _ => false end.
Definition stopper (w : world) (know : issuer -> option (Z * tok)) (ans : list soap_answer) (e : issuer) : bool :=
  match choose w e with
  | None => true
  | Some b => is_none (know e)
              || match b with SOAP => match answer ans e with SA_fail => true | _ => false end | _ => false end
  end.
Fixpoint reached (stop : issuer -> bool) (l : list issuer) : list issuer :=
  match l with [] => [] | e :: r => if stop e then [] else e :: reached stop r end.
Definition pass_wait (w : world) (know : issuer -> option (Z * tok)) (ans : list soap_answer) (l : list issuer)
  : list issuer :=
  filter (fun e => negb (soap_ok w ans e && mem e (reached (stopper w know ans) l))) l.
Definition pass_soap_ok (w : world) (know : issuer -> option (Z * tok)) (ans : list soap_answer) (l : list issuer)
  : bool := existsb (soap_ok w ans) (reached (stopper w know ans) l).

Definition wait_minus (i : issuer) (wait : list issuer) : list issuer :=
  filter (fun j => negb (j =? i)%nat) wait.
Definition wait_start (w : world) (g : ghost) (s : subj) (ans : list soap_answer) (involved : list issuer) :=
  pass_wait w (g_know g s) ans involved.
Definition wait_answer (w : world) (g : ghost) (s : subj) (ans : list soap_answer) (i : issuer) (wait : list issuer) :=
  pass_wait w (g_know g s) ans (wait_minus i wait).
Definition is_nil {A} (l : list A) : bool := match l with [] => true | _ => false end.
Definition is_sent (ou : out) : bool := match ou with OSent _ => true | _ => false end.

Definition owner_add (ow : rid -> option (nat * issuer)) (n : nat) (news : list (rid * pview)) :=
  fun r => match lookup r news with Some pv => Some (n, pv_entity pv) | None => ow r end.

(* a transaction is over as soon as its subject has no session any more *)
Definition close_txn (va : view) (tx : nat -> option txn) : nat -> option txn :=
  fun n => match tx n with Some T => if present va (t_subj T) then Some T else None | None => None end.

Definition base_ghost (g : ghost) (o : op) (ou : out) (va : view)
           (txs : nat -> option txn) (ows mts : rid -> option (nat * issuer)) (ntx : nat) : ghost :=
  {| g_now := now_after g o; g_know := know_after g o ou va; g_txn := close_txn va txs; g_owner := ows;
     g_moot := mts; g_ntxn := ntx |}.

Definition txn_set (tx : nat -> option txn) (n : nat) (v : option txn) : nat -> option txn :=
  fun n' => if (n' =? n)%nat then v else tx n'.

(* r is consumed; other requests of this transaction to the same party are moot *)
Definition owner_drop (ow : rid -> option (nat * issuer)) (n : nat) (i : issuer) : rid -> option (nat * issuer) :=
  fun r' => match ow r' with
            | Some (n', a') => if (n' =? n)%nat && (a' =? i)%nat then None else Some (n', a')
            | None => None
            end.

(* ... and are remembered as moot (only the classification of findings reads this) *)
Definition moot_add (mt ow : rid -> option (nat * issuer)) (n : nat) (i : issuer) : rid -> option (nat * issuer) :=
  fun r' => match ow r' with
            | Some (n', a') => if (n' =? n)%nat && (a' =? i)%nat then Some (n', a') else mt r'
            | None => mt r'
            end.

(* Which logout requests has the service provider SENT in this step, and to whom?  Those it files in its state
   (`new_pending`), and those its output hands to the application for delivery over the front channel
   (`OSent [.. SentPending i b r ..]`): a request that went out is a pending logout request whether or not the
   client object - or the state store the application gave it - remembers it; the identity provider will answer
   it all the same.  `unfiled` = handed out but not on file afterwards (never the case for the model:
   Proofs.unfiled_model; then `news_of` is `new_pending`). *)
Definition handed_out (ou : out) : list (rid * pview) :=
  match ou with
  | OSent l => flat_map (fun x => match x with
                                  | SentPending i _ r => [(r, {| pv_entity := i; pv_list := []; pv_subj := 0%nat; pv_expire := None |})]
                                  | SentSoap _ => []
                                  end) l
  | _ => []
  end.
Definition unfiled (ou : out) (va : view) : list (rid * pview) :=
  filter (fun rp => negb (mem (fst rp) (pending_ids va))) (handed_out ou).
Definition news_of (vb va : view) (ou : out) : list (rid * pview) := new_pending vb va ++ unfiled ou va.

Definition ghost_step_n (news : list (rid * pview)) (w : world) (g : ghost) (vb : view) (o : op) (ou : out) (va : view) : ghost :=
  match o with
  | StartLogout s dl ans =>
      if present vb s then
        let n := g_ntxn g in
        let involved := issuers_of vb s in
        let wait := wait_start w g s ans involved in
        let T := {| t_subj := s; t_wait := wait; t_deadline := dl; t_soap := existsb (asked_by_soap w) involved |} in
        base_ghost g o ou va
          (txn_set (g_txn g) n (if deadline_passed (g_now g) dl || is_nil wait then None else Some T))
          (owner_add (g_owner g) n news) (g_moot g) (S n)
      else base_ghost g o ou va (g_txn g) (g_owner g) (g_moot g) (g_ntxn g)
  | LogoutResponse r i success ans =>
      match answering g r i success with
      | Some (n, T) =>
          let wait' := wait_answer w g (t_subj T) ans i (t_wait T) in
          let T' := {| t_subj := t_subj T; t_wait := wait'; t_deadline := t_deadline T; t_soap := t_soap T |} in
          base_ghost g o ou va
            (txn_set (g_txn g) n (if deadline_passed (g_now g) (t_deadline T) || is_nil wait' then None else Some T'))
            (owner_add (owner_drop (g_owner g) n i) n news) (moot_add (g_moot g) (g_owner g) n i)
            (g_ntxn g)
      | None => base_ghost g o ou va (g_txn g) (g_owner g) (g_moot g) (g_ntxn g)
      end
  | _ => base_ghost g o ou va (g_txn g) (g_owner g) (g_moot g) (g_ntxn g)
  end.

(* the monitor's step; `ghost_step0` (owners learnt from the client's own state only) is what it was before
   strengthening round 6 and coincides with it on every step of the model (Proofs.ghost_step_model) *)
Definition ghost_step (w : world) (g : ghost) (vb : view) (o : op) (ou : out) (va : view) : ghost :=
  ghost_step_n (news_of vb va ou) w g vb o ou va.
Definition ghost_step0 (w : world) (g : ghost) (vb : view) (o : op) (ou : out) (va : view) : ghost :=
  ghost_step_n (new_pending vb va) w g vb o ou va.

(* ---------------------------------------------------------------- clauses (Prop) *)
(* t may be returned for subject s by one of the issuers in cands *)
Definition returnable (know : subj -> issuer -> option (Z * tok)) (now : Z) (timed : bool)
           (s : subj) (cands : list issuer) (t : tok) : Prop :=
  exists i nooa, In i cands /\ know s i = Some (nooa, t) /\ (timed = true -> now <= nooa).

Definition cands_of (vb : view) (s : subj) (ents : list issuer) : list issuer :=
  match ents with [] => issuers_of vb s | _ => ents end.

(* the subject whose logout this output reports as complete *)
Definition completed (vb : view) (o : op) (ou : out) : option subj :=
  match o, ou with
  | StartLogout s _ _, OTimeout => Some s
  | LogoutResponse r _ _ _, (ODone | OTimeout) => option_map pv_subj (lookup r (v_pending vb))
  | LogoutRequest _ cur _ _, OStatus LSuccess => Some cur
  | LocalLogout s, OBool true => Some s
  | _, _ => None
  end.

Definition keeps (vb va : view) (except : option subj) : Prop :=
  forall s, present vb s = true -> Some s <> except -> present va s = true.
Definition no_new (vb va : view) (except : option subj) : Prop :=
  forall s, present va s = true -> Some s <> except -> present vb s = true.

(* pending logout requests: nothing appears; only requests of the excepted subject may disappear
   (the property does not say whether the requests of a subject whose session has just ended are
   kept or dropped: 73294247 drops them) *)
Definition pend_kept (vb va : view) (except : option subj) : Prop :=
  (forall rp, In rp (v_pending va) -> In rp (v_pending vb)) /\
  (forall rp, In rp (v_pending vb) -> Some (pv_subj (snd rp)) <> except -> In rp (v_pending va)).

Definition clause := world -> ghost -> view -> op -> out -> view -> Prop.

(* isolation (timed := false) and expiry (timed := the caller's check flag) *)
Definition cl_cache (timed : bool) : clause := fun w g vb o ou va =>
  match o, ou with
  | GetInfoFrom s i chk, OInfo (Some t) => returnable (g_know g) (g_now g) (timed && chk) s [i] t
  | GetIdentity s ents chk, OIdentity toks _ =>
      forall t, In t toks -> returnable (g_know g) (g_now g) (timed && chk) s (cands_of vb s ents) t
  | _, _ => True
  end
  /\ forall s, In s (v_logged va) ->
       exists t, returnable (know_after g o ou va) (now_after g o) timed s (issuers_of va s) t.
Definition cl_iso : clause := cl_cache false.
Definition cl_exp : clause := cl_cache true.

(* a Response that does not verify stores nothing *)
Definition cl_accept : clause := fun w g vb o ou va =>
  match o with
  | AcceptResponse _ _ _ _ _ k => k <> RGood -> ou <> OAccepted /\ va = vb
  | _ => True
  end.

Definition cl_after : clause := fun w g vb o ou va =>
  forall s, completed vb o ou = Some s -> present va s = false.

Definition cl_request : clause := fun w g vb o ou va =>
  match o with
  | LogoutRequest named cur _ _ =>
      keeps vb va (if (named =? cur)%nat then Some cur else None) /\ no_new vb va None
      /\ (named = cur -> present va cur = false)
      /\ (ou = OStatus LSuccess -> named = cur /\ present vb cur = true)
      /\ pend_kept vb va (if (named =? cur)%nat then Some cur else None)
  | _ => True
  end.

Definition cl_pending : clause := fun w g vb o ou va =>
  match o with
  | LogoutResponse r i success _ =>
      answering g r i success = None -> v_subjects va = v_subjects vb /\ v_pending va = v_pending vb
  | _ => True
  end.

Definition cl_ends : clause := fun w g vb o ou va =>
  match o with
  | StartLogout s dl ans =>
      keeps vb va (Some s) /\ no_new vb va None /\
      (present vb s = true ->
         let wait := wait_start w g s ans (issuers_of vb s) in
         if deadline_passed (g_now g) dl then present va s = false
         else (wait = [] -> is_sent ou = true -> present va s = false)
              /\ (present va s = false -> wait = []))
  | LogoutResponse r i success ans =>
      match answering g r i success with
      | Some (n, T) =>
          let s := t_subj T in
          let wait' := wait_answer w g (t_subj T) ans i (t_wait T) in
          keeps vb va (Some s) /\ no_new vb va None /\
          (if deadline_passed (g_now g) (t_deadline T) then present va s = false
           else (wait_minus i (t_wait T) = [] -> present va s = false)
                /\ (wait' = [] -> is_sent ou = true -> present va s = false)
                /\ (present va s = false -> wait' = []))
      | None => True
      end
  | LogoutRequest _ _ _ _ => True
  | LocalLogout s => keeps vb va (Some s) /\ no_new vb va None /\ pend_kept vb va (Some s)
  | Login s _ _ _ | AcceptResponse s _ _ _ _ _ | Reset s _ =>
      keeps vb va None /\ no_new vb va (Some s) /\ v_pending va = v_pending vb
  | GetIdentity _ _ _ | GetInfoFrom _ _ _ | Stale _ _ | Tick _ =>
      keeps vb va None /\ no_new vb va None /\ v_pending va = v_pending vb
  end.

(* one subject's logout traffic is nobody else's business (round 6): starting a global logout for s, and an
   answer to a pending request of s's logout, leave the pending logout requests of every OTHER subject exactly
   as they were (same addressee, same identity providers still to answer, same deadline) - so that their
   answers, when they come, are answers to pending requests.  (An answer that answers nothing changes nothing at
   all: cl_pending; the other operations: cl_request / cl_ends.) *)
Definition pend_others (vb va : view) (s : subj) : Prop :=
  forall rp, pv_subj (snd rp) <> s -> (In rp (v_pending va) <-> In rp (v_pending vb)).
Definition cl_others : clause := fun w g vb o ou va =>
  match o with
  | StartLogout s _ _ => pend_others vb va s
  | LogoutResponse r i success _ =>
      match answering g r i success with
      | Some (_, T) => pend_others vb va (t_subj T)
      | None => True
      end
  | _ => True
  end.

Definition step_ok : clause := fun w g vb o ou va =>
  cl_iso w g vb o ou va /\ cl_exp w g vb o ou va /\ cl_accept w g vb o ou va /\ cl_after w g vb o ou va
  /\ cl_request w g vb o ou va /\ cl_pending w g vb o ou va /\ cl_ends w g vb o ou va /\ cl_others w g vb o ou va.

Definition trace := list (op * out * view).

Fixpoint spec_from (cl : clause) (w : world) (g : ghost) (vb : view) (tr : trace) : Prop :=
  match tr with
  | [] => True
  | (o, ou, va) :: r => cl w g vb o ou va /\ spec_from cl w (ghost_step w g vb o ou va) va r
  end.

Definition spec_cl (cl : clause) (w : world) (t0 : Z) (tr : trace) : Prop := spec_from cl w (ghost0 t0) empty_view tr.
Definition spec (w : world) (t0 : Z) (tr : trace) : Prop := spec_cl step_ok w t0 tr.

(* ---------------------------------------------------------------- the finding classes.
   A step (operation with its observed output) is a TRIGGER of
     class 1  (fixed by 0bae05f7) when a global logout is started for a subject with an involved IdP that
              is asked over SOAP (the synchronous path did no bookkeeping at all);
     class 2  (fixed by de5f1fed) when a successful LogoutResponse carries the id of a pending request
              of a transaction in progress but comes from another party than the one asked;
     class 3  (fixed by 73294247) when a successful LogoutResponse carries an id that the client still
              keeps in its state although the request's transaction is over (completed, or the
              session ended otherwise);
     class 4  (fixed by e58d2614, the residue of 3) when a successful LogoutResponse carries the id of a
              request that the client still keeps, of a transaction still in progress, whose addressee has
              ALREADY answered through another request of the same transaction (do_logout asks the
              remaining IdPs again after every answer), and comes from that addressee;
     class 5  (fixed by 10d8560b, the residue of 1) when a pass of do_logout over the IdPs still waited
              for (at the start of a global logout, or after an answer, deadline not passed) reaches an IdP
              that answers Success over SOAP and the pass ends with an exception: 0bae05f7 recorded
              synchronous answers only after a pass that does not raise.
   All classes are recognised so that a regression is attributed to them; the repaired code never
   violates a clause, so there is no guard any more (`open_class` is empty). *)
Definition is_exn (ou : out) : bool := match ou with OExn _ => true | _ => false end.
Definition trigger (w : world) (g : ghost) (vb : view) (o : op) (ou : out) : nat :=
  match o with
  | StartLogout s dl ans =>
      if present vb s && existsb (asked_by_soap w) (issuers_of vb s) then
        if negb (deadline_passed (g_now g) dl) && pass_soap_ok w (g_know g s) ans (issuers_of vb s) && is_exn ou
        then 5%nat else 1%nat
      else 0%nat
  | LogoutResponse r i true ans =>
      match g_owner g r with
      | Some (n, a) =>
          match g_txn g n with
          | Some T =>
              if (a =? i)%nat then
                if negb (deadline_passed (g_now g) (t_deadline T))
                   && pass_soap_ok w (g_know g (t_subj T)) ans (wait_minus i (t_wait T)) && is_exn ou
                then 5%nat else 0%nat
              else 2%nat
          | None => if mem r (pending_ids vb) then 3%nat else 0%nat
          end
      | None =>
          if mem r (pending_ids vb) then
            match g_moot g r with
            | Some (n, a) =>
                match g_txn g n with
                | Some T => if (a =? i)%nat then 4%nat else 3%nat
                | None => 3%nat
                end
            | None => 3%nat
            end
          else 0%nat
      end
  | _ => 0%nat
  end.

Definition open_class (k : nat) : bool := false.
Definition open_trigger (w : world) (g : ghost) (vb : view) (o : op) (ou : out) : nat :=
  let k := trigger w g vb o ou in if open_class k then k else 0%nat.

Section First.
  Variable trig : world -> ghost -> view -> op -> out -> nat.
  Fixpoint first_from (w : world) (g : ghost) (vb : view) (tr : trace) : nat :=
    match tr with
    | [] => 0%nat
    | (o, ou, va) :: r =>
        match trig w g vb o ou with
        | O => first_from w (ghost_step w g vb o ou va) va r
        | k => k
        end
    end.
End First.
(* first trigger of an OPEN class / of any class *)
Definition first_trigger_from := first_from open_trigger.
Definition first_trigger (w : world) (t0 : Z) (tr : trace) : nat := first_trigger_from w (ghost0 t0) empty_view tr.
Definition first_any_trigger (w : world) (t0 : Z) (tr : trace) : nat := first_from trigger w (ghost0 t0) empty_view tr.
Definition guard (w : world) (t0 : Z) (tr : trace) : Prop := first_trigger w t0 tr = 0%nat.

(* ---------------------------------------------------------------- boolean versions *)
Section StepB.
  Variables (w : world) (g : ghost) (vb : view) (o : op) (ou : out) (va : view).

  Definition returnable_b (know : subj -> issuer -> option (Z * tok)) (now : Z) (timed : bool)
             (s : subj) (cands : list issuer) (t : tok) : bool :=
    existsb (fun i => match know s i with
                      | Some (nooa, t') => (t' =? t)%nat && (negb timed || (now <=? nooa))
                      | None => false
                      end) cands.

  Definition cl_cache_b (timed : bool) : bool :=
    match o, ou with
    | GetInfoFrom s i chk, OInfo (Some t) => returnable_b (g_know g) (g_now g) (timed && chk) s [i] t
    | GetIdentity s ents chk, OIdentity toks _ =>
        forallb (returnable_b (g_know g) (g_now g) (timed && chk) s (cands_of vb s ents)) toks
    | _, _ => true
    end
    && forallb (fun s => existsb (fun i => match know_after g o ou va s i with
                                           | Some (nooa, _) => negb timed || (now_after g o <=? nooa)
                                           | None => false
                                           end) (issuers_of va s)) (v_logged va).

  Definition nat_list_eqb := list_eqb.
  Fixpoint subjects_eqb (a b : list (subj * list issuer)) : bool :=
    match a, b with
    | [], [] => true
    | (s, l) :: a', (s', l') :: b' => (s =? s')%nat && list_eqb l l' && subjects_eqb a' b'
    | _, _ => false
    end.
  Definition optz_eqb (a b : option Z) : bool :=
    match a, b with Some x, Some y => x =? y | None, None => true | _, _ => false end.
  Definition pview_eqb (a b : pview) : bool :=
    (pv_entity a =? pv_entity b)%nat && list_eqb (pv_list a) (pv_list b) && (pv_subj a =? pv_subj b)%nat
    && optz_eqb (pv_expire a) (pv_expire b).
  Fixpoint pending_eqb (a b : list (rid * pview)) : bool :=
    match a, b with
    | [], [] => true
    | (r, p) :: a', (r', p') :: b' => (r =? r')%nat && pview_eqb p p' && pending_eqb a' b'
    | _, _ => false
    end.
  Definition view_eqb (a b : view) : bool :=
    subjects_eqb (v_subjects a) (v_subjects b) && list_eqb (v_logged a) (v_logged b)
    && pending_eqb (v_pending a) (v_pending b).

  Definition rkind_good (k : rkind) : bool := match k with RGood => true | _ => false end.
  Definition is_accepted (x : out) : bool := match x with OAccepted => true | _ => false end.
  Definition cl_accept_b : bool :=
    match o with
    | AcceptResponse _ _ _ _ _ k => rkind_good k || (negb (is_accepted ou) && view_eqb va vb)
    | _ => true
    end.

  Definition cl_after_b : bool :=
    match completed vb o ou with Some s => negb (present va s) | None => true end.

  Definition osubj_neqb (s : subj) (e : option subj) : bool :=
    match e with Some x => negb (x =? s)%nat | None => true end.
  Definition keeps_b (except : option subj) : bool :=
    forallb (fun s => negb (osubj_neqb s except) || present va s) (map fst (v_subjects vb)).
  Definition no_new_b (except : option subj) : bool :=
    forallb (fun s => negb (osubj_neqb s except) || present vb s) (map fst (v_subjects va)).

  Definition pend_in_b (rp : rid * pview) (l : list (rid * pview)) : bool :=
    existsb (fun x => (fst x =? fst rp)%nat && pview_eqb (snd x) (snd rp)) l.
  Definition pend_kept_b (except : option subj) : bool :=
    forallb (fun rp => pend_in_b rp (v_pending vb)) (v_pending va)
    && forallb (fun rp => negb (osubj_neqb (pv_subj (snd rp)) except) || pend_in_b rp (v_pending va)) (v_pending vb).

  Definition is_success (x : out) : bool := match x with OStatus LSuccess => true | _ => false end.
  Definition cl_request_b : bool :=
    match o with
    | LogoutRequest named cur _ _ =>
        keeps_b (if (named =? cur)%nat then Some cur else None) && no_new_b None
        && (negb (named =? cur)%nat || negb (present va cur))
        && (negb (is_success ou) || ((named =? cur)%nat && present vb cur))
        && pend_kept_b (if (named =? cur)%nat then Some cur else None)
    | _ => true
    end.

  Definition cl_pending_b : bool :=
    match o with
    | LogoutResponse r i success _ =>
        match answering g r i success with
        | None => subjects_eqb (v_subjects va) (v_subjects vb) && pending_eqb (v_pending va) (v_pending vb)
        | Some _ => true
        end
    | _ => true
    end.

  Definition cl_ends_b : bool :=
    match o with
    | StartLogout s dl ans =>
        keeps_b (Some s) && no_new_b None &&
        (negb (present vb s) ||
           let wait := wait_start w g s ans (issuers_of vb s) in
           if deadline_passed (g_now g) dl then negb (present va s)
           else (negb (is_nil wait) || negb (is_sent ou) || negb (present va s))
                && (present va s || is_nil wait))
    | LogoutResponse r i success ans =>
        match answering g r i success with
        | Some (n, T) =>
            let s := t_subj T in
            let wait' := wait_answer w g (t_subj T) ans i (t_wait T) in
            keeps_b (Some s) && no_new_b None &&
            (if deadline_passed (g_now g) (t_deadline T) then negb (present va s)
             else (negb (is_nil (wait_minus i (t_wait T))) || negb (present va s))
                  && (negb (is_nil wait') || negb (is_sent ou) || negb (present va s))
                  && (present va s || is_nil wait'))
        | None => true
        end
    | LogoutRequest _ _ _ _ => true
    | LocalLogout s => keeps_b (Some s) && no_new_b None && pend_kept_b (Some s)
    | Login s _ _ _ | AcceptResponse s _ _ _ _ _ | Reset s _ =>
        keeps_b None && no_new_b (Some s) && pending_eqb (v_pending va) (v_pending vb)
    | GetIdentity _ _ _ | GetInfoFrom _ _ _ | Stale _ _ | Tick _ =>
        keeps_b None && no_new_b None && pending_eqb (v_pending va) (v_pending vb)
    end.

  Definition pend_others_b (s : subj) : bool :=
    forallb (fun rp => (pv_subj (snd rp) =? s)%nat || pend_in_b rp (v_pending vb)) (v_pending va)
    && forallb (fun rp => (pv_subj (snd rp) =? s)%nat || pend_in_b rp (v_pending va)) (v_pending vb).
  Definition cl_others_b : bool :=
    match o with
    | StartLogout s _ _ => pend_others_b s
    | LogoutResponse r i success _ =>
        match answering g r i success with
        | Some (_, T) => pend_others_b (t_subj T)
        | None => true
        end
    | _ => true
    end.

  (* number of the first failing clause (0 = all hold): 1 iso, 2 exp, 3 accept, 4 after,
     5 request, 6 pending, 7 ends, 8 others *)
  Definition failing_clause : nat :=
    if negb (cl_cache_b false) then 1 else if negb (cl_cache_b true) then 2 else if negb cl_accept_b then 3
    else if negb cl_after_b then 4 else if negb cl_request_b then 5 else if negb cl_pending_b then 6
    else if negb cl_ends_b then 7 else if negb cl_others_b then 8 else 0.
  Definition step_ok_b : bool := (failing_clause =? 0)%nat.
End StepB.

Fixpoint spec_from_b (w : world) (g : ghost) (vb : view) (tr : trace) : bool :=
  match tr with
  | [] => true
  | (o, ou, va) :: r => step_ok_b w g vb o ou va && spec_from_b w (ghost_step w g vb o ou va) va r
  end.
Definition spec_b (w : world) (t0 : Z) (tr : trace) : bool := spec_from_b w (ghost0 t0) empty_view tr.
