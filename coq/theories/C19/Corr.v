(* C19/Corr.v — correspondence runner: the model replays the history and must produce
   exactly the outputs and views observed on the real Saml2Client; the reference monitor
   (Spec.spec_b) is evaluated on the OBSERVED trace. *)
From Coq Require Import List Bool Arith ZArith.
From Verif Require Import Base.Run C19.Model C19.Spec.
Import ListNotations.

Inductive vopt := Same | Vw (v : view).
Definition case := (world * Z * list (op * out * vopt))%type.
(* monomorphic constructors: the case files type-check several times faster than with nested pairs *)
Inductive ostep := St (o : op) (ou : out) (v : vopt).
Inductive osubj := SU (s : subj) (l : list issuer).
Inductive opend := PE (r : rid) (e : issuer) (l : list issuer) (s : subj) (x : option Z).
Definition mk (w : world) (t0 : Z) (l : list ostep) : case :=
  (w, t0, map (fun x => match x with St o ou v => (o, ou, v) end) l).
Definition W := Build_world.
Definition VW (su : list osubj) (lg : list subj) (pe : list opend) : view :=
  {| v_subjects := map (fun x => match x with SU s l => (s, l) end) su;
     v_logged := lg;
     v_pending := map (fun x => match x with PE r e l s z => (r, {| pv_entity := e; pv_list := l; pv_subj := s; pv_expire := z |}) end) pe |}.

Fixpoint expand (prev : view) (l : list (op * out * vopt)) : trace :=
  match l with
  | [] => []
  | (o, ou, Same) :: r => (o, ou, prev) :: expand prev r
  | (o, ou, Vw v) :: r => (o, ou, v) :: expand v r
  end.
Definition observed (c : case) : trace := expand empty_view (snd c).
Definition history (c : case) : list op := map (fun x => fst (fst x)) (snd c).

(* equality up to the order in which Python sets / dicts are listed *)
Definition same_elems {A} (eqb : A -> A -> bool) (a b : list A) : bool :=
  (length a =? length b) && forallb (fun x => existsb (eqb x) b) a && forallb (fun x => existsb (eqb x) a) b.
Definition binding_eq := binding_eqb.
Definition sent_eqb (a b : sent) : bool :=
  match a, b with
  | SentPending i x r, SentPending i' x' r' => (i =? i') && binding_eqb x x' && (r =? r')
  | SentSoap i, SentSoap i' => i =? i'
  | _, _ => false
  end.
Definition exn_eqb (a b : exn) : bool :=
  match a, b with
  | KeyErr, KeyErr | ValueErr, ValueErr | AttrErr, AttrErr | TooOldErr, TooOldErr | StatusErr, StatusErr
  | LogoutErr, LogoutErr | UnsupportedErr, UnsupportedErr | SamlErr, SamlErr => true
  | _, _ => false
  end.
Definition lstatus_eqb (a b : lstatus) : bool :=
  match a, b with LSuccess, LSuccess | LDenied, LDenied | LUnknownPrincipal, LUnknownPrincipal => true | _, _ => false end.
Definition out_eqb (a b : out) : bool :=
  match a, b with
  | OUnit, OUnit | OTimeout, OTimeout | ODone, ODone | OAccepted, OAccepted | ORejected, ORejected | OShell, OShell => true
  | OExn e, OExn e' => exn_eqb e e'
  | OIdentity t o, OIdentity t' o' => same_elems Nat.eqb t t' && same_elems Nat.eqb o o'
  | OInfo (Some t), OInfo (Some t') => t =? t'
  | OInfo None, OInfo None => true
  | OIssuers l, OIssuers l' => same_elems Nat.eqb l l'
  | OBool x, OBool y => Bool.eqb x y
  | OSent l, OSent l' => same_elems sent_eqb l l'
  | OStatus s, OStatus s' => lstatus_eqb s s'
  | _, _ => false
  end.
Definition view_same (a b : view) : bool :=
  same_elems (fun x y => (fst x =? fst y) && list_eqb (snd x) (snd y)) (v_subjects a) (v_subjects b)
  && same_elems Nat.eqb (v_logged a) (v_logged b)
  && pending_eqb (v_pending a) (v_pending b).

Fixpoint steps_agree (m o : trace) : bool :=
  match m, o with
  | [], [] => true
  | (_, ou, v) :: m', (_, ou', v') :: o' => out_eqb ou ou' && view_same v v' && steps_agree m' o'
  | _, _ => false
  end.

Definition agrees (c : case) : bool :=
  let '(w, t0, _) := c in steps_agree (run w t0 (history c)) (observed c).
Definition holds (c : case) : bool :=
  let '(w, t0, _) := c in spec_b w t0 (observed c).

(* class of the case, consulted when the spec fails.  No finding class is open any more (theorem
   c19_property holds for every history), so this only NAMES the class a regression falls into: the
   trigger (1-5) of the first failing step if the failing clause is about the logout bookkeeping
   (cl_pending, cl_ends, cl_others), else 0.  All five classes are listed as fixed, so whatever is returned the
   driver reports a VIOLATION with the failing history. *)
Fixpoint cls_from (w : world) (g : ghost) (vb : view) (tr : trace) : nat :=
  match tr with
  | [] => 0
  | (o, ou, va) :: r =>
      match failing_clause w g vb o ou va with
      | O => cls_from w (ghost_step w g vb o ou va) va r
      | k => if 6 <=? k then trigger w g vb o ou else 0
      end
  end.
Definition cls (c : case) : nat :=
  let '(w, t0, _) := c in cls_from w (ghost0 t0) empty_view (observed c).

Definition run := run_cases agrees holds cls.

(* debugging: per step (model output = observed, model view = observed, failing clause, trigger) *)
Fixpoint explain_from (w : world) (g : ghost) (vb : view) (m o : trace) : list (bool * bool * nat * nat) :=
  match m, o with
  | (_, mou, mv) :: m', (op, ou, va) :: o' =>
      (out_eqb mou ou, view_same mv va, failing_clause w g vb op ou va, trigger w g vb op ou)
        :: explain_from w (ghost_step w g vb op ou va) va m' o'
  | _, _ => []
  end.
Definition explain (c : case) :=
  let '(w, t0, _) := c in explain_from w (ghost0 t0) empty_view (Model.run w t0 (history c)) (observed c).
Definition model_trace (c : case) := let '(w, t0, _) := c in Model.run w t0 (history c).
