(* C19/Source2.v — the hand-written model of the session cache equals the decision functions of the anchored
   code as the translator v2 (harness/py2coq2.py) produced them from the CURRENT source text
   (coq/gen/C19Src2.v, regenerated on every run).  One theorem per translated function, for ALL inputs of the
   model's domain (every clock, every cache content, every subject / issuer / flag / list of sources).
   External things (the clock value, ident.code / ident.decode, the accessor methods of AuthnResponse, Cache.set,
   Cache.get_identity, shelve's sync) are Section variables; what is assumed about them are Section hypotheses,
   each shown satisfiable by an Example after the Section. *)
From Coq Require Import String Ascii List Bool Arith ZArith Lia.
From Verif Require Import Base.Str Base.Py Base.Py2 C19.Model.
From VerifGen Require Import C19Src2.
Import ListNotations.
Open Scope string_scope.
Set Default Timeout 20.

(* ================================================================== time_util.before / after
   struct_time values are represented by their epoch seconds (time.gmtime(n) = n, same order); the clock
   time.gmtime() is the extra argument now_.  The cache only ever hands ints to before / after (the
   not_on_or_after of Cache.set), so the str branch (str_to_time) is not covered by the theorems. *)
Lemma src2_before_is_model parse (n p : Z) :
  src2_before (PInt n) parse (PInt p) = PBool (tu_before n p).
Proof.
  unfold src2_before, tu_before. cbn [p2_not s1 py_bind p2_bind is_bad py_truthy].
  destruct (Z.eqb p 0); cbn; reflexivity.
Qed.

Lemma src2_after_is_model parse (n p : Z) :
  src2_after (PInt n) parse (PInt p) = PBool (tu_after n p).
Proof.
  unfold src2_after, tu_after. cbn [p2_not s1 py_bind p2_bind is_bad py_truthy].
  destruct (Z.eqb p 0) eqn:E; cbn [negb p2_branch py_truthy is_bad]; [reflexivity|].
  rewrite src2_before_is_model. unfold tu_before. rewrite E. reflexivity.
Qed.

(* ================================================================== encodings of the cache *)
Section Cache.
  Variable skey : nat -> string.          (* ident.code(name_id) of subject s: the key of Cache._db *)
  Variable ikey : nat -> string.          (* the entity id of issuer i *)
  Variable nid : nat -> pyval.            (* the NameID instance of subject s *)
  Variables code_ decode_ : pyval -> pyval.
  Variable parse : pyval -> pyval.        (* str_to_time: never reached, the cache keeps ints *)
  Hypothesis skey_inj : forall a b, skey a = skey b -> a = b.
  Hypothesis ikey_inj : forall a b, ikey a = ikey b -> a = b.
  Hypothesis skey_ok : forall a, skey a <> "__class__".
  Hypothesis ikey_ok : forall a, ikey a <> "__class__".
  Hypothesis nid_good : forall s, is_bad (nid s) = false.
  Hypothesis code_nid : forall s, code_ (nid s) = PStr (skey s).
  Hypothesis decode_skey : forall s, decode_ (PStr (skey s)) = nid s.

  (* the session information stored for token t of subject s (Cache.set has replaced the NameID by its code);
     {} after Cache.reset *)
  Definition enc_info (s : subj) (o : option tok) : pyval :=
    match o with
    | Some t => PObj [("name_id", PStr (skey s)); ("session_index", PInt (Z.of_nat t))]
    | None => PObj []
    end.
  (* ... as Cache.get hands it out: a copy with the NameID decoded *)
  Definition enc_info_out (s : subj) (t : tok) : pyval :=
    PObj [("name_id", nid s); ("session_index", PInt (Z.of_nat t))].
  Definition enc_entry (s : subj) (e : entry) : pyval := PList [PInt (e_nooa e); enc_info s (e_info e)].
  Definition enc_iss_entry (s : subj) (ie : issuer * entry) : string * pyval := (ikey (fst ie), enc_entry s (snd ie)).
  Definition enc_issuers (s : subj) (l : list (issuer * entry)) : pyval := PObj (map (enc_iss_entry s) l).
  Definition enc_sub_entry (sl : subj * list (issuer * entry)) : string * pyval :=
    (skey (fst sl), enc_issuers (fst sl) (snd sl)).
  Definition enc_db (c : cache) : pyval := PObj (map enc_sub_entry c).
  Definition enc_cache (c : cache) : pyval :=
    PObj [("__class__", PStr "Cache"); ("_db", enc_db c); ("_sync", PBool false)].
  Definition enc_issuer (i : issuer) : pyval := PStr (ikey i).

  Definition enc_getres (s : subj) (r : getres) : pyval :=
    match r with
    | G_info t => enc_info_out s t
    | G_none => PNone
    | G_keyerr => PExc "KeyError"
    | G_tooold => PExc "TooOld"
    end.

  Lemma db_not_obj c : is_obj (map enc_sub_entry c) = false.
  Proof. destruct c as [|[s l] r]; [reflexivity|]. cbn. apply String.eqb_neq, skey_ok. Qed.
  Lemma issuers_not_obj s l : is_obj (map (enc_iss_entry s) l) = false.
  Proof. destruct l as [|[i e] r]; [reflexivity|]. cbn. apply String.eqb_neq, ikey_ok. Qed.

  Lemma skey_eqb a b : String.eqb (skey a) (skey b) = (b =? a)%nat.
  Proof.
    destruct (Nat.eqb_spec b a) as [->|N]; [apply String.eqb_refl|].
    apply String.eqb_neq. intros E. apply N. symmetry. apply skey_inj, E.
  Qed.
  Lemma ikey_eqb a b : String.eqb (ikey a) (ikey b) = (b =? a)%nat.
  Proof.
    destruct (Nat.eqb_spec b a) as [->|N]; [apply String.eqb_refl|].
    apply String.eqb_neq. intros E. apply N. symmetry. apply ikey_inj, E.
  Qed.

  Lemma assoc_db s c : assoc_py (skey s) (map enc_sub_entry c) = option_map (enc_issuers s) (lookup s c).
  Proof.
    induction c as [|[s' l] r IH]; [reflexivity|].
    cbn [map enc_sub_entry assoc_py lookup fst snd]. rewrite skey_eqb.
    destruct (Nat.eqb_spec s' s) as [->|N]; [reflexivity|exact IH].
  Qed.
  Lemma assoc_issuers s i l : assoc_py (ikey i) (map (enc_iss_entry s) l) = option_map (enc_entry s) (lookup i l).
  Proof.
    induction l as [|[i' e] r IH]; [reflexivity|].
    cbn [map enc_iss_entry assoc_py lookup fst snd]. rewrite ikey_eqb.
    destruct (Nat.eqb_spec i' i) as [->|N]; [reflexivity|exact IH].
  Qed.

  (* self._db[cni][entity_id] *)
  Definition enc_slot (s : subj) (o : option entry) : pyval :=
    match o with Some e => enc_entry s e | None => PExc "KeyError" end.
  Definition slot (c : cache) (s : subj) (i : issuer) : option entry :=
    match lookup s c with Some l => lookup i l | None => None end.
  Lemma getitem_slot c s i :
    p2_getitem (p2_getitem (p2_attr (enc_cache c) "_db") (PStr (skey s))) (enc_issuer i) = enc_slot s (slot c s i).
  Proof.
    change (p2_attr (enc_cache c) "_db") with (enc_db c). unfold enc_db, slot, enc_issuer.
    rewrite p2_getitem_dict by apply db_not_obj. rewrite assoc_db.
    destruct (lookup s c) as [l|]; cbn [option_map]; [|reflexivity].
    unfold enc_issuers. rewrite p2_getitem_dict by apply issuers_not_obj. rewrite assoc_issuers.
    destruct (lookup i l); reflexivity.
  Qed.

  (* ---------------------------------------------------------------- Cache.get *)
  Theorem src2_cache_get_is_model (n : Z) c s i chk :
    src2_cache_get (PInt n) parse code_ decode_ (enc_cache c) (nid s) (enc_issuer i) (PBool chk)
    = enc_getres s (c_get n c s i chk).
  Proof.
    unfold src2_cache_get. rewrite (py_bind_good (nid s)) by apply nid_good. rewrite code_nid.
    cbn [py_bind p2_bind is_bad]. rewrite getitem_slot. unfold c_get, slot.
    destruct (lookup s c) as [l|]; [|reflexivity].
    destruct (lookup i l) as [e|]; [|reflexivity].
    cbn [enc_slot enc_entry py_bind p2_bind is_bad p2_unpack length Nat.eqb].
    assert (C : p2_copy (enc_info s (e_info e)) = enc_info s (e_info e)) by (destruct (e_info e); reflexivity).
    rewrite C. rewrite (py_bind_good (enc_info s (e_info e))) by (destruct (e_info e); reflexivity).
    rewrite src2_after_is_model. rewrite p2_and_good by reflexivity. cbn [py_truthy].
    destruct chk; cbn [andb].
    - rewrite p2_branch_bool. destruct (tu_after n (e_nooa e)); [reflexivity|].
      destruct (e_info e) as [t|]; [|reflexivity].
      cbn. rewrite decode_skey. rewrite !(py_bind_good (nid s)) by apply nid_good. reflexivity.
    - rewrite p2_branch_bool.
      destruct (e_info e) as [t|]; [|reflexivity].
      cbn. rewrite decode_skey. rewrite !(py_bind_good (nid s)) by apply nid_good. reflexivity.
  Qed.

  (* ---------------------------------------------------------------- Cache.active *)
  Theorem src2_cache_active_is_model (n : Z) c s i :
    src2_cache_active (PInt n) parse code_ (enc_cache c) (nid s) (enc_issuer i) = PBool (c_active n c s i).
  Proof.
    unfold src2_cache_active. rewrite (py_bind_good (nid s)) by apply nid_good. rewrite code_nid.
    cbn [py_bindh p2_bind is_bad]. rewrite getitem_slot. unfold c_active, slot.
    destruct (lookup s c) as [l|]; [|reflexivity].
    destruct (lookup i l) as [e|]; [|reflexivity].
    cbn [enc_slot enc_entry py_bindh p2_bind is_bad p2_unpack length Nat.eqb].
    destruct (e_info e) as [t|]; [|reflexivity].
    cbn [enc_info p2_not s1 py_bind p2_bind is_bad py_truthy negb p2_branch].
    apply src2_before_is_model.
  Qed.

  (* ---------------------------------------------------------------- Cache.entities *)
  Definition enc_issuer_list (l : list issuer) : pyval := PList (map enc_issuer l).
  Definition enc_olist (o : option (list issuer)) : pyval :=
    match o with Some l => enc_issuer_list l | None => PExc "KeyError" end.

  Theorem src2_cache_entities_is_model c s :
    src2_cache_entities code_ (enc_cache c) (nid s) = enc_olist (option_map keys (lookup s c)).
  Proof.
    unfold src2_cache_entities. rewrite (py_bind_good (nid s)) by apply nid_good. rewrite code_nid.
    cbn [py_bind p2_bind is_bad]. change (p2_attr (enc_cache c) "_db") with (enc_db c). unfold enc_db.
    rewrite p2_getitem_dict by apply db_not_obj. rewrite assoc_db.
    destruct (lookup s c) as [l|]; cbn [option_map enc_olist]; [|reflexivity].
    unfold enc_issuers, p2_keys, dict_view. rewrite s1_good by reflexivity. rewrite issuers_not_obj.
    unfold p2_list. rewrite s1_good by reflexivity. cbn [p2_iterable py_iter2].
    unfold enc_issuer_list, keys. rewrite !map_map. reflexivity.
  Qed.

  (* ---------------------------------------------------------------- Cache.subjects
     `[decode(c) for c in self._db.keys()]`: the subjects the cache lists are the NameIDs that were filed, in the
     order of filing (`keys c` is what the model's view lists) -- given that decode brings every key back.  That
     hypothesis is NECESSARY: whenever the listed subjects are the filed ones, decode has inverted the code of each
     of them (subjects_needs_roundtrip) -- the coding of seeded change C19-7 (quote_plus / unquote) does not, for a
     NameID with a blank. *)
  Definition enc_subject_list (l : list subj) : pyval := PList (map nid l).

  Lemma subjects_comp (dec : pyval -> pyval) c :
    (forall s, In s (keys c) -> is_bad (dec (PStr (skey s))) = false) ->
    src2_cache_subjects dec (enc_cache c) = PList (map (fun s => dec (PStr (skey s))) (keys c)).
  Proof.
    intros G. unfold src2_cache_subjects. change (p2_attr (enc_cache c) "_db") with (enc_db c).
    unfold enc_db, p2_keys, dict_view. rewrite s1_good by reflexivity. rewrite db_not_obj.
    rewrite p2_listcomp_list, listcomp_go_map.
    - unfold keys. rewrite !map_map. reflexivity.
    - intros x Hx. apply in_map_iff in Hx as [y [<- Hy]]. apply in_map_iff in Hy as [[s l] [<- Hs]].
      cbn [enc_sub_entry fst py_bind p2_bind is_bad]. apply G. unfold keys. apply in_map_iff. exists (s, l). split; [reflexivity|exact Hs].
  Qed.

  Theorem src2_cache_subjects_is_model c : src2_cache_subjects decode_ (enc_cache c) = enc_subject_list (keys c).
  Proof.
    rewrite subjects_comp by (intros s _; rewrite decode_skey; apply nid_good).
    unfold enc_subject_list. f_equal. apply map_ext. intros s. apply decode_skey.
  Qed.

  Theorem subjects_needs_roundtrip (dec : pyval -> pyval) c :
    (forall s, In s (keys c) -> is_bad (dec (PStr (skey s))) = false) ->
    src2_cache_subjects dec (enc_cache c) = enc_subject_list (keys c) ->
    forall s, In s (keys c) -> dec (PStr (skey s)) = nid s.
  Proof.
    intros G H. rewrite subjects_comp in H by exact G. unfold enc_subject_list in H. injection H as H.
    induction (keys c) as [|k r IH]; intros s [].
    - subst k. cbn [map] in H. injection H as H _. exact H.
    - cbn [map] in H. injection H as _ H. apply IH; [intros s' Hs'; apply G; right; exact Hs'|exact H|assumption].
  Qed.

  (* ---------------------------------------------------------------- Population.stale_sources_for_person *)
  Definition enc_population (c : cache) : pyval := PObj [("__class__", PStr "Population"); ("cache", enc_cache c)].
  (* the `sources` argument: a list of entity ids; None (the default) and the empty list mean "all" *)
  Definition enc_sources (absent : bool) (srcs : list issuer) : pyval :=
    match srcs with [] => if absent then PNone else PList [] | _ => enc_issuer_list srcs end.

  Lemma stale_comp (n : Z) c s srcs :
    listcomp_go (map enc_issuer srcs)
      (fun v_m => p2_not (py_bind (nid s) (fun a_1 => py_bind v_m (fun a_2 =>
         src2_cache_active (PInt n) parse code_ (p2_attr (enc_population c) "cache") a_1 a_2))))
      (fun v_m => v_m)
    = enc_issuer_list (filter (fun m => negb (c_active n c s m)) srcs).
  Proof.
    change (p2_attr (enc_population c) "cache") with (enc_cache c). unfold enc_issuer_list.
    induction srcs as [|m r IH]; [reflexivity|]. cbn [map listcomp_go filter].
    rewrite (py_bind_good (nid s)) by apply nid_good. cbn [enc_issuer py_bind p2_bind is_bad].
    change (PStr (ikey m)) with (enc_issuer m). rewrite src2_cache_active_is_model, p2_not_bool, p2_branch_bool.
    rewrite IH. destruct (negb (c_active n c s m)); reflexivity.
  Qed.

  Theorem src2_stale_sources_is_model (n : Z) c s absent srcs :
    src2_stale_sources (PInt n) parse code_ (enc_population c) (nid s) (enc_sources absent srcs)
    = enc_olist (c_stale n c s srcs).
  Proof.
    unfold src2_stale_sources, c_stale. destruct srcs as [|m r].
    - assert (B : p2_branch (p2_not (enc_sources absent [])) = BTrue) by (destruct absent; reflexivity).
      rewrite B. rewrite (py_bind_good (nid s)) by apply nid_good.
      change (p2_attr (enc_population c) "cache") with (enc_cache c) at 1.
      rewrite src2_cache_entities_is_model.
      destruct (lookup s c) as [l|]; cbn [option_map enc_olist]; [|reflexivity].
      unfold enc_issuer_list at 1. cbn [py_bind p2_bind is_bad]. rewrite p2_listcomp_list, stale_comp. reflexivity.
    - cbn [enc_sources enc_issuer_list map p2_not s1 py_bind p2_bind is_bad py_truthy negb p2_branch].
      unfold enc_issuer_list at 1. rewrite p2_listcomp_list, stale_comp. reflexivity.
  Qed.

  (* ---------------------------------------------------------------- Cache.delete (in-memory cache: _sync is False) *)
  Variable sync_ : pyval -> pyval.        (* shelve's sync(): not reached *)

  Lemma remove_notin {V} s (l : list (nat * V)) : ~ In s (keys l) -> remove s l = l.
  Proof.
    induction l as [|[k v] r IH]; [reflexivity|]. cbn [keys map fst remove In]. intros N.
    destruct (Nat.eqb_spec k s) as [->|_]; [exfalso; apply N; left; reflexivity|].
    f_equal. apply IH. intros H. apply N. right. exact H.
  Qed.

  Lemma del_assoc_db s c : NoDup (keys c) -> del_assoc (skey s) (map enc_sub_entry c) = map enc_sub_entry (remove s c).
  Proof.
    induction c as [|[s' l] r IH]; [reflexivity|]. cbn [keys map fst]. intros ND.
    apply NoDup_cons_iff in ND as [N ND].
    cbn [enc_sub_entry del_assoc remove fst snd]. rewrite skey_eqb.
    destruct (Nat.eqb_spec s' s) as [->|_].
    - rewrite remove_notin by exact N. reflexivity.
    - cbn [map enc_sub_entry fst snd]. f_equal. apply IH, ND.
  Qed.

  Definition enc_deleted (c : cache) (s : subj) : pyval :=
    match lookup s c with
    | Some _ => PList [PNone; enc_cache (remove s c)]
    | None => PList [PExc "KeyError"; enc_cache c]
    end.

  Theorem src2_cache_delete_is_model c s :
    NoDup (keys c) -> src2_cache_delete code_ sync_ (enc_cache c) (nid s) = enc_deleted c s.
  Proof.
    intros ND. unfold src2_cache_delete, enc_deleted.
    rewrite (py_bind_good (nid s)) by apply nid_good. rewrite code_nid.
    cbn [py_bindh p2_bind is_bad]. change (p2_attr (enc_cache c) "_db") with (enc_db c). unfold enc_db.
    pose proof (assoc_db s c) as A. destruct (lookup s c) as [l|]; cbn [option_map] in A.
    - rewrite (p2_delitem_dict _ _ _ (db_not_obj c) A). rewrite del_assoc_db by exact ND. reflexivity.
    - rewrite (p2_delitem_missing _ _ (db_not_obj c) A). reflexivity.
  Qed.
End Cache.

(* the hypotheses of Section Cache are satisfiable: subject s is coded as s letters "a", issuer i as i letters "b";
   a NameID is an object holding its code *)
Fixpoint rep (ch : ascii) (n : nat) : string := match n with O => EmptyString | S k => String ch (rep ch k) end.
Lemma rep_inj ch a b : rep ch a = rep ch b -> a = b.
Proof.
  revert b. induction a as [|a IH]; destruct b as [|b]; cbn; intros H; try discriminate; [reflexivity|].
  injection H as H. f_equal. apply IH, H.
Qed.
Lemma rep_not_class (ch : ascii) n : ch <> "_"%char -> rep ch n <> "__class__".
Proof. intros N. destruct n; cbn; [discriminate|]. intros H. injection H as H _. apply N, H. Qed.

Example cache_hypotheses_satisfiable :
  exists (skey ikey : nat -> string) (nid : nat -> pyval) (code_ decode_ : pyval -> pyval),
    (forall a b, skey a = skey b -> a = b) /\ (forall a b, ikey a = ikey b -> a = b)
    /\ (forall a, skey a <> "__class__") /\ (forall a, ikey a <> "__class__")
    /\ (forall s, is_bad (nid s) = false) /\ (forall s, code_ (nid s) = PStr (skey s))
    /\ (forall s, decode_ (PStr (skey s)) = nid s).
Proof.
  exists (rep "a"), (rep "b"), (fun s => PObj [("__class__", PStr "NameID"); ("text", PStr (rep "a" s))]),
         (fun v => match v with PObj [_; (_, t)] => t | _ => PErr end),
         (fun v => PObj [("__class__", PStr "NameID"); ("text", v)]).
  repeat split; try (intros a b; apply rep_inj); intros a; apply rep_not_class; discriminate.
Qed.

(* every cache content the model can reach has distinct subjects (the hypothesis of src2_cache_delete_is_model) *)
From Verif Require Import C19.Proofs.

Lemma keys_update_nodup {V} k (v : V) l : NoDup (keys l) -> NoDup (keys (update k v l)).
Proof.
  induction l as [|[k' v'] r IH]; cbn [update keys map fst]; intros ND.
  - constructor; [intros []|constructor].
  - apply NoDup_cons_iff in ND as [N ND]. destruct (Nat.eqb_spec k' k) as [->|Ne]; cbn [map fst].
    + constructor; assumption.
    + constructor; [|apply IH, ND]. intros H. apply N.
      clear - H Ne. induction r as [|[k2 v2] r IH]; cbn [update map fst In] in *.
      * destruct H as [H|[]]. congruence.
      * destruct (Nat.eqb_spec k2 k) as [->|_]; cbn [map fst In] in H; [destruct H as [H|H]; [congruence|right; exact H]|].
        destruct H as [H|H]; [left; exact H|right; apply IH, H].
Qed.
Lemma keys_remove_nodup {V} k (l : list (nat * V)) : NoDup (keys l) -> NoDup (keys (remove k l)).
Proof.
  induction l as [|[k' v'] r IH]; cbn [remove keys map fst]; intros ND; [constructor|].
  apply NoDup_cons_iff in ND as [N ND]. destruct (Nat.eqb_spec k' k) as [->|Ne]; [apply IH, ND|].
  cbn [map fst]. constructor; [|apply IH, ND]. intros H. apply N.
  clear - H. induction r as [|[k2 v2] r IH]; cbn [remove map fst In] in *; [exact H|].
  destruct (Nat.eqb_spec k2 k) as [->|_]; [right; apply IH, H|].
  cbn [map fst In] in H. destruct H as [H|H]; [left; exact H|right; apply IH, H].
Qed.

Lemma db_change_nodup c c' : db_change c c' -> NoDup (keys c) -> NoDup (keys c').
Proof. intros [->|s _ ->] ND; [exact ND|apply keys_remove_nodup, ND]. Qed.

Lemma step_db_nodup w st o : NoDup (keys (db st)) -> NoDup (keys (db (fst (step w st o)))).
Proof.
  intros ND. destruct (step w st o) as [st' ou] eqn:H. cbn [fst]. destruct o; cbn [step] in H.
  - injection H as <- _. apply keys_update_nodup, ND.
  - destruct k; [destruct (response_fresh (now st) cond_nooa sess_nooa)| |]; injection H as <- _;
      [apply keys_update_nodup, ND|exact ND..].
  - injection H as <- _. apply keys_update_nodup, ND.
  - injection H as <- _. exact ND.
  - injection H as <- _. exact ND.
  - injection H as <- _. exact ND.
  - injection H as <- _. exact ND.
  - apply global_logout_db in H as [C _]. eapply db_change_nodup; eassumption.
  - apply handle_response_db in H as [C _]. eapply db_change_nodup; eassumption.
  - apply handle_request_db in H as [C _]. eapply db_change_nodup; eassumption.
  - destruct (local_logout st s) as [st2|] eqn:L; injection H as <- _; [|exact ND].
    apply local_logout_some in L as (_ & -> & _). apply keys_remove_nodup, ND.
Qed.

Theorem reachable_db_nodup w t0 h : NoDup (keys (db (final w (init t0) h))).
Proof.
  unfold final. assert (G : forall st, NoDup (keys (db st)) -> NoDup (keys (db (fold_left (fun s o => fst (step w s o)) h st)))).
  { induction h as [|o r IH]; intros st ND; [exact ND|]. cbn [fold_left]. apply IH, step_db_nodup, ND. }
  apply G. constructor.
Qed.

(* ================================================================== AuthnResponse.session_info
   The AuthnResponse object after verify(): session_not_on_or_after is the epoch of AuthnStatement/
   @SessionNotOnOrAfter (0 when absent), not_on_or_after that of Conditions/@NotOnOrAfter (0 when absent);
   context "AuthnReq" (what parse_authn_request_response builds), one AuthnStatement.  The accessor methods
   issuer() / authn_info() are extra arguments.  Not covered: the "AuthzQuery" context and an assertion without
   AuthnStatement (StatusInvalidAuthnResponseStatement). *)
Section SessionInfo.
  Variables issuer_ authn_info_ authz_info_ : pyval -> pyval.
  Variables ava name_id came_from session_index : pyval.
  Definition zopt (o : option Z) : Z := match o with Some t => t | None => 0%Z end.
  Definition enc_response (cn sn : option Z) : pyval :=
    PObj [("__class__", PStr "AuthnResponse"); ("context", PStr "AuthnReq");
          ("session_not_on_or_after", PInt (zopt sn)); ("not_on_or_after", PInt (zopt cn));
          ("ava", ava); ("name_id", name_id); ("came_from", came_from);
          ("assertion", PObj [("__class__", PStr "Assertion");
                              ("authn_statement", PList [PObj [("__class__", PStr "AuthnStatement");
                                                               ("session_index", session_index)]])])].
  Definition enc_session_info (self : pyval) (nooa : Z) : pyval :=
    PObj [("ava", ava); ("name_id", name_id); ("came_from", came_from); ("issuer", issuer_ self);
          ("not_on_or_after", PInt nooa); ("authn_info", authn_info_ self); ("session_index", session_index)].
  Hypothesis ava_good : is_bad ava = false.
  Hypothesis name_id_good : is_bad name_id = false.
  Hypothesis came_from_good : is_bad came_from = false.
  Hypothesis session_index_good : is_bad session_index = false.
  Hypothesis issuer_good : forall r, is_bad (issuer_ r) = false.
  Hypothesis authn_info_good : forall r, is_bad (authn_info_ r) = false.

  Theorem src2_session_info_is_model cn sn :
    src2_session_info issuer_ authn_info_ authz_info_ (enc_response cn sn)
    = enc_session_info (enc_response cn sn) (effective_nooa cn sn).
  Proof.
    unfold src2_session_info.
    change (p2_attr (enc_response cn sn) "session_not_on_or_after") with (PInt (zopt sn)).
    change (p2_attr (enc_response cn sn) "not_on_or_after") with (PInt (zopt cn)).
    change (p2_gt (PInt (zopt sn)) (PInt 0%Z)) with (PBool (Z.gtb (zopt sn) 0)).
    rewrite p2_branch_bool.
    assert (E : (if Z.gtb (zopt sn) 0 then zopt sn else zopt cn) = effective_nooa cn sn).
    { unfold effective_nooa, zopt. destruct sn as [t|]; [|reflexivity]. rewrite Z.gtb_ltb. reflexivity. }
    rewrite <- E.
    assert (K : forall z,
      (match p2_branch (p2_eq (p2_attr (enc_response cn sn) "context") (PStr "AuthzQuery")) with
       | BTrue => p2_mkdict [("name_id", p2_attr (enc_response cn sn) "name_id");
                             ("came_from", p2_attr (enc_response cn sn) "came_from");
                             ("issuer", issuer_ (enc_response cn sn)); ("not_on_or_after", PInt z);
                             ("authz_decision_info", authz_info_ (enc_response cn sn))]
       | BFalse =>
           match p2_branch (p2_getattr3 (p2_attr (enc_response cn sn) "assertion") "authn_statement" PNone) with
           | BTrue => py_bind (p2_getitem (p2_attr (p2_attr (enc_response cn sn) "assertion") "authn_statement") (PInt 0%Z))
                        (fun v_authn_statement =>
                           p2_mkdict [("ava", p2_attr (enc_response cn sn) "ava");
                                      ("name_id", p2_attr (enc_response cn sn) "name_id");
                                      ("came_from", p2_attr (enc_response cn sn) "came_from");
                                      ("issuer", issuer_ (enc_response cn sn)); ("not_on_or_after", PInt z);
                                      ("authn_info", authn_info_ (enc_response cn sn));
                                      ("session_index", p2_attr v_authn_statement "session_index")])
           | BFalse => PExc "StatusInvalidAuthnResponseStatement"
           | BExc n_1 => PExc n_1
           | BErr => PErr
           end
       | BExc n_2 => PExc n_2
       | BErr => PErr
       end) = enc_session_info (enc_response cn sn) z).
    { intros z.
      change (p2_attr (enc_response cn sn) "context") with (PStr "AuthnReq").
      change (p2_attr (enc_response cn sn) "ava") with ava.
      change (p2_attr (enc_response cn sn) "name_id") with name_id.
      change (p2_attr (enc_response cn sn) "came_from") with came_from.
      rewrite p2_eq_str. cbn [String.eqb Ascii.eqb Bool.eqb p2_branch py_truthy is_bad].
      cbn [p2_attr p2_attr_gen s1 s2 py_bind p2_bind is_bad enc_response is_obj String.eqb Ascii.eqb Bool.eqb assoc_py
           p2_getattr3 attr_name_ok andb negb p2_branch py_truthy p2_getitem as_z nth_index Z.ltb Z.leb Z.compare length
           Z.of_nat Pos.of_succ_nat Z.to_nat nth].
      unfold enc_session_info. apply p2_mkdict_good. cbn [map snd forallb is_bad].
      rewrite ava_good, name_id_good, came_from_good, session_index_good, issuer_good, authn_info_good. reflexivity. }
    destruct (Z.gtb (zopt sn) 0); cbn [py_bind p2_bind is_bad]; apply K.
  Qed.
End SessionInfo.

Example session_info_hypotheses_satisfiable :
  exists (issuer_ authn_info_ : pyval -> pyval) (ava name_id came_from session_index : pyval),
    is_bad ava = false /\ is_bad name_id = false /\ is_bad came_from = false /\ is_bad session_index = false
    /\ (forall r, is_bad (issuer_ r) = false) /\ (forall r, is_bad (authn_info_ r) = false).
Proof.
  exists (fun _ => PStr "https://idp.example.org/idp.xml"), (fun _ => PList []), (PObj [("uid", PList [PStr "u1"])]),
         (PObj [("__class__", PStr "NameID"); ("text", PStr "alice")]), (PStr "/"), (PStr "si-1").
  repeat split.
Qed.

(* ================================================================== Population.add_information_about_person
   What the model's `Login s i nooa t` / accepted `AcceptResponse` (Model.store) relies on: the session information
   is handed to Cache.set exactly once, under its own name_id and issuer, without the "issuer" entry, with ITS
   "not_on_or_after" as the expiry time; the name_id is returned.  Cache.set itself is not translatable (nested item
   assignment, see notes/C19.md): it is an arbitrary function here, so the equation also says that nothing else
   is done with the cache (an exception of Cache.set propagates). *)
Section AddInformation.
  Variable set_ : pyval -> pyval -> pyval -> pyval -> pyval -> pyval.
  Variables cache_ ava name_id came_from issuer authn_info session_index : pyval.
  Variable nooa : Z.
  Hypothesis name_id_good : is_bad name_id = false.
  Hypothesis issuer_good : is_bad issuer = false.

  Definition enc_sinfo : pyval :=
    PObj [("ava", ava); ("name_id", name_id); ("came_from", came_from); ("issuer", issuer);
          ("not_on_or_after", PInt nooa); ("authn_info", authn_info); ("session_index", session_index)].
  Definition enc_sinfo_stored : pyval :=
    PObj [("ava", ava); ("name_id", name_id); ("came_from", came_from);
          ("not_on_or_after", PInt nooa); ("authn_info", authn_info); ("session_index", session_index)].
  Definition enc_users : pyval := PObj [("__class__", PStr "Population"); ("cache", cache_)].

  Theorem src2_add_information_is_model :
    src2_add_information set_ enc_users enc_sinfo
    = py_bind (set_ cache_ name_id issuer enc_sinfo_stored (PInt nooa)) (fun _ => name_id).
  Proof.
    unfold src2_add_information, enc_sinfo.
    (* order-insensitive: open every bind on the two abstract values, compute the dict operations *)
    repeat first
      [ rewrite (py_bind_good name_id) by exact name_id_good
      | rewrite (py_bind_good issuer) by exact issuer_good
      | progress change (p2_attr enc_users "cache") with cache_
      | progress cbn [p2_dict_copy s1 s2 s3 py_bind p2_bind is_bad is_dict is_obj negb String.eqb Ascii.eqb Bool.eqb
                      p2_getitem key_of assoc_py p2_pop_val1 p2_pop_rest p2_get3 del_assoc] ].
    reflexivity.
  Qed.
End AddInformation.

(* ================================================================== Saml2Client.is_logged_in
   Cache.get_identity is not translatable (set(...).union(...), see notes/C19.md): it is an extra argument, assumed
   to answer for the model's c_get_identity with a dict that has one entry per token (attribute values merged per
   key: an identity is empty iff no session information contributed) and the list of stale issuers. *)
Section IsLoggedIn.
  Variable get_identity_ : pyval -> pyval -> pyval.
  Variable tok_field : tok -> string * pyval.
  Variables users nidv old : pyval.
  Definition enc_client : pyval := PObj [("__class__", PStr "Saml2Client"); ("users", users)].

  Theorem src2_is_logged_in_is_model (n : Z) c s toks olds :
    c_get_identity n c s [] true = Some (toks, olds) ->
    is_bad nidv = false -> is_bad old = false ->
    get_identity_ users nidv = PList [PObj (map tok_field toks); old] ->
    src2_is_logged_in get_identity_ enc_client nidv = PBool (is_logged_in n c s).
  Proof.
    intros G Hn Ho Hg. unfold src2_is_logged_in, is_logged_in. rewrite G.
    rewrite (py_bind_good nidv) by exact Hn. change (p2_attr enc_client "users") with users. rewrite Hg.
    destruct toks as [|t r]; [reflexivity|].
    cbn [map p2_getitem s2 py_bind p2_bind is_bad as_z nth_index Z.ltb Z.leb Z.compare length Z.of_nat
         Pos.of_succ_nat andb Z.to_nat nth]. reflexivity.
  Qed.
End IsLoggedIn.

Example is_logged_in_hypotheses_satisfiable : forall toks,
  exists (get_identity_ : pyval -> pyval -> pyval) (tok_field : tok -> string * pyval) (users nidv old : pyval),
    (forall t, fst (tok_field t) <> "__class__") /\ is_bad nidv = false /\ is_bad old = false
    /\ get_identity_ users nidv = PList [PObj (map tok_field toks); old].
Proof.
  intros toks.
  exists (fun _ _ => PList [PObj (map (fun t => (rep "u" t, PList [PStr "v"])) toks); PList []]),
         (fun t => (rep "u" t, PList [PStr "v"])), (PObj [("__class__", PStr "Population")]), (PStr "alice"), (PList []).
  repeat split. intros t. apply rep_not_class. discriminate.
Qed.

Example add_information_hypotheses_satisfiable :
  exists name_id issuer : pyval, is_bad name_id = false /\ is_bad issuer = false.
Proof. exists (PObj [("__class__", PStr "NameID"); ("text", PStr "alice")]), (PStr "https://idp.example.org/idp.xml"). split; reflexivity. Qed.

(* ================================================================== the statements as Property.v re-states them *)
Definition cache_encoding_ok (skey ikey : nat -> string) (nid : nat -> pyval) (code_ decode_ : pyval -> pyval) : Prop :=
  (forall a b, skey a = skey b -> a = b) /\ (forall a b, ikey a = ikey b -> a = b)
  /\ (forall a, skey a <> "__class__") /\ (forall a, ikey a <> "__class__")
  /\ (forall s, is_bad (nid s) = false) /\ (forall s, code_ (nid s) = PStr (skey s))
  /\ (forall s, decode_ (PStr (skey s)) = nid s).

Example cache_encoding_ok_satisfiable : exists skey ikey nid code_ decode_, cache_encoding_ok skey ikey nid code_ decode_.
Proof. exact cache_hypotheses_satisfiable. Qed.

Section Stated.
  Variables (skey ikey : nat -> string) (nid : nat -> pyval) (code_ decode_ parse sync_ : pyval -> pyval).
  Hypothesis OK : cache_encoding_ok skey ikey nid code_ decode_.

  Lemma stated_cache_get (n : Z) c s i chk :
    src2_cache_get (PInt n) parse code_ decode_ (enc_cache skey ikey c) (nid s) (enc_issuer ikey i) (PBool chk)
    = enc_getres nid s (c_get n c s i chk).
  Proof. destruct OK as (A & B & C & D & E & F & G). apply src2_cache_get_is_model; assumption. Qed.

  Lemma stated_cache_active (n : Z) c s i :
    src2_cache_active (PInt n) parse code_ (enc_cache skey ikey c) (nid s) (enc_issuer ikey i) = PBool (c_active n c s i).
  Proof. destruct OK as (A & B & C & D & E & F & G). apply src2_cache_active_is_model; assumption. Qed.

  Lemma stated_cache_entities c s :
    src2_cache_entities code_ (enc_cache skey ikey c) (nid s) = enc_olist ikey (option_map keys (lookup s c)).
  Proof. destruct OK as (A & B & C & D & E & F & G). apply src2_cache_entities_is_model; assumption. Qed.

  Lemma stated_cache_subjects c : src2_cache_subjects decode_ (enc_cache skey ikey c) = enc_subject_list nid (keys c).
  Proof. destruct OK as (A & B & C & D & E & F & G). apply src2_cache_subjects_is_model; assumption. Qed.

  (* the round trip is needed, not only sufficient: with ANY decoding function (total on the keys), if the cache
     lists exactly the subjects that were filed then that function has inverted the code of each of them *)
  Lemma stated_subjects_needs_roundtrip (dec : pyval -> pyval) c :
    (forall s, In s (keys c) -> is_bad (dec (PStr (skey s))) = false) ->
    src2_cache_subjects dec (enc_cache skey ikey c) = enc_subject_list nid (keys c) ->
    forall s, In s (keys c) -> dec (PStr (skey s)) = nid s.
  Proof. destruct OK as (A & B & C & D & E & F & G). apply subjects_needs_roundtrip; assumption. Qed.

  Lemma stated_stale_sources (n : Z) c s absent srcs :
    src2_stale_sources (PInt n) parse code_ (enc_population skey ikey c) (nid s) (enc_sources ikey absent srcs)
    = enc_olist ikey (c_stale n c s srcs).
  Proof. destruct OK as (A & B & C & D & E & F & G). apply src2_stale_sources_is_model; assumption. Qed.

  Lemma stated_cache_delete c s :
    NoDup (keys c) -> src2_cache_delete code_ sync_ (enc_cache skey ikey c) (nid s) = enc_deleted skey ikey c s.
  Proof. destruct OK as (A & B & C & D & E & F & G). apply src2_cache_delete_is_model; assumption. Qed.

  (* ... in particular for every cache content the model reaches *)
  Lemma stated_cache_delete_reachable w t0 h s :
    src2_cache_delete code_ sync_ (enc_cache skey ikey (db (final w (init t0) h))) (nid s)
    = enc_deleted skey ikey (db (final w (init t0) h)) s.
  Proof. apply stated_cache_delete, reachable_db_nodup. Qed.
End Stated.
