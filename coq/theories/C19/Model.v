(* C19/Model.v — executable model of the service provider's session knowledge and
   logout bookkeeping AS CODED in /repo/src/saml2:
     cache.py        Cache.set/get/get_identity/active/delete/entities/reset
     population.py   Population (thin layer over Cache)
     time_util.py    before / after / not_on_or_after (a falsy point is "always true")
     client_base.py  parse_authn_request_response 803-811 (store only if assertion,
                     no EncryptedAssertion left, name_id)
     client.py       global_logout / do_logout / local_logout / is_logged_in /
                     handle_logout_response / handle_logout_request (as of e58d2614; the
                     behaviour before de5f1fed / 73294247 / 0bae05f7 / 10d8560b / e58d2614 is kept as the *_v0 definitions)
   Subjects, issuers, session tokens and request ids are natural numbers (the
   harness maps NameIDs, entity ids, session infos and generated message ids to
   them).  Python dicts are insertion-ordered association lists.  The list object
   `entity_ids`, shared by all pending entries of one do_logout chain, lives in an
   explicit heap of lists; pending entries hold a reference. *)
From Coq Require Import List Bool Arith ZArith Lia.
Import ListNotations.
Local Open Scope Z_scope.

Definition subj := nat.
Definition issuer := nat.
Definition tok := nat.
Definition rid := nat.

Inductive binding := SOAP | REDIRECT | POST.
Definition binding_eqb (a b : binding) : bool :=
  match a, b with SOAP, SOAP | REDIRECT, REDIRECT | POST, POST => true | _, _ => false end.

(* ---------------------------------------------------------------- Python dict *)
Section Assoc.
  Context {V : Type}.
  Fixpoint lookup (k : nat) (l : list (nat * V)) : option V :=
    match l with
    | [] => None
    | (k', v) :: r => if (k' =? k)%nat then Some v else lookup k r
    end.
  (* d[k] = v : overwrite in place, or append *)
  Fixpoint update (k : nat) (v : V) (l : list (nat * V)) : list (nat * V) :=
    match l with
    | [] => [(k, v)]
    | (k', v') :: r => if (k' =? k)%nat then (k, v) :: r else (k', v') :: update k v r
    end.
  (* del d[k] (the caller has checked presence) *)
  Fixpoint remove (k : nat) (l : list (nat * V)) : list (nat * V) :=
    match l with
    | [] => []
    | (k', v') :: r => if (k' =? k)%nat then remove k r else (k', v') :: remove k r
    end.
  Definition keys (l : list (nat * V)) : list nat := map fst l.
End Assoc.

Fixpoint mem (k : nat) (l : list nat) : bool :=
  match l with [] => false | x :: r => (x =? k)%nat || mem k r end.
(* list.remove(x): first occurrence *)
Fixpoint remove_first (k : nat) (l : list nat) : list nat :=
  match l with [] => [] | x :: r => if (x =? k)%nat then r else x :: remove_first k r end.
Fixpoint list_eqb (a b : list nat) : bool :=
  match a, b with
  | [], [] => true
  | x :: a', y :: b' => (x =? y)%nat && list_eqb a' b'
  | _, _ => false
  end.

(* ---------------------------------------------------------------- time_util *)
(* before(point): `if not point: return True`; else gmtime() <= gmtime(point) *)
Definition tu_before (now point : Z) : bool := if point =? 0 then true else now <=? point.
(* after(point): `if not point: return True`; else not before(point) *)
Definition tu_after (now point : Z) : bool := if point =? 0 then true else negb (now <=? point).
(* not_on_or_after = before.  The logout deadline `expire` is None or an xs:dateTime
   string (never falsy when present): *)
Definition deadline_passed (now : Z) (dl : option Z) : bool :=
  match dl with None => false | Some d => negb (now <=? d) end.

(* ---------------------------------------------------------------- cache.py *)
Record entry := { e_nooa : Z; e_info : option tok }.   (* info = None: the empty dict stored by reset() *)
Definition cache := list (subj * list (issuer * entry)).

Definition c_set (s : subj) (i : issuer) (e : entry) (c : cache) : cache :=
  update s (update i e (match lookup s c with Some l => l | None => [] end)) c.

Inductive getres := G_info (t : tok) | G_none | G_keyerr | G_tooold.

Definition c_get (now : Z) (c : cache) (s : subj) (i : issuer) (chk : bool) : getres :=
  match lookup s c with
  | None => G_keyerr
  | Some l =>
      match lookup i l with
      | None => G_keyerr
      | Some e =>
          if chk && tu_after now (e_nooa e) then G_tooold
          else match e_info e with Some t => G_info t | None => G_none end
      end
  end.

(* get_identity: None = KeyError escaping from self.get (explicit entity list only) *)
Fixpoint gi_loop (now : Z) (c : cache) (s : subj) (chk : bool) (ents : list issuer)
         (res : list tok) (old : list issuer) : option (list tok * list issuer) :=
  match ents with
  | [] => Some (res, old)
  | e :: r =>
      match c_get now c s e chk with
      | G_keyerr => None
      | G_tooold | G_none => gi_loop now c s chk r res (old ++ [e])
      | G_info t => gi_loop now c s chk r (res ++ [t]) old
      end
  end.

Definition c_get_identity (now : Z) (c : cache) (s : subj) (ents : list issuer) (chk : bool)
  : option (list tok * list issuer) :=
  match ents with
  | [] => match lookup s c with
          | None => Some ([], [])
          | Some l => gi_loop now c s chk (keys l) [] []
          end
  | _ => gi_loop now c s chk ents [] []
  end.

Definition c_active (now : Z) (c : cache) (s : subj) (i : issuer) : bool :=
  match lookup s c with
  | None => false
  | Some l =>
      match lookup i l with
      | None => false
      | Some e => match e_info e with None => false | Some _ => tu_before now (e_nooa e) end
      end
  end.

(* Population.stale_sources_for_person: None = KeyError from entities() *)
Definition c_stale (now : Z) (c : cache) (s : subj) (srcs : list issuer) : option (list issuer) :=
  match srcs with
  | [] => match lookup s c with
          | None => None
          | Some l => Some (filter (fun m => negb (c_active now c s m)) (keys l))
          end
  | _ => Some (filter (fun m => negb (c_active now c s m)) srcs)
  end.

Definition is_logged_in (now : Z) (c : cache) (s : subj) : bool :=
  match c_get_identity now c s [] true with
  | Some (_ :: _, _) => true
  | _ => false
  end.

(* ---------------------------------------------------------------- the client *)
Record world := {
  w_pref : list binding;          (* config.preferred_binding["single_logout_service"] *)
  w_slo : list (list binding)     (* per IdP: SLO bindings in metadata order *)
}.
Definition supported (w : world) (i : issuer) : list binding := nth i (w_slo w) [].
Definition bmem (b : binding) (l : list binding) : bool := existsb (binding_eqb b) l.
(* next(filter(None, (expected_binding=None, *preferred-and-supported, *supported)), None) *)
Definition choose (w : world) (i : issuer) : option binding :=
  match filter (fun b => bmem b (supported w i)) (w_pref w) ++ supported w i with
  | b :: _ => Some b
  | [] => None
  end.

Record pentry := { p_entity : issuer; p_ref : nat; p_subj : subj; p_expire : option Z }.

Record state := {
  now : Z;
  db : cache;                          (* Saml2Client.users.cache._db *)
  pend : list (rid * pentry);          (* Saml2Client.state *)
  heap : nat -> list issuer;           (* the entity_ids list objects *)
  next_rid : nat;
  next_ref : nat
}.

Definition init (t0 : Z) : state :=
  {| now := t0; db := []; pend := []; heap := fun _ => []; next_rid := 0; next_ref := 0 |}.

Definition set_db (st : state) (c : cache) : state :=
  {| now := now st; db := c; pend := pend st; heap := heap st; next_rid := next_rid st; next_ref := next_ref st |}.
Definition set_pend (st : state) (p : list (rid * pentry)) : state :=
  {| now := now st; db := db st; pend := p; heap := heap st; next_rid := next_rid st; next_ref := next_ref st |}.
Definition set_heap (st : state) (r : nat) (l : list issuer) : state :=
  {| now := now st; db := db st; pend := pend st;
     heap := fun r' => if (r' =? r)%nat then l else heap st r';
     next_rid := next_rid st; next_ref := next_ref st |}.
Definition add_pending (st : state) (p : pentry) : state :=
  {| now := now st; db := db st; pend := pend st ++ [(next_rid st, p)]; heap := heap st;
     next_rid := S (next_rid st); next_ref := next_ref st |}.
Definition alloc (st : state) (l : list issuer) : state :=
  {| now := now st; db := db st; pend := pend st;
     heap := fun r' => if (r' =? next_ref st)%nat then l else heap st r';
     next_rid := next_rid st; next_ref := S (next_ref st) |}.

Inductive soap_answer := SA_ok | SA_fail | SA_http | SA_none.
Definition answer (ans : list soap_answer) (i : issuer) : soap_answer := nth i ans SA_none.

Inductive exn := KeyErr | ValueErr | AttrErr | TooOldErr | StatusErr | LogoutErr | UnsupportedErr | SamlErr.
Inductive lstatus := LSuccess | LDenied | LUnknownPrincipal.
Inductive sent := SentPending (i : issuer) (b : binding) (r : rid) | SentSoap (i : issuer).
Inductive rkind := RGood | RBadSig | RWrongDest.

Inductive out :=
| OUnit
| OExn (e : exn)
| OIdentity (toks : list tok) (old : list issuer)
| OInfo (t : option tok)
| OIssuers (l : list issuer)
| OBool (b : bool)
| OTimeout                    (* (0, "504 Gateway Timeout", [], []) *)
| ODone                       (* (0, "200 Ok", [...], []) *)
| OSent (l : list sent)       (* the `responses` dict of do_logout *)
| OStatus (s : lstatus)       (* status of the LogoutResponse produced *)
| OAccepted | ORejected | OShell
| OOther.                     (* anything else observed on the implementation; never produced by the model *)

Inductive op :=
| Login (s : subj) (i : issuer) (nooa : Z) (t : tok)
| AcceptResponse (s : subj) (i : issuer) (cond_nooa sess_nooa : option Z) (t : tok) (k : rkind)
| Reset (s : subj) (i : issuer)
| GetIdentity (s : subj) (ents : list issuer) (chk : bool)
| GetInfoFrom (s : subj) (i : issuer) (chk : bool)
| Stale (s : subj) (srcs : list issuer)
| Tick (dt : Z)
| StartLogout (s : subj) (expire : option Z) (ans : list soap_answer)
| LogoutResponse (r : rid) (i : issuer) (success : bool) (ans : list soap_answer)
| LogoutRequest (named cur : subj) (i : issuer) (b : binding)
| LocalLogout (s : subj).

(* local_logout -> Population.remove_person -> Cache.delete: `del self._db[code(name_id)]`; then
   (fix 73294247) every pending SLO entry of that subject is dropped from Saml2Client.state.
   A KeyError from Cache.delete escapes before anything is dropped. *)
Definition purge (s : subj) (p : list (rid * pentry)) : list (rid * pentry) :=
  filter (fun rp => negb (p_subj (snd rp) =? s)%nat) p.
Definition local_logout (st : state) (s : subj) : option state :=
  match lookup s (db st) with
  | None => None                                (* KeyError *)
  | Some _ => Some {| now := now st; db := remove s (db st); pend := purge s (pend st); heap := heap st;
                      next_rid := next_rid st; next_ref := next_ref st |}
  end.
(* before 73294247: the pending entries stayed *)
Definition local_logout_v0 (st : state) (s : subj) : option state :=
  match lookup s (db st) with
  | None => None
  | Some _ => Some (set_db st (remove s (db st)))
  end.

(* the for-loop of do_logout over a snapshot l of the list object's content (`entity_ids[:]`, 10d8560b).
   Result: state and either an escaping exception or (not_done, responses).  An IdP whose synchronous
   answer is accepted is removed from the list object at once (10d8560b). *)
Fixpoint logout_loop (w : world) (ans : list soap_answer) (s : subj) (ref : nat) (dl : option Z)
         (l : list issuer) (st : state) (not_done : list issuer) (acc : list sent)
  : state * (exn + list issuer * list sent) :=
  match l with
  | [] => (st, inr (not_done, acc))
  | e :: l' =>
      match choose w e with
      | None => (st, inl UnsupportedErr)        (* metadata.single_logout_service raises *)
      | Some b =>
          (* session_info = users.get_info_from(name_id, e, False); session_info.get(...) *)
          match c_get (now st) (db st) s e false with
          | G_none => (st, inl AttrErr)          (* None.get: AttributeError *)
          | _ =>
              match b with
              | SOAP =>
                  match answer ans e with
                  | SA_ok => logout_loop w ans s ref dl l' (set_heap st ref (remove_first e (heap st ref)))
                                         (remove_first e not_done) (acc ++ [SentSoap e])
                  | SA_fail => (st, inl StatusErr)   (* parse_logout_request_response raises *)
                  | SA_http | SA_none => logout_loop w ans s ref dl l' st not_done acc
                  end
              | _ =>
                  let r := next_rid st in
                  logout_loop w ans s ref dl l'
                    (add_pending st {| p_entity := e; p_ref := ref; p_subj := s; p_expire := dl |})
                    (remove_first e not_done) (acc ++ [SentPending e b r])
              end
          end
      end
  end.

(* before 10d8560b: the loop did not touch the list object *)
Fixpoint logout_loop_v0 (w : world) (ans : list soap_answer) (s : subj) (ref : nat) (dl : option Z)
         (l : list issuer) (st : state) (not_done : list issuer) (acc : list sent)
  : state * (exn + list issuer * list sent) :=
  match l with
  | [] => (st, inr (not_done, acc))
  | e :: l' =>
      match choose w e with
      | None => (st, inl UnsupportedErr)
      | Some b =>
          match c_get (now st) (db st) s e false with
          | G_none => (st, inl AttrErr)
          | _ =>
              match b with
              | SOAP =>
                  match answer ans e with
                  | SA_ok => logout_loop_v0 w ans s ref dl l' st (remove_first e not_done) (acc ++ [SentSoap e])
                  | SA_fail => (st, inl StatusErr)
                  | SA_http | SA_none => logout_loop_v0 w ans s ref dl l' st not_done acc
                  end
              | _ =>
                  let r := next_rid st in
                  logout_loop_v0 w ans s ref dl l'
                    (add_pending st {| p_entity := e; p_ref := ref; p_subj := s; p_expire := dl |})
                    (remove_first e not_done) (acc ++ [SentPending e b r])
              end
          end
      end
  end.

(* fix 0bae05f7 (as changed by 10d8560b), after a pass that did not raise: when some IdP has answered
   synchronously in this pass and the list object is empty, the local session ends. *)
Definition soap_answered (acc : list sent) : list issuer :=
  flat_map (fun x => match x with SentSoap i => [i] | SentPending _ _ _ => [] end) acc.
Definition finish_pass (s : subj) (ref : nat) (acc : list sent) (st : state) : state * out :=
  match soap_answered acc with
  | [] => (st, OSent acc)
  | _ =>
      match heap st ref with
      | [] => match local_logout st s with
              | None => (st, OExn KeyErr)
              | Some st3 => (st3, OSent acc)
              end
      | _ => (st, OSent acc)
      end
  end.
(* 0bae05f7 before 10d8560b: the synchronous answers were recorded only here, after a pass that did not raise *)
Definition remove_all (es l : list issuer) : list issuer := fold_left (fun l e => remove_first e l) es l.
Definition finish_pass_v0 (s : subj) (ref : nat) (acc : list sent) (st : state) : state * out :=
  match soap_answered acc with
  | [] => (st, OSent acc)
  | answered =>
      let st2 := set_heap st ref (remove_all answered (heap st ref)) in
      match heap st2 ref with
      | [] => match local_logout st2 s with
              | None => (st2, OExn KeyErr)
              | Some st3 => (st3, OSent acc)
              end
      | _ => (st2, OSent acc)
      end
  end.

Definition do_logout (w : world) (ans : list soap_answer) (s : subj) (ref : nat) (dl : option Z) (st : state)
  : state * out :=
  if deadline_passed (now st) dl then
    match local_logout st s with
    | None => (st, OExn KeyErr)
    | Some st' => (st', OTimeout)
    end
  else
    let l := heap st ref in
    match logout_loop w ans s ref dl l st l [] with
    | (st', inl e) => (st', OExn e)
    | (st', inr ([], acc)) => finish_pass s ref acc st'
    | (st', inr (_ :: _, _)) => (st', OExn LogoutErr)
    end.

Definition global_logout (w : world) (ans : list soap_answer) (s : subj) (dl : option Z) (st : state)
  : state * out :=
  match lookup s (db st) with
  | None => (st, OExn KeyErr)                    (* users.issuers_of_info *)
  | Some l => let ref := next_ref st in do_logout w ans s ref dl (alloc st (keys l))
  end.

Definition drop_moot (ref : nat) (i : issuer) (p : list (rid * pentry)) : list (rid * pentry) :=
  filter (fun rp => negb ((p_ref (snd rp) =? ref)%nat && (p_entity (snd rp) =? i)%nat)) p.

Definition handle_logout_response (w : world) (ans : list soap_answer) (r : rid) (i : issuer) (success : bool)
           (st : state) : state * out :=
  if negb success then (st, OExn StatusErr)      (* parse_logout_request_response: status_ok raises *)
  else
    match lookup r (pend st) with
    | None => (st, OExn KeyErr)
    | Some p =>
        (* fix de5f1fed: issuer != status["entity_id"] => LogoutError before the entry is touched *)
        if negb (p_entity p =? i)%nat then (st, OExn LogoutErr) else
        (* del self.state[in_response_to]; fix e58d2614: the issuer's other requests that hold the same
           list object are dropped as well *)
        let st1 := set_pend st (drop_moot (p_ref p) i (remove r (pend st))) in
        let l := heap st1 (p_ref p) in
        if list_eqb l [i] then
          match local_logout st1 (p_subj p) with
          | None => (st1, OExn KeyErr)
          | Some st2 => (st2, ODone)
          end
        else if mem i l then
          do_logout w ans (p_subj p) (p_ref p) (p_expire p) (set_heap st1 (p_ref p) (remove_first i l))
        else (st1, OExn ValueErr)
    end.

Definition response_bindings (b : binding) : list binding :=
  match b with SOAP => [SOAP] | POST => [POST; REDIRECT] | REDIRECT => [REDIRECT; POST] end.

Definition handle_logout_request (w : world) (named cur : subj) (i : issuer) (b : binding) (st : state)
  : state * out :=
  let (st', status) :=
    if (named =? cur)%nat then
      match local_logout st cur with
      | Some st' => (st', LSuccess)
      | None => (st, LDenied)
      end
    else (st, LUnknownPrincipal) in
  (* a response can be built iff one of the response bindings is SOAP or is served by the requester *)
  if existsb (fun rb => binding_eqb rb SOAP || bmem rb (supported w i)) (response_bindings b)
  then (st', OStatus status) else (st', OExn SamlErr).

(* session_info(): SessionNotOnOrAfter if > 0, else Conditions/@NotOnOrAfter, else 0 *)
Definition effective_nooa (cond_nooa sess_nooa : option Z) : Z :=
  let c := match cond_nooa with Some t => t | None => 0 end in
  match sess_nooa with Some t => if 0 <? t then t else c | None => c end.

(* authn_statement_ok / condition_ok: validate_on_or_after(t, timeslack = 0) raises ResponseLifetimeExceed
   when now > t; an absent attribute is not checked.  (t = now is still accepted.) *)
Definition still_valid (now : Z) (t : option Z) : bool :=
  match t with Some x => now <=? x | None => true end.
Definition response_fresh (now : Z) (cond_nooa sess_nooa : option Z) : bool :=
  still_valid now sess_nooa && still_valid now cond_nooa.

Definition store (st : state) (s : subj) (i : issuer) (nooa : Z) (t : option tok) : state :=
  set_db st (c_set s i {| e_nooa := nooa; e_info := t |} (db st)).

Definition step (w : world) (st : state) (o : op) : state * out :=
  match o with
  | Login s i nooa t => (store st s i nooa (Some t), OUnit)
  | AcceptResponse s i cn sn t k =>
      match k with
      | RGood => if response_fresh (now st) cn sn
                 then (store st s i (effective_nooa cn sn) (Some t), OAccepted)
                 else (st, ORejected)            (* ResponseLifetimeExceed: nothing is stored *)
      | RBadSig => (st, ORejected)
      | RWrongDest => (st, OShell)
      end
  | Reset s i => (store st s i 0 None, OUnit)
  | GetIdentity s ents chk =>
      (st, match c_get_identity (now st) (db st) s ents chk with
           | Some (toks, old) => OIdentity toks old
           | None => OExn KeyErr
           end)
  | GetInfoFrom s i chk =>
      (st, match c_get (now st) (db st) s i chk with
           | G_info t => OInfo (Some t)
           | G_none => OInfo None
           | G_keyerr => OExn KeyErr
           | G_tooold => OExn TooOldErr
           end)
  | Stale s srcs =>
      (st, match c_stale (now st) (db st) s srcs with Some l => OIssuers l | None => OExn KeyErr end)
  | Tick dt =>
      ({| now := now st + dt; db := db st; pend := pend st; heap := heap st;
          next_rid := next_rid st; next_ref := next_ref st |}, OUnit)
  | StartLogout s dl ans => global_logout w ans s dl st
  | LogoutResponse r i success ans => handle_logout_response w ans r i success st
  | LogoutRequest named cur i b => handle_logout_request w named cur i b st
  | LocalLogout s =>
      match local_logout st s with
      | Some st' => (st', OBool true)
      | None => (st, OExn KeyErr)
      end
  end.

(* ---------------------------------------------------------------- what is observed after every step *)
Record pview := { pv_entity : issuer; pv_list : list issuer; pv_subj : subj; pv_expire : option Z }.
Record view := {
  v_subjects : list (subj * list issuer);   (* users.subjects() with users.issuers_of_info() *)
  v_logged : list subj;                     (* subjects for which is_logged_in() *)
  v_pending : list (rid * pview)            (* Saml2Client.state *)
}.

Definition view_of (st : state) : view :=
  {| v_subjects := map (fun sl => (fst sl, keys (snd sl))) (db st);
     v_logged := filter (is_logged_in (now st) (db st)) (keys (db st));
     v_pending := map (fun rp => (fst rp, {| pv_entity := p_entity (snd rp); pv_list := heap st (p_ref (snd rp));
                                             pv_subj := p_subj (snd rp); pv_expire := p_expire (snd rp) |}))
                      (pend st) |}.

Definition empty_view : view := {| v_subjects := []; v_logged := []; v_pending := [] |}.

(* a history is run from the initial state; the trace records op, output and view after the step *)
Fixpoint run_from (w : world) (st : state) (h : list op) : list (op * out * view) :=
  match h with
  | [] => []
  | o :: r => let (st', ou) := step w st o in (o, ou, view_of st') :: run_from w st' r
  end.
Definition run (w : world) (t0 : Z) (h : list op) := run_from w (init t0) h.

Definition final (w : world) (st : state) (h : list op) : state :=
  fold_left (fun s o => fst (step w s o)) h st.

(* ================================================================ the behaviour BEFORE the fixes de5f1fed
   (party check) and 73294247 (purge), kept for the refutation theorems:
   party = false : handle_logout_response does not compare the issuer with the addressee;
   prg   = false : local_logout leaves the subject's pending requests in Saml2Client.state;
   soap  = false : (before 0bae05f7) do_logout does no bookkeeping for synchronous answers;
   early = false : (before 10d8560b) synchronous answers are recorded only after a pass that does not raise;
   moot  = false : (before e58d2614) the other requests to a party that has answered stay pending.
   `step_v0 true true true true true` is `step`. *)
Section V0.
  Variables (party prg soap early moot : bool).
  Definition local_logout_x (st : state) (s : subj) : option state :=
    if prg then local_logout st s else local_logout_v0 st s.

  Definition do_logout_v0 (w : world) (ans : list soap_answer) (s : subj) (ref : nat) (dl : option Z) (st : state)
    : state * out :=
    if deadline_passed (now st) dl then
      match local_logout_x st s with
      | None => (st, OExn KeyErr)
      | Some st' => (st', OTimeout)
      end
    else
      let l := heap st ref in
      match (if soap && early then logout_loop else logout_loop_v0) w ans s ref dl l st l [] with
      | (st', inl e) => (st', OExn e)
      | (st', inr ([], acc)) =>
          if soap then (if early then finish_pass else finish_pass_v0) s ref acc st' else (st', OSent acc)
      | (st', inr (_ :: _, _)) => (st', OExn LogoutErr)
      end.

  Definition global_logout_v0 (w : world) (ans : list soap_answer) (s : subj) (dl : option Z) (st : state)
    : state * out :=
    match lookup s (db st) with
    | None => (st, OExn KeyErr)
    | Some l => let ref := next_ref st in do_logout_v0 w ans s ref dl (alloc st (keys l))
    end.

  Definition handle_logout_response_v0 (w : world) (ans : list soap_answer) (r : rid) (i : issuer) (success : bool)
             (st : state) : state * out :=
    if negb success then (st, OExn StatusErr)
    else
      match lookup r (pend st) with
      | None => (st, OExn KeyErr)
      | Some p =>
          if party && negb (p_entity p =? i)%nat then (st, OExn LogoutErr) else
          let st1 := set_pend st (if moot then drop_moot (p_ref p) i (remove r (pend st)) else remove r (pend st)) in
          let l := heap st1 (p_ref p) in
          if list_eqb l [i] then
            match local_logout_x st1 (p_subj p) with
            | None => (st1, OExn KeyErr)
            | Some st2 => (st2, ODone)
            end
          else if mem i l then
            do_logout_v0 w ans (p_subj p) (p_ref p) (p_expire p) (set_heap st1 (p_ref p) (remove_first i l))
          else (st1, OExn ValueErr)
      end.

  Definition handle_logout_request_v0 (w : world) (named cur : subj) (i : issuer) (b : binding) (st : state)
    : state * out :=
    let (st', status) :=
      if (named =? cur)%nat then
        match local_logout_x st cur with
        | Some st' => (st', LSuccess)
        | None => (st, LDenied)
        end
      else (st, LUnknownPrincipal) in
    if existsb (fun rb => binding_eqb rb SOAP || bmem rb (supported w i)) (response_bindings b)
    then (st', OStatus status) else (st', OExn SamlErr).

  Definition step_v0 (w : world) (st : state) (o : op) : state * out :=
    match o with
    | StartLogout s dl ans => global_logout_v0 w ans s dl st
    | LogoutResponse r i success ans => handle_logout_response_v0 w ans r i success st
    | LogoutRequest named cur i b => handle_logout_request_v0 w named cur i b st
    | LocalLogout s =>
        match local_logout_x st s with
        | Some st' => (st', OBool true)
        | None => (st, OExn KeyErr)
        end
    | _ => step w st o
    end.

  Fixpoint run_from_v0 (w : world) (st : state) (h : list op) : list (op * out * view) :=
    match h with
    | [] => []
    | o :: r => let (st', ou) := step_v0 w st o in (o, ou, view_of st') :: run_from_v0 w st' r
    end.
  Definition run_v0 (w : world) (t0 : Z) (h : list op) := run_from_v0 w (init t0) h.
End V0.
