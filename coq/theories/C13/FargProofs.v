(* C13/FargProofs.v — update_farg fills in every default and keeps what the caller gave, for EVERY argument tree;
   hence every SubjectConfirmation built from it carries Method, and the Subject is structurally valid whenever
   the leaves of the completed tree have the lexical form of their attribute. *)
From Coq Require Import String Ascii List Bool Arith NArith Lia.
From Verif Require Import Base.Str C13.Model C13.Builders C13.Proofs C13.BuilderProofs C13.Farg.
From VerifGen Require Import C13Tables.
Import ListNotations.
Open Scope string_scope.
Open Scope list_scope.
Open Scope nat_scope.

(* ------------------------------------------------------------------ dictionaries *)
Lemma lookup_set_same k v l : lookup k (set k v l) = Some v.
Proof.
  induction l as [|[k' v'] r IH]; cbn [set lookup].
  - rewrite String.eqb_refl. reflexivity.
  - destruct (String.eqb k k') eqn:E; cbn [lookup]; [rewrite String.eqb_refl; reflexivity|rewrite E; exact IH].
Qed.

Lemma lookup_set_other k k' v l : String.eqb k' k = false -> lookup k' (set k v l) = lookup k' l.
Proof.
  intros Hne. induction l as [|[k2 v2] r IH]; cbn [set lookup].
  - rewrite Hne. reflexivity.
  - destruct (String.eqb k k2) eqn:E; cbn [lookup].
    + apply String.eqb_eq in E. subst k2. rewrite Hne. reflexivity.
    + rewrite IH. reflexivity.
Qed.

(* ------------------------------------------------------------------ is_set / get / add_path *)
Lemma is_set_get t p : is_set t p = Some true <-> exists v, get t p = Some v /\ is_fnone v = false.
Proof.
  revert t. induction p as [|s r IH]; intros t; cbn [is_set get].
  - split.
    + intros H. exists t. split; [reflexivity|]. inversion H as [H1]. apply negb_true_iff in H1. exact H1.
    + intros [v [Hv Hn]]. inversion Hv; subst v. rewrite Hn. reflexivity.
  - destruct t as [| | |l|]; try (split; [discriminate|intros [v [Hv _]]; discriminate]).
    destruct (lookup s l) as [t'|]; [apply IH|]. split; [discriminate|intros [v [Hv _]]; discriminate].
Qed.

(* two paths part ways at some step (neither is a prefix of the other) *)
Fixpoint diverges (p q : list string) : bool :=
  match p, q with
  | x :: p', y :: q' => if String.eqb x y then diverges p' q' else true
  | _, _ => false
  end.

(* what was assigned is there *)
Lemma add_path_get_same steps : forall t k v t', add_path t steps k v = Some t' -> get t' (steps ++ [k]) = Some v.
Proof.
  induction steps as [|s r IH]; intros t k v t' E; destruct t as [| | |l|]; try discriminate; cbn [add_path] in E.
  - inversion E; subst t'. cbn [app get]. rewrite lookup_set_same. reflexivity.
  - destruct (add_path (match lookup s l with Some t0 => t0 | None => FDict [] end) r k v) as [t''|] eqn:E1; [|discriminate].
    inversion E; subst t'. cbn [app get]. rewrite lookup_set_same. exact (IH _ _ _ _ E1).
Qed.

(* what lies off the assigned path is untouched: same value, same answer of is_set (an exception included) *)
Lemma get_empty_dict q : q <> [] -> get (FDict []) q = None.
Proof. destruct q; [congruence|reflexivity]. Qed.

Lemma diverges_nonempty p q : diverges p q = true -> q <> [].
Proof. destruct p, q; cbn; congruence. Qed.

Lemma add_path_get_other steps : forall t k v t' q,
  add_path t steps k v = Some t' -> diverges (steps ++ [k]) q = true -> get t' q = get t q.
Proof.
  induction steps as [|s r IH]; intros t k v t' q E D; destruct t as [| | |l|]; try discriminate; cbn [add_path] in E.
  - inversion E; subst t'. destruct q as [|y q']; [discriminate|]. cbn [app diverges] in D.
    destruct (String.eqb k y) eqn:Eky; [destruct q'; discriminate|].
    cbn [get]. rewrite lookup_set_other; [reflexivity|]. rewrite String.eqb_sym. exact Eky.
  - destruct (add_path (match lookup s l with Some t0 => t0 | None => FDict [] end) r k v) as [t''|] eqn:E1; [|discriminate].
    inversion E; subst t'. destruct q as [|y q']; [discriminate|]. cbn [app diverges] in D. cbn [get].
    destruct (String.eqb s y) eqn:Esy.
    + apply String.eqb_eq in Esy. subst y. rewrite lookup_set_same. rewrite (IH _ _ _ _ _ E1 D).
      destruct (lookup s l) as [t0|]; [reflexivity|]. apply get_empty_dict. exact (diverges_nonempty _ _ D).
    + rewrite lookup_set_other; [reflexivity|]. rewrite String.eqb_sym. exact Esy.
Qed.

Lemma is_set_empty_dict q : q <> [] -> is_set (FDict []) q = Some false.
Proof. destruct q; [congruence|reflexivity]. Qed.

Lemma add_path_is_set_other steps : forall t k v t' q,
  add_path t steps k v = Some t' -> diverges (steps ++ [k]) q = true -> is_set t' q = is_set t q.
Proof.
  induction steps as [|s r IH]; intros t k v t' q E D; destruct t as [| | |l|]; try discriminate; cbn [add_path] in E.
  - inversion E; subst t'. destruct q as [|y q']; [discriminate|]. cbn [app diverges] in D.
    destruct (String.eqb k y) eqn:Eky; [destruct q'; discriminate|].
    cbn [is_set]. rewrite lookup_set_other; [reflexivity|]. rewrite String.eqb_sym. exact Eky.
  - destruct (add_path (match lookup s l with Some t0 => t0 | None => FDict [] end) r k v) as [t''|] eqn:E1; [|discriminate].
    inversion E; subst t'. destruct q as [|y q']; [discriminate|]. cbn [app diverges] in D. cbn [is_set].
    destruct (String.eqb s y) eqn:Esy.
    + apply String.eqb_eq in Esy. subst y. rewrite lookup_set_same. rewrite (IH _ _ _ _ _ E1 D).
      destruct (lookup s l) as [t0|]; [reflexivity|]. apply is_set_empty_dict. exact (diverges_nonempty _ _ D).
    + rewrite lookup_set_other; [reflexivity|]. rewrite String.eqb_sym. exact Esy.
Qed.

Lemma add_path_is_set_same steps t k v t' :
  add_path t steps k v = Some t' -> is_fnone v = false -> is_set t' (steps ++ [k]) = Some true.
Proof. intros E Hv. apply is_set_get. exists v. split; [exact (add_path_get_same _ _ _ _ _ E)|exact Hv]. Qed.

(* ------------------------------------------------------------------ default_if_unset *)
Lemma default_other_get f steps k v f' q :
  default_if_unset f steps k v = Some f' -> diverges (steps ++ [k]) q = true -> get f' q = get f q.
Proof.
  unfold default_if_unset. intros E D. destruct (is_set f (steps ++ [k])) as [[|]|]; [| |discriminate].
  - inversion E; reflexivity.
  - exact (add_path_get_other _ _ _ _ _ _ E D).
Qed.

Lemma default_other_is_set f steps k v f' q :
  default_if_unset f steps k v = Some f' -> diverges (steps ++ [k]) q = true -> is_set f' q = is_set f q.
Proof.
  unfold default_if_unset. intros E D. destruct (is_set f (steps ++ [k])) as [[|]|]; [| |discriminate].
  - inversion E; reflexivity.
  - exact (add_path_is_set_other _ _ _ _ _ _ E D).
Qed.

(* at its own path: the caller's value when there is one (not None), the default otherwise; never an exception left *)
Lemma default_own_get f steps k v f' :
  default_if_unset f steps k v = Some f' ->
  get f' (steps ++ [k]) = match is_set f (steps ++ [k]) with Some true => get f (steps ++ [k]) | _ => Some v end.
Proof.
  unfold default_if_unset. intros E. destruct (is_set f (steps ++ [k])) as [[|]|]; [| |discriminate].
  - inversion E; reflexivity.
  - exact (add_path_get_same _ _ _ _ _ E).
Qed.

Lemma default_sets f steps k v f' :
  default_if_unset f steps k v = Some f' -> is_fnone v = false -> is_set f' (steps ++ [k]) = Some true.
Proof.
  unfold default_if_unset. intros E Hv. destruct (is_set f (steps ++ [k])) as [[|]|] eqn:Es; [| |discriminate].
  - inversion E; subst f'. exact Es.
  - exact (add_path_is_set_same _ _ _ _ _ E Hv).
Qed.

(* ------------------------------------------------------------------ update_farg *)
(* whatever the caller's tree looks like: after update_farg the confirmation method is set *)
Theorem update_farg_method_set irt url f f' : update_farg irt url f = Some f' -> is_set f' P_METHOD = Some true.
Proof.
  unfold update_farg. destruct (falsy f).
  - intros E. inversion E; subst f'. reflexivity.
  - destruct (default_if_unset f SC "method" (FStr SCM_BEARER)) as [f1|] eqn:E1; [|discriminate].
    destruct (default_if_unset f1 SCD "in_response_to" (ostr irt)) as [f2|] eqn:E2; [|discriminate].
    intros E3.
    rewrite (default_other_is_set _ _ _ _ _ P_METHOD E3 eq_refl), (default_other_is_set _ _ _ _ _ P_METHOD E2 eq_refl).
    exact (default_sets _ _ _ _ _ E1 eq_refl).
Qed.

Definition kept_or (f : arg) (p : list string) (v : arg) : option arg :=
  if falsy f then Some v else match is_set f p with Some true => get f p | _ => Some v end.

(* ... the caller's when the caller set one, bearer otherwise *)
Theorem update_farg_method irt url f f' :
  update_farg irt url f = Some f' -> get f' P_METHOD = kept_or f P_METHOD (FStr SCM_BEARER).
Proof.
  unfold update_farg, kept_or. destruct (falsy f).
  - intros E. inversion E; subst f'. reflexivity.
  - destruct (default_if_unset f SC "method" (FStr SCM_BEARER)) as [f1|] eqn:E1; [|discriminate].
    destruct (default_if_unset f1 SCD "in_response_to" (ostr irt)) as [f2|] eqn:E2; [|discriminate].
    intros E3.
    rewrite (default_other_get _ _ _ _ _ P_METHOD E3 eq_refl), (default_other_get _ _ _ _ _ P_METHOD E2 eq_refl).
    exact (default_own_get _ _ _ _ _ E1).
Qed.

(* InResponseTo / Recipient of the confirmation data: the caller's value when set, the call argument otherwise *)
Theorem update_farg_in_response_to irt url f f' :
  update_farg irt url f = Some f' -> get f' P_IRT = kept_or f P_IRT (ostr irt).
Proof.
  unfold update_farg, kept_or. destruct (falsy f).
  - intros E. inversion E; subst f'. reflexivity.
  - destruct (default_if_unset f SC "method" (FStr SCM_BEARER)) as [f1|] eqn:E1; [|discriminate].
    destruct (default_if_unset f1 SCD "in_response_to" (ostr irt)) as [f2|] eqn:E2; [|discriminate].
    intros E3.
    rewrite (default_other_get _ _ _ _ _ P_IRT E3 eq_refl).
    change P_IRT with (SCD ++ ["in_response_to"]). rewrite (default_own_get _ _ _ _ _ E2).
    change (SCD ++ ["in_response_to"]) with P_IRT.
    rewrite (default_other_is_set _ _ _ _ _ P_IRT E1 eq_refl), (default_other_get _ _ _ _ _ P_IRT E1 eq_refl). reflexivity.
Qed.

Theorem update_farg_recipient irt url f f' :
  update_farg irt url f = Some f' -> get f' P_RECIPIENT = kept_or f P_RECIPIENT (ostr url).
Proof.
  unfold update_farg, kept_or. destruct (falsy f).
  - intros E. inversion E; subst f'. reflexivity.
  - destruct (default_if_unset f SC "method" (FStr SCM_BEARER)) as [f1|] eqn:E1; [|discriminate].
    destruct (default_if_unset f1 SCD "in_response_to" (ostr irt)) as [f2|] eqn:E2; [|discriminate].
    intros E3.
    change P_RECIPIENT with (SCD ++ ["recipient"]). rewrite (default_own_get _ _ _ _ _ E3).
    change (SCD ++ ["recipient"]) with P_RECIPIENT.
    rewrite (default_other_is_set _ _ _ _ _ P_RECIPIENT E2 eq_refl), (default_other_get _ _ _ _ _ P_RECIPIENT E2 eq_refl).
    rewrite (default_other_is_set _ _ _ _ _ P_RECIPIENT E1 eq_refl), (default_other_get _ _ _ _ _ P_RECIPIENT E1 eq_refl).
    reflexivity.
Qed.

(* ------------------------------------------------------------------ the Subject built from the completed tree *)
Lemma lookup_remove_other k k' l : String.eqb k' k = false -> lookup k' (remove_key k l) = lookup k' l.
Proof.
  intros Hne. induction l as [|[k2 v2] r IH]; [reflexivity|]. cbn [remove_key lookup].
  destruct (String.eqb k k2) eqn:E.
  - apply String.eqb_eq in E. subst k2. rewrite Hne. exact IH.
  - cbn [lookup]. rewrite IH. reflexivity.
Qed.

(* the shape of a tree in which the method is set *)
Lemma method_set_shape f :
  is_set f P_METHOD = Some true ->
  exists l0 l1 l2 l3 v,
    f = FDict l0 /\ lookup "assertion" l0 = Some (FDict l1) /\ lookup "subject" l1 = Some (FDict l2)
    /\ lookup "subject_confirmation" l2 = Some (FDict l3) /\ lookup "method" l3 = Some v /\ is_fnone v = false.
Proof.
  intros H. cbn in H.
  destruct f as [| | |l0|]; try discriminate. destruct (lookup "assertion" l0) as [a|] eqn:La; [|discriminate].
  destruct a as [| | |l1|]; try discriminate. destruct (lookup "subject" l1) as [s|] eqn:Ls; [|discriminate].
  destruct s as [| | |l2|]; try discriminate. destruct (lookup "subject_confirmation" l2) as [c|] eqn:Lc; [|discriminate].
  destruct c as [| | |l3|]; try discriminate. destruct (lookup "method" l3) as [v|] eqn:Lm; [|discriminate].
  exists l0, l1, l2, l3, v. injection H as Hv. apply negb_true_iff in Hv. repeat split; try assumption; reflexivity.
Qed.

Lemma sc_of_method noa specs v o :
  lookup "method" specs = Some v -> is_fnone v = false -> sc_of noa specs = Some o -> sc_has_method o = true.
Proof.
  intros Lm Hv E. unfold sc_of in E.
  destruct (has_key "not_on_or_after" specs); [discriminate|].
  destruct (unknown_dict _ _); [discriminate|].
  rewrite (lookup_remove_other "key_info" "method") in E by reflexivity. rewrite Lm in E.
  destruct v as [|s| | |]; try discriminate. cbn [attr_val] in E.
  destruct (child_val k_saml_BaseID _ _); [|discriminate].
  destruct (child_val k_saml_NameID _ _); [|discriminate].
  destruct (child_val k_saml_EncryptedID _ _); [|discriminate].
  destruct (lookup "subject_confirmation_data" _) as [[| | |sd|]|]; try discriminate.
  destruct (opt_eqb _ _ _).
  - destruct (lookup "key_info" specs) as [[| |t| |]|]; try discriminate.
    destruct (scd_of _ _ _); [|discriminate]. inversion E; subst o. reflexivity.
  - destruct (scd_of _ _ _); [|discriminate]. inversion E; subst o. reflexivity.
Qed.

(* every SubjectConfirmation of the Subject that comes out carries Method — for EVERY farg, in_response_to, consumer url *)
Theorem subject_method_present a o :
  subject_of a = Some o -> forallb sc_has_method (subject_confirmations o) = true.
Proof.
  unfold subject_of. destruct (update_farg _ _ _) as [f|] eqn:Eu; [|discriminate].
  destruct (method_set_shape f (update_farg_method_set _ _ _ _ Eu)) as [l0 [l1 [l2 [l3 [v [-> [La [Ls [Lc [Lm Hv]]]]]]]]]].
  cbn [get]. rewrite La, Ls. destruct (_ || _); [discriminate|]. rewrite Lc.
  destruct (sc_of _ l3) as [sc|] eqn:Es; [|discriminate]. intros E. inversion E; subst o.
  cbn. rewrite (sc_of_method _ _ _ _ Lm Hv Es). reflexivity.
Qed.

(* ------------------------------------------------------------------ structural validity of that Subject *)
Definition ci_SC := Eval vm_compute in get_ci k_saml_SubjectConfirmation.
Lemma at_SC : class_at live_table k_saml_SubjectConfirmation = Some ci_SC. Proof. class_fact. Qed.
Definition ci_SCD := Eval vm_compute in get_ci k_saml_SubjectConfirmationData.
Lemma at_SCD : class_at live_table k_saml_SubjectConfirmationData = Some ci_SCD. Proof. class_fact. Qed.
Definition ci_fNameID := Eval vm_compute in get_ci k_saml_NameID.
Lemma at_fNameID : class_at live_table k_saml_NameID = Some ci_fNameID. Proof. class_fact. Qed.

(* the domain: a str leaf has the lexical form of the attribute it becomes; an instance is a valid one *)
Definition lex_of (ty : lexty) (o : option arg) : bool :=
  match o with Some (FStr s) => check_lex ty s | _ => true end.

Definition inst_valid (k : nat) (x : arg) : bool :=
  match x with FInst t => valid live_table (CK k) t | _ => true end.

Definition inst_ok (k : nat) (o : option arg) : bool :=
  match o with
  | Some (FInst t) => valid live_table (CK k) t
  | Some (FList l) => (length l <=? 1) && forallb (inst_valid k) l
  | _ => true
  end.

Definition scd_dom (d : list (string * arg)) : bool :=
  lex_of LDateTime (lookup "not_before" d) && lex_of LNCName (lookup "in_response_to" d).

Definition sc_dom (specs : list (string * arg)) : bool :=
  inst_ok k_saml_BaseID (lookup "base_id" specs) && inst_ok k_saml_NameID (lookup "name_id" specs)
  && inst_ok k_saml_EncryptedID (lookup "encrypted_id" specs)
  && match lookup "subject_confirmation_data" specs with Some (FDict sd) => scd_dom sd | _ => true end
  && match lookup "key_info" specs with Some (FInst t) => ext_ok live_table ci_SCD t | _ => true end.

Lemma attr_val_lex ty o v : attr_val o = Some v -> lex_of ty o = true -> opt_lexb ty v = true.
Proof.
  destruct o as [[|s| | |]|]; cbn; intros E H; inversion E; subst v; cbn; try reflexivity. exact H.
Qed.

Lemma owf_scd noa ext d o :
  scd_of noa ext d = Some o -> check_lex LDateTime noa = true -> scd_dom d = true ->
  forallb (ext_ok live_table ci_SCD) ext = true ->
  obj_cref o = CK k_saml_SubjectConfirmationData /\ owf live_table o = true.
Proof.
  unfold scd_of, scd_dom. intros E Hnoa Hd Hext. apply andb_true_iff in Hd as [Hnb Hirt].
  destruct (unknown_dict _ d); [discriminate|].
  assert (E' : match attr_val (lookup "not_before" d), attr_val (lookup "recipient" d), attr_val (lookup "in_response_to" d),
                     attr_val (lookup "address" d) with
               | Some nb, Some rc, Some irt, Some ad =>
                   Some (Obj k_saml_SubjectConfirmationData
                             [at_ "NotBefore" nb; at_ "NotOnOrAfter" (Some noa); at_ "Recipient" rc; at_ "InResponseTo" irt;
                              at_ "Address" ad] None [] ext)
               | _, _, _, _ => None
               end = Some o).
  { destruct (lookup "not_on_or_after" d) as [[| | | |]|]; try exact E. discriminate. }
  clear E.
  destruct (attr_val (lookup "not_before" d)) as [nb|] eqn:Enb; [|discriminate].
  destruct (attr_val (lookup "recipient" d)) as [rc|]; [|discriminate].
  destruct (attr_val (lookup "in_response_to" d)) as [irt|] eqn:Eirt; [|discriminate].
  destruct (attr_val (lookup "address" d)) as [ad|]; [|discriminate].
  inversion E'; subst o. split; [reflexivity|].
  pose proof (attr_val_lex _ _ _ Enb Hnb) as Lnb. pose proof (attr_val_lex _ _ _ Eirt Hirt) as Lirt.
  node' at_SCD ci_SCD. unfold ci_SCD in Hext. rewrite Hext, Hnoa.
  destruct nb, irt, rc, ad; cbn [opt_lexb] in Lnb, Lirt; rewrite ?Lnb, ?Lirt; reflexivity.
Qed.

Lemma owf_name_id_of d o : name_id_of d = Some o -> obj_cref o = CK k_saml_NameID /\ owf live_table o = true.
Proof.
  unfold name_id_of. destruct (unknown_dict _ d); [discriminate|].
  destruct (attr_val (lookup "name_qualifier" d)) as [nq|]; [|discriminate].
  destruct (attr_val (lookup "sp_name_qualifier" d)) as [spnq|]; [|discriminate].
  destruct (attr_val (lookup "format" d)) as [fmt|]; [|discriminate].
  destruct (attr_val (lookup "sp_provided_id" d)) as [spid|]; [|discriminate].
  destruct (attr_val (lookup "text" d)) as [text|]; [|discriminate].
  intros E. inversion E; subst o. split; [reflexivity|].
  node' at_fNameID ci_fNameID. destruct nq, spnq, fmt, spid; reflexivity.
Qed.

Lemma insts_spec k l ts :
  insts l = Some ts -> forallb (inst_valid k) l = true ->
  length ts = length l /\ Forall (fun x => obj_cref x = CK k /\ owf live_table x = true) (map (ORaw (CK k)) ts).
Proof.
  revert ts. induction l as [|x r IH]; intros ts E H.
  - inversion E. split; [reflexivity|constructor].
  - destruct x as [| |t| |]; try discriminate. cbn [insts] in E. destruct (insts r) as [ts'|]; [|discriminate].
    inversion E; subst ts. cbn [forallb inst_valid] in H. apply andb_true_iff in H as [Ht Hr].
    destruct (IH ts' eq_refl Hr) as [Hl Hf]. split; [cbn; rewrite Hl; reflexivity|].
    constructor; [split; [reflexivity|exact Ht]|exact Hf].
Qed.

Lemma child_val_all k mk o l :
  child_val k mk o = Some l -> inst_ok k o = true ->
  (forall d x, mk d = Some x -> obj_cref x = CK k /\ owf live_table x = true) ->
  Forall (fun x => obj_cref x = CK k /\ owf live_table x = true) l /\ length l <= 1.
Proof.
  intros E H Hmk. destruct o as [[|s|t|d|l0]|]; cbn [child_val] in E; try discriminate.
  - inversion E. split; [constructor|cbn; lia].
  - inversion E. split; [|cbn; lia]. constructor; [|constructor]. split; [reflexivity|exact H].
  - destruct (mk d) as [x|] eqn:Ex; [|discriminate]. inversion E. split; [|cbn; lia].
    constructor; [exact (Hmk _ _ Ex)|constructor].
  - destruct (insts l0) as [ts|] eqn:Ei; [|discriminate]. inversion E. cbn [inst_ok] in H.
    apply andb_true_iff in H as [Hlen Hv]. destruct (insts_spec k _ _ Ei Hv) as [Hl Hf]. split; [exact Hf|].
    rewrite map_length, Hl. apply Nat.leb_le. exact Hlen.
  - inversion E. split; [constructor|cbn; lia].
Qed.

Lemma member_part k (l : list obj) :
  Forall (fun x => obj_cref x = CK k /\ owf live_table x = true) l -> length l <= 1 ->
  (Datatypes.length (map (fun x : obj => (obj_cref x, owf live_table x)) l) <=? 1)
  && forallb (fun cb : cref * bool => cref_eqb (fst cb) (CK k) && snd cb)
       (map (fun x : obj => (obj_cref x, owf live_table x)) l) = true.
Proof.
  intros Hf Hl. rewrite map_length. rewrite (members_all _ _ Hf). apply Nat.leb_le in Hl. rewrite Hl. reflexivity.
Qed.

Lemma no_dict_ok k d x : no_dict d = Some x -> obj_cref x = CK k /\ owf live_table x = true.
Proof. discriminate. Qed.

Lemma owf_sc noa specs v o :
  lookup "method" specs = Some v -> is_fnone v = false ->
  sc_of noa specs = Some o -> check_lex LDateTime noa = true -> sc_dom specs = true ->
  obj_cref o = CK k_saml_SubjectConfirmation /\ owf live_table o = true.
Proof.
  unfold sc_of, sc_dom. intros Lm Hv E Hnoa Hd.
  apply andb_true_iff in Hd as [Hd Hki]. apply andb_true_iff in Hd as [Hd Hsd]. apply andb_true_iff in Hd as [Hd He].
  apply andb_true_iff in Hd as [Hb Hn].
  destruct (has_key "not_on_or_after" specs); [discriminate|].
  destruct (unknown_dict _ _); [discriminate|].
  rewrite !(lookup_remove_other "key_info") in E by reflexivity.
  rewrite Lm in E. destruct v as [|ms| | |]; try discriminate. cbn [attr_val] in E. clear Lm Hv.
  destruct (child_val k_saml_BaseID no_dict _) as [b|] eqn:Eb; [|discriminate].
  destruct (child_val k_saml_NameID name_id_of _) as [n|] eqn:En; [|discriminate].
  destruct (child_val k_saml_EncryptedID no_dict _) as [e|] eqn:Ee; [|discriminate].
  destruct (lookup "subject_confirmation_data" specs) as [[| | |sd|]|]; try discriminate.
  destruct (child_val_all _ _ _ _ Eb Hb (no_dict_ok _)) as [Fb Lb].
  destruct (child_val_all _ _ _ _ En Hn owf_name_id_of) as [Fn Ln].
  destruct (child_val_all _ _ _ _ Ee He (no_dict_ok _)) as [Fe Le].
  pose proof (member_part _ _ Fb Lb) as Pb. pose proof (member_part _ _ Fn Ln) as Pn. pose proof (member_part _ _ Fe Le) as Pe.
  assert (Hbuild : forall ext scd, scd_of noa ext sd = Some scd -> forallb (ext_ok live_table ci_SCD) ext = true ->
            owf live_table (Obj k_saml_SubjectConfirmation [at_ "Method" (Some ms)] None
                 [(qa "BaseID", b); (qa "NameID", n); (qa "EncryptedID", e); (qa "SubjectConfirmationData", [scd])] []) = true).
  { intros ext scd Es Hx. destruct (owf_scd _ _ _ _ Es Hnoa Hsd Hx) as [Cs Os].
    node' at_SC ci_SC. uk. unfold k_saml_BaseID, k_saml_EncryptedID, k_saml_SubjectConfirmationData in *.
    rewrite Pb, Pn, Pe, Cs, Os. reflexivity. }
  destruct (opt_eqb String.eqb (Some ms) (Some SCM_HOLDER_OF_KEY)).
  - destruct (lookup "key_info" specs) as [[| |t| |]|]; try discriminate.
    destruct (scd_of noa [t] sd) as [scd|] eqn:Es; [|discriminate]. inversion E; subst o. split; [reflexivity|].
    apply (Hbuild [t] scd Es). cbn [forallb]. rewrite Hki. reflexivity.
  - destruct (scd_of noa [] sd) as [scd|] eqn:Es; [|discriminate]. inversion E; subst o. split; [reflexivity|].
    exact (Hbuild [] scd Es eq_refl).
Qed.

(* what is assumed of the call: the not-on-or-after instant is a dateTime, the NameID instance of the subject is valid,
   and the leaves of the COMPLETED tree (the caller's values and the defaults: in_response_to, consumer url) have the
   lexical form of the attribute they become *)
Definition fa_dom (a : fa_args) : bool :=
  check_lex LDateTime (fa_not_on_or_after a)
  && opt_valid k_saml_NameID (fa_name_id a)
  && match update_farg (fa_in_response_to a) (fa_consumer_url a) (fa_farg a) with
     | Some f => match get f SC with Some (FDict specs) => sc_dom specs | _ => true end
     | None => true
     end.

Theorem owf_subject a o : subject_of a = Some o -> fa_dom a = true -> owf live_table o = true.
Proof.
  unfold subject_of, fa_dom. destruct (update_farg _ _ _) as [f|] eqn:Eu; [|discriminate].
  destruct (method_set_shape f (update_farg_method_set _ _ _ _ Eu)) as [l0 [l1 [l2 [l3 [v [-> [La [Ls [Lc [Lm Hv]]]]]]]]]].
  cbn [get SC]. rewrite La, Ls, Lc. destruct (_ || _); [discriminate|].
  destruct (sc_of _ l3) as [sc|] eqn:Es; [|discriminate]. intros E Hd. inversion E; subst o.
  apply andb_true_iff in Hd as [Hd Hsc]. apply andb_true_iff in Hd as [Hnoa Hnid].
  destruct (owf_sc _ _ _ _ Lm Hv Es Hnoa Hsc) as [Cs Os].
  unfold subject_obj. node' at_Subject ci_Subject. uk. unfold k_saml_SubjectConfirmation in *.
  rewrite Cs, Os.
  destruct (fa_name_id a) as [t|]; cbn -[owf valid]; [cbn [opt_valid] in Hnid; rewrite (owf_raw _ _ Hnid)|]; reflexivity.
Qed.

From Verif Require Import C13.Spec C13.SpecProofs.

(* ... hence the Subject element is valid as the class tables (the schema's SubjectType) have it *)
Theorem subject_valid a o :
  subject_of a = Some o -> fa_dom a = true -> valid live_table (CK k_saml_Subject) (to_tree live_table o) = true.
Proof.
  intros E Hd. pose proof (owf_valid live_table table_ok o (owf_subject a o E Hd)) as Hv.
  replace (obj_cref o) with (CK k_saml_Subject) in Hv; [exact Hv|].
  unfold subject_of in E. destruct (update_farg _ _ _); [|discriminate].
  destruct (get _ _) as [[| | |sd|]|]; try discriminate. destruct (_ || _); [discriminate|].
  destruct (lookup "subject_confirmation" sd) as [[| | |specs|l]|]; try discriminate.
  - destruct (sc_of _ _); [|discriminate]. inversion E. reflexivity.
  - destruct (scs_of _ _); [|discriminate]. inversion E. reflexivity.
Qed.

(* the default path: no farg (None, {}), any in_response_to that is an NCName, any consumer url *)
Theorem subject_default_valid irt url nid noa f :
  falsy f = true -> opt_lexb LNCName irt = true -> check_lex LDateTime noa = true -> opt_valid k_saml_NameID nid = true ->
  exists o, subject_of {| fa_farg := f; fa_in_response_to := irt; fa_consumer_url := url; fa_name_id := nid;
                          fa_not_on_or_after := noa |} = Some o
            /\ valid live_table (CK k_saml_Subject) (to_tree live_table o) = true.
Proof.
  intros Hf Hirt Hnoa Hnid.
  set (a := {| fa_farg := f; fa_in_response_to := irt; fa_consumer_url := url; fa_name_id := nid; fa_not_on_or_after := noa |}).
  assert (E : exists o, subject_of a = Some o).
  { unfold subject_of, update_farg. cbn [fa_farg fa_in_response_to fa_consumer_url a]. rewrite Hf.
    destruct irt, url; cbn; eexists; reflexivity. }
  destruct E as [o E]. exists o. split; [exact E|]. apply (subject_valid a o E).
  unfold fa_dom, update_farg. cbn [fa_farg fa_in_response_to fa_consumer_url fa_not_on_or_after fa_name_id a].
  rewrite Hf, Hnoa, Hnid. destruct irt as [s|]; cbn in Hirt |- *; [unfold sc_dom, scd_dom; cbn; rewrite Hirt|]; reflexivity.
Qed.

(* non-vacuity: a caller who only adds an Address (the method is left to the library) gets a valid Subject with
   Method = bearer, the address, and both defaults *)
Definition sample_farg : arg :=
  FDict [("assertion", FDict [("subject", FDict [("subject_confirmation",
     FDict [("subject_confirmation_data", FDict [("address", FStr "192.0.2.7")])])])])].
Definition sample_fa : fa_args :=
  {| fa_farg := sample_farg; fa_in_response_to := Some "id-1"; fa_consumer_url := Some "https://sp.example.org/acs";
     fa_name_id := None; fa_not_on_or_after := "2023-11-14T22:28:20Z" |}.

Example sample_fa_built :
  fa_dom sample_fa = true /\
  subject_tree sample_fa =
  Some (Node (qa "Subject") [] ""
          [Node (qa "SubjectConfirmation") [(Q "" "Method", SCM_BEARER)] ""
             [Node (qa "SubjectConfirmationData")
                   [(Q "" "NotOnOrAfter", "2023-11-14T22:28:20Z"); (Q "" "Recipient", "https://sp.example.org/acs");
                    (Q "" "InResponseTo", "id-1"); (Q "" "Address", "192.0.2.7")] "" []]]).
Proof. split; vm_compute; reflexivity. Qed.
