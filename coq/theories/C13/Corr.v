(* C13/Corr.v — correspondence runner. *)
From Coq Require Import String List Bool Arith NArith.
From Verif Require Import Base.Str Base.Run C13.Model C13.Builders C13.Lex C13.Extra C13.Farg C13.Release.
From VerifGen Require Import C13Tables.
Import ListNotations.
Open Scope string_scope.

(* verdict of saml2.validate.valid_instance: accepted / rejected / the validator itself raised / not applicable *)
Inductive vi := VTrue | VFalse | VCrash | VNA.

(* the generators of lexical values: instant(time_stamp=ts) and sid() as observed *)
Inductive extra := XNone | XInstant (ts : N) (s : string) | XSid (s : string).

Record case := mk {
  c_x : extra;
  c_b : binfo;              (* abstract arguments of a modelled builder, or BOther *)
  c_xb : xinfo;             (* the same for the builders of Extra.v (argument-level models), or XBNone *)
  c_fa : option fa_args;    (* create_authn_response / create_attribute_response / setup_assertion: the farg argument
                               tree with what update_farg completes it from (Farg.v), or None *)
  c_enc : option enc_args;  (* create_authn_response / create_authn_request_response / create_attribute_response: the
                               encryption arguments, the relevant configuration and whether the service provider's
                               metadata has an encryption certificate (Release.v part 1), or None *)
  c_ept : option (ept_args * bool);   (* the identity holds eduPersonTargetedID and the converter in force maps it to the
                               oid: the value as the caller wrote it (Release.v part 2) and whether the policy releases it *)
  c_tree : option tree;     (* the emitted document (None: the call raised, nothing was emitted) *)
  c_xsd : bool;             (* saml2.xml.schema.validate accepts *)
  c_xsd_ext : bool;         (* the shipped XSDs incl. the extension schemas accept *)
  c_vi : vi;
  c_mut : nat               (* 0: as emitted.  Otherwise the tree carries one injected defect and the verdicts are those
                               for the mutated text: 1 = a defect of a kind the structural validator claims to see
                               (order, undeclared / malformed / missing-required attribute, stray text, foreign or
                               surplus child, missing required child); 2 = a defect beyond the class tables (an optional
                               member or attribute removed, a repeatable member repeated): no claim *)
}.

Definition oracle_ok (c : case) : bool := c_xsd c && c_xsd_ext c.

(* the class tables, and what the schema documents add that a builder can get wrong: xs:ID uniqueness, the type an
   xsi:type names, the choice groups (Extra.doc_ok) *)
Definition struct_ok (c : case) : bool :=
  match c_tree c with Some t => doc_ok t | None => true end.

Definition shape_agrees1 (m : option (option tree)) (c : case) : bool :=
  match m with
  | None => true
  | Some None => match c_tree c with None => true | Some _ => false end
  | Some (Some m) =>
      match c_tree c with
      | Some t => tree_eqb m t
      | None => false
      end
  end.

Definition shape_agrees (c : case) : bool :=
  shape_agrees1 (model_tree (c_b c)) c && shape_agrees1 (xmodel_tree (c_xb c)) c.

Definition sid_shape (s : string) : bool :=
  match s with
  | String a (String b (String c r)) =>
      String.eqb (String a (String b (String c EmptyString))) "id-" && Nat.eqb (String.length r) 17 && all_chars alnum r
  | _ => false
  end.

Definition lex_agrees (c : case) : bool :=
  match c_x c with
  | XNone => true
  | XInstant ts s => String.eqb (instant ts) s && check_lex LDateTime s
  | XSid s => sid_shape s && check_lex LNCName s
  end.

(* the Subject of every Assertion that the document carries in the clear (a Response's, or a bare Assertion's) is
   the one Farg.subject_of builds from the caller's farg; the model raises exactly when the call raised *)
Definition tagged (ns local : string) (t : tree) : bool := qeqb (root_tag t) (Q ns local).

Definition subjects_of_doc (t : tree) : list tree :=
  let asserts := if tagged SAML_NS "Assertion" t then [t] else filter (tagged SAML_NS "Assertion") (root_kids t) in
  flat_map (fun a => filter (tagged SAML_NS "Subject") (root_kids a)) asserts.

Definition farg_agrees (c : case) : bool :=
  match c_fa c with
  | None => true
  | Some a =>
      match subject_tree a, c_tree c with
      | None, None => true
      | Some m, Some t => match subjects_of_doc t with [] => false | l => forallb (tree_eqb m) l end
      | _, _ => false
      end
  end.

(* which assertion sits in an EncryptedAssertion, encrypted or not, is what Release.enc_plan says for the arguments;
   the eduPersonTargetedID Attribute is the one Release.ept_attribute builds from the identity's value; the models
   raise exactly when the call raised *)
Definition release_agrees (c : case) : bool :=
  match c_enc c with Some a => enc_agrees a (c_tree c) | None => true end
  && match c_ept c with Some (a, released) => ept_agrees a released (c_tree c) | None => true end.

Definition agrees (c : case) : bool :=
  lex_agrees c && farg_agrees c && release_agrees c &&
  match c_tree c with None => shape_agrees c | Some _ =>
  match c_mut c with
  | O => Bool.eqb (struct_ok c) (oracle_ok c) && shape_agrees c
  | S O => oracle_ok c || negb (struct_ok c)
  | _ => true
  end
  end.

Definition holds (c : case) : bool :=
  if negb (Nat.eqb (c_mut c) 0) then true
  else match c_tree c with
       | None => true
       | Some _ => oracle_ok c && match c_vi c with VTrue | VNA => true | _ => false end
       end.

(* ---- known-finding classes (consulted only when [holds] is false) ---- *)
Fixpoint any_node (p : tree -> bool) (t : tree) : bool :=
  p t || match t with Node _ _ _ kids =>
           (fix go (l : list tree) : bool := match l with [] => false | x :: r => any_node p x || go r end) kids
         end.

Definition is_tag (ns local : string) (t : tree) : bool := qeqb (root_tag t) (Q ns local).
Definition has_a (ns local : string) (t : tree) : bool := has_attr (Q ns local) (root_attrs t).
Definition has_kid (ns local : string) (t : tree) : bool := existsb (is_tag ns local) (root_kids t).
Definition root_text (t : tree) : string := match t with Node _ _ x _ => x end.

Definition SAML := "urn:oasis:names:tc:SAML:2.0:assertion".
Definition SAMLP := "urn:oasis:names:tc:SAML:2.0:protocol".
Definition ECP := "urn:oasis:names:tc:SAML:2.0:profiles:SSO:ecp".
Definition MDUI := "urn:oasis:names:tc:SAML:metadata:ui".
Definition SOAPENV := "http://schemas.xmlsoap.org/soap/envelope/".
Definition XMLNS := "http://www.w3.org/XML/1998/namespace".

Definition cls_tree (v : vi) (t : tree) : nat :=
  (* 1: create_name_id_mapping_response never sets Status *)
  if is_tag SAMLP "NameIDMappingResponse" t && negb (has_kid SAMLP "Status" t) then 1
  (* 2: create_authz_decision_query_using_assertion builds Action without the required Namespace *)
  else if any_node (fun n => is_tag SAML "Action" n && negb (has_a "" "Namespace" n)) t then 2
  (* 3: create_ecp_authn_request_response: ecp:Response header block without mustUnderstand / actor *)
  else if any_node (fun n => is_tag ECP "Response" n && negb (has_a SOAPENV "mustUnderstand" n && has_a SOAPENV "actor" n)) t then 3
  (* 5: do_uiinfo: localized mdui elements from plain strings carry no xml:lang *)
  else if any_node (fun n => String.eqb (q_ns (root_tag n)) MDUI
                             && mem (q_local (root_tag n)) ["DisplayName"; "Description"; "InformationURL"; "PrivacyStatementURL"; "Keywords"]
                             && negb (has_a XMLNS "lang" n)) t then 5
  (* 6: the PEFIM advice assertion is built without Issuer *)
  else if any_node (fun n => is_tag SAML "Advice" n
                             && existsb (fun k => is_tag SAML "Assertion" k && negb (has_kid SAML "Issuer" k)) (root_kids n)) t then 6
  (* 7: authn_statement puts subject_locality into the text of the (empty) SubjectLocality element *)
  else if any_node (fun n => is_tag SAML "SubjectLocality" n && negb (all_chars is_xws (root_text n))) t then 7
  (* 4: valid_instance raises KeyError on an empty typed AttributeValue *)
  else match v with
       | VCrash => if any_node (fun n => is_tag SAML "AttributeValue" n && is_empty (root_text n)
                                         && has_a XSI "type" n && negb (has_a XSI "nil" n)) t then 4 else 0
       | _ => 0
       end.

(* 8 (repaired by bf274fc5; recognises a regression): do_attributes read a plain two-item value (a list of two
   values, a str of two characters) as (value, type).  The class is defined on the INPUT: the call has such a value,
   the implementation's output is exactly what the model of the OLD do_attributes (unpack_v0) computes for it, and
   that output names a type that does not exist. *)
Definition cls_misread (c : case) : bool :=
  match c_xb c, c_tree c with
  | XBAttributeQuery a specs, Some t =>
      existsb (fun ks => misread (snd ks)) specs && shape_agrees1 (xmodel_tree_v0 (c_xb c)) c && negb (xsi_ok t)
  | _, _ => false
  end.

Definition attr_of (n : qname) (t : tree) : option string :=
  match find (fun kv => qeqb (fst kv) n) (root_attrs t) with Some kv => Some (snd kv) | None => None end.

(* 9 (repaired by 8ef9e86e; recognises a regression): create_authn_query_response built all its assertions from ONE
   message_args(): a Response with two or more
   assertions of exactly that make (Issuer, Subject, AuthnStatement) under one and the same ID *)
Definition cls_shared_margs (t : tree) : bool :=
  is_tag SAMLP "Response" t &&
  let asserts := filter (is_tag SAML "Assertion") (root_kids t) in
  match asserts with
  | a1 :: _ :: _ =>
      forallb (fun a => opt_eqb String.eqb (attr_of (Q "" "ID") a) (attr_of (Q "" "ID") a1)
                        && list_eqb qeqb (map root_tag (root_kids a)) [Q SAML "Issuer"; Q SAML "Subject"; Q SAML "AuthnStatement"])
              asserts
  | _ => false
  end.

(* 10 (repaired by 711f9f2e; recognises a regression): create_requested_attribute_node inferred a missing NameFormat
   only while it inferred a missing name or friendly name: an attribute given with name AND friendly_name but without
   name_format - although a loaded map knows the name - was written without the required NameFormat.  The class is
   defined on the INPUT (the attributes in force of the call hold such an item) and on the output being exactly what
   the model of the OLD code (Builders.authn_request_v0) computes for it. *)
Definition EIDAS := "http://eidas.europa.eu/saml-extensions".

Definition both_no_format (cs : list conv) (r : rattr) : bool :=
  struthy (rq_name r) && struthy (rq_friendly r) && negb (match rq_format r with Some _ => true | None => false end)
  && match rq_name r with Some n => match first_hit cv_fro (lower n) cs with Some _ => true | None => false end | None => false end.

Definition cls_no_format (c : case) : bool :=
  match c_b c, c_tree c with
  | BAuthnRequest a, Some t =>
      existsb (both_no_format (ar_convs a)) (match ar_reqattrs a with [] => ar_cfg_reqattrs a | l => l end)
      && shape_agrees1 (Some (match authn_request_v0 a with Some o => Some (to_tree live_table o) | None => None end)) c
      && any_node (fun n => is_tag EIDAS "RequestedAttribute" n && has_a "" "Name" n && negb (has_a "" "NameFormat" n)) t
  | _, _ => false
  end.

Definition cls (c : case) : nat :=
  match c_tree c with
  | Some t => match cls_tree (c_vi c) t with
              | 0 => if cls_misread c then 8 else if cls_shared_margs t then 9 else if cls_no_format c then 10 else 0
              | k => k
              end
  | None => 0
  end.

Definition run := run_cases agrees holds cls.

Definition explain (c : case) :=
  (struct_ok c, oracle_ok c, shape_agrees c,
   match c_tree c with
   | Some t => match elem_class live_table (root_tag t) with
               | Some k => first_bad live_table (CK k) t
               | None => ["<no element class for the root>"]
               end
   | None => []
   end,
   match model_tree (c_b c), xmodel_tree (c_xb c) with Some (Some m), _ => Some m | _, Some (Some m) => Some m | _, _ => None end,
   match c_tree c with
   | Some t => (valid_doc live_table t, ids_unique live_table live_ids t, xsi_ok t, choices_ok live_table choice_rules t)
   | None => (true, true, true, true)
   end,
   (farg_agrees c, match c_fa c with Some a => subject_tree a | None => None end),
   (release_agrees c, match c_enc c with Some a => Some (enc_plan a) | None => None end,
    match c_ept c with Some (a, _) => ept_tree a | None => None end)).
