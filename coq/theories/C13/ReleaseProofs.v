(* C13/ReleaseProofs.v — Release.v part 1: whatever the arguments, the configuration and the metadata, no assertion is
   left in an EncryptedAssertion without having been encrypted (such an element is invalid: shown from the live class
   table), and each of the two encryptions depends on its own certificate only.  Part 2: the eduPersonTargetedID
   Attribute is valid for every value the converter accepts, and the NameID it writes carries nothing but Format and the
   two qualifiers. *)
From Coq Require Import String Ascii List Bool Arith NArith Lia.
From Verif Require Import Base.Str C13.Model C13.Builders C13.Proofs C13.BuilderProofs C13.Extra C13.ExtraProofs C13.Release.
From VerifGen Require Import C13Tables.
Import ListNotations.
Open Scope string_scope.
Open Scope list_scope.
Open Scope nat_scope.

(* ================================================================== Part 1 *)
(* a guard that lets the request through has seen the certificate _encrypt_assertion is going to use *)
Lemma guard_enc_finds a e : guard_enc a e = true -> finds_cert a (eff_cert_ass a) = true.
Proof.
  unfold guard_enc, finds_cert. destruct (ea_md a), (eff_cert_ass a); cbn; try reflexivity. discriminate.
Qed.

Lemma guard_adv_finds a d : guard_adv a d = true -> finds_cert a (eff_cert_adv a) = true.
Proof.
  unfold guard_adv, finds_cert. destruct (ea_md a), (eff_cert_adv a); cbn; try reflexivity. discriminate.
Qed.

(* what the plan is, in closed form *)
Lemma enc_plan_closed a e d :
  gathered a = Some (e, d) ->
  enc_plan a = Some (if guard_enc a e then SEnc else SClear,
                     if eff_pefim a then Some (if guard_adv a d then SEnc else SClear) else None).
Proof.
  intros G. unfold enc_plan, advice_n. rewrite G.
  destruct (guard_enc a e) eqn:Ge; destruct (eff_pefim a); cbn [Nat.eqb Nat.ltb Nat.leb andb orb];
    try rewrite (guard_enc_finds _ _ Ge); cbn [wrapped]; try reflexivity;
    destruct (guard_adv a d) eqn:Gd; cbn [andb orb]; try rewrite (guard_adv_finds _ _ Gd); reflexivity.
Qed.

Lemma enc_plan_some a p : enc_plan a = Some p -> exists e d, gathered a = Some (e, d).
Proof. unfold enc_plan. destruct (gathered a) as [[e d]|]; [intros _; exists e, d; reflexivity|discriminate]. Qed.

(* the property: never a prepared-but-unencrypted wrapper, for the main assertion or for the one in its Advice *)
Theorem enc_plan_no_clear_wrapper a m v :
  enc_plan a = Some (m, v) -> m <> SWrapped /\ v <> Some SWrapped.
Proof.
  intros E. destruct (enc_plan_some _ _ E) as [e [d G]]. rewrite (enc_plan_closed _ _ _ G) in E. inversion E; subst m v.
  split.
  - destruct (guard_enc a e); discriminate.
  - destruct (eff_pefim a); [|discriminate]. destruct (guard_adv a d); discriminate.
Qed.

(* the main assertion is encrypted exactly when that was asked for and there is a certificate FOR THE ASSERTION: the one
   handed in for it, or the metadata's.  The certificate for the advice plays no part. *)
Theorem enc_plan_main a e d m v :
  gathered a = Some (e, d) -> enc_plan a = Some (m, v) ->
  m = if e && (ea_md a || eff_cert_ass a) then SEnc else SClear.
Proof.
  intros G E. rewrite (enc_plan_closed _ _ _ G) in E. inversion E. unfold guard_enc.
  destruct e, (ea_md a), (eff_cert_ass a); reflexivity.
Qed.

(* ... and the assertion inside the Advice (PEFIM) exactly when there is a certificate FOR THE ADVICE *)
Theorem enc_plan_advice a e d m v :
  gathered a = Some (e, d) -> enc_plan a = Some (m, v) ->
  v = if eff_pefim a then Some (if d && (ea_md a || eff_cert_adv a) then SEnc else SClear) else None.
Proof.
  intros G E. rewrite (enc_plan_closed _ _ _ G) in E. inversion E. unfold guard_adv.
  destruct (eff_pefim a); [|reflexivity]. destruct d, (ea_md a), (eff_cert_adv a); reflexivity.
Qed.

(* handing in (or leaving out) the OTHER certificate changes nothing about an encryption: the two guards are independent *)
Definition with_cert_adv (a : enc_args) (b : bool) : enc_args :=
  {| ea_entry := ea_entry a; ea_md := ea_md a; ea_enc_kw := ea_enc_kw a; ea_enc_cfg := ea_enc_cfg a; ea_adv_kw := ea_adv_kw a;
     ea_adv_cfg := ea_adv_cfg a; ea_pefim := ea_pefim a; ea_cert_adv := b; ea_cert_ass := ea_cert_ass a;
     ea_verify_adv := ea_verify_adv a; ea_verify_ass := ea_verify_ass a |}.
Definition with_cert_ass (a : enc_args) (b : bool) : enc_args :=
  {| ea_entry := ea_entry a; ea_md := ea_md a; ea_enc_kw := ea_enc_kw a; ea_enc_cfg := ea_enc_cfg a; ea_adv_kw := ea_adv_kw a;
     ea_adv_cfg := ea_adv_cfg a; ea_pefim := ea_pefim a; ea_cert_adv := ea_cert_adv a; ea_cert_ass := b;
     ea_verify_adv := ea_verify_adv a; ea_verify_ass := ea_verify_ass a |}.

Lemma gathered_fst_cert_adv a b e d e' d' :
  gathered a = Some (e, d) -> gathered (with_cert_adv a b) = Some (e', d') -> e' = e /\ d' = d.
Proof.
  unfold gathered, with_cert_adv; cbn [ea_entry ea_enc_kw ea_enc_cfg ea_adv_kw ea_adv_cfg ea_pefim ea_cert_adv ea_cert_ass
                                       ea_verify_adv ea_verify_ass].
  destruct (ea_entry a).
  - destruct (_ && _); [|discriminate]. destruct (_ && _); [|discriminate]. intros H1 H2. inversion H1; inversion H2; subst.
    split; reflexivity.
  - destruct (_ && _); [|discriminate]. intros H1 H2. inversion H1; inversion H2; subst. split; reflexivity.
  - intros H1 H2. inversion H1; inversion H2; subst. split; reflexivity.
Qed.

Lemma gathered_fst_cert_ass a b e d e' d' :
  gathered a = Some (e, d) -> gathered (with_cert_ass a b) = Some (e', d') -> e' = e /\ d' = d.
Proof.
  unfold gathered, with_cert_ass; cbn [ea_entry ea_enc_kw ea_enc_cfg ea_adv_kw ea_adv_cfg ea_pefim ea_cert_adv ea_cert_ass
                                       ea_verify_adv ea_verify_ass].
  destruct (ea_entry a).
  - destruct (_ && _); [|discriminate]. destruct (_ && _); [|discriminate]. intros H1 H2. inversion H1; inversion H2; subst.
    split; reflexivity.
  - destruct (_ && _); [|discriminate]. intros H1 H2. inversion H1; inversion H2; subst. split; reflexivity.
  - intros H1 H2. inversion H1; inversion H2; subst. split; reflexivity.
Qed.

Theorem enc_main_independent_of_advice_cert a b m v m' v' :
  enc_plan a = Some (m, v) -> enc_plan (with_cert_adv a b) = Some (m', v') -> m' = m.
Proof.
  intros E E'. destruct (enc_plan_some _ _ E) as [e [d G]]. destruct (enc_plan_some _ _ E') as [e' [d' G']].
  destruct (gathered_fst_cert_adv _ _ _ _ _ _ G G') as [-> ->].
  rewrite (enc_plan_main _ _ _ _ _ G E), (enc_plan_main _ _ _ _ _ G' E'). reflexivity.
Qed.

Theorem enc_advice_independent_of_assertion_cert a b m v m' v' :
  enc_plan a = Some (m, v) -> enc_plan (with_cert_ass a b) = Some (m', v') -> v' = v.
Proof.
  intros E E'. destruct (enc_plan_some _ _ E) as [e [d G]]. destruct (enc_plan_some _ _ E') as [e' [d' G']].
  destruct (gathered_fst_cert_ass _ _ _ _ _ _ G G') as [-> ->].
  rewrite (enc_plan_advice _ _ _ _ _ G E), (enc_plan_advice _ _ _ _ _ G' E'). reflexivity.
Qed.

(* why it matters for THIS property: an EncryptedAssertion without EncryptedData is invalid, whatever else it holds
   (the class table of the live saml.EncryptedAssertion: EncryptedData is its first member, exactly one) *)
Definition ci_EncryptedAssertion := Eval vm_compute in get_ci k_saml_EncryptedAssertion.
Lemma at_EncryptedAssertion : class_at live_table k_saml_EncryptedAssertion = Some ci_EncryptedAssertion.
Proof. class_fact. Qed.

Lemma span_tag_absent q l : existsb (fun x => qeqb x q) l = false -> span_tag q l = (0, l).
Proof.
  destruct l as [|x r]; [reflexivity|]. cbn [existsb span_tag]. intros H. apply orb_false_iff in H as [H _].
  rewrite H. reflexivity.
Qed.

Lemma existsb_map_tag q (kids : list tree) :
  existsb (fun x => qeqb x q) (map root_tag kids) = existsb (fun t => qeqb (root_tag t) q) kids.
Proof. induction kids as [|k r IH]; [reflexivity|]. cbn [map existsb]. rewrite IH. reflexivity. Qed.

Theorem clear_wrapper_invalid tag attrs text kids :
  existsb (has_tag XENC_NS "EncryptedData") kids = false ->
  valid live_table (CK k_saml_EncryptedAssertion) (Node tag attrs text kids) = false.
Proof.
  intros H. rewrite valid_unfold, at_EncryptedAssertion. apply andb_false_iff. left.
  unfold node_ok. apply andb_false_iff. right. unfold kids_ok, ci_EncryptedAssertion. cbn [ci_parts check_seq p_tag].
  rewrite span_tag_absent; [reflexivity|].
  rewrite existsb_map_tag. exact H.
Qed.

(* non-vacuity: the red team's call - encrypt_assertion, a certificate for the advice only, a service provider without
   encryption key - gives a plain assertion; with a certificate for the assertion it is encrypted *)
Definition sample_enc (cert_ass : bool) : enc_args :=
  {| ea_entry := EAuthn; ea_md := false; ea_enc_kw := Some true; ea_enc_cfg := None; ea_adv_kw := Some false; ea_adv_cfg := None;
     ea_pefim := false; ea_cert_adv := true; ea_cert_ass := cert_ass; ea_verify_adv := None; ea_verify_ass := None |}.

Example sample_enc_plans :
  enc_plan (sample_enc false) = Some (SClear, None) /\ enc_plan (sample_enc true) = Some (SEnc, None).
Proof. split; reflexivity. Qed.

(* ================================================================== Part 2 *)
Definition ept_allowed : list qname := [Q "" "Format"; Q "" "NameQualifier"; Q "" "SPNameQualifier"].

(* the NameID carries nothing but Format and the two qualifiers - in particular none of the dictionary's other keys *)
Theorem ept_nameid_shape v t :
  ept_nameid v = Some t ->
  root_tag t = qa "NameID" /\ root_kids t = []
  /\ forallb (fun kv => qmem (fst kv) ept_allowed) (root_attrs t) = true
  /\ attr_value (Q "" "Format") t = Some NAMEID_FORMAT_PERSISTENT.
Proof.
  destruct v as [s| |d]; cbn [ept_nameid].
  - intros E. inversion E. repeat split; reflexivity.
  - intros E. inversion E. repeat split; reflexivity.
  - destruct (dget "text" d) as [text|]; [|discriminate].
    destruct (dget "NameQualifier" d) as [[nq|]|]; try discriminate.
    destruct (dget "SPNameQualifier" d) as [[spnq|]|]; try discriminate.
    intros E. inversion E. repeat split; reflexivity.
Qed.

Lemma ept_nameid_valid v t : ept_nameid v = Some t -> valid live_table (CK k_saml_NameID) t = true.
Proof.
  destruct v as [s| |d]; cbn [ept_nameid].
  - intros E. inversion E. rewrite valid_unfold, at_NameID. reflexivity.
  - intros E. inversion E. rewrite valid_unfold, at_NameID. reflexivity.
  - destruct (dget "text" d) as [text|]; [|discriminate].
    destruct (dget "NameQualifier" d) as [[nq|]|]; try discriminate.
    destruct (dget "SPNameQualifier" d) as [[spnq|]|]; try discriminate.
    intros E. inversion E. rewrite valid_unfold, at_NameID. reflexivity.
Qed.

Lemma elem_NameID : elem_class live_table (qa "NameID") = Some k_saml_NameID. Proof. elem_fact. Qed.

Lemma owf_ept_value v o : ept_value v = Some o -> obj_cref o = CK k_saml_AttributeValue /\ owf live_table o = true.
Proof.
  unfold ept_value. destruct (ept_nameid v) as [t|] eqn:Et; [|discriminate]. intros E. inversion E; subst o.
  split; [reflexivity|].
  destruct (ept_nameid_shape _ _ Et) as [Htag _]. pose proof (ept_nameid_valid _ _ Et) as Hv.
  node' at_AttributeValue ci_AttributeValue. unfold ext_ok. rewrite Htag. cbn [ci_any ci_tag ci_parts map qmem existsb negb wild_ok andb].
  rewrite elem_NameID, Hv. reflexivity.
Qed.

Lemma owf_ept_values l objs :
  ept_values l = Some objs -> Forall (fun x => obj_cref x = CK k_saml_AttributeValue /\ owf live_table x = true) objs.
Proof.
  revert objs. induction l as [|v r IH]; cbn [ept_values]; intros objs E.
  - inversion E. constructor.
  - destruct (ept_value v) as [o|] eqn:Ev; [|discriminate]. destruct (ept_values r) as [rest|]; [|discriminate].
    inversion E; subst objs. constructor; [exact (owf_ept_value _ _ Ev)|apply IH; reflexivity].
Qed.

Theorem owf_ept_attribute a o : ept_attribute a = Some o -> obj_cref o = CK k_saml_Attribute /\ owf live_table o = true.
Proof.
  unfold ept_attribute. destruct (ept_values _) as [vals|] eqn:Ev; [|discriminate]. intros E. inversion E; subst o.
  split; [reflexivity|]. pose proof (members_all _ _ (owf_ept_values _ _ Ev)) as Hv.
  node' at_Attribute ci_Attribute. uk2. rewrite Hv. reflexivity.
Qed.

(* ... so the Attribute element is valid - any key, any name format, any text and qualifiers, any number of values *)
Theorem ept_attribute_valid a o :
  ept_attribute a = Some o -> valid live_table (CK k_saml_Attribute) (to_tree live_table o) = true.
Proof.
  intros E. destruct (owf_ept_attribute _ _ E) as [Hc Ho].
  pose proof (owf_valid live_table table_ok o Ho) as Hv. rewrite Hc in Hv. exact Hv.
Qed.

(* the converter digests every value of the documented form: a str, or a dictionary with text and both qualifiers *)
Definition ept_documented (v : eptv) : bool :=
  match v with
  | EStr _ => true
  | ENone => true
  | EDict d => match dget "text" d, dget "NameQualifier" d, dget "SPNameQualifier" d with
               | Some _, Some (Some _), Some (Some _) => true
               | _, _, _ => false
               end
  end.

Theorem ept_attribute_total a :
  forallb ept_documented (ept_list (ep_in a)) = true -> exists o, ept_attribute a = Some o.
Proof.
  unfold ept_attribute. intros H.
  assert (E : exists vals, ept_values (ept_list (ep_in a)) = Some vals).
  { induction (ept_list (ep_in a)) as [|v r IH]; [eexists; reflexivity|].
    cbn [forallb] in H. apply andb_true_iff in H as [Hv Hr]. destruct (IH Hr) as [rest Er]. cbn [ept_values]. rewrite Er.
    unfold ept_value. destruct v as [s| |d]; cbn [ept_nameid ept_documented] in *; try (eexists; reflexivity).
    destruct (dget "text" d) as [text|]; [|discriminate].
    destruct (dget "NameQualifier" d) as [[nq|]|]; try discriminate.
    destruct (dget "SPNameQualifier" d) as [[spnq|]|]; try discriminate. eexists; reflexivity. }
  destruct E as [vals ->]. eexists; reflexivity.
Qed.

(* non-vacuity: the documentation's dictionary next to a plain string *)
Definition sample_ept : ept_args :=
  {| ep_name_format := "urn:oasis:names:tc:SAML:2.0:attrname-format:uri"; ep_key := "eduPersonTargetedID";
     ep_in := EMany [EStr "opaque-1";
                     EDict [("text", Some "opaque-2"); ("NameQualifier", Some "https://idp.example.org");
                            ("SPNameQualifier", Some "https://sp.example.org")]] |}.

Example sample_ept_built :
  ept_tree sample_ept =
  Some (Node (qa "Attribute")
          [(Q "" "Name", EPTID_OID); (Q "" "NameFormat", "urn:oasis:names:tc:SAML:2.0:attrname-format:uri");
           (Q "" "FriendlyName", "eduPersonTargetedID")] ""
          [Node (qa "AttributeValue") [] "" [Node (qa "NameID") [(Q "" "Format", NAMEID_FORMAT_PERSISTENT)] "opaque-1" []];
           Node (qa "AttributeValue") [] ""
             [Node (qa "NameID") [(Q "" "Format", NAMEID_FORMAT_PERSISTENT); (Q "" "NameQualifier", "https://idp.example.org");
                                  (Q "" "SPNameQualifier", "https://sp.example.org")] "opaque-2" []]]).
Proof. vm_compute. reflexivity. Qed.
