(* C13/SpecProofs.v — the boolean validator evaluated on implementation outputs is the stated
   specification:  valid T c t = true <-> Valid T c t,  valid_doc T t = true <-> ValidDoc T t. *)
From Coq Require Import String Ascii List Bool Arith Lia.
From Verif Require Import Base.Str C13.Model C13.Spec C13.Builders C13.Proofs.
Import ListNotations.
Open Scope string_scope.
Open Scope list_scope.
Open Scope nat_scope.

(* ------------------------------------------------------------------ induction on trees *)
Section tree_ind.
  Variable P : tree -> Prop.
  Hypothesis H : forall tag attrs text kids, Forall P kids -> P (Node tag attrs text kids).
  Fixpoint tree_ind' (t : tree) : P t :=
    match t with
    | Node tag attrs text kids =>
        H tag attrs text kids
          ((fix go (l : list tree) : Forall P l :=
              match l with [] => Forall_nil _ | x :: r => Forall_cons x (tree_ind' x) (go r) end) kids)
    end.
End tree_ind.

(* ------------------------------------------------------------------ small reflections *)
Lemma all_chars_spec p s : all_chars p s = true <-> forall x, In x (list_ascii_of_string s) -> p x = true.
Proof.
  induction s as [|c r IH]; cbn [all_chars list_ascii_of_string In].
  - split; [intros _ x []|reflexivity].
  - rewrite andb_true_iff, IH. split.
    + intros [Hc Hr] x [<-|Hx]; auto.
    + intros Hall. split; [apply Hall; left; reflexivity|intros x Hx; apply Hall; right; exact Hx].
Qed.

Lemma boolean_spec s : boolean_b s = true <-> Is_boolean s.
Proof.
  unfold boolean_b, Is_boolean. rewrite !orb_true_iff, !String.eqb_eq. tauto.
Qed.

Lemma ncname_spec s : ncname_b s = true <-> Is_ncname s.
Proof.
  unfold ncname_b, Is_ncname. destruct s as [|c r].
  - split; [discriminate|intros [c [r [E _]]]; discriminate].
  - rewrite andb_true_iff, all_chars_spec. split.
    + intros [Hc Hr]. exists c, r. auto.
    + intros [c' [r' [E [Hc Hr]]]]. inversion E; subst. auto.
Qed.

Lemma has_attr_spec n attrs : has_attr n attrs = true <-> exists v, In (n, v) attrs.
Proof.
  unfold has_attr. rewrite existsb_exists. split.
  - intros [[n' v] [Hin E]]. cbn [fst] in E. apply qeqb_eq in E. subst. exists v. exact Hin.
  - intros [v Hin]. exists (n, v). split; [exact Hin|apply qeqb_refl].
Qed.

Lemma wild_spec w target q : wild_ok w target q = true <-> WildOK w target q.
Proof.
  destruct w; cbn [wild_ok WildOK]; [split; [discriminate|intros []]|tauto|].
  rewrite andb_true_iff, !negb_true_iff. split.
  - intros [H1 H2]. split.
    + intros E. rewrite E in H1. discriminate.
    + intros E. apply String.eqb_neq in H2. contradiction.
  - intros [H1 H2]. split.
    + destruct (q_ns q); [contradiction|reflexivity].
    + apply String.eqb_neq. exact H2.
Qed.

Lemma attr_ok_spec ci kv : attr_ok ci kv = true <-> AttrOK ci kv.
Proof.
  unfold attr_ok, AttrOK, in_lex. destruct (find_decl ci (fst kv)) as [d|].
  - split.
    + intros H. left. exists d. auto.
    + intros [[d' [E H]]|[E _]]; [inversion E; subst; exact H|discriminate].
  - rewrite orb_true_iff, String.eqb_eq, wild_spec. split.
    + intros H. right. auto.
    + intros [[d [E _]]|[_ H]]; [discriminate|exact H].
Qed.

Lemma text_ok_spec ts text : text_ok ts text = true <-> TextOK ts text.
Proof. destruct ts; cbn [text_ok TextOK]; [apply all_chars_spec|reflexivity]. Qed.

Lemma in_bounds_spec p n : in_bounds p n = true <-> InBounds p n.
Proof.
  unfold in_bounds, InBounds. rewrite andb_true_iff, Nat.leb_le.
  destruct (p_max p); [rewrite Nat.leb_le|]; tauto.
Qed.

(* ------------------------------------------------------------------ the particle sequence *)
Lemma span_tag_spec q l : forall n r,
  span_tag q l = (n, r) <-> l = repeat q n ++ r /\ match r with [] => True | y :: _ => y <> q end.
Proof.
  induction l as [|x l IH]; intros n r; cbn [span_tag].
  - split.
    + intros E. inversion E; subst. split; [reflexivity|exact I].
    + intros [E _]. destruct n; cbn [repeat app] in E; [subst; reflexivity|discriminate].
  - destruct (qeqb x q) eqn:Ex.
    + apply qeqb_eq in Ex. subst x. destruct (span_tag q l) as [n' r'] eqn:Es.
      split.
      * intros E. inversion E; subst. destruct (proj1 (IH n' r) eq_refl) as [-> Hr]. split; [reflexivity|exact Hr].
      * intros [E Hr]. destruct n as [|n].
        -- cbn [repeat app] in E. subst r. exfalso. apply Hr. reflexivity.
        -- cbn [repeat app] in E. inversion E as [E'].
           assert (Hs : (n', r') = (n, r)) by (apply IH; split; assumption).
           inversion Hs; subst. reflexivity.
    + apply qeqb_neq in Ex. split.
      * intros E. inversion E; subst. split; [reflexivity|exact Ex].
      * intros [E Hr]. destruct n as [|n]; cbn [repeat app] in E.
        -- subst r. reflexivity.
        -- inversion E; subst. contradiction.
Qed.

Lemma check_seq_spec ps : forall l rest, check_seq ps l = Some rest <-> Seq ps l rest.
Proof.
  induction ps as [|p ps IH]; intros l rest; cbn [check_seq].
  - split; [intros E; inversion E; constructor|intros H; inversion H; reflexivity].
  - destruct (span_tag (p_tag p) l) as [n r] eqn:Es. split.
    + intros H. destruct (in_bounds p n) eqn:Eb; [|discriminate].
      destruct (proj1 (span_tag_spec _ _ _ _) Es) as [-> Hr].
      constructor; [apply in_bounds_spec; exact Eb|exact Hr|apply IH; exact H].
    + intros H. inversion H as [|? ? n' l' ? Hb Hr Hs]; subst.
      assert (E : span_tag (p_tag p) (repeat (p_tag p) n' ++ l') = (n', l')) by (apply span_tag_spec; split; auto).
      rewrite Es in E. inversion E; subst. apply in_bounds_spec in Hb. rewrite Hb. apply IH. exact Hs.
Qed.

Lemma node_ok_spec ci tag attrs text kidtags :
  node_ok ci tag attrs text kidtags = true <-> NodeOK ci tag attrs text kidtags.
Proof.
  unfold node_ok, attrs_ok, kids_ok. split.
  - intros H. apply andb_true_iff in H as [H Hk]. apply andb_true_iff in H as [H Ht].
    apply andb_true_iff in H as [Hq Ha]. apply andb_true_iff in Ha as [Hreq Hattr].
    rewrite forallb_forall in Hreq. rewrite forallb_forall in Hattr. constructor.
    + apply qeqb_eq. exact Hq.
    + intros d Hd Hr. specialize (Hreq d Hd). rewrite Hr in Hreq. cbn [negb orb] in Hreq. apply has_attr_spec. exact Hreq.
    + intros kv Hkv. apply attr_ok_spec. apply Hattr. exact Hkv.
    + apply text_ok_spec. exact Ht.
    + destruct (check_seq (ci_parts ci) kidtags) as [rest|] eqn:Es; [|discriminate].
      apply andb_true_iff in Hk as [Hk Hx]. apply andb_true_iff in Hk as [Hw Hm].
      rewrite forallb_forall in Hw. exists rest. split; [|split; [|split]].
      * apply check_seq_spec. exact Es.
      * intros q Hq'. apply wild_spec. apply Hw. exact Hq'.
      * apply Nat.leb_le. exact Hm.
      * destruct (ci_anymax ci); [apply Nat.leb_le; exact Hx|exact I].
  - intros [Htag Hreq Hattr Ht [rest [Hs [Hw [Hm Hx]]]]].
    apply check_seq_spec in Hs. rewrite Hs. subst tag. rewrite qeqb_refl. cbn [andb].
    apply andb_true_iff. split; [apply andb_true_iff; split; [apply andb_true_iff; split|]|].
    + apply forallb_forall. intros d Hd. destruct (a_req d) eqn:Er; [|reflexivity]. cbn [negb orb].
      apply has_attr_spec. apply Hreq; assumption.
    + apply forallb_forall. intros kv Hkv. apply attr_ok_spec. apply Hattr. exact Hkv.
    + apply text_ok_spec. exact Ht.
    + apply andb_true_iff. split; [apply andb_true_iff; split; [|apply Nat.leb_le; exact Hm]|].
      * apply forallb_forall. intros q Hq. apply wild_spec. apply Hw. exact Hq.
      * destruct (ci_anymax ci); [apply Nat.leb_le; exact Hx|reflexivity].
Qed.

(* ------------------------------------------------------------------ the whole tree *)
Theorem valid_spec T : forall t c, valid T c t = true <-> Valid T c t.
Proof.
  induction t as [tag attrs text kids IH] using tree_ind'. intros c. destruct c as [k|].
  2:{ cbn [valid]. split; [intros _; constructor|reflexivity]. }
  rewrite valid_unfold. destruct (class_at T k) as [ci|] eqn:Ek.
  - rewrite andb_true_iff, node_ok_spec, forallb_forall. split.
    + intros [Hn Hk]. econstructor; [exact Ek|exact Hn|].
      apply Forall_forall. intros x Hx. rewrite Forall_forall in IH. apply (IH x Hx). apply Hk. exact Hx.
    + intros H. inversion H as [|? ci' ? ? ? ? Ek' Hn Hk]; subst. rewrite Ek in Ek'. inversion Ek'; subst ci'.
      split; [exact Hn|]. intros x Hx. rewrite Forall_forall in IH, Hk. apply (IH x Hx). apply Hk. exact Hx.
  - split; [discriminate|]. intros H. inversion H as [|? ci' ? ? ? ? Ek' _ _]; subst. rewrite Ek in Ek'. discriminate.
Qed.

Theorem spec_b_iff T t : spec_b T t = true <-> spec T t.
Proof.
  unfold spec_b, spec, valid_doc, ValidDoc. destruct (elem_class T (root_tag t)) as [k|].
  - rewrite valid_spec. split; [intros H; exists k; auto|intros [k' [E H]]; inversion E; subst; exact H].
  - split; [discriminate|intros [k [E _]]; discriminate].
Qed.
