(* C13/BuilderProofs.v — every modelled builder yields a well-formed object (hence, by the serialiser
   theorem of Proofs.v, a structurally valid document) for ALL arguments; the facts about individual
   classes (ci_X := the class as it stands in the regenerated table, at_X, table_ok) are recomputed
   by vm_compute from coq/gen/C13Tables.v on every run. *)
From Coq Require Import String Ascii List Bool Arith NArith ZArith Lia.
From Verif Require Import Base.Str C13.Model C13.Builders C13.Proofs.
From VerifGen Require Import C13Tables.
Import ListNotations.
Open Scope string_scope.
Open Scope list_scope.
Open Scope nat_scope.

Definition dummy_ci : cinfo := {| ci_name := ""; ci_tag := Q "" ""; ci_elem := false; ci_parts := []; ci_attrs := [];
  ci_text := TElemOnly; ci_any := WNone; ci_anymin := 0; ci_anymax := None; ci_anyattr := WNone |}.
Definition get_ci (k : nat) : cinfo := match class_at live_table k with Some c => c | None => dummy_ci end.

Ltac class_fact := vm_compute; reflexivity.

Definition ci_Issuer := Eval vm_compute in get_ci k_saml_Issuer.
Lemma at_Issuer : class_at live_table k_saml_Issuer = Some ci_Issuer. Proof. class_fact. Qed.
Definition ci_StatusCode := Eval vm_compute in get_ci k_samlp_StatusCode.
Lemma at_StatusCode : class_at live_table k_samlp_StatusCode = Some ci_StatusCode. Proof. class_fact. Qed.
Definition ci_StatusMessage := Eval vm_compute in get_ci k_samlp_StatusMessage.
Lemma at_StatusMessage : class_at live_table k_samlp_StatusMessage = Some ci_StatusMessage. Proof. class_fact. Qed.
Definition ci_Status := Eval vm_compute in get_ci k_samlp_Status.
Lemma at_Status : class_at live_table k_samlp_Status = Some ci_Status. Proof. class_fact. Qed.
Definition ci_LogoutResponse := Eval vm_compute in get_ci k_samlp_LogoutResponse.
Lemma at_LogoutResponse : class_at live_table k_samlp_LogoutResponse = Some ci_LogoutResponse. Proof. class_fact. Qed.

Ltac node lem := rewrite owf_unfold, lem; cbn -[owf check_lex class_at valid to_tree ext_ok].
Ltac node' lem ci := rewrite owf_unfold, lem; unfold ci, oattrs_ok, at_; cbn -[owf check_lex class_at valid to_tree ext_ok].
Ltac rd := cbn -[owf check_lex class_at valid to_tree ext_ok].
Ltac split_and := repeat (apply andb_true_iff; split).
Ltac kill := try reflexivity; try assumption;
  repeat match goal with |- context [match ?x with _ => _ end] => is_var x; destruct x end;
  try reflexivity; try assumption.

Lemma owf_issuer s : owf live_table (o_issuer s) = true.
Proof. unfold o_issuer. node at_Issuer. reflexivity. Qed.

Lemma owf_status_code_leaf v : owf live_table (o_status_code v []) = true.
Proof. unfold o_status_code. node at_StatusCode. reflexivity. Qed.

Lemma owf_status_code_nested v w : owf live_table (o_status_code v [o_status_code w []]) = true.
Proof. unfold o_status_code at 1. node at_StatusCode. rewrite owf_status_code_leaf. reflexivity. Qed.

Lemma owf_success_status : owf live_table success_status = true.
Proof. unfold success_status. node at_Status. rewrite owf_status_code_leaf. reflexivity. Qed.


Definition ci_Extensions := Eval vm_compute in get_ci k_samlp_Extensions.
Lemma at_Extensions : class_at live_table k_samlp_Extensions = Some ci_Extensions. Proof. class_fact. Qed.
Definition ci_Response := Eval vm_compute in get_ci k_samlp_Response.
Lemma at_Response : class_at live_table k_samlp_Response = Some ci_Response. Proof. class_fact. Qed.
Definition ci_ManageNameIDResponse := Eval vm_compute in get_ci k_samlp_ManageNameIDResponse.
Lemma at_ManageNameIDResponse : class_at live_table k_samlp_ManageNameIDResponse = Some ci_ManageNameIDResponse. Proof. class_fact. Qed.
Definition ci_ArtifactResponse := Eval vm_compute in get_ci k_samlp_ArtifactResponse.
Lemma at_ArtifactResponse : class_at live_table k_samlp_ArtifactResponse = Some ci_ArtifactResponse. Proof. class_fact. Qed.

Lemma owf_status_message m : owf live_table (Obj k_samlp_StatusMessage [] m [] []) = true.
Proof. node at_StatusMessage. reflexivity. Qed.

Lemma owf_nested_status top code m : owf live_table (nested_status top code m) = true.
Proof.
  unfold nested_status. node at_Status. rewrite owf_status_code_nested.
  destruct (struthy m); cbn -[owf check_lex class_at valid to_tree ext_ok]; [rewrite owf_status_message|]; reflexivity.
Qed.

Lemma owf_status s : owf live_table (status_obj s) = true.
Proof. destruct s; cbn [status_obj]; [apply owf_success_status|apply owf_success_status|apply owf_nested_status]. Qed.

(* what is assumed of the observed run *)
Definition obs_ok (ob : observed) : Prop :=
  check_lex LNCName (ob_id ob) = true /\ check_lex LDateTime (ob_instant ob) = true
  /\ match ob_sig ob with Some t => valid live_table (CK k_xmldsig_Signature) t = true | None => True end.

Lemma sig_member_owf sg ob l :
  obs_ok ob -> sig_member sg ob = Some l ->
  (l = [] \/ exists t, l = [ORaw (CK k_xmldsig_Signature) t] /\ valid live_table (CK k_xmldsig_Signature) t = true).
Proof.
  intros [_ [_ Hs]] E. unfold sig_member in E. destruct (signs sg), (ob_sig ob) as [t|]; inversion E; subst.
  - right. exists t. split; [reflexivity|exact Hs].
  - left. reflexivity.
Qed.

Definition opt_lexb (ty : lexty) (o : option string) : bool :=
  match o with Some s => check_lex ty s | None => true end.



Lemma status_cref s : obj_cref (status_obj s) = CK k_samlp_Status.
Proof. destruct s; reflexivity. Qed.

Lemma owf_raw c t : valid live_table c t = true -> owf live_table (ORaw c t) = true.
Proof. intros H. exact H. Qed.

Ltac uk := unfold k_saml_Assertion, k_saml_EncryptedAssertion, k_xmldsig_Signature, k_samlp_Status, k_samlp_Extensions,
  k_saml_Subject, k_saml_Conditions, k_samlp_Scoping, k_saml_NameID, k_saml_Attribute, k_samlp_RequestedAuthnContext,
  k_saml_Issuer, k_samlp_NameIDPolicy, k_samlp_SessionIndex, k_samlp_Artifact, k_saml_AuthnContextClassRef,
  k_extension_requested_attributes_RequestedAttribute, k_extension_requested_attributes_RequestedAttributes,
  k_extension_sp_type_SPType, k_samlp_StatusCode, k_samlp_StatusMessage in *.
Ltac conj := repeat (apply andb_true_iff; split).
Ltac leaf :=
  rd; try reflexivity; try assumption;
  repeat (match goal with |- context [match ?x with _ => _ end] => destruct x eqn:? end;
          rd; try reflexivity; try assumption; try discriminate).

(* the ds:Signature member: nothing, or the element the signer left *)
Lemma sig_part sg ob l :
  obs_ok ob -> sig_member sg ob = Some l ->
  (Datatypes.length (map (fun x : obj => (obj_cref x, owf live_table x)) l) <=? 1)
  && forallb (fun cb : cref * bool => cref_eqb (fst cb) (CK k_xmldsig_Signature) && snd cb)
       (map (fun x : obj => (obj_cref x, owf live_table x)) l) = true.
Proof.
  intros Hob E. destruct (sig_member_owf _ _ _ Hob E) as [->|[t [-> Ht]]]; [reflexivity|].
  cbn -[owf valid]. rewrite (owf_raw _ _ Ht). reflexivity.
Qed.


Lemma table_ok : table_wf live_table = true.
Proof. vm_compute. reflexivity. Qed.

Lemma members_all k' (l : list obj) :
  Forall (fun x => obj_cref x = CK k' /\ owf live_table x = true) l ->
  forallb (fun cb : cref * bool => cref_eqb (fst cb) (CK k') && snd cb)
          (map (fun x => (obj_cref x, owf live_table x)) l) = true.
Proof.
  induction 1 as [|x r [Hc Ho] _ IH]; [reflexivity|]. cbn [map forallb fst snd].
  rewrite Hc, Ho, IH. cbn [cref_eqb]. rewrite Nat.eqb_refl. reflexivity.
Qed.

Lemma raws_all k' (ts : list tree) :
  forallb (valid live_table (CK k')) ts = true ->
  forallb (fun cb : cref * bool => cref_eqb (fst cb) (CK k') && snd cb)
          (map (fun x => (obj_cref x, owf live_table x)) (map (ORaw (CK k')) ts)) = true.
Proof.
  intros H. apply members_all. apply Forall_forall. intros x Hx. apply in_map_iff in Hx as [t [<- Ht]].
  rewrite forallb_forall in H. split; [reflexivity|]. apply H. exact Ht.
Qed.

Definition opt_valid (k : nat) (o : option tree) : bool :=
  match o with Some t => valid live_table (CK k) t | None => true end.

Lemma raw_opt k' o :
  opt_valid k' o = true ->
  (Datatypes.length (map (fun x : obj => (obj_cref x, owf live_table x)) (map (ORaw (CK k')) (opt_list o))) <=? 1)
  && forallb (fun cb : cref * bool => cref_eqb (fst cb) (CK k') && snd cb)
       (map (fun x : obj => (obj_cref x, owf live_table x)) (map (ORaw (CK k')) (opt_list o))) = true.
Proof.
  destruct o as [t|]; cbn -[owf valid]; intros H; [|reflexivity].
  rewrite (owf_raw _ _ H), Nat.eqb_refl. reflexivity.
Qed.

(* ---------------------------------------------------------------- Extensions *)
Definition ext_content_ok (c : list tree) : bool :=
  negb (match c with [] => true | _ => false end) && forallb (ext_ok live_table ci_Extensions) c.

Lemma owf_extensions c : ext_content_ok c = true -> owf live_table (o_extensions c) = true.
Proof.
  unfold ext_content_ok, o_extensions. intros H. apply andb_true_iff in H as [Hne Hall].
  rewrite owf_unfold, at_Extensions. unfold oattrs_ok. cbn -[ext_ok forallb]. cbn [forallb].
  rewrite Hall. destruct c; [discriminate|reflexivity].
Qed.

Definition opt_ext_ok (e : option (list tree)) : bool :=
  match e with Some c => ext_content_ok c | None => true end.

Lemma ext_member e :
  opt_ext_ok e = true ->
  (Datatypes.length (map (fun x : obj => (obj_cref x, owf live_table x))
                         (opt_list (match e with Some c => Some (o_extensions c) | None => None end))) <=? 1)
  && forallb (fun cb : cref * bool => cref_eqb (fst cb) (CK k_samlp_Extensions) && snd cb)
       (map (fun x : obj => (obj_cref x, owf live_table x))
            (opt_list (match e with Some c => Some (o_extensions c) | None => None end))) = true.
Proof.
  destruct e as [c|]; cbn -[owf]; intros H; [|reflexivity]. rewrite (owf_extensions c H). reflexivity.
Qed.

(* ---------------------------------------------------------------- _status_response *)
Section StatusResponses.
  Variable a : sr_args.
  Hypothesis Hob : obs_ok (sr_ob a).
  Hypothesis Hirt : opt_lexb LNCName (sr_in_response_to a) = true.

  Lemma owf_logout_response o :
    sr_ext a = [] -> logout_response a = Some o -> owf live_table o = true.
  Proof.
    intros Hext E. unfold logout_response, status_response in E.
    destruct (sig_member (sr_signing a) (sr_ob a)) as [sg|] eqn:Es; [|discriminate]. inversion E; subst o. clear E.
    pose proof (sig_part _ _ _ Hob Es) as Hsg. unfold k_xmldsig_Signature in Hsg.
    destruct Hob as [Hid [Hin _]]. rewrite Hext.
    node' at_LogoutResponse ci_LogoutResponse.
    rewrite status_cref, owf_status, Hsg, Hid, Hin. unfold opt_lexb in Hirt.
    conj; leaf.
  Qed.

  Lemma owf_manage_name_id_response o :
    sr_ext a = [] -> manage_name_id_response a = Some o -> owf live_table o = true.
  Proof.
    intros Hext E. unfold manage_name_id_response, status_response in E.
    destruct (sig_member (sr_signing a) (sr_ob a)) as [sg|] eqn:Es; [|discriminate]. inversion E; subst o. clear E.
    pose proof (sig_part _ _ _ Hob Es) as Hsg. unfold k_xmldsig_Signature in Hsg.
    destruct Hob as [Hid [Hin _]]. rewrite Hext.
    node' at_ManageNameIDResponse ci_ManageNameIDResponse.
    rewrite status_cref, owf_status, Hsg, Hid, Hin. unfold opt_lexb in Hirt.
    conj; leaf.
  Qed.

  (* the ArtifactResponse carries the stored message as its (single, lax) wildcard child *)
  Lemma owf_artifact_response o :
    forallb (ext_ok live_table ci_ArtifactResponse) (sr_ext a) = true -> (length (sr_ext a) <=? 1) = true ->
    artifact_response a = Some o -> owf live_table o = true.
  Proof.
    intros Hext Hlen E. unfold artifact_response, status_response in E.
    destruct (sig_member (sr_signing a) (sr_ob a)) as [sg|] eqn:Es; [|discriminate]. inversion E; subst o. clear E.
    pose proof (sig_part _ _ _ Hob Es) as Hsg. unfold k_xmldsig_Signature in Hsg.
    destruct Hob as [Hid [Hin _]].
    rewrite owf_unfold, at_ArtifactResponse, Hext. unfold ci_ArtifactResponse at 1 2 3 4 5, oattrs_ok, at_.
    cbn -[owf check_lex class_at valid to_tree ext_ok forallb length]. cbn [forallb].
    cbn -[owf check_lex class_at valid to_tree ext_ok length].
    rewrite status_cref, owf_status, Hsg, Hid, Hin, Hlen. unfold opt_lexb in Hirt.
    conj; leaf.
  Qed.
End StatusResponses.

(* ---------------------------------------------------------------- _response *)
Definition ci_samlResponse := ci_Response.

Lemma owf_response a o :
  obs_ok (rs_ob a) -> opt_lexb LNCName (rs_in_response_to a) = true ->
  forallb (valid live_table (CK k_saml_Assertion)) (rs_assertions a) = true ->
  forallb (valid live_table (CK k_saml_EncryptedAssertion)) (rs_encrypted a) = true ->
  response a = Some o -> owf live_table o = true.
Proof.
  intros Hob Hirt Has Hen E. unfold response in E.
  destruct (sig_member (rs_signing a) (rs_ob a)) as [sg|] eqn:Es; [|discriminate]. inversion E; subst o. clear E.
  pose proof (sig_part _ _ _ Hob Es) as Hsg. unfold k_xmldsig_Signature in Hsg.
  pose proof (raws_all _ _ Has) as HA. pose proof (raws_all _ _ Hen) as HE.
  destruct Hob as [Hid [Hin _]].
  node' at_Response ci_Response. uk.
  rewrite status_cref, owf_status, owf_issuer, Hsg, HA, HE, Hid, Hin. unfold opt_lexb in Hirt.
  conj; leaf.
Qed.

Lemma owf_error_response issuer code message irt dest sg ob o :
  obs_ok ob -> opt_lexb LNCName irt = true ->
  error_response issuer code message irt dest sg ob = Some o -> owf live_table o = true.
Proof.
  intros Hob Hirt E. unfold error_response in E. eapply owf_response; [| | | |exact E]; cbn; auto.
Qed.

(* ---------------------------------------------------------------- _message based requests *)
Definition ci_LogoutRequest := Eval vm_compute in get_ci k_samlp_LogoutRequest.
Lemma at_LogoutRequest : class_at live_table k_samlp_LogoutRequest = Some ci_LogoutRequest. Proof. class_fact. Qed.
Definition ci_SessionIndex := Eval vm_compute in get_ci k_samlp_SessionIndex.
Lemma at_SessionIndex : class_at live_table k_samlp_SessionIndex = Some ci_SessionIndex. Proof. class_fact. Qed.
Definition ci_AttributeQuery := Eval vm_compute in get_ci k_samlp_AttributeQuery.
Lemma at_AttributeQuery : class_at live_table k_samlp_AttributeQuery = Some ci_AttributeQuery. Proof. class_fact. Qed.
Definition ci_Subject := Eval vm_compute in get_ci k_saml_Subject.
Lemma at_Subject : class_at live_table k_saml_Subject = Some ci_Subject. Proof. class_fact. Qed.
Definition ci_ArtifactResolve := Eval vm_compute in get_ci k_samlp_ArtifactResolve.
Lemma at_ArtifactResolve : class_at live_table k_samlp_ArtifactResolve = Some ci_ArtifactResolve. Proof. class_fact. Qed.
Definition ci_Artifact := Eval vm_compute in get_ci k_samlp_Artifact.
Lemma at_Artifact : class_at live_table k_samlp_Artifact = Some ci_Artifact. Proof. class_fact. Qed.

Lemma owf_session_index s : owf live_table (Obj k_samlp_SessionIndex [] (Some s) [] []) = true.
Proof. node at_SessionIndex. reflexivity. Qed.

Lemma session_indexes_all l :
  forallb (fun cb : cref * bool => cref_eqb (fst cb) (CK k_samlp_SessionIndex) && snd cb)
          (map (fun x => (obj_cref x, owf live_table x))
               (map (fun s => Obj k_samlp_SessionIndex [] (Some s) [] []) l)) = true.
Proof.
  apply members_all. apply Forall_forall. intros x Hx. apply in_map_iff in Hx as [s [<- _]].
  split; [reflexivity|apply owf_session_index].
Qed.

Lemma owf_logout_request a o :
  obs_ok (lr_ob a) -> opt_lexb LDateTime (lr_expire a) = true -> opt_ext_ok (lr_extensions a) = true ->
  opt_valid k_saml_NameID (lr_name_id a) = true ->
  logout_request a = Some o -> owf live_table o = true.
Proof.
  intros Hob Hexp Hext Hnid E. unfold logout_request in E.
  destruct (lr_name_id a) as [nid|] eqn:En; [|discriminate].
  destruct (sig_member (lr_signing a) (lr_ob a)) as [sg|] eqn:Es; [|discriminate]. inversion E; subst o. clear E.
  pose proof (sig_part _ _ _ Hob Es) as Hsg. pose proof (ext_member _ Hext) as Hex.
  pose proof (session_indexes_all (lr_session_indexes a)) as Hsi.
  cbn [opt_valid] in Hnid.
  destruct Hob as [Hid [Hin _]]. unfold message.
  node' at_LogoutRequest ci_LogoutRequest. uk.
  rewrite owf_issuer, Hsg, Hex, Hsi, Hid, Hin, (owf_raw _ _ Hnid). unfold opt_lexb in Hexp.
  conj; leaf.
Qed.

Lemma owf_attribute_query a o :
  obs_ok (aq_ob a) -> opt_ext_ok (aq_extensions a) = true ->
  valid live_table (CK k_saml_NameID) (aq_name_id a) = true ->
  forallb (valid live_table (CK k_saml_Attribute)) (aq_attributes a) = true ->
  attribute_query a = Some o -> owf live_table o = true.
Proof.
  intros Hob Hext Hnid Hat E. unfold attribute_query in E.
  destruct (sig_member (aq_signing a) (aq_ob a)) as [sg|] eqn:Es; [|discriminate]. inversion E; subst o. clear E.
  pose proof (sig_part _ _ _ Hob Es) as Hsg. pose proof (ext_member _ Hext) as Hex.
  pose proof (raws_all _ _ Hat) as HA.
  assert (Hsub : owf live_table (Obj k_saml_Subject [] None [(qa "NameID", [ORaw (CK k_saml_NameID) (aq_name_id a)])] []) = true).
  { node' at_Subject ci_Subject. uk. rewrite (owf_raw _ _ Hnid). reflexivity. }
  destruct Hob as [Hid [Hin _]]. unfold message.
  node' at_AttributeQuery ci_AttributeQuery. uk.
  rewrite owf_issuer, Hsg, Hex, HA, Hid, Hin, Hsub.
  conj; leaf.
Qed.

Lemma owf_artifact_resolve entityid artifact destination consent extensions sg ob o :
  obs_ok ob -> opt_ext_ok extensions = true ->
  artifact_resolve entityid artifact destination consent extensions sg ob = Some o -> owf live_table o = true.
Proof.
  intros Hob Hext E. unfold artifact_resolve in E.
  destruct (sig_member sg ob) as [s|] eqn:Es; [|discriminate]. inversion E; subst o. clear E.
  pose proof (sig_part _ _ _ Hob Es) as Hsg. pose proof (ext_member _ Hext) as Hex.
  assert (Hart : owf live_table (Obj k_samlp_Artifact [] (Some artifact) [] []) = true).
  { node at_Artifact. reflexivity. }
  destruct Hob as [Hid [Hin _]]. unfold message.
  node' at_ArtifactResolve ci_ArtifactResolve. uk.
  rewrite owf_issuer, Hsg, Hex, Hid, Hin, Hart.
  conj; leaf.
Qed.

(* ---------------------------------------------------------------- create_name_id_mapping_response, as coded *)
Definition ci_NameIDMappingResponse := Eval vm_compute in get_ci k_samlp_NameIDMappingResponse.
Lemma at_NameIDMappingResponse : class_at live_table k_samlp_NameIDMappingResponse = Some ci_NameIDMappingResponse.
Proof. class_fact. Qed.

(* it never sets the required Status member: whatever the identifiers and addresses, the unsigned result is invalid *)
Lemma name_id_mapping_response_v0_invalid entityid irt ob o :
  ob_sig ob = None ->
  name_id_mapping_response_v0 entityid None irt {| sg_arg := Some false; sg_should := false |} ob = Some o ->
  valid live_table (CK k_samlp_NameIDMappingResponse) (to_tree live_table o) = false.
Proof.
  intros Hs. unfold name_id_mapping_response_v0, sig_member. cbn [signs sg_arg]. rewrite Hs.
  intros E. inversion E; subst o. clear E.
  rewrite to_tree_unfold, at_NameIDMappingResponse, valid_unfold, at_NameIDMappingResponse.
  apply andb_false_iff. left. unfold node_ok. apply andb_false_iff. right.
  unfold kids_ok, ci_NameIDMappingResponse. cbn -[to_tree]. unfold o_issuer. rewrite to_tree_unfold, at_Issuer.
  reflexivity.
Qed.

Lemma owf_name_id_mapping_response entityid name_id irt status sg ob o :
  obs_ok ob -> opt_lexb LNCName irt = true -> opt_valid k_saml_NameID name_id = true ->
  name_id_mapping_response entityid name_id irt status sg ob = Some o -> owf live_table o = true.
Proof.
  intros Hob Hirt Hn E. unfold name_id_mapping_response in E.
  destruct (sig_member sg ob) as [s|] eqn:Es; [|discriminate]. inversion E; subst o. clear E.
  pose proof (sig_part _ _ _ Hob Es) as Hsg. pose proof (raw_opt _ _ Hn) as Hnid.
  destruct Hob as [Hid [Hin _]].
  node' at_NameIDMappingResponse ci_NameIDMappingResponse. uk.
  rewrite status_cref, owf_status, owf_issuer, Hsg, Hnid, Hid, Hin. unfold opt_lexb in Hirt.
  conj; leaf.
Qed.

Lemma name_id_mapping_response_v0_refuted :
  exists entityid name_id irt sg ob o,
    obs_ok ob /\ name_id_mapping_response_v0 entityid name_id irt sg ob = Some o
    /\ valid live_table (CK k_samlp_NameIDMappingResponse) (to_tree live_table o) = false.
Proof.
  exists "https://idp.example.org/idp.xml", None, (Some "id-1"), {| sg_arg := Some false; sg_should := false |},
         {| ob_id := "id-a"; ob_instant := "2023-11-14T22:13:20Z"; ob_sig := None |}.
  eexists. split; [|split; [reflexivity|]].
  - repeat split; vm_compute; reflexivity.
  - vm_compute. reflexivity.
Qed.

(* ---------------------------------------------------------------- create_authn_request *)
Definition ci_AuthnRequest := Eval vm_compute in get_ci k_samlp_AuthnRequest.
Lemma at_AuthnRequest : class_at live_table k_samlp_AuthnRequest = Some ci_AuthnRequest. Proof. class_fact. Qed.
Definition ci_NameIDPolicy := Eval vm_compute in get_ci k_samlp_NameIDPolicy.
Lemma at_NameIDPolicy : class_at live_table k_samlp_NameIDPolicy = Some ci_NameIDPolicy. Proof. class_fact. Qed.
Definition ci_RAC := Eval vm_compute in get_ci k_samlp_RequestedAuthnContext.
Lemma at_RAC : class_at live_table k_samlp_RequestedAuthnContext = Some ci_RAC. Proof. class_fact. Qed.
Definition ci_ClassRef := Eval vm_compute in get_ci k_saml_AuthnContextClassRef.
Lemma at_ClassRef : class_at live_table k_saml_AuthnContextClassRef = Some ci_ClassRef. Proof. class_fact. Qed.
Definition ci_ReqAttr := Eval vm_compute in get_ci k_extension_requested_attributes_RequestedAttribute.
Lemma at_ReqAttr : class_at live_table k_extension_requested_attributes_RequestedAttribute = Some ci_ReqAttr. Proof. class_fact. Qed.
Definition ci_ReqAttrs := Eval vm_compute in get_ci k_extension_requested_attributes_RequestedAttributes.
Lemma at_ReqAttrs : class_at live_table k_extension_requested_attributes_RequestedAttributes = Some ci_ReqAttrs. Proof. class_fact. Qed.
Definition ci_SPType := Eval vm_compute in get_ci k_extension_sp_type_SPType.
Lemma at_SPType : class_at live_table k_extension_sp_type_SPType = Some ci_SPType. Proof. class_fact. Qed.

Lemma any_ok o : match o with Some v => check_lex LAny v | None => true end = true.
Proof. destruct o; reflexivity. Qed.

Lemma owf_name_id_policy f q al :
  opt_lexb LBoolean al = true -> owf live_table (o_name_id_policy f q al) = true.
Proof.
  intros H. unfold o_name_id_policy. node' at_NameIDPolicy ci_NameIDPolicy. unfold opt_lexb in H.
  conj; leaf.
Qed.

Lemma owf_class_ref s : owf live_table (o_class_ref s) = true.
Proof. unfold o_class_ref. node at_ClassRef. reflexivity. Qed.

Definition COMPARISONS := ["exact"; "minimum"; "maximum"; "better"].

Definition rac_ok (r : racv) : bool :=
  match r with
  | RacNone => true
  | RacInst t => valid live_table (CK k_samlp_RequestedAuthnContext) t
  | RacMap _ _ cmp => opt_lexb (LEnum COMPARISONS) cmp
  end.

Lemma rac_part r :
  rac_ok r = true ->
  (Datatypes.length (map (fun x : obj => (obj_cref x, owf live_table x)) (rac_member r)) <=? 1)
  && forallb (fun cb : cref * bool => cref_eqb (fst cb) (CK k_samlp_RequestedAuthnContext) && snd cb)
       (map (fun x : obj => (obj_cref x, owf live_table x)) (rac_member r)) = true.
Proof.
  destruct r as [|t|ne accrs cmp]; cbn [rac_ok rac_member]; intros H; [reflexivity| |].
  - cbn -[owf valid]. rewrite (owf_raw _ _ H). reflexivity.
  - destruct accrs as [|x r]; [reflexivity|]. generalize (x :: r). intros l.
    assert (Hrefs : forallb (fun cb : cref * bool => cref_eqb (fst cb) (CK k_saml_AuthnContextClassRef) && snd cb)
                      (map (fun y => (obj_cref y, owf live_table y)) (map o_class_ref l)) = true).
    { apply members_all. apply Forall_forall. intros y Hy. apply in_map_iff in Hy as [s' [<- _]].
      split; [reflexivity|apply owf_class_ref]. }
    assert (Ho : owf live_table
       (Obj k_samlp_RequestedAuthnContext [at_ "Comparison" (Some match cmp with Some c => c | None => "exact" end)] None
          [(qa "AuthnContextClassRef", map o_class_ref l)] []) = true).
    { node' at_RAC ci_RAC. uk. rewrite Hrefs. unfold opt_lexb, COMPARISONS in H.
      destruct cmp as [c|]; [rewrite H|]; reflexivity. }
    cbn -[owf].
    rewrite Ho. reflexivity.
Qed.

Definition is_some {A} (o : option A) : bool := match o with Some _ => true | None => false end.

Definition reqattr_ok (r : reqattr) : bool :=
  is_some (fst (ra_step1 r)) && is_some (ra_step3 r) && check_lex LBoolean (lower (pystr (ra_required r))).

Lemma owf_requested_attribute r : reqattr_ok r = true -> owf live_table (requested_attribute r) = true.
Proof.
  unfold reqattr_ok, requested_attribute, requested_attribute_of. intros H. apply andb_true_iff in H as [H Hb]. apply andb_true_iff in H as [Hn Hf].
  destruct (fst (ra_step1 r)) as [n|]; [|discriminate]. destruct (ra_step3 r) as [f|]; [|discriminate].
  node' at_ReqAttr ci_ReqAttr. rewrite Hb. conj; leaf.
Qed.

Lemma owf_requested_attributes_node rs :
  forallb reqattr_ok rs = true -> owf live_table (requested_attributes_node rs) = true.
Proof.
  intros H. unfold requested_attributes_node, requested_attributes_node_of.
  assert (Hall : forallb (fun cb : cref * bool => cref_eqb (fst cb) (CK k_extension_requested_attributes_RequestedAttribute) && snd cb)
                   (map (fun y => (obj_cref y, owf live_table y)) (map requested_attribute rs)) = true).
  { apply members_all. apply Forall_forall. intros y Hy. apply in_map_iff in Hy as [r [<- Hr]].
    rewrite forallb_forall in H. split; [reflexivity|apply owf_requested_attribute; apply H; exact Hr]. }
  node' at_ReqAttrs ci_ReqAttrs. uk. rewrite Hall. reflexivity.
Qed.

(* ---- the look-ups of create_requested_attribute_node, from the attribute as spelt and the converters as loaded *)
Definition knows (sel : conv -> list (string * string)) (key : string) (cs : list conv) : bool :=
  is_some (first_hit sel key cs).

(* the arguments for which the element comes out valid, stated on the INPUT: isRequired has to be a boolean; a name
   that is given needs a name format that is given or a converter that knows the name (since 711f9f2e also when the
   friendly name is given as well); a name that is left out needs a converter that knows the friendly name *)
Definition rattr_ok (cs : list conv) (r : rattr) : bool :=
  check_lex LBoolean (lower (pystr (rq_required r))) &&
  if struthy (rq_name r) then is_some (rq_format r) || knows cv_fro (lower (text_of (rq_name r))) cs
  else struthy (rq_friendly r) && knows cv_to (lower (text_of (rq_friendly r))) cs.

Lemma struthy_some o : struthy o = true -> exists s, o = Some s.
Proof. destruct o as [s|]; [eauto|discriminate]. Qed.

Lemma truthy_nonempty n : struthy (Some n) = true -> is_empty n = false.
Proof. cbn [struthy]. destruct (is_empty n); [discriminate|reflexivity]. Qed.

Lemma resolve_ok cs r : rattr_ok cs r = true -> exists q, ra_resolve cs r = Some q /\ reqattr_ok q = true.
Proof.
  unfold rattr_ok, ra_resolve, reqattr_ok, knows. intros H. apply andb_true_iff in H as [Hb H].
  destruct (struthy (rq_name r)) eqn:En.
  - cbn [negb andb]. eexists. split; [reflexivity|]. cbn [ra_required]. rewrite Hb, andb_true_r.
    unfold ra_step3, ra_step2, ra_step1. cbn [ra_name ra_format ra_friendly ra_to_hit ra_fro_hit fst snd]. rewrite En.
    destruct (struthy_some _ En) as [n Hn]. rewrite Hn in *. cbn [text_of] in H.
    cbn [fst snd is_some andb]. pose proof (truthy_nonempty n En) as Hne.
    destruct (first_hit cv_fro (lower n) cs) as [[fr f]|]; cbn [is_some] in H.
    + destruct (struthy (rq_friendly r)); cbn [fst snd];
        destruct (struthy (rq_format r)) eqn:Efm; rewrite ?Efm, ?Hne; try (destruct (struthy_some _ Efm) as [x ->]); try reflexivity;
        destruct (struthy (Some f)); rewrite ?Hne; reflexivity.
    + rewrite orb_false_r in H. destruct (rq_format r) as [x|]; [|discriminate].
      destruct (struthy (rq_friendly r)); cbn [fst snd]; destruct (struthy (Some x)); rewrite ?Hne; reflexivity.
  - apply andb_true_iff in H as [Ef H]. rewrite Ef. cbn [negb andb]. eexists. split; [reflexivity|].
    cbn [ra_required]. rewrite Hb, andb_true_r.
    unfold ra_step3, ra_step2, ra_step1. cbn [ra_name ra_format ra_friendly ra_to_hit ra_fro_hit fst snd]. rewrite En, Ef.
    destruct (struthy_some _ Ef) as [f Hf]. rewrite Hf in *. cbn [text_of] in H.
    destruct (first_hit cv_to (lower f) cs) as [[n fm]|]; [|discriminate]. cbn [fst snd is_some andb].
    destruct (struthy (rq_format r)) eqn:Efm.
    + rewrite Efm. destruct (struthy_some _ Efm) as [x ->]. reflexivity.
    + destruct (struthy (Some fm)); [reflexivity|]. destruct (is_empty n); [reflexivity|].
      destruct (first_hit cv_fro (lower n) cs) as [[fr f']|]; reflexivity.
Qed.

Lemma resolve_all_ok cs l :
  forallb (rattr_ok cs) l = true -> exists qs, ra_resolve_all cs l = Some qs /\ forallb reqattr_ok qs = true.
Proof.
  induction l as [|r t IH]; cbn [forallb ra_resolve_all]; intros H.
  - exists []. split; reflexivity.
  - apply andb_true_iff in H as [Hr Ht]. destruct (resolve_ok cs r Hr) as [q [-> Hq]]. destruct (IH Ht) as [qs [-> Hqs]].
    exists (q :: qs). split; [reflexivity|]. cbn [forallb]. rewrite Hq, Hqs. reflexivity.
Qed.

Theorem reqattr_valid cs r :
  rattr_ok cs r = true -> exists q, ra_resolve cs r = Some q /\ owf live_table (requested_attribute q) = true.
Proof. intros H. destruct (resolve_ok cs r H) as [q [E Hq]]. exists q. split; [exact E|apply owf_requested_attribute; exact Hq]. Qed.

(* the Name written (None: the element has no Name) and the FriendlyName *)
Definition name_of (q : reqattr) : option string := fst (ra_step1 q).
Definition friendly_of (q : reqattr) : option string := fst (ra_step2 q).
Definition format_of (q : reqattr) : option string := ra_step3 q.
Definition format_of_v0 (q : reqattr) : option string := snd (ra_step2 q).

Lemma first_hit_app_skip sel key cs1 cs2 :
  (forall c, In c cs1 -> sassoc key (sel c) = None) -> first_hit sel key (cs1 ++ cs2) = first_hit sel key cs2.
Proof.
  induction cs1 as [|c r IH]; intros H; [reflexivity|]. cbn [app first_hit]. rewrite (H c (or_introl eq_refl)).
  apply IH. intros c' Hc'. apply H. right. exact Hc'.
Qed.

(* the FIRST map that knows the friendly name decides the Name, whatever maps are loaded after it and whether or not
   the caller gave a name format (which only decides whose NameFormat is written) *)
Theorem reqattr_first_map cs1 c cs2 r f n :
  struthy (rq_name r) = false -> rq_friendly r = Some f -> is_empty f = false ->
  (forall c', In c' cs1 -> sassoc (lower f) (cv_to c') = None) -> sassoc (lower f) (cv_to c) = Some n ->
  exists q, ra_resolve (cs1 ++ c :: cs2) r = Some q /\ name_of q = Some n /\ friendly_of q = Some f
            /\ (is_empty (cv_format c) = false ->
                format_of q = if struthy (rq_format r) then rq_format r else Some (cv_format c)).
Proof.
  intros En Ef Hne Hskip Hhit. unfold ra_resolve. rewrite En, Ef. cbn [struthy]. rewrite Hne. cbn [negb andb].
  eexists. split; [reflexivity|].
  unfold name_of, friendly_of, format_of, ra_step3, ra_step2, ra_step1.
  cbn [ra_name ra_format ra_friendly ra_to_hit ra_fro_hit fst snd]. rewrite En.
  rewrite (first_hit_app_skip cv_to (lower f) cs1 (c :: cs2) Hskip). cbn [first_hit]. rewrite Hhit.
  cbn [fst snd struthy]. rewrite Hne. cbn [negb fst snd]. split; [reflexivity|]. split; [reflexivity|]. intros Hc.
  destruct (rq_format r) as [x|]; cbn [struthy]; [destruct (is_empty x) eqn:Ex; cbn [negb struthy]; rewrite ?Ex, ?Hc; reflexivity|].
  rewrite Hc. reflexivity.
Qed.

(* what the caller writes as name_format has no influence on Name and FriendlyName *)
Definition with_format (r : rattr) (f : option string) : rattr :=
  {| rq_name := rq_name r; rq_friendly := rq_friendly r; rq_format := f; rq_required := rq_required r |}.

Theorem reqattr_names_independent_of_format cs r f :
  option_map (fun q => (name_of q, friendly_of q)) (ra_resolve cs (with_format r f))
  = option_map (fun q => (name_of q, friendly_of q)) (ra_resolve cs r).
Proof.
  unfold ra_resolve, with_format. cbn [rq_name rq_friendly rq_format rq_required].
  destruct (negb (struthy (rq_name r)) && negb (struthy (rq_friendly r))); [reflexivity|].
  cbn [option_map]. f_equal.
  unfold name_of, friendly_of, ra_step2, ra_step1. cbn [ra_name ra_format ra_friendly ra_to_hit ra_fro_hit fst snd].
  destruct (struthy (rq_name r)); cbn [fst snd].
  - destruct (struthy (rq_friendly r)); cbn [fst snd]; [reflexivity|].
    destruct (match rq_name r with Some n => first_hit cv_fro (lower n) cs | None => None end) as [[fr fm]|]; reflexivity.
  - destruct (match rq_friendly r with Some f0 => first_hit cv_to (lower f0) cs | None => None end) as [[n fm]|]; cbn [fst snd].
    + destruct (struthy (rq_friendly r)); cbn [fst snd]; [reflexivity|].
      destruct (first_hit cv_fro (lower n) cs) as [[fr fm']|]; reflexivity.
    + destruct (struthy (rq_friendly r)); cbn [fst snd]; [reflexivity|].
      destruct (match rq_name r with Some n => first_hit cv_fro (lower n) cs | None => None end) as [[fr fm]|]; reflexivity.
Qed.

(* a Name is written whenever the caller gave one or some loaded map knows the friendly name *)
Theorem reqattr_name_present cs r :
  struthy (rq_name r) || (struthy (rq_friendly r) && knows cv_to (lower (text_of (rq_friendly r))) cs) = true ->
  exists q n, ra_resolve cs r = Some q /\ name_of q = Some n.
Proof.
  intros H. unfold ra_resolve, knows in *. destruct (struthy (rq_name r)) eqn:En.
  - cbn [negb andb]. destruct (struthy_some _ En) as [n Hn]. eexists. exists n. split; [reflexivity|].
    unfold name_of, ra_step1. cbn [ra_name ra_format fst]. rewrite En. exact Hn.
  - cbn [orb] in H. apply andb_true_iff in H as [Ef H]. rewrite Ef. cbn [negb andb].
    destruct (struthy_some _ Ef) as [f Hf]. rewrite Hf in *. cbn [text_of] in H.
    destruct (first_hit cv_to (lower f) cs) as [[n fm]|] eqn:Eh; [|discriminate].
    eexists. exists n. split; [reflexivity|].
    unfold name_of, ra_step1. cbn [ra_name ra_format ra_to_hit fst]. rewrite En. reflexivity.
Qed.

(* ---- finding 10: an attribute the maps know, given with name AND friendly name but without name_format: neither
   loop runs, nothing infers the format, the element has no NameFormat (required by the schema and by the class) *)
Definition rattr_known (cs : list conv) (r : rattr) : bool :=
  check_lex LBoolean (lower (pystr (rq_required r))) &&
  if struthy (rq_name r) then knows cv_fro (lower (text_of (rq_name r))) cs
  else struthy (rq_friendly r) && knows cv_to (lower (text_of (rq_friendly r))) cs.

Lemma rattr_known_ok cs r : rattr_known cs r = true -> rattr_ok cs r = true.
Proof.
  unfold rattr_known, rattr_ok. intros H. apply andb_true_iff in H as [Hb H]. rewrite Hb. cbn [andb].
  destruct (struthy (rq_name r)); [|exact H]. rewrite H, orb_true_r. reflexivity.
Qed.

(* since 711f9f2e: every attribute the loaded maps know is valid, however it is spelt *)
Theorem reqattr_known_valid cs r :
  rattr_known cs r = true -> exists q, ra_resolve cs r = Some q /\ owf live_table (requested_attribute q) = true.
Proof. intros H. exact (reqattr_valid cs r (rattr_known_ok cs r H)). Qed.

Definition sample_convs : list conv :=
  [{| cv_format := "urn:oasis:names:tc:SAML:2.0:attrname-format:uri";
      cv_to := [("givenname", "urn:oid:2.5.4.42")]; cv_fro := [("urn:oid:2.5.4.42", "givenName")] |}].
Definition sample_both : rattr :=
  {| rq_name := Some "urn:oid:2.5.4.42"; rq_friendly := Some "givenName"; rq_format := None; rq_required := PBool true |}.

(* the code before 711f9f2e (requested_attribute_v0): the same attribute came out without NameFormat *)
Theorem reqattr_no_format_v0_refuted :
  exists cs r q, rattr_known cs r = true /\ ra_resolve cs r = Some q
                 /\ valid live_table (CK k_extension_requested_attributes_RequestedAttribute)
                          (to_tree live_table (requested_attribute_v0 q)) = false.
Proof. exists sample_convs, sample_both. eexists. split; [reflexivity|]. split; [reflexivity|]. vm_compute. reflexivity. Qed.

Example reqattr_no_format_sample :
  exists q, ra_resolve sample_convs sample_both = Some q
            /\ format_of q = Some "urn:oasis:names:tc:SAML:2.0:attrname-format:uri" /\ format_of_v0 q = None.
Proof. eexists. split; [reflexivity|]. split; reflexivity. Qed.

(* the repair changes nothing where the two loops had left a usable format *)
Theorem fix_conservative q : struthy (format_of_v0 q) = true -> requested_attribute q = requested_attribute_v0 q.
Proof.
  intros H. unfold requested_attribute, requested_attribute_v0, requested_attribute_of, ra_step3. unfold format_of_v0 in H.
  rewrite H. reflexivity.
Qed.

Definition SPTYPES := ["public"; "private"].

Lemma owf_sp_type_node t : check_lex (LEnum SPTYPES) t = true -> owf live_table (sp_type_node t) = true.
Proof. intros H. unfold sp_type_node. node' at_SPType ci_SPType. unfold SPTYPES in H. rewrite H. reflexivity. Qed.

(* an eIDAS node serialised into the Extensions of a request *)
Lemma ext_ok_of_obj o k ci :
  obj_cref o = CK k -> class_at live_table k = Some ci -> owf live_table o = true ->
  wild_ok WOther SAMLP_NS (ci_tag ci) = true -> elem_class live_table (ci_tag ci) = Some k ->
  ext_ok live_table ci_Extensions (to_tree live_table o) = true.
Proof.
  intros Hc Hk Ho Hw He. unfold ext_ok.
  rewrite (root_tag_owf live_table o k ci Ho Hc Hk), He.
  pose proof (owf_valid live_table table_ok o Ho) as Hv. rewrite Hc in Hv. rewrite Hv.
  unfold ci_Extensions. cbn [ci_any ci_tag q_ns ci_parts map qmem existsb negb andb]. rewrite !andb_true_r. exact Hw.
Qed.

Lemma ext_ok_sp_type t :
  check_lex (LEnum SPTYPES) t = true -> ext_ok live_table ci_Extensions (to_tree live_table (sp_type_node t)) = true.
Proof.
  intros H. apply (ext_ok_of_obj _ k_extension_sp_type_SPType ci_SPType); [reflexivity|exact at_SPType|apply owf_sp_type_node; exact H| |];
    vm_compute; reflexivity.
Qed.

Lemma ext_ok_reqattrs rs :
  forallb reqattr_ok rs = true -> ext_ok live_table ci_Extensions (to_tree live_table (requested_attributes_node rs)) = true.
Proof.
  intros H. apply (ext_ok_of_obj _ k_extension_requested_attributes_RequestedAttributes ci_ReqAttrs);
    [reflexivity|exact at_ReqAttrs|apply owf_requested_attributes_node; exact H| |]; vm_compute; reflexivity.
Qed.

(* the caller's Extensions content: foreign-namespace elements, valid where their declaration is known;
   an Extensions instance that ends up without any child would be schema-invalid *)
Definition caller_ext_ok (e : option (list tree)) : bool :=
  match e with Some c => forallb (ext_ok live_table ci_Extensions) c | None => true end.

Record ar_ok (a : ar_args) : Prop := {
  ok_ob : obs_ok (ar_ob a);
  ok_passive : opt_lexb LBoolean (ar_kw_is_passive a) = true;
  ok_index : opt_lexb LUShort (ar_kw_acs_index a) = true;
  ok_aci : opt_lexb LUShort (ar_kw_attr_cons_index a) = true;
  ok_allow : opt_lexb LBoolean (ar_allow_create a) = true;
  ok_nip : match ar_kw_nip a with NipInst _ al _ => opt_lexb LBoolean al = true | _ => True end;
  ok_rac_kw : rac_ok (ar_kw_rac a) = true;
  ok_rac_cfg : rac_ok (ar_cfg_rac a) = true;
  ok_scoping : opt_valid k_samlp_Scoping (ar_scoping a) = true;
  ok_conditions : opt_valid k_saml_Conditions (ar_kw_conditions a) = true;
  ok_subject : opt_valid k_saml_Subject (ar_kw_subject a) = true;
  ok_ext : caller_ext_ok (ar_extensions a) = true;
  ok_ext_nonempty : ext_choice a <> Some [];
  ok_sp_type : opt_lexb (LEnum SPTYPES) (ar_cfg_sp_type a) = true;
  ok_ra : forallb (rattr_ok (ar_convs a)) (ar_reqattrs a) = true;
  ok_ra_cfg : forallb (rattr_ok (ar_convs a)) (ar_cfg_reqattrs a) = true
}.

Lemma ext_choice_ok a : ar_ok a -> opt_ext_ok (ext_choice a) = true.
Proof.
  intros H. pose proof (ok_ext_nonempty a H) as Hne. revert Hne. unfold ext_choice, ext_choice_gen.
  pose proof (ok_ext a H) as He. pose proof (ok_sp_type a H) as Hs.
  pose proof (ok_ra a H) as Hr. pose proof (ok_ra_cfg a H) as Hrc.
  set (ext0 := ar_extensions a) in *.
  set (ext1 := match ar_cfg_sp_type a with
               | Some t => match ar_cfg_sp_type_in_md a with
                           | Some false => if negb (is_empty t)
                                           then Some (match ext0 with Some c => c | None => [] end ++ [to_tree live_table (sp_type_node t)])
                                           else ext0
                           | _ => ext0 end
               | None => ext0 end).
  assert (H1 : caller_ext_ok ext1 = true).
  { unfold ext1. destruct (ar_cfg_sp_type a) as [t|]; [|exact He].
    destruct (ar_cfg_sp_type_in_md a) as [[|]|]; try exact He. destruct (negb (is_empty t)); [|exact He].
    cbn [caller_ext_ok]. rewrite forallb_app. cbn [forallb]. cbn [opt_lexb] in Hs. rewrite (ext_ok_sp_type t Hs).
    destruct ext0 as [c|]; cbn [caller_ext_ok] in He; [rewrite He|]; reflexivity. }
  clearbody ext1.
  set (ras := match ras_choice a with Some l => l | None => [] end).
  assert (Hras : forallb reqattr_ok ras = true).
  { unfold ras, ras_choice.
    assert (Hin : forallb (rattr_ok (ar_convs a)) (match ar_reqattrs a with [] => ar_cfg_reqattrs a | l => l end) = true).
    { destruct (ar_reqattrs a); [exact Hrc|exact Hr]. }
    destruct (resolve_all_ok _ _ Hin) as [qs [-> Hqs]]. exact Hqs. }
  clearbody ras.
  destruct ras as [|r0 rs'].
  - intros Hne. destruct ext1 as [c|]; [|reflexivity]. cbn [opt_ext_ok]. unfold ext_content_ok.
    cbn [caller_ext_ok] in H1. rewrite H1. destruct c; [exfalso; apply Hne; reflexivity|reflexivity].
  - intros _. cbn [opt_ext_ok]. unfold ext_content_ok. rewrite forallb_app. cbn [forallb].
    rewrite (ext_ok_reqattrs (r0 :: rs') Hras).
    destruct ext1 as [c|]; cbn [caller_ext_ok] in H1; [rewrite H1|]; cbn [andb]; [destruct c|]; reflexivity.
Qed.

Lemma acs_index_ok a : opt_lexb LUShort (ar_kw_acs_index a) = true -> opt_lexb LUShort (snd (fst (acs_choice a))) = true.
Proof.
  intros H. unfold acs_choice.
  destruct (ar_cfg_hide_acs a); [reflexivity|].
  destruct (struthy (sor (ar_kw_acs_urls0 a) (ar_kw_acs_url a))); [reflexivity|].
  destruct (struthy (ar_kw_acs_index a)); [exact H|].
  destruct (struthy _); reflexivity.
Qed.

Lemma force_ok a : opt_lexb LBoolean (force_choice a) = true.
Proof. unfold force_choice. destruct (mem _ _); reflexivity. Qed.

Lemma bool_lower_ok b : check_lex LBoolean (lower (pystr (PBool b))) = true.
Proof. destruct b; reflexivity. Qed.

Lemma nip_part a :
  ar_ok a ->
  (Datatypes.length (map (fun x : obj => (obj_cref x, owf live_table x))
     (match nip_choice a with Some (f, q, al) => [o_name_id_policy f q al] | None => [] end)) <=? 1)
  && forallb (fun cb : cref * bool => cref_eqb (fst cb) (CK k_samlp_NameIDPolicy) && snd cb)
       (map (fun x : obj => (obj_cref x, owf live_table x))
          (match nip_choice a with Some (f, q, al) => [o_name_id_policy f q al] | None => [] end)) = true.
Proof.
  intros H.
  assert (Hal : match nip_choice a with Some (_, _, al) => opt_lexb LBoolean al = true | None => True end).
  { unfold nip_choice. pose proof (ok_allow a H) as Ha. pose proof (ok_nip a H) as Hn.
    set (fmt := if struthy (sor (ar_nameid_format a) (sor (ar_cfg_nip_format a) None))
                then sor (ar_nameid_format a) (sor (ar_cfg_nip_format a) None) else None).
    set (alc := if opt_eqb String.eqb fmt (Some NAMEID_FORMAT_TRANSIENT) then None
                else if struthy (ar_allow_create a) then ar_allow_create a
                     else Some (lower (pystr (PBool (ar_cfg_allow_create a))))).
    assert (Halc : opt_lexb LBoolean alc = true).
    { unfold alc. destruct (opt_eqb _ _ _); [reflexivity|]. destruct (struthy (ar_allow_create a)); [exact Ha|].
      cbn [opt_lexb]. apply bool_lower_ok. }
    clearbody alc. clearbody fmt.
    destruct (ar_kw_nip a) as [| |f al q]; [destruct fmt| |]; cbn iota beta; try exact I;
      destruct (negb (is_empty (ar_vorg a))); cbn iota beta; try assumption; exact I. }
  destruct (nip_choice a) as [[[f q] al]|]; [|reflexivity].
  cbn -[owf]. rewrite (owf_name_id_policy f q al Hal). reflexivity.
Qed.

Theorem owf_authn_request a o : ar_ok a -> authn_request a = Some o -> owf live_table o = true.
Proof.
  intros H E. unfold authn_request, authn_request_gen in E.
  change (ext_choice_gen requested_attributes_node a) with (ext_choice a) in E.
  destruct (ras_choice a) as [ras0|]; [|discriminate].
  destruct (sig_member (ar_signing a) (ar_ob a)) as [sg|] eqn:Es; [|discriminate]. inversion E; subst o. clear E.
  pose proof (sig_part _ _ _ (ok_ob a H) Es) as Hsg. pose proof (ext_member _ (ext_choice_ok a H)) as Hex.
  pose proof (nip_part a H) as Hnip.
  assert (Hrc : rac_ok (rac_choice a) = true).
  { unfold rac_choice. destruct (rac_truthy (ar_kw_rac a)); [exact (ok_rac_kw a H)|exact (ok_rac_cfg a H)]. }
  pose proof (rac_part _ Hrc) as Hrac.
  pose proof (raw_opt _ _ (ok_scoping a H)) as Hsc. pose proof (raw_opt _ _ (ok_conditions a H)) as Hco.
  pose proof (raw_opt _ _ (ok_subject a H)) as Hsu.
  pose proof (acs_index_ok a (ok_index a H)) as Hidx. pose proof (force_ok a) as Hfo.
  pose proof (ok_passive a H) as Hpa. pose proof (ok_aci a H) as Haci.
  destruct (ok_ob a H) as [Hid [Hin _]]. unfold message.
  node' at_AuthnRequest ci_AuthnRequest. uk.
  rewrite owf_issuer, Hsg, Hex, Hnip, Hrac, Hsc, Hco, Hsu, Hid, Hin. unfold opt_lexb in *.
  rewrite Hidx, Hfo, Hpa, Haci, !any_ok.
  conj; leaf.
Qed.

(* ---------------------------------------------------------------- final statements, against Spec *)
From Verif Require Import C13.Spec C13.SpecProofs.

Lemma doc_of_owf o k ci :
  obj_cref o = CK k -> class_at live_table k = Some ci -> elem_class live_table (ci_tag ci) = Some k ->
  owf live_table o = true -> spec live_table (to_tree live_table o).
Proof.
  intros Hc Hk He Ho. unfold spec, ValidDoc. exists k.
  rewrite (root_tag_owf live_table o k ci Ho Hc Hk). split; [exact He|].
  apply valid_spec. pose proof (owf_valid live_table table_ok o Ho) as Hv. rewrite Hc in Hv. exact Hv.
Qed.

Ltac elem_fact := vm_compute; reflexivity.

Theorem authn_request_valid a o : ar_ok a -> authn_request a = Some o -> spec live_table (to_tree live_table o).
Proof.
  intros H E. pose proof (owf_authn_request a o H E) as Ho. unfold authn_request, authn_request_gen in E.
  destruct (ras_choice a); [|discriminate]. destruct (sig_member _ _); [|discriminate]. inversion E; subst o.
  apply (doc_of_owf _ k_samlp_AuthnRequest ci_AuthnRequest); [reflexivity|exact at_AuthnRequest|elem_fact|exact Ho].
Qed.

Theorem logout_request_valid a o :
  obs_ok (lr_ob a) -> opt_lexb LDateTime (lr_expire a) = true -> opt_ext_ok (lr_extensions a) = true ->
  opt_valid k_saml_NameID (lr_name_id a) = true ->
  logout_request a = Some o -> spec live_table (to_tree live_table o).
Proof.
  intros H1 H2 H3 H4 E. pose proof (owf_logout_request a o H1 H2 H3 H4 E) as Ho. unfold logout_request in E.
  destruct (lr_name_id a); [|discriminate]. destruct (sig_member _ _); [|discriminate]. inversion E; subst o.
  apply (doc_of_owf _ k_samlp_LogoutRequest ci_LogoutRequest); [reflexivity|exact at_LogoutRequest|elem_fact|exact Ho].
Qed.

Theorem attribute_query_valid a o :
  obs_ok (aq_ob a) -> opt_ext_ok (aq_extensions a) = true ->
  valid live_table (CK k_saml_NameID) (aq_name_id a) = true ->
  forallb (valid live_table (CK k_saml_Attribute)) (aq_attributes a) = true ->
  attribute_query a = Some o -> spec live_table (to_tree live_table o).
Proof.
  intros H1 H2 H3 H4 E. pose proof (owf_attribute_query a o H1 H2 H3 H4 E) as Ho. unfold attribute_query in E.
  destruct (sig_member _ _); [|discriminate]. inversion E; subst o.
  apply (doc_of_owf _ k_samlp_AttributeQuery ci_AttributeQuery); [reflexivity|exact at_AttributeQuery|elem_fact|exact Ho].
Qed.

Theorem artifact_resolve_valid entityid artifact destination consent extensions sg ob o :
  obs_ok ob -> opt_ext_ok extensions = true ->
  artifact_resolve entityid artifact destination consent extensions sg ob = Some o -> spec live_table (to_tree live_table o).
Proof.
  intros H1 H2 E. pose proof (owf_artifact_resolve _ _ _ _ _ _ _ _ H1 H2 E) as Ho. unfold artifact_resolve in E.
  destruct (sig_member _ _); [|discriminate]. inversion E; subst o.
  apply (doc_of_owf _ k_samlp_ArtifactResolve ci_ArtifactResolve); [reflexivity|exact at_ArtifactResolve|elem_fact|exact Ho].
Qed.

Theorem logout_response_valid a o :
  obs_ok (sr_ob a) -> opt_lexb LNCName (sr_in_response_to a) = true -> sr_ext a = [] ->
  logout_response a = Some o -> spec live_table (to_tree live_table o).
Proof.
  intros H1 H2 H3 E. pose proof (owf_logout_response a H1 H2 o H3 E) as Ho. unfold logout_response, status_response in E.
  destruct (sig_member _ _); [|discriminate]. inversion E; subst o.
  apply (doc_of_owf _ k_samlp_LogoutResponse ci_LogoutResponse); [reflexivity|exact at_LogoutResponse|elem_fact|exact Ho].
Qed.

Theorem manage_name_id_response_valid a o :
  obs_ok (sr_ob a) -> opt_lexb LNCName (sr_in_response_to a) = true -> sr_ext a = [] ->
  manage_name_id_response a = Some o -> spec live_table (to_tree live_table o).
Proof.
  intros H1 H2 H3 E. pose proof (owf_manage_name_id_response a H1 H2 o H3 E) as Ho.
  unfold manage_name_id_response, status_response in E.
  destruct (sig_member _ _); [|discriminate]. inversion E; subst o.
  apply (doc_of_owf _ k_samlp_ManageNameIDResponse ci_ManageNameIDResponse);
    [reflexivity|exact at_ManageNameIDResponse|elem_fact|exact Ho].
Qed.

Theorem artifact_response_valid a o :
  obs_ok (sr_ob a) -> opt_lexb LNCName (sr_in_response_to a) = true ->
  forallb (ext_ok live_table ci_ArtifactResponse) (sr_ext a) = true -> (length (sr_ext a) <=? 1) = true ->
  artifact_response a = Some o -> spec live_table (to_tree live_table o).
Proof.
  intros H1 H2 H3 H4 E. pose proof (owf_artifact_response a H1 H2 o H3 H4 E) as Ho. unfold artifact_response, status_response in E.
  destruct (sig_member _ _); [|discriminate]. inversion E; subst o.
  apply (doc_of_owf _ k_samlp_ArtifactResponse ci_ArtifactResponse); [reflexivity|exact at_ArtifactResponse|elem_fact|exact Ho].
Qed.

Theorem response_valid a o :
  obs_ok (rs_ob a) -> opt_lexb LNCName (rs_in_response_to a) = true ->
  forallb (valid live_table (CK k_saml_Assertion)) (rs_assertions a) = true ->
  forallb (valid live_table (CK k_saml_EncryptedAssertion)) (rs_encrypted a) = true ->
  response a = Some o -> spec live_table (to_tree live_table o).
Proof.
  intros H1 H2 H3 H4 E. pose proof (owf_response a o H1 H2 H3 H4 E) as Ho. unfold response in E.
  destruct (sig_member _ _); [|discriminate]. inversion E; subst o.
  apply (doc_of_owf _ k_samlp_Response ci_Response); [reflexivity|exact at_Response|elem_fact|exact Ho].
Qed.

Theorem error_response_valid issuer code message irt dest sg ob o :
  obs_ok ob -> opt_lexb LNCName irt = true ->
  error_response issuer code message irt dest sg ob = Some o -> spec live_table (to_tree live_table o).
Proof.
  intros H1 H2 E. unfold error_response in E. eapply response_valid; [| | | |exact E]; cbn; auto.
Qed.

(* non-vacuity: the hypotheses are satisfiable, and a request with every option exercised is built *)
Definition sample_ob := {| ob_id := "id-Ab3"; ob_instant := "2023-11-14T22:13:20Z"; ob_sig := None |}.
Definition sample_ar : ar_args :=
  {| ar_entityid := "https://sp.example.org/sp.xml"; ar_cfg_name := Some "SP"; ar_cfg_hide_acs := false;
     ar_cfg_acs := [EP "https://sp.example.org/acs/post" "urn:oasis:names:tc:SAML:2.0:bindings:HTTP-POST"];
     ar_cfg_nip_format := Some NAMEID_FORMAT_PERSISTENT; ar_cfg_allow_create := true; ar_cfg_force_authn := PStr "true";
     ar_cfg_rac := RacMap true ["urn:oasis:names:tc:SAML:2.0:ac:classes:Password"] (Some "minimum");
     ar_cfg_sp_type := Some "public"; ar_cfg_sp_type_in_md := Some false;
     ar_cfg_reqattrs := [{| rq_name := Some "urn:oid:2.5.4.42"; rq_friendly := None; rq_format := None; rq_required := PBool true |};
                         {| rq_name := None; rq_friendly := Some "eduPersonNickname";
                            rq_format := Some "urn:oasis:names:tc:SAML:2.0:attrname-format:uri"; rq_required := PStr "1" |}];
     ar_convs := builtin_convs;
     ar_signing := {| sg_arg := None; sg_should := false |};
     ar_destination := Some "https://idp.example.org/sso"; ar_vorg := "urn:vo"; ar_scoping := None;
     ar_binding := "urn:oasis:names:tc:SAML:2.0:bindings:HTTP-POST"; ar_service_url_binding := None; ar_nameid_format := None;
     ar_consent := true; ar_extensions := None; ar_sign_prepare := false; ar_allow_create := Some "false"; ar_reqattrs := [];
     ar_kw_acs_urls0 := None; ar_kw_acs_url := None; ar_kw_acs_index := Some "2"; ar_kw_provider_name := None;
     ar_kw_rac := RacNone; ar_kw_conditions := None; ar_kw_subject := None; ar_kw_nip := NipAbsent;
     ar_kw_force_authn := PNone; ar_kw_is_passive := Some "false"; ar_kw_attr_cons_index := Some "1"; ar_ob := sample_ob |}.

Example sample_ar_ok : ar_ok sample_ar.
Proof.
  constructor; try (vm_compute; reflexivity); try exact I.
  - repeat split; vm_compute; reflexivity.
  - vm_compute. discriminate.
Qed.

Example sample_ar_built : exists o, authn_request sample_ar = Some o /\ valid_doc live_table (to_tree live_table o) = true.
Proof. eexists. split; [reflexivity|vm_compute; reflexivity]. Qed.

(* ---------------------------------------------------------------- metadata.entity_descriptor (shell) *)
Definition ci_EntityDescriptor := Eval vm_compute in get_ci k_md_EntityDescriptor.
Lemma at_EntityDescriptor : class_at live_table k_md_EntityDescriptor = Some ci_EntityDescriptor. Proof. class_fact. Qed.
Definition ci_Organization := Eval vm_compute in get_ci k_md_Organization.
Lemma at_Organization : class_at live_table k_md_Organization = Some ci_Organization. Proof. class_fact. Qed.
Definition ci_OrgName := Eval vm_compute in get_ci k_md_OrganizationName.
Lemma at_OrgName : class_at live_table k_md_OrganizationName = Some ci_OrgName. Proof. class_fact. Qed.
Definition ci_OrgDisplayName := Eval vm_compute in get_ci k_md_OrganizationDisplayName.
Lemma at_OrgDisplayName : class_at live_table k_md_OrganizationDisplayName = Some ci_OrgDisplayName. Proof. class_fact. Qed.
Definition ci_OrgURL := Eval vm_compute in get_ci k_md_OrganizationURL.
Lemma at_OrgURL : class_at live_table k_md_OrganizationURL = Some ci_OrgURL. Proof. class_fact. Qed.
Definition ci_mdExtensions := Eval vm_compute in get_ci k_md_Extensions.
Lemma at_mdExtensions : class_at live_table k_md_Extensions = Some ci_mdExtensions. Proof. class_fact. Qed.

Lemma owf_org_name tl : owf live_table (o_localized k_md_OrganizationName tl) = true.
Proof. unfold o_localized. node' at_OrgName ci_OrgName. reflexivity. Qed.
Lemma owf_org_display tl : owf live_table (o_localized k_md_OrganizationDisplayName tl) = true.
Proof. unfold o_localized. node' at_OrgDisplayName ci_OrgDisplayName. reflexivity. Qed.
Lemma owf_org_url tl : owf live_table (o_localized k_md_OrganizationURL tl) = true.
Proof. unfold o_localized. node' at_OrgURL ci_OrgURL. reflexivity. Qed.

Lemma localized_all k (H : forall tl, owf live_table (o_localized k tl) = true) l :
  forallb (fun cb : cref * bool => cref_eqb (fst cb) (CK k) && snd cb)
          (map (fun x => (obj_cref x, owf live_table x)) (map (o_localized k) l)) = true.
Proof.
  apply members_all. apply Forall_forall. intros x Hx. apply in_map_iff in Hx as [tl [<- _]].
  split; [reflexivity|apply H].
Qed.

Definition org_present (o : orgv) : bool := match org_values o with [] => false | _ => true end.

(* the organisation is schema-valid as soon as each of name, display_name and url is configured *)
Lemma owf_organization n d u :
  org_present n = true -> org_present d = true -> org_present u = true -> owf live_table (organization n d u) = true.
Proof.
  unfold org_present, organization. intros Hn Hd Hu.
  pose proof (localized_all _ owf_org_name (org_values n)) as H1.
  pose proof (localized_all _ owf_org_display (org_values d)) as H2.
  pose proof (localized_all _ owf_org_url (org_values u)) as H3.
  node' at_Organization ci_Organization. uk. unfold k_md_OrganizationName, k_md_OrganizationDisplayName, k_md_OrganizationURL in *.
  rewrite H1, H2, H3, !map_length.
  destruct (org_values n); [discriminate|]. destruct (org_values d); [discriminate|]. destruct (org_values u); [discriminate|].
  reflexivity.
Qed.

Definition org_ok (o : option (orgv * orgv * orgv)) : bool :=
  match o with Some (n, d, u) => org_present n && org_present d && org_present u | None => true end.

Lemma owf_md_extensions c :
  c <> [] -> forallb (ext_ok live_table ci_mdExtensions) c = true -> owf live_table (Obj k_md_Extensions [] None [] c) = true.
Proof.
  intros Hne Hall. rewrite owf_unfold, at_mdExtensions. unfold oattrs_ok. cbn -[ext_ok forallb]. cbn [forallb].
  rewrite Hall. destruct c; [contradiction|reflexivity].
Qed.

Theorem owf_entity_descriptor a :
  opt_lexb LDateTime (ed_valid_until a) = true -> org_ok (ed_org a) = true ->
  forallb (valid live_table (CK k_md_ContactPerson)) (ed_contacts a) = true ->
  forallb (ext_ok live_table ci_mdExtensions) (ed_ext a) = true ->
  opt_valid k_md_IDPSSODescriptor (ed_idp a) = true -> opt_valid k_md_SPSSODescriptor (ed_sp a) = true ->
  opt_valid k_md_AuthnAuthorityDescriptor (ed_aq a) = true -> opt_valid k_md_AttributeAuthorityDescriptor (ed_aa a) = true ->
  opt_valid k_md_PDPDescriptor (ed_pdp a) = true ->
  owf live_table (entity_descriptor a) = true.
Proof.
  intros Hvu Horg Hcp Hext H1 H2 H3 H4 H5. unfold entity_descriptor.
  pose proof (raws_all _ _ Hcp) as HC.
  pose proof (raw_opt _ _ H1) as R1. pose proof (raw_opt _ _ H2) as R2. pose proof (raw_opt _ _ H3) as R3.
  pose proof (raw_opt _ _ H4) as R4. pose proof (raw_opt _ _ H5) as R5.
  apply andb_true_iff in R1 as [_ R1]. apply andb_true_iff in R2 as [_ R2]. apply andb_true_iff in R3 as [_ R3].
  apply andb_true_iff in R4 as [_ R4]. apply andb_true_iff in R5 as [_ R5].
  assert (HE : (Datatypes.length (map (fun x : obj => (obj_cref x, owf live_table x))
                    (match ed_ext a with [] => [] | c => [Obj k_md_Extensions [] None [] c] end)) <=? 1)
               && forallb (fun cb : cref * bool => cref_eqb (fst cb) (CK k_md_Extensions) && snd cb)
                    (map (fun x : obj => (obj_cref x, owf live_table x))
                       (match ed_ext a with [] => [] | c => [Obj k_md_Extensions [] None [] c] end)) = true).
  { destruct (ed_ext a) as [|x r] eqn:Ee; [reflexivity|]. cbn -[owf]. rewrite owf_md_extensions; [reflexivity|discriminate|exact Hext]. }
  assert (HO : (Datatypes.length (map (fun x : obj => (obj_cref x, owf live_table x))
                    (match ed_org a with Some (n, d, u) => [organization n d u] | None => [] end)) <=? 1)
               && forallb (fun cb : cref * bool => cref_eqb (fst cb) (CK k_md_Organization) && snd cb)
                    (map (fun x : obj => (obj_cref x, owf live_table x))
                       (match ed_org a with Some (n, d, u) => [organization n d u] | None => [] end)) = true).
  { destruct (ed_org a) as [[[n d] u]|]; [|reflexivity]. cbn [org_ok] in Horg.
    apply andb_true_iff in Horg as [Horg Hu]. apply andb_true_iff in Horg as [Hn Hd].
    cbn -[owf]. rewrite (owf_organization n d u Hn Hd Hu). reflexivity. }
  node' at_EntityDescriptor ci_EntityDescriptor. uk.
  unfold k_md_ContactPerson, k_md_IDPSSODescriptor, k_md_SPSSODescriptor, k_md_AuthnAuthorityDescriptor,
    k_md_AttributeAuthorityDescriptor, k_md_PDPDescriptor, k_md_Extensions, k_md_Organization in *.
  rewrite HC, R1, R2, R3, R4, R5, HE, HO. unfold opt_lexb in Hvu.
  conj; leaf.
Qed.

Theorem entity_descriptor_valid a :
  opt_lexb LDateTime (ed_valid_until a) = true -> org_ok (ed_org a) = true ->
  forallb (valid live_table (CK k_md_ContactPerson)) (ed_contacts a) = true ->
  forallb (ext_ok live_table ci_mdExtensions) (ed_ext a) = true ->
  opt_valid k_md_IDPSSODescriptor (ed_idp a) = true -> opt_valid k_md_SPSSODescriptor (ed_sp a) = true ->
  opt_valid k_md_AuthnAuthorityDescriptor (ed_aq a) = true -> opt_valid k_md_AttributeAuthorityDescriptor (ed_aa a) = true ->
  opt_valid k_md_PDPDescriptor (ed_pdp a) = true ->
  spec live_table (to_tree live_table (entity_descriptor a)).
Proof.
  intros. apply (doc_of_owf _ k_md_EntityDescriptor ci_EntityDescriptor);
    [reflexivity|exact at_EntityDescriptor|elem_fact|apply owf_entity_descriptor; assumption].
Qed.

Lemma name_id_mapping_response_valid :
  forall entityid name_id irt status sg ob o,
    obs_ok ob -> opt_lexb LNCName irt = true -> opt_valid k_saml_NameID name_id = true ->
    name_id_mapping_response entityid name_id irt status sg ob = Some o ->
    valid live_table (CK k_samlp_NameIDMappingResponse) (to_tree live_table o) = true.
Proof.
  intros e n i st sg ob o H1 H2 H3 E.
  pose proof (owf_name_id_mapping_response e n i st sg ob o H1 H2 H3 E) as Ho.
  pose proof (owf_valid live_table table_ok o Ho) as Hv.
  unfold name_id_mapping_response in E. destruct (sig_member sg ob); [|discriminate]. inversion E; subst o. exact Hv.
Qed.
