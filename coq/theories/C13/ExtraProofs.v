(* C13/ExtraProofs.v — lemmas about Extra.v. *)
From Coq Require Import String Ascii List Bool Arith NArith Lia.
From Verif Require Import Base.Str C13.Model C13.Spec C13.Builders C13.Proofs C13.SpecProofs C13.BuilderProofs C13.Extra.
From VerifGen Require Import C13Tables.
Import ListNotations.
Open Scope string_scope.
Open Scope list_scope.
Open Scope nat_scope.

(* ------------------------------------------------------------------ xs:ID uniqueness: the boolean is NoDup *)
Lemma nodupb_iff l : nodupb l = true <-> NoDup l.
Proof.
  induction l as [|x r IH]; cbn [nodupb].
  - split; [constructor|reflexivity].
  - rewrite andb_true_iff, negb_true_iff, IH. split.
    + intros [Hm Hn]. constructor; [|exact Hn]. intros Hin. apply mem_In in Hin. congruence.
    + intros H. inversion H as [|? ? Hnin Hnd]; subst. split; [|exact Hnd].
      destruct (mem x r) eqn:E; [|reflexivity]. apply mem_In in E. contradiction.
Qed.

Theorem ids_unique_iff T I t : ids_unique T I t = true <-> NoDup (doc_ids T I t).
Proof. apply nodupb_iff. Qed.

Lemma mem_app x l1 l2 : mem x (l1 ++ l2) = mem x l1 || mem x l2.
Proof.
  induction l1 as [|y r IH]; cbn [mem app]; [reflexivity|]. destruct (String.eqb x y); [reflexivity|exact IH].
Qed.

(* ------------------------------------------------------------------ raw members carry the tag of their class *)
Lemma raw_root k ci t :
  class_at live_table k = Some ci -> valid live_table (CK k) t = true -> root_tag t = ci_tag ci.
Proof.
  intros Hk Hv. destruct t as [tag attrs text kids]. rewrite valid_unfold, Hk in Hv.
  apply andb_true_iff in Hv as [Hn _]. unfold node_ok in Hn. do 3 (apply andb_true_iff in Hn as [Hn ?]).
  apply qeqb_eq in Hn. exact Hn.
Qed.

Definition ci_NIMReq := Eval vm_compute in get_ci k_samlp_NameIDMappingRequest.
Lemma at_NIMReq : class_at live_table k_samlp_NameIDMappingRequest = Some ci_NIMReq. Proof. class_fact. Qed.
Definition ci_MNIReq := Eval vm_compute in get_ci k_samlp_ManageNameIDRequest.
Lemma at_MNIReq : class_at live_table k_samlp_ManageNameIDRequest = Some ci_MNIReq. Proof. class_fact. Qed.
Definition ci_NameID := Eval vm_compute in get_ci k_saml_NameID.
Lemma at_NameID : class_at live_table k_saml_NameID = Some ci_NameID. Proof. class_fact. Qed.
Definition ci_BaseID := Eval vm_compute in get_ci k_saml_BaseID.
Lemma at_BaseID : class_at live_table k_saml_BaseID = Some ci_BaseID. Proof. class_fact. Qed.
Definition ci_EncryptedID := Eval vm_compute in get_ci k_saml_EncryptedID.
Lemma at_EncryptedID : class_at live_table k_saml_EncryptedID = Some ci_EncryptedID. Proof. class_fact. Qed.
Definition ci_NewID := Eval vm_compute in get_ci k_samlp_NewID.
Lemma at_NewID : class_at live_table k_samlp_NewID = Some ci_NewID. Proof. class_fact. Qed.
Definition ci_NewEncryptedID := Eval vm_compute in get_ci k_samlp_NewEncryptedID.
Lemma at_NewEncryptedID : class_at live_table k_samlp_NewEncryptedID = Some ci_NewEncryptedID. Proof. class_fact. Qed.
Definition ci_Terminate := Eval vm_compute in get_ci k_samlp_Terminate.
Lemma at_Terminate : class_at live_table k_samlp_Terminate = Some ci_Terminate. Proof. class_fact. Qed.
Definition ci_Signature := Eval vm_compute in get_ci k_xmldsig_Signature.
Lemma at_Signature : class_at live_table k_xmldsig_Signature = Some ci_Signature. Proof. class_fact. Qed.
Definition ci_Attribute := Eval vm_compute in get_ci k_saml_Attribute.
Lemma at_Attribute : class_at live_table k_saml_Attribute = Some ci_Attribute. Proof. class_fact. Qed.
Definition ci_AttributeValue := Eval vm_compute in get_ci k_saml_AttributeValue.
Lemma at_AttributeValue : class_at live_table k_saml_AttributeValue = Some ci_AttributeValue. Proof. class_fact. Qed.

Ltac uk2 := unfold k_saml_BaseID, k_saml_EncryptedID, k_samlp_NewID, k_samlp_NewEncryptedID, k_samlp_Terminate,
  k_saml_AttributeValue, k_saml_AuthnStatement in *.

Lemma opt_valid_if k (c : bool) o : opt_valid k o = true -> opt_valid k (if c then o else None) = true.
Proof. destruct c; [auto|reflexivity]. Qed.

(* ------------------------------------------------------------------ create_name_id_mapping_request *)
Definition nim_ok (a : nim_args) : Prop :=
  obs_ok (nim_ob a) /\ opt_ext_ok (nim_extensions a) = true
  /\ valid live_table (CK k_samlp_NameIDPolicy) (nim_policy a) = true
  /\ opt_valid k_saml_NameID (nim_name_id a) = true /\ opt_valid k_saml_BaseID (nim_base_id a) = true
  /\ opt_valid k_saml_EncryptedID (nim_encrypted_id a) = true.

Lemma owf_name_id_mapping_request a o :
  nim_ok a -> name_id_mapping_request a = Some o -> owf live_table o = true.
Proof.
  intros (Hob & Hext & Hpol & Hn & Hb & He) E. unfold name_id_mapping_request in E.
  destruct (is_none (nim_name_id a) && is_none (nim_base_id a) && is_none (nim_encrypted_id a)); [discriminate|].
  destruct (sig_member (nim_signing a) (nim_ob a)) as [sg|] eqn:Es; [|discriminate]. inversion E; subst o. clear E.
  pose proof (sig_part _ _ _ Hob Es) as Hsg. pose proof (ext_member _ Hext) as Hex.
  pose proof (raw_opt _ _ Hn) as HN.
  pose proof (raw_opt _ _ (opt_valid_if _ (is_none (nim_name_id a)) _ Hb)) as HB. fold (nim_base a) in HB.
  pose proof (raw_opt _ _ (opt_valid_if _ (is_none (nim_name_id a) && is_none (nim_base_id a)) _ He)) as HE.
  fold (nim_enc a) in HE.
  destruct Hob as [Hid [Hin _]]. unfold message.
  node' at_NIMReq ci_NIMReq. uk. uk2.
  rewrite owf_issuer, Hsg, Hex, HN, HB, HE, Hid, Hin, (owf_raw _ _ Hpol).
  conj; leaf.
Qed.

Theorem name_id_mapping_request_valid a o :
  nim_ok a -> name_id_mapping_request a = Some o -> spec live_table (to_tree live_table o).
Proof.
  intros H E. pose proof (owf_name_id_mapping_request a o H E) as Ho. unfold name_id_mapping_request in E.
  destruct (_ && _); [discriminate|]. destruct (sig_member _ _); [|discriminate]. inversion E; subst o.
  apply (doc_of_owf _ k_samlp_NameIDMappingRequest ci_NIMReq); [reflexivity|exact at_NIMReq|elem_fact|exact Ho].
Qed.

(* ------------------------------------------------------------------ the child tags of a serialised object *)
Section KidTags.
  Variable T : table.
  Hypothesis Twf : table_wf T = true.

  (* member by member in table order, each member contributing its own tag as often as it holds objects *)
  Lemma kid_tags_owf k attrs text ms ext ci :
    class_at T k = Some ci -> owf T (Obj k attrs text ms ext) = true ->
    map root_tag (root_kids (to_tree T (Obj k attrs text ms ext))) =
    flat_map (fun p => repeat (p_tag p) (length (assoc (p_tag p) ms))) (ci_parts ci) ++ map root_tag ext.
  Proof.
    intros Ek Hw. rewrite to_tree_unfold, Ek. cbn [root_kids]. rewrite map_app. f_equal.
    rewrite owf_unfold, Ek in Hw.
    pose proof (class_wf_at T Twf k ci Ek) as Hcw. unfold class_wf in Hcw.
    apply andb_true_iff in Hcw as [_ Hpw]. rewrite forallb_forall in Hpw.
    do 3 (apply andb_true_iff in Hw as [Hw _]). apply andb_true_iff in Hw as [_ Hparts].
    rewrite forallb_forall in Hparts.
    assert (Hgen : forall ps, (forall p, In p ps -> In p (ci_parts ci)) ->
               map root_tag (flat_map (fun p => assoc (p_tag p) (conv_trees T ms)) ps) =
               flat_map (fun p => repeat (p_tag p) (length (assoc (p_tag p) ms))) ps).
    { induction ps as [|p ps IH]; intros Hsub; [reflexivity|]. cbn [flat_map]. rewrite map_app. f_equal.
      - pose proof (Hsub p (or_introl eq_refl)) as Hp. specialize (Hparts p Hp). cbn zeta in Hparts.
        apply andb_true_iff in Hparts as [_ Hall]. unfold conv_owf in Hall.
        rewrite (assoc_map (map (fun x => (obj_cref x, owf T x))) eq_refl) in Hall.
        unfold conv_trees. rewrite (assoc_map (map (to_tree T)) eq_refl).
        specialize (Hpw p Hp). unfold part_wf in Hpw.
        induction (assoc (p_tag p) ms) as [|o' r IHr]; [reflexivity|].
        cbn [map forallb fst snd length repeat] in *. apply andb_true_iff in Hall as [Ho' Hr].
        rewrite (IHr Hr). f_equal.
        apply andb_true_iff in Ho' as [Hc Ho]. unfold part_accepts in Hc.
        destruct (p_cls p) as [k'|]; [|discriminate].
        destruct (obj_cref o') as [k2|] eqn:Eoc; [|discriminate]. cbn [cref_eqb] in Hc. apply Nat.eqb_eq in Hc. subst k2.
        destruct (class_at T k') as [ci'|] eqn:Ek'; [|discriminate]. apply qeqb_eq in Hpw.
        rewrite (root_tag_owf T o' k' ci' Ho Eoc Ek'). exact Hpw.
      - apply IH. intros p' Hp'. apply Hsub. right. exact Hp'. }
    apply Hgen. auto.
  Qed.
End KidTags.

Lemma count_in_app G l1 l2 : count_in G (l1 ++ l2) = count_in G l1 + count_in G l2.
Proof. unfold count_in. rewrite filter_app, app_length. reflexivity. Qed.

Lemma count_in_repeat G q n : count_in G (repeat q n) = if qmem q G then n else 0.
Proof.
  unfold count_in. induction n as [|n IH]; cbn [repeat filter]; [destruct (qmem q G); reflexivity|].
  destruct (qmem q G); cbn [length]; rewrite IH; reflexivity.
Qed.

Lemma count_in_flat G (n : particle -> nat) ps :
  count_in G (flat_map (fun p => repeat (p_tag p) (n p)) ps) =
  list_sum (map (fun p => if qmem (p_tag p) G then n p else 0) ps).
Proof.
  induction ps as [|p ps IH]; [reflexivity|]. cbn [flat_map map list_sum]. rewrite count_in_app, count_in_repeat, IH. reflexivity.
Qed.

Lemma rules_NIMReq : rules_of (ci_tag ci_NIMReq) choice_rules = [Count 1 (Some 1) id_group].
Proof. vm_compute. reflexivity. Qed.

Lemma rules_MNIReq : rules_of (ci_tag ci_MNIReq) choice_rules =
  [Count 1 (Some 1) [qa "NameID"; qa "EncryptedID"]; Count 1 (Some 1) [qp "NewID"; qp "NewEncryptedID"; qp "Terminate"]].
Proof. vm_compute. reflexivity. Qed.

Ltac count_members lem_at lem_rules Ho :=
  unfold root_choices_ok; unfold message in *;
  rewrite (kid_tags_owf live_table table_ok _ _ _ _ _ _ lem_at Ho);
  rewrite to_tree_unfold, lem_at; cbn [root_tag]; rewrite lem_rules;
  cbn [forallb rule_ok map app]; rewrite !count_in_app, !count_in_flat.

(* exactly one of BaseID / NameID / EncryptedID, whatever combination of the three arguments is given *)
Theorem name_id_mapping_request_one_identifier a o :
  nim_ok a -> name_id_mapping_request a = Some o -> root_choices_ok (to_tree live_table o) = true.
Proof.
  intros H E. pose proof (owf_name_id_mapping_request a o H E) as Ho. unfold name_id_mapping_request in E.
  destruct (is_none (nim_name_id a) && is_none (nim_base_id a) && is_none (nim_encrypted_id a)) eqn:Enone; [discriminate|].
  destruct (sig_member (nim_signing a) (nim_ob a)) as [sg|]; [|discriminate]. inversion E; subst o. clear E.
  count_members at_NIMReq rules_NIMReq Ho.
  unfold nim_base, nim_enc.
  destruct (nim_name_id a), (nim_base_id a), (nim_encrypted_id a); try discriminate Enone; vm_compute; reflexivity.
Qed.

(* ------------------------------------------------------------------ create_manage_name_id_request *)
Definition mni_ok (a : mni_args) : Prop :=
  obs_ok (mni_ob a) /\ opt_ext_ok (mni_extensions a) = true
  /\ opt_valid k_saml_NameID (mni_name_id a) = true /\ opt_valid k_saml_EncryptedID (mni_encrypted_id a) = true
  /\ opt_valid k_samlp_NewEncryptedID (mni_new_encrypted_id a) = true.

Lemma owf_new_id s : owf live_table (Obj k_samlp_NewID [] (Some s) [] []) = true.
Proof. node at_NewID. reflexivity. Qed.

Lemma owf_terminate : owf live_table (Obj k_samlp_Terminate [] None [] []) = true.
Proof. node at_Terminate. reflexivity. Qed.

Lemma owf_manage_name_id_request a o :
  mni_ok a -> manage_name_id_request a = Some o -> owf live_table o = true.
Proof.
  intros (Hob & Hext & Hn & He & Hne) E. unfold manage_name_id_request in E.
  destruct (mni_who a) as [[nid eid]|] eqn:Ew; [|discriminate].
  destruct (mni_what a) as [[[new newenc] term]|] eqn:Eh; [|discriminate].
  destruct (sig_member (mni_signing a) (mni_ob a)) as [sg|] eqn:Es; [|discriminate]. inversion E; subst o. clear E.
  pose proof (sig_part _ _ _ Hob Es) as Hsg. pose proof (ext_member _ Hext) as Hex.
  destruct Hob as [Hid [Hin _]]. unfold message.
  unfold mni_who in Ew. unfold mni_what in Eh.
  destruct (mni_name_id a) as [n|]; [|destruct (mni_encrypted_id a) as [e|]; [|discriminate]]; inversion Ew; subst nid eid; clear Ew;
  (destruct (mni_new_id a) as [s|];
   [|destruct (mni_new_encrypted_id a) as [ne|]; [|destruct (mni_terminate a); [|discriminate]]]);
  inversion Eh; subst new newenc term; clear Eh;
  cbn [opt_valid] in Hn, He, Hne;
  node' at_MNIReq ci_MNIReq; uk; uk2;
  rewrite owf_issuer, Hsg, Hex, Hid, Hin, ?owf_new_id, ?owf_terminate,
          ?(owf_raw _ _ Hn), ?(owf_raw _ _ He), ?(owf_raw _ _ Hne);
  conj; leaf.
Qed.

Theorem manage_name_id_request_valid a o :
  mni_ok a -> manage_name_id_request a = Some o -> spec live_table (to_tree live_table o).
Proof.
  intros H E. pose proof (owf_manage_name_id_request a o H E) as Ho. unfold manage_name_id_request in E.
  destruct (mni_who a) as [[? ?]|]; [|discriminate]. destruct (mni_what a) as [[[? ?] ?]|]; [|discriminate].
  destruct (sig_member _ _); [|discriminate]. inversion E; subst o.
  apply (doc_of_owf _ k_samlp_ManageNameIDRequest ci_MNIReq); [reflexivity|exact at_MNIReq|elem_fact|exact Ho].
Qed.

(* exactly one of NameID / EncryptedID and exactly one of NewID / NewEncryptedID / Terminate *)
Theorem manage_name_id_request_one_of_each a o :
  mni_ok a -> manage_name_id_request a = Some o -> root_choices_ok (to_tree live_table o) = true.
Proof.
  intros H E. pose proof (owf_manage_name_id_request a o H E) as Ho. unfold manage_name_id_request in E.
  destruct (mni_who a) as [[nid eid]|] eqn:Ew; [|discriminate].
  destruct (mni_what a) as [[[new newenc] term]|] eqn:Eh; [|discriminate].
  destruct (sig_member (mni_signing a) (mni_ob a)) as [sg|]; [|discriminate]. inversion E; subst o. clear E.
  count_members at_MNIReq rules_MNIReq Ho.
  unfold mni_who in Ew. unfold mni_what in Eh.
  (destruct (mni_name_id a); [|destruct (mni_encrypted_id a); [|discriminate]]); inversion Ew; subst nid eid;
  (destruct (mni_new_id a); [|destruct (mni_new_encrypted_id a); [|destruct (mni_terminate a); [|discriminate]]]);
  inversion Eh; subst new newenc term; vm_compute; reflexivity.
Qed.

(* ------------------------------------------------------------------ s_utils.do_attributes *)
Lemma owf_attribute_value typ text : owf live_table (o_attribute_value typ text) = true.
Proof. unfold o_attribute_value. node at_AttributeValue. reflexivity. Qed.

(* Name is a required attribute: the key has to name the attribute *)
Definition key_named (k : akey) : bool :=
  match key_fields k with Some (Some _, _, _) => true | _ => false end.

Lemma do_ava_owf v typ vals :
  do_ava v typ = Some vals ->
  Forall (fun x => obj_cref x = CK k_saml_AttributeValue /\ owf live_table x = true) vals.
Proof.
  destruct v as [s| |l]; cbn [do_ava]; intros E.
  - inversion E; subst. constructor; [split; [reflexivity|apply owf_attribute_value]|constructor].
  - destruct (is_empty typ); inversion E; subst. constructor.
  - inversion E; subst. apply Forall_forall. intros x Hx. apply in_map_iff in Hx as [s [<- _]].
    split; [reflexivity|apply owf_attribute_value].
Qed.

Lemma owf_do_attribute u k sp o :
  do_attribute_with u k sp = Some o -> key_named k = true -> obj_cref o = CK k_saml_Attribute /\ owf live_table o = true.
Proof.
  unfold do_attribute_with, key_named. destruct (u sp) as [v typ].
  destruct (do_ava v typ) as [vals|] eqn:Ev; [|discriminate].
  destruct (key_fields k) as [[[n f] fr]|]; [|discriminate]. intros E Hn. inversion E; subst o. clear E.
  destruct n as [n|]; [|discriminate]. split; [reflexivity|].
  pose proof (members_all _ _ (do_ava_owf _ _ _ Ev)) as Hv.
  node' at_Attribute ci_Attribute. uk2. rewrite Hv. destruct f, fr; reflexivity.
Qed.

Definition keys_named (specs : list (akey * aspec)) : bool := forallb (fun ks => key_named (fst ks)) specs.

Lemma owf_do_attributes u specs objs :
  do_attributes_with u specs = Some objs -> keys_named specs = true ->
  Forall (fun x => obj_cref x = CK k_saml_Attribute /\ owf live_table x = true) objs.
Proof.
  revert objs. induction specs as [|[k sp] r IH]; cbn [do_attributes_with keys_named forallb fst]; intros objs E Hn.
  - inversion E. constructor.
  - destruct (do_attribute_with u k sp) as [a|] eqn:Ea; [|discriminate].
    destruct (do_attributes_with u r) as [rest|]; [|discriminate].
    inversion E; subst objs. apply andb_true_iff in Hn as [Hk Hr].
    constructor; [exact (owf_do_attribute _ _ _ _ Ea Hk)|apply IH; [reflexivity|exact Hr]].
Qed.

Lemma owf_attribute_query_s a specs o :
  obs_ok (aq_ob a) -> opt_ext_ok (aq_extensions a) = true ->
  valid live_table (CK k_saml_NameID) (aq_name_id a) = true -> keys_named specs = true ->
  attribute_query_s a specs = Some o -> owf live_table o = true.
Proof.
  intros Hob Hext Hnid Hk E. unfold attribute_query_s, attribute_query_s_with in E.
  destruct (do_attributes_with unpack specs) as [attrs|] eqn:Ea; [|discriminate].
  destruct (sig_member (aq_signing a) (aq_ob a)) as [sg|] eqn:Es; [|discriminate]. inversion E; subst o. clear E.
  pose proof (sig_part _ _ _ Hob Es) as Hsg. pose proof (ext_member _ Hext) as Hex.
  pose proof (members_all _ _ (owf_do_attributes _ _ _ Ea Hk)) as HA.
  assert (Hsub : owf live_table (Obj k_saml_Subject [] None [(qa "NameID", [ORaw (CK k_saml_NameID) (aq_name_id a)])] []) = true).
  { node' at_Subject ci_Subject. uk. rewrite (owf_raw _ _ Hnid). reflexivity. }
  destruct Hob as [Hid [Hin _]]. unfold message.
  node' at_AttributeQuery ci_AttributeQuery. uk.
  rewrite owf_issuer, Hsg, Hex, HA, Hid, Hin, Hsub.
  conj; leaf.
Qed.

Theorem attribute_query_s_valid a specs o :
  obs_ok (aq_ob a) -> opt_ext_ok (aq_extensions a) = true ->
  valid live_table (CK k_saml_NameID) (aq_name_id a) = true -> keys_named specs = true ->
  attribute_query_s a specs = Some o -> spec live_table (to_tree live_table o).
Proof.
  intros H1 H2 H3 H4 E. pose proof (owf_attribute_query_s a specs o H1 H2 H3 H4 E) as Ho.
  unfold attribute_query_s, attribute_query_s_with in E.
  destruct (do_attributes_with unpack specs); [|discriminate]. destruct (sig_member _ _); [|discriminate]. inversion E; subst o.
  apply (doc_of_owf _ k_samlp_AttributeQuery ci_AttributeQuery); [reflexivity|exact at_AttributeQuery|elem_fact|exact Ho].
Qed.

(* ---- the types the values are declared with *)
(* a type the caller may name: none, or a built-in type under either customary prefix, for a value of its lexical form *)
Definition legal_typed (typ text : string) : bool :=
  is_empty typ ||
  match split_colon typ with
  | Some (p, local) => (String.eqb p "xs" || String.eqb p "xsd")
                       && match lookup local xs_builtin with Some ty => check_lex ty text | None => false end
  | None => false
  end.

Definition aval_texts (v : aval) : list string := match v with AStr s => [s] | AList l => l | ANone => [] end.

(* legal arguments: every value has the lexical form of the type it is declared with (untyped: a string) *)
Definition spec_legal (sp : aspec) : bool :=
  forallb (legal_typed (snd (unpack sp))) (aval_texts (fst (unpack sp))).

Lemma split_colon_eq s p l : split_colon s = Some (p, l) -> s = (p ++ ":" ++ l)%string.
Proof.
  revert p l. induction s as [|c r IH]; cbn [split_colon]; intros p l E; [discriminate|].
  destruct (nat_of_ascii c =? 58) eqn:Ec.
  - inversion E; subst. apply Nat.eqb_eq in Ec. cbn [append].
    replace c with ":"%char; [reflexivity|]. rewrite <- (ascii_nat_embedding c), Ec. reflexivity.
  - destruct (split_colon r) as [[p' l']|]; [|discriminate]. inversion E; subst. cbn [append]. rewrite (IH p' l eq_refl). reflexivity.
Qed.

Lemma strip_prefix_app p s : strip_prefix p (p ++ s)%string = Some s.
Proof. induction p as [|a p IH]; cbn [strip_prefix append]; [reflexivity|]. rewrite Ascii.eqb_refl. exact IH. Qed.

Lemma xsi_clark local text :
  xsi_type_ok (xs_clark local) text = match lookup local xs_builtin with Some ty => check_lex ty text | None => false end.
Proof. unfold xsi_type_ok, xs_clark. rewrite strip_prefix_app. reflexivity. Qed.

Lemma mem_xs typ : mem "xs" (declared typ) = true.
Proof. reflexivity. Qed.

Lemma mem_xsd local : mem "xsd" (declared ("xsd" ++ ":" ++ local)%string) = true.
Proof. unfold declared, startswith. destruct local; reflexivity. Qed.

Lemma resolve_legal typ text :
  legal_typed typ text = true -> xsi_type_ok (resolve (declared typ) (final_type typ)) text = true.
Proof.
  unfold legal_typed, final_type. destruct typ as [|c r]; [intros _; vm_compute; reflexivity|].
  cbn [is_empty orb]. unfold resolve.
  destruct (split_colon (String c r)) as [[p local]|] eqn:Es; [|discriminate].
  intros H. apply andb_true_iff in H as [Hp Hl]. apply split_colon_eq in Es.
  apply orb_true_iff in Hp as [Hp|Hp]; apply String.eqb_eq in Hp; subst p.
  - rewrite mem_xs, xsi_clark. exact Hl.
  - rewrite Es, mem_xsd, xsi_clark. exact Hl.
Qed.

Lemma xsi_ok_unfold q a x kids : xsi_ok (Node q a x kids) = node_xsi_ok a x && forallb xsi_ok kids.
Proof. reflexivity. Qed.

Lemma xsi_attribute_value typ text :
  xsi_ok (to_tree live_table (o_attribute_value typ text)) = xsi_type_ok (resolve (declared typ) (final_type typ)) text.
Proof.
  unfold o_attribute_value. rewrite to_tree_unfold, at_AttributeValue, xsi_ok_unfold.
  cbn -[xsi_type_ok resolve declared final_type]. rewrite !andb_true_r. reflexivity.
Qed.

Lemma do_ava_typed v typ vals :
  do_ava v typ = Some vals -> forallb (legal_typed typ) (aval_texts v) = true ->
  forallb xsi_ok (map (to_tree live_table) vals) = true.
Proof.
  destruct v as [s| |l]; cbn [do_ava aval_texts]; intros E H.
  - inversion E; subst. cbn [map forallb] in *. rewrite xsi_attribute_value, resolve_legal; [reflexivity|].
    apply andb_true_iff in H as [H _]. exact H.
  - destruct (is_empty typ); inversion E; subst. reflexivity.
  - inversion E; subst. clear E. induction l as [|s r IH]; [reflexivity|]. cbn [map forallb] in *.
    apply andb_true_iff in H as [H1 H2]. rewrite xsi_attribute_value, (resolve_legal _ _ H1), (IH H2). reflexivity.
Qed.

(* every value names an existing type of which it has the lexical form - lists of two and two-character strings
   included (as coded since bf274fc5) *)
Theorem do_attribute_typed k sp o :
  do_attribute k sp = Some o -> spec_legal sp = true -> xsi_ok (to_tree live_table o) = true.
Proof.
  unfold do_attribute, do_attribute_with, spec_legal. destruct (unpack sp) as [v typ]. cbn [fst snd].
  destruct (do_ava v typ) as [vals|] eqn:Ev; [|discriminate].
  destruct (key_fields k) as [[[n f] fr]|]; [|discriminate]. intros E H. inversion E; subst o. clear E.
  pose proof (do_ava_typed _ _ _ Ev H) as Hv.
  rewrite to_tree_unfold, at_Attribute, xsi_ok_unfold. unfold ci_Attribute. cbn [ci_parts flat_map ci_tag].
  unfold conv_trees. cbn [map fst snd assoc p_tag]. rewrite qeqb_refl. rewrite !app_nil_r, Hv, andb_true_r.
  destruct n, f, fr; reflexivity.
Qed.

(* a plain value is never given a type any more: whatever its length, it is emitted as xs:string values *)
Theorem do_attribute_plain_untyped v : snd (unpack (SPlain v)) = "".
Proof. destruct v; reflexivity. Qed.

(* ... before bf274fc5 the emitted type did not exist for a plain two-item value (finding C13-F8): two legal values,
   read as (value, type) *)
Theorem do_attributes_misread_v0_refuted :
  exists k sp o, misread sp = true /\ forallb (legal_typed "") (aval_texts (match sp with SPlain v => v | STuple v _ => v end)) = true
                 /\ do_attribute_v0 k sp = Some o /\ owf live_table o = true /\ xsi_ok (to_tree live_table o) = false.
Proof.
  exists (KStr "eduPersonAffiliation"), (SPlain (AList ["staff"; "member"])). eexists.
  split; [reflexivity|]. split; [reflexivity|]. split; [reflexivity|]. split; vm_compute; reflexivity.
Qed.

Theorem do_attributes_typed specs objs :
  do_attributes specs = Some objs -> forallb (fun ks => spec_legal (snd ks)) specs = true ->
  forallb (fun o => xsi_ok (to_tree live_table o)) objs = true.
Proof.
  unfold do_attributes. revert objs. induction specs as [|[k sp] r IH]; cbn [do_attributes_with forallb snd]; intros objs E H.
  - inversion E. reflexivity.
  - destruct (do_attribute_with unpack k sp) as [a|] eqn:Ea; [|discriminate].
    destruct (do_attributes_with unpack r) as [rest|]; [|discriminate].
    inversion E; subst objs. apply andb_true_iff in H as [H1 H2]. cbn [forallb].
    rewrite (do_attribute_typed _ _ _ Ea H1), (IH rest eq_refl H2). reflexivity.
Qed.

(* non-vacuity: a dictionary with every legal form of value, typed with both prefixes *)
Example sample_specs_legal :
  let specs := [(KStr "a", STuple (AStr "Derek") "xsd:string"); (KTuple ["urn:oid:2.5.4.42"; NAME_FORMAT_URI; "givenName"], SPlain (AList ["x"; "y"; "z"]));
                (KStr "n", STuple (AList ["43"; "-7"]) "xs:integer"); (KStr "e", SPlain ANone); (KStr "s", SPlain (AStr "abc"));
                (KStr "two", SPlain (AList ["staff"; "member"])); (KStr "ab", SPlain (AStr "ab"))] in
  forallb (fun ks => spec_legal (snd ks)) specs = true /\ keys_named specs = true /\ exists objs, do_attributes specs = Some objs.
Proof. cbn zeta. split; [vm_compute; reflexivity|]. split; [vm_compute; reflexivity|]. eexists. vm_compute. reflexivity. Qed.

(* ------------------------------------------------------------------ create_authn_query_response: one message_args() for all *)
Definition ci_Assertion := Eval vm_compute in get_ci k_saml_Assertion.
Lemma at_Assertion : class_at live_table k_saml_Assertion = Some ci_Assertion. Proof. class_fact. Qed.

Lemma ids_Assertion : id_attrs_of live_ids k_saml_Assertion = [Q "" "ID"].
Proof. vm_compute. reflexivity. Qed.

Lemma ids_unfold T I k tag attrs text kids :
  ids T I (CK k) (Node tag attrs text kids) =
  match class_at T k with
  | None => []
  | Some ci => node_ids (id_attrs_of I k) attrs ++ flat_map (fun x => ids T I (child_ref T ci (root_tag x)) x) kids
  end.
Proof. cbn [ids]. destruct (class_at T k) as [ci|]; reflexivity. Qed.

Definition assertion_ids (o : obj) : list string := ids live_table live_ids (CK k_saml_Assertion) (to_tree live_table o).

Lemma aqr_ids_head e id inst subj st :
  exists rest, assertion_ids (aqr_assertion e id inst subj st) = xtrim id :: rest.
Proof.
  unfold assertion_ids, aqr_assertion. rewrite to_tree_unfold, at_Assertion, ids_unfold, at_Assertion, ids_Assertion.
  cbn [set_attrs at_ flat_map fst snd app node_ids qmem existsb qeqb q_ns q_local String.eqb Ascii.eqb Bool.eqb andb orb].
  eexists. reflexivity.
Qed.

(* before 8ef9e86e, two or more statements: the assertions' identifiers were never pairwise different (finding C13-F9) *)
Theorem aqr_v0_ids_never_unique e id inst subj s1 s2 more :
  nodupb (flat_map assertion_ids (aqr_assertions_v0 e id inst subj (s1 :: s2 :: more))) = false.
Proof.
  unfold aqr_assertions_v0. cbn [map flat_map].
  destruct (aqr_ids_head e id inst subj s1) as [r1 ->]. destruct (aqr_ids_head e id inst subj s2) as [r2 ->].
  cbn [app nodupb]. rewrite mem_app. cbn [mem]. rewrite String.eqb_refl, orb_true_r. reflexivity.
Qed.

(* as coded now: every assertion carries the identifier drawn for it, so pairwise different draws (freshness of
   sid() enters as the premise) give pairwise different Assertion/@ID values, however many statements there are *)
Definition own_id (o : obj) : string := hd "" (assertion_ids o).

Lemma aqr_own_ids e inst subj l :
  map own_id (aqr_assertions e inst subj l) = map (fun p => xtrim (fst p)) l.
Proof.
  unfold aqr_assertions. rewrite map_map. apply map_ext. intros p. unfold own_id.
  destruct (aqr_ids_head e (fst p) inst subj (snd p)) as [r ->]. reflexivity.
Qed.

Theorem aqr_own_ids_unique e inst subj l :
  NoDup (map (fun p => xtrim (fst p)) l) -> NoDup (map own_id (aqr_assertions e inst subj l)).
Proof. rewrite aqr_own_ids. auto. Qed.

(* the whole Response, as serialised: the old construction refuted on a concrete subject with two sessions *)
Definition sample_subject : tree :=
  Node (qa "Subject") [] "" [Node (qa "NameID") [] "subj-1" []].
Definition sample_statement (instant : string) : tree :=
  Node (qa "AuthnStatement") [(Q "" "AuthnInstant", instant)] ""
       [Node (qa "AuthnContext") [] "" [Node (qa "AuthnContextClassRef") [] "urn:oasis:names:tc:SAML:2.0:ac:classes:Password" []]].

Definition sample_rs (asserts : list tree) : rs_args :=
  {| rs_issuer := "https://idp.example.org/idp.xml"; rs_status := StSuccess; rs_in_response_to := Some "id-q1";
     rs_consumer_url := None; rs_assertions := asserts; rs_encrypted := [];
     rs_signing := {| sg_arg := Some false; sg_should := false |};
     rs_ob := {| ob_id := "id-r1"; ob_instant := "2023-11-14T22:13:20Z"; ob_sig := None |} |}.

Definition sample_asserts_v0 : list tree :=
  map (to_tree live_table)
      (aqr_assertions_v0 "https://idp.example.org/idp.xml" "id-m1" "2023-11-14T22:13:20Z" sample_subject
                         [sample_statement "2023-11-14T22:00:00Z"; sample_statement "2023-11-14T22:10:00Z"]).

Definition sample_asserts : list tree :=
  map (to_tree live_table)
      (aqr_assertions "https://idp.example.org/idp.xml" "2023-11-14T22:13:20Z" sample_subject
                      [("id-m1", sample_statement "2023-11-14T22:00:00Z"); ("id-m2", sample_statement "2023-11-14T22:10:00Z")]).

Theorem authn_query_response_ids_v0_refuted :
  exists o, obs_ok (rs_ob (sample_rs sample_asserts_v0)) /\ response (sample_rs sample_asserts_v0) = Some o
            /\ valid_doc live_table (to_tree live_table o) = true
            /\ ids_unique live_table live_ids (to_tree live_table o) = false.
Proof.
  eexists. split; [repeat split; vm_compute; reflexivity|]. split; [reflexivity|]. split; vm_compute; reflexivity.
Qed.

(* ... and the same Response as built now passes every check *)
Theorem authn_query_response_sample_ok :
  exists o, response (sample_rs sample_asserts) = Some o /\ doc_ok (to_tree live_table o) = true.
Proof. eexists. split; [reflexivity|]. vm_compute. reflexivity. Qed.

(* ------------------------------------------------------------------ create_logout_request: exactly one identifier *)
Lemma rules_LogoutRequest : rules_of (ci_tag ci_LogoutRequest) choice_rules = [Count 1 (Some 1) id_group].
Proof. vm_compute. reflexivity. Qed.

Theorem logout_request_one_identifier a o :
  obs_ok (lr_ob a) -> opt_lexb LDateTime (lr_expire a) = true -> opt_ext_ok (lr_extensions a) = true ->
  opt_valid k_saml_NameID (lr_name_id a) = true ->
  logout_request a = Some o -> root_choices_ok (to_tree live_table o) = true.
Proof.
  intros H1 H2 H3 H4 E. pose proof (owf_logout_request a o H1 H2 H3 H4 E) as Ho. unfold logout_request in E.
  destruct (lr_name_id a); [|discriminate]. destruct (sig_member _ _); [|discriminate]. inversion E; subst o. clear E.
  count_members at_LogoutRequest rules_LogoutRequest Ho. vm_compute. reflexivity.
Qed.
