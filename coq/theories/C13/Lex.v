(* C13/Lex.v — the two generators of lexical values, as coded, and their lexical lemmas for ALL inputs.

   s_utils.sid():  "id-" + rndstr(17) with rndstr drawing from ascii letters and digits.
   time_util.instant(time_stamp=ts) = time.strftime("%Y-%m-%dT%H:%M:%SZ", time.gmtime(ts)).
   gmtime is restated with the days-to-civil-date computation over 400-year eras; the calendar facts
   (month 1..12, day within the month, leap years) are established for every day of an era by one
   exhaustive computation and lifted to all eras. *)
From Coq Require Import String Ascii List Bool Arith NArith Lia.
From Verif Require Import Base.Str C13.Model.
Import ListNotations.
Open Scope list_scope.
Open Scope nat_scope.
Open Scope string_scope.

(* ------------------------------------------------------------------ sid() *)
Definition alnum (c : ascii) : bool := is_alpha c || is_digit c.

Definition sid (r : string) : string := "id-" ++ r.

Lemma alnum_facts c : alnum c = true -> nc_char c = true /\ is_xws c = false.
Proof.
  destruct c as [[] [] [] [] [] [] [] []]; vm_compute; intros H; try discriminate; split; reflexivity.
Qed.

Lemma xrtrim_id s : all_chars (fun c => negb (is_xws c)) s = true -> xrtrim s = s.
Proof.
  induction s as [|c r IH]; cbn [all_chars xrtrim]; [reflexivity|].
  intros H. apply andb_true_iff in H as [Hc Hr]. rewrite (IH Hr). apply negb_true_iff in Hc. rewrite Hc. reflexivity.
Qed.

Lemma all_chars_impl (p q : ascii -> bool) s :
  (forall c, p c = true -> q c = true) -> all_chars p s = true -> all_chars q s = true.
Proof.
  intros Hpq. induction s as [|c r IH]; cbn [all_chars]; [reflexivity|].
  intros H. apply andb_true_iff in H as [Hc Hr]. rewrite (Hpq c Hc), (IH Hr). reflexivity.
Qed.

(* every identifier sid() can return is an NCName (xs:ID), whatever the random part and its length *)
Theorem sid_is_ncname r : all_chars alnum r = true -> check_lex LNCName (sid r) = true.
Proof.
  intros H. unfold check_lex, xtrim, sid.
  assert (Hn : all_chars (fun c => negb (is_xws c)) ("id-" ++ r) = true).
  { cbn. apply (all_chars_impl alnum); [|exact H]. intros c Hc. destruct (alnum_facts c Hc) as [_ ->]. reflexivity. }
  change (xltrim ("id-" ++ r)) with ("id-" ++ r). rewrite (xrtrim_id _ Hn).
  cbn. apply (all_chars_impl alnum); [|exact H]. intros c Hc. apply alnum_facts. exact Hc.
Qed.

(* ------------------------------------------------------------------ instant() *)
Open Scope N_scope.

(* civil date of a day count, within one 400-year era starting on 1 March of a year divisible by 400:
   (years since the start of the era counted January-based, month, day) *)
Definition era_civil (doe : N) : N * N * N :=
  let yoe := (doe - doe / 1460 + doe / 36524 - doe / 146096) / 365 in
  let doy := doe - (365 * yoe + yoe / 4 - yoe / 100) in
  let mp := (5 * doy + 2) / 153 in
  let d := doy - (153 * mp + 2) / 5 + 1 in
  let m := if mp <? 10 then mp + 3 else mp - 9 in
  (if m <=? 2 then yoe + 1 else yoe, m, d).

(* time.gmtime(ts) for ts >= 0: (year, month, day, hour, minute, second) *)
Definition gmtime (ts : N) : N * N * N * N * N * N :=
  let days := ts / 86400 in
  let secs := ts mod 86400 in
  let z := days + 719468 in
  let era := z / 146097 in
  let '(y, m, d) := era_civil (z mod 146097) in
  (y + era * 400, m, d, secs / 3600, (secs mod 3600) / 60, secs mod 60).

Definition dc (n : N) : ascii := ascii_of_N (48 + n).

Definition two_digits (n : N) (rest : string) : string := String (dc (n / 10)) (String (dc (n mod 10)) rest).

Definition four_digits (n : N) (rest : string) : string :=
  String (dc (n / 1000)) (String (dc ((n / 100) mod 10)) (two_digits (n mod 100) rest)).

(* strftime("%Y-%m-%dT%H:%M:%SZ") for a four-digit year *)
Definition format_instant (t : N * N * N * N * N * N) : string :=
  let '(y, m, d, h, mi, s) := t in
  four_digits y (String "-"%char (two_digits m (String "-"%char (two_digits d (String "T"%char
    (two_digits h (String ":"%char (two_digits mi (String ":"%char (two_digits s "Z")))))))))).

Definition instant (ts : N) : string := format_instant (gmtime ts).

(* ---- the calendar facts for one era, by exhaustive computation *)
Definition dim (yleap : bool) (m : N) : N :=
  if m =? 2 then (if yleap then 29 else 28)
  else if (m =? 4) || (m =? 6) || (m =? 9) || (m =? 11) then 30 else 31.

Definition era_ok (doe : N) : bool :=
  let '(y, m, d) := era_civil doe in
  (1 <=? m) && (m <=? 12) && (1 <=? d) && (d <=? dim (leap y) m) && (y <=? 400)
  && ((146036 <? doe) || (y <=? 399)).

(* f holds on lo, lo+1, ..., lo+len-1 (binary splitting: the check stays fast under vm_compute) *)
Fixpoint all_range (f : N -> bool) (lo : N) (len : positive) : bool :=
  match len with
  | xH => f lo
  | xO p => all_range f lo p && all_range f (lo + Npos p) p
  | xI p => f lo && all_range f (lo + 1) p && all_range f (lo + 1 + Npos p) p
  end.

Lemma all_range_spec f len : forall lo, all_range f lo len = true -> forall k, lo <= k -> k < lo + Npos len -> f k = true.
Proof.
  induction len as [p IH|p IH|]; intros lo H k H1 H2; cbn [all_range] in H.
  - apply andb_true_iff in H as [H Hc]. apply andb_true_iff in H as [Ha Hb].
    destruct (N.eq_dec k lo) as [->|Hne]; [exact Ha|].
    destruct (N.lt_ge_cases k (lo + 1 + Npos p)) as [Hlt|Hge].
    + apply (IH (lo + 1) Hb); lia.
    + apply (IH (lo + 1 + Npos p) Hc); lia.
  - apply andb_true_iff in H as [Ha Hb].
    destruct (N.lt_ge_cases k (lo + Npos p)) as [Hlt|Hge].
    + apply (IH lo Ha); lia.
    + apply (IH (lo + Npos p) Hb); lia.
  - assert (k = lo) by lia. subst. exact H.
Qed.

Lemma era_all_ok : all_range era_ok 0 146097 = true.
Proof. vm_compute. reflexivity. Qed.

Lemma era_ok_at doe : doe < 146097 -> era_ok doe = true.
Proof. intros H. apply (all_range_spec era_ok 146097 0 era_all_ok); lia. Qed.

(* leap years repeat with the era *)
Lemma leap_era y e : leap (y + e * 400) = leap y.
Proof.
  unfold leap.
  replace ((y + e * 400) mod 4) with (y mod 4).
  2:{ replace (y + e * 400) with (y + (e * 100) * 4) by lia. rewrite N.mod_add by lia. reflexivity. }
  replace ((y + e * 400) mod 100) with (y mod 100).
  2:{ replace (y + e * 400) with (y + (e * 4) * 100) by lia. rewrite N.mod_add by lia. reflexivity. }
  replace ((y + e * 400) mod 400) with (y mod 400).
  2:{ rewrite N.mod_add by lia. reflexivity. }
  reflexivity.
Qed.

(* ---- digits *)
Lemma digit_val_dc n : n < 10 -> digit_val (dc n) = Some (N.to_nat n).
Proof.
  intros H. assert (E : n = 0 \/ n = 1 \/ n = 2 \/ n = 3 \/ n = 4 \/ n = 5 \/ n = 6 \/ n = 7 \/ n = 8 \/ n = 9) by lia.
  destruct E as [->|[->|[->|[->|[->|[->|[->|[->|[->| ->]]]]]]]]]; reflexivity.
Qed.

Lemma dc_not_minus n : n < 10 -> (nat_of_ascii (dc n) =? 45)%nat = false.
Proof.
  intros H. assert (E : n = 0 \/ n = 1 \/ n = 2 \/ n = 3 \/ n = 4 \/ n = 5 \/ n = 6 \/ n = 7 \/ n = 8 \/ n = 9) by lia.
  destruct E as [->|[->|[->|[->|[->|[->|[->|[->|[->| ->]]]]]]]]]; reflexivity.
Qed.

Lemma two_two_digits n rest : n < 100 -> two (two_digits n rest) = Some (N.to_nat n, rest).
Proof.
  intros H. unfold two, two_digits.
  assert (H1 : n / 10 < 10) by (apply N.div_lt_upper_bound; lia).
  assert (H2 : n mod 10 < 10) by (apply N.mod_lt; lia).
  rewrite (digit_val_dc _ H1), (digit_val_dc _ H2). f_equal. f_equal.
  pose proof (N.div_mod n 10 ltac:(lia)) as E. lia.
Qed.

Lemma span_four n c rest :
  1000 <= n -> n < 10000 -> digit_val c = None ->
  span_digits (four_digits n (String c rest)) =
  ([N.to_nat (n / 1000); N.to_nat ((n / 100) mod 10); N.to_nat ((n mod 100) / 10); N.to_nat ((n mod 100) mod 10)], String c rest).
Proof.
  intros Hlo Hhi Hc. unfold four_digits, two_digits. cbn [span_digits].
  assert (H1 : n / 1000 < 10) by (apply N.div_lt_upper_bound; lia).
  assert (H2 : (n / 100) mod 10 < 10) by (apply N.mod_lt; lia).
  assert (H3 : n mod 100 / 10 < 10) by (apply N.div_lt_upper_bound; [lia|]; pose proof (N.mod_lt n 100 ltac:(lia)); lia).
  assert (H4 : (n mod 100) mod 10 < 10) by (apply N.mod_lt; lia).
  rewrite (digit_val_dc _ H1), (digit_val_dc _ H2), (digit_val_dc _ H3), (digit_val_dc _ H4), Hc. reflexivity.
Qed.

Lemma four_digits_val n :
  n < 10000 ->
  digits_val [N.to_nat (n / 1000); N.to_nat ((n / 100) mod 10); N.to_nat ((n mod 100) / 10); N.to_nat ((n mod 100) mod 10)] = n.
Proof.
  intros H. unfold digits_val. cbn [fold_left]. rewrite !N2Nat.id.
  pose proof (N.div_mod n 1000 ltac:(lia)) as E1.
  pose proof (N.div_mod n 100 ltac:(lia)) as E2.
  pose proof (N.div_mod (n / 100) 10 ltac:(lia)) as E3.
  pose proof (N.div_mod (n mod 100) 10 ltac:(lia)) as E4.
  assert (E5 : n / 100 / 10 = n / 1000) by (rewrite N.div_div by lia; reflexivity).
  rewrite E5 in E3. lia.
Qed.

(* ---- the date and time parts *)
Lemma expect_colon r : expect 58 (String ":"%char r) = Some r. Proof. reflexivity. Qed.
Lemma expect_minus r : expect 45 (String "-"%char r) = Some r. Proof. reflexivity. Qed.
Lemma expect_T r : expect 84 (String "T"%char r) = Some r. Proof. reflexivity. Qed.

Lemma time_part h mi s :
  h < 24 -> mi < 60 -> s < 60 ->
  time_b (two_digits h (String ":"%char (two_digits mi (String ":"%char (two_digits s "Z"))))) = true.
Proof.
  intros Hh Hm Hs. unfold time_b.
  rewrite (two_two_digits h) by lia. rewrite expect_colon.
  rewrite (two_two_digits mi) by lia. rewrite expect_colon.
  rewrite (two_two_digits s) by lia.
  change (fraction "Z") with (Some (true, "Z")). change (tz_b "Z") with true.
  assert (E1 : (N.to_nat h <=? 23)%nat = true) by (apply Nat.leb_le; lia).
  assert (E2 : (N.to_nat mi <=? 59)%nat = true) by (apply Nat.leb_le; lia).
  assert (E3 : (N.to_nat s <=? 59)%nat = true) by (apply Nat.leb_le; lia).
  rewrite E1, E2, E3. reflexivity.
Qed.

Lemma dim_days_in_month y m :
  1 <= m -> m <= 12 -> N.of_nat (days_in_month y (N.to_nat m)) = dim (leap y) m.
Proof.
  intros H1 H2.
  assert (E : m = 1 \/ m = 2 \/ m = 3 \/ m = 4 \/ m = 5 \/ m = 6 \/ m = 7 \/ m = 8 \/ m = 9 \/ m = 10 \/ m = 11 \/ m = 12) by lia.
  destruct E as [->|[->|[->|[->|[->|[->|[->|[->|[->|[->|[->| ->]]]]]]]]]]]; try reflexivity.
  unfold dim. change (N.to_nat 2) with 2%nat. cbn [days_in_month N.eqb Pos.eqb]. destruct (leap y); reflexivity.
Qed.

Theorem format_valid y m d h mi s :
  1000 <= y -> y < 10000 -> 1 <= m -> m <= 12 -> 1 <= d -> d <= dim (leap y) m -> h < 24 -> mi < 60 -> s < 60 ->
  date_time_b (format_instant (y, m, d, h, mi, s)) = true.
Proof.
  intros Hy1 Hy2 Hm1 Hm2 Hd1 Hd2 Hh Hmi Hs.
  unfold format_instant, date_time_b.
  assert (Hfirst : forall r, match four_digits y r with
                             | String c r' => if (nat_of_ascii c =? 45)%nat then r' else four_digits y r
                             | EmptyString => four_digits y r end = four_digits y r).
  { intros r. unfold four_digits. rewrite dc_not_minus; [reflexivity|]. apply N.div_lt_upper_bound; lia. }
  rewrite Hfirst. rewrite (span_four y "-"%char _ Hy1 Hy2 eq_refl).
  assert (Hyd : year_digits_ok [N.to_nat (y / 1000); N.to_nat ((y / 100) mod 10); N.to_nat ((y mod 100) / 10);
                                N.to_nat ((y mod 100) mod 10)] = true).
  { unfold year_digits_ok. rewrite (four_digits_val y Hy2). cbn [length hd Nat.leb Nat.eqb orb andb].
    apply negb_true_iff. apply N.eqb_neq. lia. }
  rewrite Hyd, (four_digits_val y Hy2). cbn [andb]. rewrite expect_minus.
  rewrite (two_two_digits m) by lia. rewrite expect_minus.
  assert (Hdim : dim (leap y) m <= 31).
  { unfold dim. destruct (m =? 2); [destruct (leap y); lia|]. destruct ((m =? 4) || (m =? 6) || (m =? 9) || (m =? 11)); lia. }
  rewrite (two_two_digits d) by lia. rewrite expect_T.
  rewrite (time_part h mi s Hh Hmi Hs).
  assert (E1 : (1 <=? N.to_nat m)%nat = true) by (apply Nat.leb_le; lia).
  assert (E2 : (N.to_nat m <=? 12)%nat = true) by (apply Nat.leb_le; lia).
  assert (E3 : (1 <=? N.to_nat d)%nat = true) by (apply Nat.leb_le; lia).
  assert (E4 : (N.to_nat d <=? days_in_month y (N.to_nat m))%nat = true).
  { apply Nat.leb_le. pose proof (dim_days_in_month y m Hm1 Hm2). lia. }
  rewrite E1, E2, E3, E4. reflexivity.
Qed.

(* ---- no white space to trim *)
Lemma dc_not_ws n : n < 10 -> is_xws (dc n) = false.
Proof.
  intros H. assert (E : n = 0 \/ n = 1 \/ n = 2 \/ n = 3 \/ n = 4 \/ n = 5 \/ n = 6 \/ n = 7 \/ n = 8 \/ n = 9) by lia.
  destruct E as [->|[->|[->|[->|[->|[->|[->|[->|[->| ->]]]]]]]]]; reflexivity.
Qed.

Lemma xrtrim_Z s : xrtrim (s ++ "Z") = s ++ "Z".
Proof.
  induction s as [|c r IH]; [reflexivity|]. cbn [append xrtrim]. rewrite IH.
  destruct r; cbn [append is_empty]; rewrite andb_false_r; reflexivity.
Qed.

Lemma xtrim_format y m d h mi s :
  y < 10000 -> xtrim (format_instant (y, m, d, h, mi, s)) = format_instant (y, m, d, h, mi, s).
Proof.
  intros Hy. unfold xtrim.
  assert (Hl : xltrim (format_instant (y, m, d, h, mi, s)) = format_instant (y, m, d, h, mi, s)).
  { unfold format_instant, four_digits. cbn [xltrim]. rewrite dc_not_ws; [reflexivity|]. apply N.div_lt_upper_bound; lia. }
  rewrite Hl.
  assert (E : exists p, format_instant (y, m, d, h, mi, s) = p ++ "Z").
  { eexists (four_digits y (String "-"%char (two_digits m (String "-"%char (two_digits d (String "T"%char
      (two_digits h (String ":"%char (two_digits mi (String ":"%char (two_digits s ""))))))))))). reflexivity. }
  destruct E as [p ->]. apply xrtrim_Z.
Qed.

(* every instant() of a time stamp from the epoch to the end of year 9999 is a valid xs:dateTime *)
Theorem instant_is_datetime ts : ts < 253402300800 -> check_lex LDateTime (instant ts) = true.
Proof.
  intros Hts. unfold check_lex, instant, gmtime.
  set (days := ts / 86400). set (secs := ts mod 86400). set (z := days + 719468).
  assert (Hdays : days < 2932897) by (apply N.div_lt_upper_bound; lia).
  assert (Hsecs : secs < 86400) by (apply N.mod_lt; lia).
  assert (Hdoe : z mod 146097 < 146097) by (apply N.mod_lt; lia).
  pose proof (era_ok_at _ Hdoe) as Hok. unfold era_ok in Hok.
  destruct (era_civil (z mod 146097)) as [[y0 m] d] eqn:Ec.
  apply andb_true_iff in Hok as [Hok Hor]. apply andb_true_iff in Hok as [Hok Hy400].
  apply andb_true_iff in Hok as [Hok Hd2]. apply andb_true_iff in Hok as [Hok Hd1].
  apply andb_true_iff in Hok as [Hm1 Hm2].
  apply N.leb_le in Hm1, Hm2, Hd1, Hd2, Hy400.
  assert (Hera_lo : 4 <= z / 146097) by (apply N.div_le_lower_bound; lia).
  assert (Hera_hi : z / 146097 <= 24) by (apply N.lt_succ_r; apply N.div_lt_upper_bound; lia).
  assert (Hy_hi : y0 + z / 146097 * 400 < 10000).
  { destruct (N.eq_dec (z / 146097) 24) as [E|NE].
    - pose proof (N.div_mod z 146097 ltac:(lia)) as Ez. rewrite E in Ez.
      apply orb_true_iff in Hor as [H3|H3]; [apply N.ltb_lt in H3; lia|apply N.leb_le in H3; lia].
    - lia. }
  assert (Hh : secs / 3600 < 24) by (apply N.div_lt_upper_bound; lia).
  assert (Hmi : secs mod 3600 / 60 < 60) by (apply N.div_lt_upper_bound; [lia|]; pose proof (N.mod_lt secs 3600 ltac:(lia)); lia).
  assert (Hs : secs mod 60 < 60) by (apply N.mod_lt; lia).
  rewrite xtrim_format by exact Hy_hi.
  apply format_valid; try assumption; try lia.
  rewrite leap_era. exact Hd2.
Qed.

(* non-vacuity / sanity: the epoch, a leap day, the last second of 9999 *)
Example instant_epoch : instant 0 = "1970-01-01T00:00:00Z". Proof. vm_compute. reflexivity. Qed.
Example instant_leap : instant 1709210096 = "2024-02-29T12:34:56Z". Proof. vm_compute. reflexivity. Qed.
Example instant_last : instant 253402300799 = "9999-12-31T23:59:59Z". Proof. vm_compute. reflexivity. Qed.
