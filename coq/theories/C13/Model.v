(* C13/Model.v — structural validity of emitted XML against the element-class tables, and the
   serialisation of pysaml2 objects.

   Part 1 (this file): finite XML trees, the lexical forms the builders can get wrong, the shape of
   the generated class table (coq/gen/C13Tables.v, rewritten from the LIVE classes on every run) and
   the structural validator [valid T c t]:
     * the element carries the tag of its class;
     * its children follow the class's c_child_order, each member within the occurrence bounds of
       c_cardinality (absent entry = exactly one; list member without "max" = unbounded), children
       that belong to no member only where the class has a wildcard (c_any) and then after the
       declared members (that is where SamlBase._add_members_to_element_tree puts extension
       elements) and within the wildcard's namespace rule;
     * required attributes (c_attributes[...][2]) are present, every attribute is declared (or
       admitted by c_any_attribute, or is an xsi: attribute) and its value has the lexical form of
       the declared type (boolean, dateTime, ID/NCName, the integer types, base64Binary,
       enumerations; string and anyURI admit every string, as in XSD);
     * character data only where the class has a value type (and of that lexical form).
   Part 2: objects (SamlBase instances) and [to_tree] = SamlBase._to_element_tree, which arranges
   the members in table order.   Part 3 (Builders.v): the builders of entity.py / client_base.py. *)
From Coq Require Import String Ascii List Bool Arith NArith Lia.
From Verif Require Import Base.Str.
Import ListNotations.
Open Scope string_scope.
Open Scope list_scope.
Open Scope nat_scope.

(* ------------------------------------------------------------------ names and trees *)
Record qname := Q { q_ns : string; q_local : string }.   (* "" = no namespace *)

Definition qeqb (a b : qname) : bool :=
  String.eqb (q_ns a) (q_ns b) && String.eqb (q_local a) (q_local b).

Inductive tree := Node (tag : qname) (attrs : list (qname * string)) (text : string) (kids : list tree).

Definition root_tag (t : tree) : qname := match t with Node q _ _ _ => q end.
Definition root_attrs (t : tree) := match t with Node _ a _ _ => a end.
Definition root_kids (t : tree) := match t with Node _ _ _ k => k end.

Definition XSI := "http://www.w3.org/2001/XMLSchema-instance".

(* ------------------------------------------------------------------ lexical forms *)
(* XML white space: space, tab, LF, CR (XSD whiteSpace=collapse trims it for every type below) *)
Definition is_xws (c : ascii) : bool :=
  let n := nat_of_ascii c in (n =? 32) || (n =? 9) || (n =? 10) || (n =? 13).

Fixpoint xltrim (s : string) : string :=
  match s with
  | EmptyString => EmptyString
  | String c r => if is_xws c then xltrim r else s
  end.

Fixpoint xrtrim (s : string) : string :=
  match s with
  | EmptyString => EmptyString
  | String c r => let r' := xrtrim r in
                  if is_xws c && is_empty r' then EmptyString else String c r'
  end.

Definition xtrim (s : string) : string := xrtrim (xltrim s).

Definition digit_val (c : ascii) : option nat :=
  let n := nat_of_ascii c in if (48 <=? n) && (n <=? 57) then Some (n - 48) else None.

Definition is_digit (c : ascii) : bool := match digit_val c with Some _ => true | None => false end.

Definition is_alpha (c : ascii) : bool :=
  let n := nat_of_ascii c in ((65 <=? n) && (n <=? 90)) || ((97 <=? n) && (n <=? 122)).

(* NCName, ASCII part: Letter | '_' first, then Letter | Digit | '.' | '-' | '_' *)
Definition nc_start (c : ascii) : bool := is_alpha c || (nat_of_ascii c =? 95).
Definition nc_char (c : ascii) : bool :=
  nc_start c || is_digit c || (nat_of_ascii c =? 45) || (nat_of_ascii c =? 46).

Definition ncname_b (s : string) : bool :=
  match s with
  | EmptyString => false
  | String c r => nc_start c && all_chars nc_char r
  end.

Definition boolean_b (s : string) : bool :=
  String.eqb s "true" || String.eqb s "false" || String.eqb s "1" || String.eqb s "0".

(* leading digits of s (as numbers) and the rest *)
Fixpoint span_digits (s : string) : list nat * string :=
  match s with
  | EmptyString => ([], EmptyString)
  | String c r =>
      match digit_val c with
      | Some d => let (ds, rest) := span_digits r in (d :: ds, rest)
      | None => ([], s)
      end
  end.

Definition digits_val (ds : list nat) : N :=
  fold_left (fun acc d => (acc * 10 + N.of_nat d)%N) ds 0%N.

Definition all_digits_b (s : string) : bool := negb (is_empty s) && all_chars is_digit s.

Definition str_val (s : string) : N := digits_val (fst (span_digits s)).

Definition drop_plus (s : string) : string :=
  match s with String c r => if (nat_of_ascii c =? 43) then r else s | _ => s end.

(* xs:nonNegativeInteger: [+]digits, or -0…0 *)
Definition nonneg_b (s : string) : bool :=
  match s with
  | String c r => if (nat_of_ascii c =? 45) then all_digits_b r && (str_val r =? 0)%N
                  else all_digits_b (drop_plus s)
  | EmptyString => false
  end.

Definition posint_b (s : string) : bool :=
  let d := drop_plus s in all_digits_b d && negb (str_val d =? 0)%N.

Definition unsigned_part (s : string) : string :=
  match s with String c r => if (nat_of_ascii c =? 45) then r else drop_plus s | _ => s end.

Definition bounded_b (max : N) (s : string) : bool :=
  nonneg_b s && N.leb (str_val (unsigned_part s)) max.

Definition integer_b (s : string) : bool :=
  match s with
  | String c r => if (nat_of_ascii c =? 45) || (nat_of_ascii c =? 43) then all_digits_b r else all_digits_b s
  | EmptyString => false
  end.

(* base64Binary: white space removed, groups of four, '=' padding only at the end *)
Definition b64_char (c : ascii) : bool :=
  is_alpha c || is_digit c || (nat_of_ascii c =? 43) || (nat_of_ascii c =? 47).

Fixpoint drop_ws (s : string) : string :=
  match s with
  | EmptyString => EmptyString
  | String c r => if is_xws c then drop_ws r else String c (drop_ws r)
  end.

Fixpoint b64_groups (s : string) : bool :=
  match s with
  | EmptyString => true
  | String a (String b (String c (String d r))) =>
      if is_empty r then
        b64_char a && b64_char b &&
        ((b64_char c && b64_char d) || (b64_char c && (nat_of_ascii d =? 61)) ||
         ((nat_of_ascii c =? 61) && (nat_of_ascii d =? 61)))
      else b64_char a && b64_char b && b64_char c && b64_char d && b64_groups r
  | _ => false
  end.

Definition base64_b (s : string) : bool := b64_groups (drop_ws s).

(* xs:dateTime:  -?YYYY-MM-DDThh:mm:ss(.f+)?(Z|(+|-)hh:mm)?  with the calendar's ranges *)
Definition two (s : string) : option (nat * string) :=
  match s with
  | String a (String b r) =>
      match digit_val a, digit_val b with
      | Some x, Some y => Some (10 * x + y, r)
      | _, _ => None
      end
  | _ => None
  end.

Definition expect (n : nat) (s : string) : option string :=
  match s with
  | String c r => if nat_of_ascii c =? n then Some r else None
  | EmptyString => None
  end.

Definition leap (y : N) : bool :=
  (((y mod 4 =? 0) && negb (y mod 100 =? 0)) || (y mod 400 =? 0))%N.

Definition days_in_month (y : N) (m : nat) : nat :=
  match m with
  | 2 => if leap y then 29 else 28
  | 4 | 6 | 9 | 11 => 30
  | _ => 31
  end.

Definition year_digits_ok (ds : list nat) : bool :=
  (4 <=? length ds) && ((length ds =? 4) || negb (hd 0 ds =? 0)) && negb (digits_val ds =? 0)%N.

Definition tz_b (s : string) : bool :=
  match s with
  | EmptyString => true
  | String c r =>
      if (nat_of_ascii c =? 90) then is_empty r
      else if (nat_of_ascii c =? 43) || (nat_of_ascii c =? 45) then
        match two r with
        | Some (h, r1) =>
            match expect 58 r1 with
            | Some r2 =>
                match two r2 with
                | Some (m, r3) => is_empty r3 && (((h <=? 13) && (m <=? 59)) || ((h =? 14) && (m =? 0)))
                | None => false
                end
            | None => false
            end
        | None => false
        end
      else false
  end.

(* optional fraction: '.' digits+ ; returns (all fraction digits are 0, rest) *)
Definition fraction (s : string) : option (bool * string) :=
  match s with
  | String c r =>
      if (nat_of_ascii c =? 46) then
        let (ds, rest) := span_digits r in
        match ds with [] => None | _ => Some (forallb (fun d => d =? 0) ds, rest) end
      else Some (true, s)
  | EmptyString => Some (true, s)
  end.

Definition time_b (s : string) : bool :=
  match two s with
  | Some (h, r1) =>
    match expect 58 r1 with
    | Some r2 =>
      match two r2 with
      | Some (mi, r3) =>
        match expect 58 r3 with
        | Some r4 =>
          match two r4 with
          | Some (se, r5) =>
            match fraction r5 with
            | Some (zero, r6) =>
                ((((h <=? 23) && (mi <=? 59) && (se <=? 59))
                  || ((h =? 24) && (mi =? 0) && (se =? 0) && zero)) && tz_b r6)
            | None => false
            end
          | None => false
          end
        | None => false
        end
      | None => false
      end
    | None => false
    end
  | None => false
  end.

Definition date_time_b (s : string) : bool :=
  let s1 := match s with String c r => if (nat_of_ascii c =? 45) then r else s | _ => s end in
  let (yd, r1) := span_digits s1 in
  year_digits_ok yd &&
  match expect 45 r1 with
  | Some r2 =>
    match two r2 with
    | Some (mo, r3) =>
      match expect 45 r3 with
      | Some r4 =>
        match two r4 with
        | Some (d, r5) =>
          match expect 84 r5 with
          | Some r6 =>
              (1 <=? mo) && (mo <=? 12) && (1 <=? d) && (d <=? days_in_month (digits_val yd) mo) && time_b r6
          | None => false
          end
        | None => false
        end
      | None => false
      end
    | None => false
    end
  | None => false
  end.

Inductive lexty :=
| LAny                         (* xs:string, xs:anyURI, untyped, list types: every string *)
| LBoolean | LDateTime | LNCName (* xs:ID, xs:NCName *)
| LNonNeg | LPosInt | LUShort | LUByte | LInteger | LBase64
| LEnum (vals : list string)
| LConst (v : string).         (* used by builder templates only: exactly this value *)

Definition check_lex (ty : lexty) (s : string) : bool :=
  match ty with
  | LAny => true
  | LBoolean => boolean_b (xtrim s)
  | LDateTime => date_time_b (xtrim s)
  | LNCName => ncname_b (xtrim s)
  | LNonNeg => nonneg_b (xtrim s)
  | LPosInt => posint_b (xtrim s)
  | LUShort => bounded_b 65535 (xtrim s)
  | LUByte => bounded_b 255 (xtrim s)
  | LInteger => integer_b (xtrim s)
  | LBase64 => base64_b s
  | LEnum vals => mem s vals
  | LConst v => String.eqb s v
  end.

(* ------------------------------------------------------------------ the class table *)
Inductive wild := WNone | WAny | WOther.

Record particle := P {
  p_tag : qname;            (* key of c_children *)
  p_cls : option nat;       (* member class (index into the table); None = the table says None *)
  p_min : nat;              (* c_cardinality[member]["min"], 1 when absent *)
  p_max : option nat        (* c_cardinality[member]["max"]; absent: 1 for a single member, unbounded for a list *)
}.

Record adecl := A { a_name : qname; a_ty : lexty; a_req : bool }.

Inductive textspec :=
| TElemOnly                 (* c_value_type is None: no character data *)
| TLex (ty : lexty).

Record cinfo := {
  ci_name : string;         (* "saml.Assertion" *)
  ci_tag : qname;           (* c_namespace, c_tag *)
  ci_elem : bool;           (* an element class (name without trailing '_'): a global element *)
  ci_parts : list particle; (* members in c_child_order order *)
  ci_attrs : list adecl;    (* c_attributes *)
  ci_text : textspec;       (* from c_value_type *)
  ci_any : wild;            (* c_any *)
  ci_anymin : nat;          (* least number of wildcard children (0 unless supplemented) *)
  ci_anymax : option nat;   (* c_any["maxOccurs"]: absent = 1, "unbounded" = None *)
  ci_anyattr : wild         (* c_any_attribute *)
}.

Definition table := list cinfo.

Definition class_at (T : table) (k : nat) : option cinfo := nth_error T k.

(* index of the first element class with this tag *)
Fixpoint elem_class_from (T : table) (i : nat) (q : qname) : option nat :=
  match T with
  | [] => None
  | ci :: r => if ci_elem ci && qeqb (ci_tag ci) q then Some i else elem_class_from r (S i) q
  end.

Definition elem_class (T : table) (q : qname) : option nat := elem_class_from T 0 q.

(* ------------------------------------------------------------------ one node *)
Fixpoint span_tag (q : qname) (l : list qname) : nat * list qname :=
  match l with
  | [] => (0, [])
  | x :: r => if qeqb x q then let (n, rest) := span_tag q r in (S n, rest) else (0, l)
  end.

Definition in_bounds (p : particle) (n : nat) : bool :=
  (p_min p <=? n) && match p_max p with None => true | Some m => n <=? m end.

(* members in table order; what is left over belongs to no member *)
Fixpoint check_seq (ps : list particle) (l : list qname) : option (list qname) :=
  match ps with
  | [] => Some l
  | p :: r => let (n, rest) := span_tag (p_tag p) l in
              if in_bounds p n then check_seq r rest else None
  end.

Definition wild_ok (w : wild) (target : string) (q : qname) : bool :=
  match w with
  | WNone => false
  | WAny => true
  | WOther => negb (is_empty (q_ns q)) && negb (String.eqb (q_ns q) target)
  end.

Definition kids_ok (ci : cinfo) (kidtags : list qname) : bool :=
  match check_seq (ci_parts ci) kidtags with
  | Some rest => forallb (wild_ok (ci_any ci) (q_ns (ci_tag ci))) rest && (ci_anymin ci <=? length rest)
                 && (match ci_anymax ci with Some m => length rest <=? m | None => true end)
  | None => false
  end.

Definition find_decl (ci : cinfo) (n : qname) : option adecl :=
  find (fun d => qeqb (a_name d) n) (ci_attrs ci).

Definition has_attr (n : qname) (attrs : list (qname * string)) : bool :=
  existsb (fun kv => qeqb (fst kv) n) attrs.

Definition attr_ok (ci : cinfo) (kv : qname * string) : bool :=
  match find_decl ci (fst kv) with
  | Some d => check_lex (a_ty d) (snd kv)
  | None => String.eqb (q_ns (fst kv)) XSI || wild_ok (ci_anyattr ci) (q_ns (ci_tag ci)) (fst kv)
  end.

Definition attrs_ok (ci : cinfo) (attrs : list (qname * string)) : bool :=
  forallb (fun d => negb (a_req d) || has_attr (a_name d) attrs) (ci_attrs ci)
  && forallb (attr_ok ci) attrs.

Definition text_ok (ts : textspec) (text : string) : bool :=
  match ts with
  | TElemOnly => all_chars is_xws text
  | TLex ty => check_lex ty text
  end.

Definition node_ok (ci : cinfo) (tag : qname) (attrs : list (qname * string)) (text : string)
           (kidtags : list qname) : bool :=
  qeqb tag (ci_tag ci) && attrs_ok ci attrs && text_ok (ci_text ci) text && kids_ok ci kidtags.

(* ------------------------------------------------------------------ the whole tree *)
Inductive cref := CK (k : nat) | CSkip.   (* CSkip: lax wildcard content without a known declaration *)

Definition find_part (ci : cinfo) (q : qname) : option particle :=
  find (fun p => qeqb (p_tag p) q) (ci_parts ci).

(* the class that describes a child with tag q of an element of class ci *)
Definition child_ref (T : table) (ci : cinfo) (q : qname) : cref :=
  match find_part ci q with
  | Some p => match p_cls p with Some k => CK k | None => CSkip end
  | None => match elem_class T q with Some k => CK k | None => CSkip end
  end.

Fixpoint valid (T : table) (c : cref) (t : tree) : bool :=
  match c with
  | CSkip => true
  | CK k =>
      match class_at T k with
      | None => false
      | Some ci =>
          match t with
          | Node tag attrs text kids =>
              node_ok ci tag attrs text (map root_tag kids)
              && (fix go (l : list tree) : bool :=
                    match l with
                    | [] => true
                    | x :: r => valid T (child_ref T ci (root_tag x)) x && go r
                    end) kids
          end
      end
  end.

(* the document: the root is a global element *)
Definition valid_doc (T : table) (t : tree) : bool :=
  match elem_class T (root_tag t) with
  | Some k => valid T (CK k) t
  | None => false
  end.

(* where validation fails: path of (tag local names) to the first offending node, for explain *)
Fixpoint first_bad (T : table) (c : cref) (t : tree) : list string :=
  match c with
  | CSkip => []
  | CK k =>
      match class_at T k with
      | None => ["<no class>"]
      | Some ci =>
          match t with
          | Node tag attrs text kids =>
              if negb (node_ok ci tag attrs text (map root_tag kids)) then
                [(q_local tag ++ ":" ++ (if negb (qeqb tag (ci_tag ci)) then "tag"
                                        else if negb (attrs_ok ci attrs) then "attrs"
                                        else if negb (text_ok (ci_text ci) text) then "text" else "kids"))%string]
              else
                (fix go (l : list tree) : list string :=
                   match l with
                   | [] => []
                   | x :: r => match first_bad T (child_ref T ci (root_tag x)) x with
                               | [] => go r
                               | p => q_local tag :: p
                               end
                   end) kids
          end
      end
  end.

(* ------------------------------------------------------------------ structural equality of trees *)
Definition attr_eqb (a b : qname * string) : bool := qeqb (fst a) (fst b) && String.eqb (snd a) (snd b).

(* attribute order is not part of the information set *)
Definition attrs_eqb (a b : list (qname * string)) : bool :=
  (length a =? length b) && forallb (fun x => existsb (attr_eqb x) b) a.

Fixpoint tree_eqb (a b : tree) : bool :=
  match a, b with
  | Node ta aa xa ka, Node tb ab xb kb =>
      qeqb ta tb && attrs_eqb aa ab && String.eqb xa xb
      && (fix go (l1 l2 : list tree) : bool :=
            match l1, l2 with
            | [], [] => true
            | x :: r1, y :: r2 => tree_eqb x y && go r1 r2
            | _, _ => false
            end) ka kb
  end.
