(* C13/Property.v — property theorems only.

   Level: PROOF for the structural part (order of children, occurrence bounds, required attributes,
   declared attributes and the lexical forms boolean / dateTime / ID / NCName / integer types /
   base64Binary / enumerations, character data) of the builders listed below, for ALL arguments;
   EXPLORATION (the correspondence in harness/c13.py against the shipped XSD documents) for what the
   schemas add beyond the class tables and for the builders that are not modelled. *)
From Coq Require Import String List Bool NArith.
From Verif Require Import Base.Str C13.Model C13.Spec C13.Builders C13.Proofs C13.SpecProofs C13.Lex C13.BuilderProofs C13.Extra C13.ExtraProofs.
From VerifGen Require Import C13Tables.
From Verif Require Base.Py C13.Source2.
From VerifGen Require C13Src2.
Import ListNotations.

(* the boolean validator that Coq evaluates on the implementation's output is the stated specification *)
Theorem c13_spec_reflect : forall T t, spec_b T t = true <-> spec T t.
Proof. exact spec_b_iff. Qed.
Print Assumptions c13_spec_reflect.

(* SamlBase serialisation: for EVERY class table whose classes are consistent and EVERY object (any
   depth, any members set, in any order) that is well-formed member by member, the element tree that
   to_string writes is structurally valid: children come out in schema order *)
Theorem c13_serialiser : forall T, table_wf T = true -> forall o, owf T o = true -> valid T (obj_cref o) (to_tree T o) = true.
Proof. exact owf_valid. Qed.
Print Assumptions c13_serialiser.

(* per-run obligation on the regenerated table *)
Theorem c13_table_consistent : table_wf live_table = true.
Proof. exact table_ok. Qed.
Print Assumptions c13_table_consistent.

(* ---- builders_valid: for ALL arguments in the stated domain the emitted document satisfies the spec *)
Theorem c13_authn_request_valid :
  forall a o, ar_ok a -> authn_request a = Some o -> spec live_table (to_tree live_table o).
Proof. exact authn_request_valid. Qed.
Print Assumptions c13_authn_request_valid.

(* ---- round 6: create_requested_attribute_node's two loops over the attribute converters (eIDAS RequestedAttributes),
   for EVERY list of converters (any number, any order, any content) and every spelling of the attribute *)
(* the arguments for which the element is valid, stated on the input (ar_ok uses exactly this) *)
Theorem c13_reqattr_valid :
  forall cs r, rattr_ok cs r = true ->
               exists q, ra_resolve cs r = Some q /\ owf live_table (requested_attribute q) = true.
Proof. exact reqattr_valid. Qed.
Print Assumptions c13_reqattr_valid.

(* the FIRST map that knows the friendly name decides Name; maps loaded after it are not consulted, and a name_format
   given by the caller only replaces that map's NameFormat *)
Theorem c13_reqattr_first_map :
  forall cs1 c cs2 r f n,
    struthy (rq_name r) = false -> rq_friendly r = Some f -> is_empty f = false ->
    (forall c', In c' cs1 -> sassoc (lower f) (cv_to c') = None) -> sassoc (lower f) (cv_to c) = Some n ->
    exists q, ra_resolve (cs1 ++ c :: cs2) r = Some q /\ name_of q = Some n /\ friendly_of q = Some f
              /\ (is_empty (cv_format c) = false ->
                  format_of q = if struthy (rq_format r) then rq_format r else Some (cv_format c)).
Proof. exact reqattr_first_map. Qed.
Print Assumptions c13_reqattr_first_map.

Theorem c13_reqattr_names_independent_of_format :
  forall cs r f,
    option_map (fun q => (name_of q, friendly_of q)) (ra_resolve cs (with_format r f))
    = option_map (fun q => (name_of q, friendly_of q)) (ra_resolve cs r).
Proof. exact reqattr_names_independent_of_format. Qed.
Print Assumptions c13_reqattr_names_independent_of_format.

Theorem c13_reqattr_name_present :
  forall cs r,
    struthy (rq_name r) || (struthy (rq_friendly r) && knows cv_to (lower (text_of (rq_friendly r))) cs) = true ->
    exists q n, ra_resolve cs r = Some q /\ name_of q = Some n.
Proof. exact reqattr_name_present. Qed.
Print Assumptions c13_reqattr_name_present.

(* finding 10 (repaired by 711f9f2e: a third step takes a still missing name format from the first map whose _fro knows
   the name): the code before it wrote an attribute the maps know, spelt with name AND friendly_name but no name_format,
   without the required NameFormat; now every attribute the maps know is valid, however it is spelt, and nothing changes
   where the two loops had left a usable format *)
Theorem c13_reqattr_no_format_v0_refuted :
  exists cs r q, rattr_known cs r = true /\ ra_resolve cs r = Some q
                 /\ valid live_table (CK k_extension_requested_attributes_RequestedAttribute)
                          (to_tree live_table (requested_attribute_v0 q)) = false.
Proof. exact reqattr_no_format_v0_refuted. Qed.
Print Assumptions c13_reqattr_no_format_v0_refuted.

Theorem c13_reqattr_known_valid :
  forall cs r, rattr_known cs r = true ->
               exists q, ra_resolve cs r = Some q /\ owf live_table (requested_attribute q) = true.
Proof. exact reqattr_known_valid. Qed.
Print Assumptions c13_reqattr_known_valid.

Theorem c13_reqattr_fix_conservative :
  forall q, struthy (format_of_v0 q) = true -> requested_attribute q = requested_attribute_v0 q.
Proof. exact fix_conservative. Qed.
Print Assumptions c13_reqattr_fix_conservative.

(* the tie to the source TEXT: create_requested_attribute_node as translated on this run (coq/gen/C13Src2.v) computes,
   for every list of attribute dictionaries and every list of converters, what Builders.ra_resolve_all computes *)
Theorem c13_src2_requested_attribute_node :
  forall ps l cs,
    Forall2 Source2.rep_attr ps l -> forallb Source2.rattr_ascii l = true -> forallb Source2.conv_ok cs = true ->
    C13Src2.src2_create_requested_attribute_node (Py.PList ps) (Py.PList (map Source2.enc_conv cs))
    = Source2.enc_res (ra_resolve_all cs l).
Proof. exact Source2.src2_crn_is_model. Qed.
Print Assumptions c13_src2_requested_attribute_node.

Theorem c13_logout_request_valid :
  forall a o, obs_ok (lr_ob a) -> opt_lexb LDateTime (lr_expire a) = true -> opt_ext_ok (lr_extensions a) = true ->
              opt_valid k_saml_NameID (lr_name_id a) = true ->
              logout_request a = Some o -> spec live_table (to_tree live_table o).
Proof. exact logout_request_valid. Qed.
Print Assumptions c13_logout_request_valid.

Theorem c13_attribute_query_valid :
  forall a o, obs_ok (aq_ob a) -> opt_ext_ok (aq_extensions a) = true ->
              valid live_table (CK k_saml_NameID) (aq_name_id a) = true ->
              forallb (valid live_table (CK k_saml_Attribute)) (aq_attributes a) = true ->
              attribute_query a = Some o -> spec live_table (to_tree live_table o).
Proof. exact attribute_query_valid. Qed.
Print Assumptions c13_attribute_query_valid.

Theorem c13_artifact_resolve_valid :
  forall entityid artifact destination consent extensions sg ob o,
    obs_ok ob -> opt_ext_ok extensions = true ->
    artifact_resolve entityid artifact destination consent extensions sg ob = Some o -> spec live_table (to_tree live_table o).
Proof. exact artifact_resolve_valid. Qed.
Print Assumptions c13_artifact_resolve_valid.

Theorem c13_logout_response_valid :
  forall a o, obs_ok (sr_ob a) -> opt_lexb LNCName (sr_in_response_to a) = true -> sr_ext a = [] ->
              logout_response a = Some o -> spec live_table (to_tree live_table o).
Proof. exact logout_response_valid. Qed.
Print Assumptions c13_logout_response_valid.

Theorem c13_manage_name_id_response_valid :
  forall a o, obs_ok (sr_ob a) -> opt_lexb LNCName (sr_in_response_to a) = true -> sr_ext a = [] ->
              manage_name_id_response a = Some o -> spec live_table (to_tree live_table o).
Proof. exact manage_name_id_response_valid. Qed.
Print Assumptions c13_manage_name_id_response_valid.

Theorem c13_artifact_response_valid :
  forall a o, obs_ok (sr_ob a) -> opt_lexb LNCName (sr_in_response_to a) = true ->
              forallb (ext_ok live_table ci_ArtifactResponse) (sr_ext a) = true -> Nat.leb (length (sr_ext a)) 1 = true ->
              artifact_response a = Some o -> spec live_table (to_tree live_table o).
Proof. exact artifact_response_valid. Qed.
Print Assumptions c13_artifact_response_valid.

(* Entity._response: success and error Responses, whatever assertions (valid as serialised) they carry *)
Theorem c13_response_valid :
  forall a o, obs_ok (rs_ob a) -> opt_lexb LNCName (rs_in_response_to a) = true ->
              forallb (valid live_table (CK k_saml_Assertion)) (rs_assertions a) = true ->
              forallb (valid live_table (CK k_saml_EncryptedAssertion)) (rs_encrypted a) = true ->
              response a = Some o -> spec live_table (to_tree live_table o).
Proof. exact response_valid. Qed.
Print Assumptions c13_response_valid.

Theorem c13_error_response_valid :
  forall issuer code message irt dest sg ob o,
    obs_ok ob -> opt_lexb LNCName irt = true ->
    error_response issuer code message irt dest sg ob = Some o -> spec live_table (to_tree live_table o).
Proof. exact error_response_valid. Qed.
Print Assumptions c13_error_response_valid.

(* metadata.entity_descriptor: the EntityDescriptor shell (entityID, validUntil, Extensions, role descriptors,
   Organization built by do_organization_info, ContactPerson) around role descriptors as serialised *)
Theorem c13_entity_descriptor_valid :
  forall a,
    opt_lexb LDateTime (ed_valid_until a) = true -> org_ok (ed_org a) = true ->
    forallb (valid live_table (CK k_md_ContactPerson)) (ed_contacts a) = true ->
    forallb (ext_ok live_table ci_mdExtensions) (ed_ext a) = true ->
    opt_valid k_md_IDPSSODescriptor (ed_idp a) = true -> opt_valid k_md_SPSSODescriptor (ed_sp a) = true ->
    opt_valid k_md_AuthnAuthorityDescriptor (ed_aq a) = true -> opt_valid k_md_AttributeAuthorityDescriptor (ed_aa a) = true ->
    opt_valid k_md_PDPDescriptor (ed_pdp a) = true ->
    spec live_table (to_tree live_table (entity_descriptor a)).
Proof. exact entity_descriptor_valid. Qed.
Print Assumptions c13_entity_descriptor_valid.

(* ---- the generators of lexical values, for all inputs *)
Theorem c13_sid_lexical : forall r, all_chars alnum r = true -> check_lex LNCName (sid r) = true.
Proof. exact sid_is_ncname. Qed.
Print Assumptions c13_sid_lexical.

Theorem c13_instant_lexical : forall ts, (ts < 253402300800)%N -> check_lex LDateTime (instant ts) = true.
Proof. exact instant_is_datetime. Qed.
Print Assumptions c13_instant_lexical.

(* ---- create_name_id_mapping_response (as coded after fix 04928d2a: Status defaulted and passed on) *)
Theorem c13_name_id_mapping_response_valid :
  forall entityid name_id irt status sg ob o,
    obs_ok ob -> opt_lexb LNCName irt = true -> opt_valid k_saml_NameID name_id = true ->
    name_id_mapping_response entityid name_id irt status sg ob = Some o ->
    valid live_table (CK k_samlp_NameIDMappingResponse) (to_tree live_table o) = true.
Proof. exact name_id_mapping_response_valid. Qed.
Print Assumptions c13_name_id_mapping_response_valid.

(* ... the pinned snapshot's builder never set Status: refuted (finding C13-F1, repaired by 04928d2a) *)
Theorem c13_name_id_mapping_response_v0_refuted :
  exists entityid name_id irt sg ob o,
    obs_ok ob /\ name_id_mapping_response_v0 entityid name_id irt sg ob = Some o
    /\ valid live_table (CK k_samlp_NameIDMappingResponse) (to_tree live_table o) = false.
Proof. exact name_id_mapping_response_v0_refuted. Qed.
Print Assumptions c13_name_id_mapping_response_v0_refuted.

Theorem c13_name_id_mapping_response_v0_never_valid :
  forall entityid irt ob o, ob_sig ob = None ->
    name_id_mapping_response_v0 entityid None irt {| sg_arg := Some false; sg_should := false |} ob = Some o ->
    valid live_table (CK k_samlp_NameIDMappingResponse) (to_tree live_table o) = false.
Proof. exact name_id_mapping_response_v0_invalid. Qed.
Print Assumptions c13_name_id_mapping_response_v0_never_valid.

(* ==== beyond the class tables (Extra.v): xs:ID uniqueness, the types named by xsi:type, choice groups ==== *)

(* the boolean that Coq evaluates on the implementation's output is "no xs:ID value occurs twice" *)
Theorem c13_ids_unique_reflect : forall T I t, ids_unique T I t = true <-> NoDup (doc_ids T I t).
Proof. exact ids_unique_iff. Qed.
Print Assumptions c13_ids_unique_reflect.

(* ---- create_name_id_mapping_request: valid, and exactly ONE of BaseID / NameID / EncryptedID whatever
   combination of name_id, base_id, encrypted_id the caller supplies (the schema's xs:choice) *)
Theorem c13_name_id_mapping_request_valid :
  forall a o, nim_ok a -> name_id_mapping_request a = Some o -> spec live_table (to_tree live_table o).
Proof. exact name_id_mapping_request_valid. Qed.
Print Assumptions c13_name_id_mapping_request_valid.

Theorem c13_name_id_mapping_request_one_identifier :
  forall a o, nim_ok a -> name_id_mapping_request a = Some o -> root_choices_ok (to_tree live_table o) = true.
Proof. exact name_id_mapping_request_one_identifier. Qed.
Print Assumptions c13_name_id_mapping_request_one_identifier.

Theorem c13_logout_request_one_identifier :
  forall a o, obs_ok (lr_ob a) -> opt_lexb LDateTime (lr_expire a) = true -> opt_ext_ok (lr_extensions a) = true ->
              opt_valid k_saml_NameID (lr_name_id a) = true ->
              logout_request a = Some o -> root_choices_ok (to_tree live_table o) = true.
Proof. exact logout_request_one_identifier. Qed.
Print Assumptions c13_logout_request_one_identifier.

(* ---- create_manage_name_id_request: valid, exactly one of NameID / EncryptedID and exactly one of
   NewID / NewEncryptedID / Terminate for every combination of the five arguments *)
Theorem c13_manage_name_id_request_valid :
  forall a o, mni_ok a -> manage_name_id_request a = Some o -> spec live_table (to_tree live_table o).
Proof. exact manage_name_id_request_valid. Qed.
Print Assumptions c13_manage_name_id_request_valid.

Theorem c13_manage_name_id_request_one_of_each :
  forall a o, mni_ok a -> manage_name_id_request a = Some o -> root_choices_ok (to_tree live_table o) = true.
Proof. exact manage_name_id_request_one_of_each. Qed.
Print Assumptions c13_manage_name_id_request_one_of_each.

(* ---- create_attribute_query from the `attribute` dictionary itself (s_utils.do_attributes / do_attribute / do_ava,
   AttributeValue.set_text / set_type): structurally valid for every dictionary whose keys name the attribute ... *)
Theorem c13_attribute_query_s_valid :
  forall a specs o, obs_ok (aq_ob a) -> opt_ext_ok (aq_extensions a) = true ->
                    valid live_table (CK k_saml_NameID) (aq_name_id a) = true -> keys_named specs = true ->
                    attribute_query_s a specs = Some o -> spec live_table (to_tree live_table o).
Proof. exact attribute_query_s_valid. Qed.
Print Assumptions c13_attribute_query_s_valid.

(* ... every xsi:type names an existing built-in type (the prefix the caller used is declared: "xs:" and "xsd:"
   alike) of which the value has the lexical form, for ALL legal values - a list of two values and a str of two
   characters included (as coded since fix bf274fc5) ... *)
Theorem c13_do_attributes_typed :
  forall specs objs, do_attributes specs = Some objs -> forallb (fun ks => spec_legal (snd ks)) specs = true ->
                     forallb (fun o => xsi_ok (to_tree live_table o)) objs = true.
Proof. exact do_attributes_typed. Qed.
Print Assumptions c13_do_attributes_typed.

(* ... a plain value (not a tuple) is never given a type, whatever its length *)
Theorem c13_do_attributes_plain_untyped : forall v, snd (unpack (SPlain v)) = ""%string.
Proof. exact do_attribute_plain_untyped. Qed.
Print Assumptions c13_do_attributes_plain_untyped.

(* ... the pinned code read a plain value of exactly two items as (value, type): refuted (finding C13-F8, repaired by bf274fc5) *)
Theorem c13_do_attributes_misread_v0_refuted :
  exists k sp o, misread sp = true /\ forallb (legal_typed "") (aval_texts (match sp with SPlain v => v | STuple v _ => v end)) = true
                 /\ do_attribute_v0 k sp = Some o /\ owf live_table o = true /\ xsi_ok (to_tree live_table o) = false.
Proof. exact do_attributes_misread_v0_refuted. Qed.
Print Assumptions c13_do_attributes_misread_v0_refuted.

(* ---- create_authn_query_response (as coded since fix 8ef9e86e: message_args() per assertion): every assertion carries
   the identifier drawn for it; pairwise different draws give pairwise different Assertion/@ID values *)
Theorem c13_authn_query_response_own_ids_unique :
  forall e inst subj l, NoDup (map (fun p => xtrim (fst p)) l) -> NoDup (map own_id (aqr_assertions e inst subj l)).
Proof. exact aqr_own_ids_unique. Qed.
Print Assumptions c13_authn_query_response_own_ids_unique.

Theorem c13_authn_query_response_sample_ok :
  exists o, response (sample_rs sample_asserts) = Some o /\ doc_ok (to_tree live_table o) = true.
Proof. exact authn_query_response_sample_ok. Qed.
Print Assumptions c13_authn_query_response_sample_ok.

(* ... the pinned code shared one message_args() among all assertions (finding C13-F9, repaired by 8ef9e86e) *)
Theorem c13_authn_query_response_ids_v0_never_unique :
  forall e id inst subj s1 s2 more,
    nodupb (flat_map assertion_ids (aqr_assertions_v0 e id inst subj (s1 :: s2 :: more))) = false.
Proof. exact aqr_v0_ids_never_unique. Qed.
Print Assumptions c13_authn_query_response_ids_v0_never_unique.

Theorem c13_authn_query_response_ids_v0_refuted :
  exists o, obs_ok (rs_ob (sample_rs sample_asserts_v0)) /\ response (sample_rs sample_asserts_v0) = Some o
            /\ valid_doc live_table (to_tree live_table o) = true
            /\ ids_unique live_table live_ids (to_tree live_table o) = false.
Proof. exact authn_query_response_ids_v0_refuted. Qed.
Print Assumptions c13_authn_query_response_ids_v0_refuted.

(* ---- the `farg` argument tree of create_authn_response / create_attribute_response / setup_assertion
   (Server.update_farg, argtree.is_set / add_path, s_utils.factory, assertion.do_subject): for EVERY tree the caller
   may hand in — any nesting of dictionaries, strings, None, instances, lists — and every in_response_to / consumer url,
   if update_farg returns at all then the confirmation method is set in the completed tree ... *)
From Verif Require Import C13.Farg C13.FargProofs.

Theorem c13_update_farg_method_set :
  forall irt url f f', update_farg irt url f = Some f' -> is_set f' P_METHOD = Some true.
Proof. exact update_farg_method_set. Qed.
Print Assumptions c13_update_farg_method_set.

(* ... it is the caller's value where the caller set one (not None), the default otherwise: Method = bearer,
   InResponseTo = the in_response_to argument, Recipient = the consumer url *)
Theorem c13_update_farg_method :
  forall irt url f f', update_farg irt url f = Some f' -> get f' P_METHOD = kept_or f P_METHOD (FStr SCM_BEARER).
Proof. exact update_farg_method. Qed.
Print Assumptions c13_update_farg_method.

Theorem c13_update_farg_in_response_to :
  forall irt url f f', update_farg irt url f = Some f' -> get f' P_IRT = kept_or f P_IRT (ostr irt).
Proof. exact update_farg_in_response_to. Qed.
Print Assumptions c13_update_farg_in_response_to.

Theorem c13_update_farg_recipient :
  forall irt url f f', update_farg irt url f = Some f' -> get f' P_RECIPIENT = kept_or f P_RECIPIENT (ostr url).
Proof. exact update_farg_recipient. Qed.
Print Assumptions c13_update_farg_recipient.

(* ... every SubjectConfirmation of the Subject built from it carries the required Method attribute (no domain
   restriction at all: whenever the call emits something) ... *)
Theorem c13_farg_subject_method_present :
  forall a o, subject_of a = Some o -> forallb sc_has_method (subject_confirmations o) = true.
Proof. exact subject_method_present. Qed.
Print Assumptions c13_farg_subject_method_present.

(* ... and the Subject is valid whenever the leaves of the completed tree have the lexical form of the attribute
   they become (InResponseTo an NCName, NotBefore a dateTime) and the instances handed in are valid ones *)
Theorem c13_farg_subject_valid :
  forall a o, subject_of a = Some o -> fa_dom a = true ->
              valid live_table (CK k_saml_Subject) (to_tree live_table o) = true.
Proof. exact subject_valid. Qed.
Print Assumptions c13_farg_subject_valid.

Theorem c13_farg_subject_default_valid :
  forall irt url nid noa f,
    falsy f = true -> opt_lexb LNCName irt = true -> check_lex LDateTime noa = true -> opt_valid k_saml_NameID nid = true ->
    exists o, subject_of {| fa_farg := f; fa_in_response_to := irt; fa_consumer_url := url; fa_name_id := nid;
                            fa_not_on_or_after := noa |} = Some o
              /\ valid live_table (CK k_saml_Subject) (to_tree live_table o) = true.
Proof. exact subject_default_valid. Qed.
Print Assumptions c13_farg_subject_default_valid.

(* non-vacuity: a farg that only adds an Address *)
Theorem c13_farg_sample :
  fa_dom sample_fa = true /\
  subject_tree sample_fa =
  Some (Node (qa "Subject") [] ""%string
          [Node (qa "SubjectConfirmation") [(Q "" "Method", SCM_BEARER)] ""%string
             [Node (qa "SubjectConfirmationData")
                   [(Q "" "NotOnOrAfter", "2023-11-14T22:28:20Z"%string); (Q "" "Recipient", "https://sp.example.org/acs"%string);
                    (Q "" "InResponseTo", "id-1"%string); (Q "" "Address", "192.0.2.7"%string)] ""%string []]]).
Proof. exact sample_fa_built. Qed.
Print Assumptions c13_farg_sample.

(* ---- round 5: which assertion ends up in an EncryptedAssertion (Entity._response and the argument gathering of
   Server), and the eduPersonTargetedID attribute (AttributeConverter.to_eptid_value) ---- *)
From Verif Require Import C13.Release C13.ReleaseProofs.

(* for EVERY combination of entry, metadata, call arguments, configuration and configured verifiers: an assertion is
   moved into an EncryptedAssertion only when _encrypt_assertion is going to find a certificate for it *)
Theorem c13_enc_no_clear_wrapper :
  forall a m v, enc_plan a = Some (m, v) -> m <> SWrapped /\ v <> Some SWrapped.
Proof. exact enc_plan_no_clear_wrapper. Qed.
Print Assumptions c13_enc_no_clear_wrapper.

(* ... which is what the schema demands: an EncryptedAssertion without EncryptedData is invalid whatever else it holds *)
Theorem c13_clear_wrapper_invalid :
  forall tag attrs text kids,
    existsb (has_tag XENC_NS "EncryptedData") kids = false ->
    valid live_table (CK k_saml_EncryptedAssertion) (Node tag attrs text kids) = false.
Proof. exact clear_wrapper_invalid. Qed.
Print Assumptions c13_clear_wrapper_invalid.

(* the assertion is encrypted exactly when asked for and there is a certificate for THE ASSERTION; the one inside the
   Advice exactly when there is one for THE ADVICE *)
Theorem c13_enc_main :
  forall a e d m v, gathered a = Some (e, d) -> enc_plan a = Some (m, v) ->
                    m = if e && (ea_md a || eff_cert_ass a) then SEnc else SClear.
Proof. exact enc_plan_main. Qed.
Print Assumptions c13_enc_main.

Theorem c13_enc_advice :
  forall a e d m v, gathered a = Some (e, d) -> enc_plan a = Some (m, v) ->
                    v = if eff_pefim a then Some (if d && (ea_md a || eff_cert_adv a) then SEnc else SClear) else None.
Proof. exact enc_plan_advice. Qed.
Print Assumptions c13_enc_advice.

(* the two guards are independent: the other certificate changes nothing *)
Theorem c13_enc_main_independent_of_advice_cert :
  forall a b m v m' v', enc_plan a = Some (m, v) -> enc_plan (with_cert_adv a b) = Some (m', v') -> m' = m.
Proof. exact enc_main_independent_of_advice_cert. Qed.
Print Assumptions c13_enc_main_independent_of_advice_cert.

Theorem c13_enc_advice_independent_of_assertion_cert :
  forall a b m v m' v', enc_plan a = Some (m, v) -> enc_plan (with_cert_ass a b) = Some (m', v') -> v' = v.
Proof. exact enc_advice_independent_of_assertion_cert. Qed.
Print Assumptions c13_enc_advice_independent_of_assertion_cert.

Theorem c13_enc_sample :
  enc_plan (sample_enc false) = Some (SClear, None) /\ enc_plan (sample_enc true) = Some (SEnc, None).
Proof. exact sample_enc_plans. Qed.
Print Assumptions c13_enc_sample.

(* eduPersonTargetedID: the NameID written into the AttributeValue has Format = persistent and, beyond that, the two
   qualifiers only; the Attribute element is valid for every value the converter accepts, and it accepts every value
   of the documented form *)
Theorem c13_eptid_nameid_shape :
  forall v t, ept_nameid v = Some t ->
              root_tag t = qa "NameID" /\ root_kids t = []
              /\ forallb (fun kv => qmem (fst kv) ept_allowed) (root_attrs t) = true
              /\ attr_value (Q "" "Format") t = Some NAMEID_FORMAT_PERSISTENT.
Proof. exact ept_nameid_shape. Qed.
Print Assumptions c13_eptid_nameid_shape.

Theorem c13_eptid_attribute_valid :
  forall a o, ept_attribute a = Some o -> valid live_table (CK k_saml_Attribute) (to_tree live_table o) = true.
Proof. exact ept_attribute_valid. Qed.
Print Assumptions c13_eptid_attribute_valid.

Theorem c13_eptid_attribute_total :
  forall a, forallb ept_documented (ept_list (ep_in a)) = true -> exists o, ept_attribute a = Some o.
Proof. exact ept_attribute_total. Qed.
Print Assumptions c13_eptid_attribute_total.

Theorem c13_eptid_sample :
  ept_tree sample_ept =
  Some (Node (qa "Attribute")
          [(Q "" "Name", EPTID_OID); (Q "" "NameFormat", "urn:oasis:names:tc:SAML:2.0:attrname-format:uri"%string);
           (Q "" "FriendlyName", "eduPersonTargetedID"%string)] ""%string
          [Node (qa "AttributeValue") [] ""%string
             [Node (qa "NameID") [(Q "" "Format", NAMEID_FORMAT_PERSISTENT)] "opaque-1"%string []];
           Node (qa "AttributeValue") [] ""%string
             [Node (qa "NameID") [(Q "" "Format", NAMEID_FORMAT_PERSISTENT);
                                  (Q "" "NameQualifier", "https://idp.example.org"%string);
                                  (Q "" "SPNameQualifier", "https://sp.example.org"%string)] "opaque-2"%string []]]).
Proof. exact sample_ept_built. Qed.
Print Assumptions c13_eptid_sample.
