(* C13/Property.v — property theorems only.

   Level: PROOF for the structural part (order of children, occurrence bounds, required attributes,
   declared attributes and the lexical forms boolean / dateTime / ID / NCName / integer types /
   base64Binary / enumerations, character data) of the builders listed below, for ALL arguments;
   EXPLORATION (the correspondence in harness/c13.py against the shipped XSD documents) for what the
   schemas add beyond the class tables and for the builders that are not modelled. *)
From Coq Require Import String List Bool NArith.
From Verif Require Import Base.Str C13.Model C13.Spec C13.Builders C13.Proofs C13.SpecProofs C13.Lex C13.BuilderProofs.
From VerifGen Require Import C13Tables.
Import ListNotations.

(* the boolean validator that Coq evaluates on the implementation's output is the stated specification *)
Theorem c13_spec_reflect : forall T t, spec_b T t = true <-> spec T t.
Proof. exact spec_b_iff. Qed.
Print Assumptions c13_spec_reflect.

(* SamlBase serialisation: for EVERY class table whose classes are consistent and EVERY object (any
   depth, any members set, in any order) that is well-formed member by member, the element tree that
   to_string writes is structurally valid: children come out in schema order *)
Theorem c13_serialiser : forall T, table_wf T = true -> forall o, owf T o = true -> valid T (obj_cref o) (to_tree T o) = true.
Proof. exact owf_valid. Qed.
Print Assumptions c13_serialiser.

(* per-run obligation on the regenerated table *)
Theorem c13_table_consistent : table_wf live_table = true.
Proof. exact table_ok. Qed.
Print Assumptions c13_table_consistent.

(* ---- builders_valid: for ALL arguments in the stated domain the emitted document satisfies the spec *)
Theorem c13_authn_request_valid :
  forall a o, ar_ok a -> authn_request a = Some o -> spec live_table (to_tree live_table o).
Proof. exact authn_request_valid. Qed.
Print Assumptions c13_authn_request_valid.

Theorem c13_logout_request_valid :
  forall a o, obs_ok (lr_ob a) -> opt_lexb LDateTime (lr_expire a) = true -> opt_ext_ok (lr_extensions a) = true ->
              opt_valid k_saml_NameID (lr_name_id a) = true ->
              logout_request a = Some o -> spec live_table (to_tree live_table o).
Proof. exact logout_request_valid. Qed.
Print Assumptions c13_logout_request_valid.

Theorem c13_attribute_query_valid :
  forall a o, obs_ok (aq_ob a) -> opt_ext_ok (aq_extensions a) = true ->
              valid live_table (CK k_saml_NameID) (aq_name_id a) = true ->
              forallb (valid live_table (CK k_saml_Attribute)) (aq_attributes a) = true ->
              attribute_query a = Some o -> spec live_table (to_tree live_table o).
Proof. exact attribute_query_valid. Qed.
Print Assumptions c13_attribute_query_valid.

Theorem c13_artifact_resolve_valid :
  forall entityid artifact destination consent extensions sg ob o,
    obs_ok ob -> opt_ext_ok extensions = true ->
    artifact_resolve entityid artifact destination consent extensions sg ob = Some o -> spec live_table (to_tree live_table o).
Proof. exact artifact_resolve_valid. Qed.
Print Assumptions c13_artifact_resolve_valid.

Theorem c13_logout_response_valid :
  forall a o, obs_ok (sr_ob a) -> opt_lexb LNCName (sr_in_response_to a) = true -> sr_ext a = [] ->
              logout_response a = Some o -> spec live_table (to_tree live_table o).
Proof. exact logout_response_valid. Qed.
Print Assumptions c13_logout_response_valid.

Theorem c13_manage_name_id_response_valid :
  forall a o, obs_ok (sr_ob a) -> opt_lexb LNCName (sr_in_response_to a) = true -> sr_ext a = [] ->
              manage_name_id_response a = Some o -> spec live_table (to_tree live_table o).
Proof. exact manage_name_id_response_valid. Qed.
Print Assumptions c13_manage_name_id_response_valid.

Theorem c13_artifact_response_valid :
  forall a o, obs_ok (sr_ob a) -> opt_lexb LNCName (sr_in_response_to a) = true ->
              forallb (ext_ok live_table ci_ArtifactResponse) (sr_ext a) = true -> Nat.leb (length (sr_ext a)) 1 = true ->
              artifact_response a = Some o -> spec live_table (to_tree live_table o).
Proof. exact artifact_response_valid. Qed.
Print Assumptions c13_artifact_response_valid.

(* Entity._response: success and error Responses, whatever assertions (valid as serialised) they carry *)
Theorem c13_response_valid :
  forall a o, obs_ok (rs_ob a) -> opt_lexb LNCName (rs_in_response_to a) = true ->
              forallb (valid live_table (CK k_saml_Assertion)) (rs_assertions a) = true ->
              forallb (valid live_table (CK k_saml_EncryptedAssertion)) (rs_encrypted a) = true ->
              response a = Some o -> spec live_table (to_tree live_table o).
Proof. exact response_valid. Qed.
Print Assumptions c13_response_valid.

Theorem c13_error_response_valid :
  forall issuer code message irt dest sg ob o,
    obs_ok ob -> opt_lexb LNCName irt = true ->
    error_response issuer code message irt dest sg ob = Some o -> spec live_table (to_tree live_table o).
Proof. exact error_response_valid. Qed.
Print Assumptions c13_error_response_valid.

(* metadata.entity_descriptor: the EntityDescriptor shell (entityID, validUntil, Extensions, role descriptors,
   Organization built by do_organization_info, ContactPerson) around role descriptors as serialised *)
Theorem c13_entity_descriptor_valid :
  forall a,
    opt_lexb LDateTime (ed_valid_until a) = true -> org_ok (ed_org a) = true ->
    forallb (valid live_table (CK k_md_ContactPerson)) (ed_contacts a) = true ->
    forallb (ext_ok live_table ci_mdExtensions) (ed_ext a) = true ->
    opt_valid k_md_IDPSSODescriptor (ed_idp a) = true -> opt_valid k_md_SPSSODescriptor (ed_sp a) = true ->
    opt_valid k_md_AuthnAuthorityDescriptor (ed_aq a) = true -> opt_valid k_md_AttributeAuthorityDescriptor (ed_aa a) = true ->
    opt_valid k_md_PDPDescriptor (ed_pdp a) = true ->
    spec live_table (to_tree live_table (entity_descriptor a)).
Proof. exact entity_descriptor_valid. Qed.
Print Assumptions c13_entity_descriptor_valid.

(* ---- the generators of lexical values, for all inputs *)
Theorem c13_sid_lexical : forall r, all_chars alnum r = true -> check_lex LNCName (sid r) = true.
Proof. exact sid_is_ncname. Qed.
Print Assumptions c13_sid_lexical.

Theorem c13_instant_lexical : forall ts, (ts < 253402300800)%N -> check_lex LDateTime (instant ts) = true.
Proof. exact instant_is_datetime. Qed.
Print Assumptions c13_instant_lexical.

(* ---- create_name_id_mapping_response (as coded after fix 04928d2a: Status defaulted and passed on) *)
Theorem c13_name_id_mapping_response_valid :
  forall entityid name_id irt status sg ob o,
    obs_ok ob -> opt_lexb LNCName irt = true -> opt_valid k_saml_NameID name_id = true ->
    name_id_mapping_response entityid name_id irt status sg ob = Some o ->
    valid live_table (CK k_samlp_NameIDMappingResponse) (to_tree live_table o) = true.
Proof. exact name_id_mapping_response_valid. Qed.
Print Assumptions c13_name_id_mapping_response_valid.

(* ... the pinned snapshot's builder never set Status: refuted (finding C13-F1, repaired by 04928d2a) *)
Theorem c13_name_id_mapping_response_v0_refuted :
  exists entityid name_id irt sg ob o,
    obs_ok ob /\ name_id_mapping_response_v0 entityid name_id irt sg ob = Some o
    /\ valid live_table (CK k_samlp_NameIDMappingResponse) (to_tree live_table o) = false.
Proof. exact name_id_mapping_response_v0_refuted. Qed.
Print Assumptions c13_name_id_mapping_response_v0_refuted.

Theorem c13_name_id_mapping_response_v0_never_valid :
  forall entityid irt ob o, ob_sig ob = None ->
    name_id_mapping_response_v0 entityid None irt {| sg_arg := Some false; sg_should := false |} ob = Some o ->
    valid live_table (CK k_samlp_NameIDMappingResponse) (to_tree live_table o) = false.
Proof. exact name_id_mapping_response_v0_invalid. Qed.
Print Assumptions c13_name_id_mapping_response_v0_never_valid.
