(* C13/Proofs.v — (1) the serialiser theorem: for every table whose classes are consistent, an
   order-free well-formed object serialises to a structurally valid tree; (2) the builders produce
   well-formed objects for all arguments; (3) lexical lemmas for sid() and instant(). *)
From Coq Require Import String Ascii List Bool Arith NArith ZArith Lia.
From Verif Require Import Base.Str C13.Model C13.Builders.
Import ListNotations.
Open Scope string_scope.
Open Scope list_scope.
Open Scope nat_scope.

(* ------------------------------------------------------------------ names *)
Lemma qeqb_eq a b : qeqb a b = true <-> a = b.
Proof.
  destruct a as [na la], b as [nb lb]; unfold qeqb; cbn [q_ns q_local].
  rewrite andb_true_iff, !String.eqb_eq. split; [intros [-> ->]; reflexivity|intros H; inversion H; auto].
Qed.

Lemma qeqb_refl a : qeqb a a = true.
Proof. apply qeqb_eq. reflexivity. Qed.

Lemma qeqb_neq a b : qeqb a b = false <-> a <> b.
Proof.
  split.
  - intros H E. apply qeqb_eq in E. congruence.
  - intros H. destruct (qeqb a b) eqn:E; [apply qeqb_eq in E; contradiction|reflexivity].
Qed.

Lemma qeqb_sym a b : qeqb a b = qeqb b a.
Proof.
  destruct (qeqb a b) eqn:E.
  - apply qeqb_eq in E. subst. symmetry. apply qeqb_refl.
  - apply qeqb_neq in E. symmetry. apply qeqb_neq. auto.
Qed.

Lemma qmem_In q l : qmem q l = true <-> In q l.
Proof.
  unfold qmem. rewrite existsb_exists. split.
  - intros [x [Hin E]]. apply qeqb_eq in E. subst. exact Hin.
  - intros H. exists q. split; [exact H|apply qeqb_refl].
Qed.

Lemma qnodup_NoDup l : qnodup l = true -> NoDup l.
Proof.
  induction l as [|x r IH]; cbn [qnodup]; intros H; [constructor|].
  apply andb_true_iff in H as [H1 H2]. constructor; [|apply IH; exact H2].
  intros Hin. apply qmem_In in Hin. rewrite Hin in H1. discriminate.
Qed.

(* ------------------------------------------------------------------ children in member order *)
Lemma span_tag_app q l1 l2 :
  Forall (fun x => x = q) l1 ->
  match l2 with [] => True | y :: _ => y <> q end ->
  span_tag q (l1 ++ l2) = (length l1, l2).
Proof.
  intros H1 H2. induction H1 as [|x r Hx Hr IH]; cbn [app length].
  - destruct l2 as [|y r2]; cbn [span_tag]; [reflexivity|].
    apply qeqb_neq in H2. rewrite H2. reflexivity.
  - subst x. cbn [span_tag]. rewrite qeqb_refl, IH. reflexivity.
Qed.

Lemma Forall_head_neq (q : qname) l :
  Forall (fun y => y <> q) l -> match l with [] => True | y :: _ => y <> q end.
Proof. intros H. destruct l; [exact I|inversion H; assumption]. Qed.

Lemma check_seq_groups ps : forall (G : list (list qname)) rest,
  Forall2 (fun p g => Forall (fun x => x = p_tag p) g /\ in_bounds p (length g) = true) ps G ->
  NoDup (map p_tag ps) ->
  Forall (fun q => ~ In q (map p_tag ps)) rest ->
  check_seq ps (concat G ++ rest) = Some rest.
Proof.
  induction ps as [|p ps IH]; intros G rest HF ND HR.
  - inversion HF; subst. reflexivity.
  - inversion HF as [|? g ? G' [Hg Hb] HF']; subst. cbn [concat check_seq].
    rewrite <- app_assoc.
    cbn [map] in ND. inversion ND as [|? ? Hnot ND']; subst.
    assert (Hne : Forall (fun y => y <> p_tag p) (concat G' ++ rest)).
    { apply Forall_app. split.
      - clear - HF' Hnot. induction HF' as [|p' g' ps' G'' [Hg' _] _ IH']; cbn [concat]; [constructor|].
        apply Forall_app. split.
        + eapply Forall_impl; [|exact Hg']. cbn beta. intros a -> E. apply Hnot. cbn [map]. left. exact E.
        + apply IH'. intros Hin. apply Hnot. cbn [map]. right. exact Hin.
      - eapply Forall_impl; [|exact HR]. cbn beta. intros a Ha E. apply Ha. cbn [map]. left. symmetry. exact E. }
    rewrite (span_tag_app (p_tag p) g (concat G' ++ rest) Hg (Forall_head_neq _ _ Hne)).
    rewrite Hb. apply IH; [exact HF'|exact ND'|].
    eapply Forall_impl; [|exact HR]. cbn beta. intros a Ha Hin. apply Ha. cbn [map]. right. exact Hin.
Qed.

Lemma find_part_NoDup ps p :
  NoDup (map p_tag ps) -> In p ps -> find (fun p' => qeqb (p_tag p') (p_tag p)) ps = Some p.
Proof.
  induction ps as [|x r IH]; intros ND Hin; [destruct Hin|].
  cbn [find]. cbn [map] in ND. inversion ND as [|? ? Hnot ND']; subst.
  destruct Hin as [->|Hin]; [rewrite qeqb_refl; reflexivity|].
  destruct (qeqb (p_tag x) (p_tag p)) eqn:E.
  - apply qeqb_eq in E. exfalso. apply Hnot. rewrite E. apply in_map. exact Hin.
  - apply IH; assumption.
Qed.

Lemma find_part_none ps q :
  ~ In q (map p_tag ps) -> find (fun p' => qeqb (p_tag p') q) ps = None.
Proof.
  induction ps as [|x r IH]; intros H; [reflexivity|]. cbn [find].
  destruct (qeqb (p_tag x) q) eqn:E.
  - apply qeqb_eq in E. exfalso. apply H. cbn [map]. left. exact E.
  - apply IH. intros Hin. apply H. cbn [map]. right. exact Hin.
Qed.

(* ------------------------------------------------------------------ the fixpoints, unfolded *)
Lemma valid_unfold T k tag attrs text kids :
  valid T (CK k) (Node tag attrs text kids) =
  match class_at T k with
  | None => false
  | Some ci => node_ok ci tag attrs text (map root_tag kids)
               && forallb (fun x => valid T (child_ref T ci (root_tag x)) x) kids
  end.
Proof.
  cbn [valid]. destruct (class_at T k) as [ci|]; reflexivity.
Qed.

Definition conv_trees (T : table) (ms : list (qname * list obj)) : list (qname * list tree) :=
  map (fun m => (fst m, map (to_tree T) (snd m))) ms.

Definition conv_owf (T : table) (ms : list (qname * list obj)) : list (qname * list (cref * bool)) :=
  map (fun m => (fst m, map (fun x => (obj_cref x, owf T x)) (snd m))) ms.

Lemma to_tree_unfold T k attrs text ms ext :
  to_tree T (Obj k attrs text ms ext) =
  match class_at T k with
  | Some ci => Node (ci_tag ci) (set_attrs attrs) (text_of text)
                    (flat_map (fun p => assoc (p_tag p) (conv_trees T ms)) (ci_parts ci) ++ ext)
  | None => Node (Q "" "?") (set_attrs attrs) (text_of text) ext
  end.
Proof. reflexivity. Qed.

Lemma owf_unfold T k attrs text ms ext :
  owf T (Obj k attrs text ms ext) =
  match class_at T k with
  | None => false
  | Some ci =>
      oattrs_ok ci attrs
      && text_ok (ci_text ci) (text_of text)
      && forallb (fun p => let os := assoc (p_tag p) (conv_owf T ms) in
                           in_bounds p (length os)
                           && forallb (fun cb => part_accepts p (fst cb) && snd cb) os) (ci_parts ci)
      && forallb (ext_ok T ci) ext
      && (ci_anymin ci <=? length ext)
      && (match ci_anymax ci with Some m => length ext <=? m | None => true end)
  end.
Proof. reflexivity. Qed.

Lemma assoc_map {A B} (f : list A -> list B) (Hf : f [] = []) q (ms : list (qname * list A)) :
  assoc q (map (fun m => (fst m, f (snd m))) ms) = f (assoc q ms).
Proof.
  induction ms as [|[q' v] r IH]; cbn [assoc map fst snd]; [symmetry; exact Hf|].
  destruct (qeqb q q'); [reflexivity|exact IH].
Qed.

Lemma assoc_In {A} q (ms : list (qname * list A)) x :
  In x (assoc q ms) -> exists m, In m ms /\ In x (snd m).
Proof.
  induction ms as [|[q' v] r IH]; cbn [assoc]; [intros []|].
  destruct (qeqb q q').
  - intros H. exists (q', v). split; [left; reflexivity|exact H].
  - intros H. destruct (IH H) as [m [H1 H2]]. exists m. split; [right; exact H1|exact H2].
Qed.

(* ------------------------------------------------------------------ induction on objects *)
Section obj_ind.
  Variable P : obj -> Prop.
  Hypothesis Hraw : forall c t, P (ORaw c t).
  Hypothesis Hobj : forall k attrs text members ext,
      Forall (fun m => Forall P (snd m)) members -> P (Obj k attrs text members ext).

  Fixpoint obj_ind' (o : obj) : P o :=
    match o with
    | ORaw c t => Hraw c t
    | Obj k a x ms e =>
        Hobj k a x ms e
             ((fix go (l : list (qname * list obj)) : Forall (fun m => Forall P (snd m)) l :=
                 match l with
                 | [] => Forall_nil _
                 | m :: r =>
                     Forall_cons m
                       ((fix go2 (l2 : list obj) : Forall P l2 :=
                           match l2 with
                           | [] => Forall_nil _
                           | y :: r2 => Forall_cons y (obj_ind' y) (go2 r2)
                           end) (snd m))
                       (go r)
                 end) ms)
    end.
End obj_ind.

(* ------------------------------------------------------------------ the serialiser theorem *)
Section Serialiser.
  Variable T : table.
  Hypothesis Twf : table_wf T = true.

  Lemma class_wf_at k ci : class_at T k = Some ci -> class_wf T ci = true.
  Proof.
    intros E. unfold table_wf in Twf. rewrite forallb_forall in Twf. apply Twf.
    unfold class_at in E. eapply nth_error_In. exact E.
  Qed.

  Lemma set_attrs_ok ci attrs :
    forallb (fun kv => match snd kv with Some v => attr_ok ci (fst kv, v) | None => true end) attrs = true ->
    forallb (attr_ok ci) (set_attrs attrs) = true.
  Proof.
    unfold set_attrs. induction attrs as [|[n [v|]] r IH]; cbn [forallb flat_map fst snd app]; intros H.
    - reflexivity.
    - apply andb_true_iff in H as [H1 H2]. rewrite H1. cbn [andb]. apply IH. exact H2.
    - apply IH. exact H.
  Qed.

  (* the root of a well-formed object of class k' carries that class's tag *)
  Lemma root_tag_owf o k' ci' :
    owf T o = true -> obj_cref o = CK k' -> class_at T k' = Some ci' -> root_tag (to_tree T o) = ci_tag ci'.
  Proof.
    intros Hw Hc Hk. destruct o as [k attrs text ms ext|c t].
    - cbn [obj_cref] in Hc. inversion Hc; subst k'. rewrite to_tree_unfold, Hk. reflexivity.
    - cbn [obj_cref] in Hc. subst c. cbn [owf to_tree] in *. destruct t as [tag attrs text kids].
      rewrite valid_unfold, Hk in Hw. apply andb_true_iff in Hw as [Hn _].
      unfold node_ok in Hn. do 3 (apply andb_true_iff in Hn as [Hn ?]).
      apply qeqb_eq in Hn. exact Hn.
  Qed.

  Theorem owf_valid : forall o, owf T o = true -> valid T (obj_cref o) (to_tree T o) = true.
  Proof.
    induction o as [c t|k attrs text ms ext IH] using obj_ind'; intros Hw.
    - exact Hw.
    - cbn [obj_cref]. rewrite owf_unfold in Hw. rewrite to_tree_unfold.
      destruct (class_at T k) as [ci|] eqn:Ek; [|discriminate].
      pose proof (class_wf_at k ci Ek) as Hcw. unfold class_wf in Hcw.
      apply andb_true_iff in Hcw as [Hnd Hpw]. apply qnodup_NoDup in Hnd.
      rewrite forallb_forall in Hpw.
      apply andb_true_iff in Hw as [Hw Hmax]. apply andb_true_iff in Hw as [Hw Hmin]. apply andb_true_iff in Hw as [Hw Hext].
      apply andb_true_iff in Hw as [Hw Hparts]. apply andb_true_iff in Hw as [Hw Htext].
      unfold oattrs_ok in Hw. apply andb_true_iff in Hw as [Hreq Hattr].
      rewrite forallb_forall in Hparts. rewrite forallb_forall in Hext.
      (* facts about every member object *)
      assert (Hmem : forall p, In p (ci_parts ci) -> forall o', In o' (assoc (p_tag p) ms) ->
                 exists k' ci', p_cls p = Some k' /\ class_at T k' = Some ci' /\ obj_cref o' = CK k'
                                /\ owf T o' = true /\ root_tag (to_tree T o') = p_tag p
                                /\ valid T (CK k') (to_tree T o') = true).
      { intros p Hp o' Ho'. specialize (Hparts p Hp). cbn zeta in Hparts.
        apply andb_true_iff in Hparts as [_ Hall].
        unfold conv_owf in Hall.
        rewrite (assoc_map (map (fun x => (obj_cref x, owf T x))) eq_refl) in Hall.
        rewrite forallb_forall in Hall.
        specialize (Hall (obj_cref o', owf T o') (in_map _ _ _ Ho')). cbn [fst snd] in Hall.
        apply andb_true_iff in Hall as [Hc Ho]. unfold part_accepts in Hc.
        destruct (p_cls p) as [k'|] eqn:Epc; [|discriminate].
        destruct (obj_cref o') as [k2|] eqn:Eoc; [|discriminate]. cbn [cref_eqb] in Hc.
        apply Nat.eqb_eq in Hc. subst k2.
        specialize (Hpw p Hp). unfold part_wf in Hpw. rewrite Epc in Hpw.
        destruct (class_at T k') as [ci'|] eqn:Ek'; [|discriminate]. apply qeqb_eq in Hpw.
        exists k', ci'. repeat split; try assumption.
        - rewrite (root_tag_owf o' k' ci' Ho Eoc Ek'). exact Hpw.
        - destruct (assoc_In _ _ _ Ho') as [m [Hm Hin]].
          rewrite Forall_forall in IH. specialize (IH m Hm). rewrite Forall_forall in IH.
          specialize (IH o' Hin Ho). rewrite Eoc in IH. exact IH. }
      assert (Hextq : Forall (fun q => ~ In q (map p_tag (ci_parts ci))) (map root_tag ext)).
      { apply Forall_forall. intros q Hq. apply in_map_iff in Hq as [t [<- Ht]].
        specialize (Hext t Ht). unfold ext_ok in Hext. apply andb_true_iff in Hext as [Hext _].
        apply andb_true_iff in Hext as [_ Hn]. apply negb_true_iff in Hn.
        intros Hin. apply qmem_In in Hin. congruence. }
      rewrite valid_unfold, Ek. apply andb_true_iff. split.
      + (* the node itself *)
        unfold node_ok. rewrite qeqb_refl. cbn [andb].
        unfold attrs_ok. rewrite Hreq, (set_attrs_ok ci attrs Hattr), Htext. cbn [andb].
        unfold kids_ok. rewrite map_app, flat_map_concat_map, concat_map, map_map.
        rewrite (check_seq_groups (ci_parts ci)
                   (map (fun p => map root_tag (assoc (p_tag p) (conv_trees T ms))) (ci_parts ci))
                   (map root_tag ext)); [| |exact Hnd|exact Hextq].
        * rewrite map_length. rewrite Hmin, Hmax. rewrite !andb_true_r.
          apply forallb_forall. intros q Hq. apply in_map_iff in Hq as [t [<- Ht]].
          specialize (Hext t Ht). unfold ext_ok in Hext. apply andb_true_iff in Hext as [Hext _].
          apply andb_true_iff in Hext as [Hwild _]. exact Hwild.
        * (* every group carries its member's tag, within bounds *)
          assert (Hgen : forall ps, (forall p, In p ps -> In p (ci_parts ci)) ->
                     Forall2 (fun p g => Forall (fun x => x = p_tag p) g /\ in_bounds p (length g) = true) ps
                             (map (fun p => map root_tag (assoc (p_tag p) (conv_trees T ms))) ps)).
          { induction ps as [|p ps IHps]; intros Hsub; cbn [map]; constructor.
            - unfold conv_trees. rewrite (assoc_map (map (to_tree T)) eq_refl). split.
              + apply Forall_forall. intros q Hq. apply in_map_iff in Hq as [t [<- Ht]].
                apply in_map_iff in Ht as [o' [<- Ho']].
                destruct (Hmem p (Hsub p (or_introl eq_refl)) o' Ho') as [k' [ci' [_ [_ [_ [_ [Htag _]]]]]]]. exact Htag.
              + rewrite !map_length. specialize (Hparts p (Hsub p (or_introl eq_refl))). cbn zeta in Hparts.
                apply andb_true_iff in Hparts as [Hb _]. unfold conv_owf in Hb.
                rewrite (assoc_map (map (fun x => (obj_cref x, owf T x))) eq_refl), map_length in Hb. exact Hb.
            - apply IHps. intros p' Hp'. apply Hsub. right. exact Hp'. }
          apply Hgen. auto.
      + (* the children *)
        rewrite forallb_app. apply andb_true_iff. split.
        * apply forallb_forall. intros x Hx. apply in_flat_map in Hx as [p [Hp Hx]].
          unfold conv_trees in Hx. rewrite (assoc_map (map (to_tree T)) eq_refl) in Hx.
          apply in_map_iff in Hx as [o' [<- Ho']].
          destruct (Hmem p Hp o' Ho') as [k' [ci' [Epc [_ [_ [_ [Htag Hv]]]]]]].
          unfold child_ref, find_part. rewrite Htag, (find_part_NoDup _ p Hnd Hp), Epc. exact Hv.
        * apply forallb_forall. intros t Ht. specialize (Hext t Ht). unfold ext_ok in Hext.
          apply andb_true_iff in Hext as [Hext Hv]. apply andb_true_iff in Hext as [_ Hn].
          apply negb_true_iff in Hn.
          unfold child_ref, find_part. rewrite find_part_none; [exact Hv|].
          intros Hin. apply qmem_In in Hin. congruence.
  Qed.
End Serialiser.
