(* C13/Spec.v — the structural part of "valid against the schema", stated declaratively over trees and
   a class table (what an XSD content model with deterministic particles demands), independent of how
   Model.valid computes it.

   * [Seq ps l rest]: the child tags l are, particle by particle in order, n_i occurrences of the
     particle's tag with min_i <= n_i <= max_i (each block maximal: the remainder does not go on with
     the same tag), followed by [rest], the children that belong to no particle;
   * [NodeOK]: the element's name is the class's; required attributes are there; every attribute is
     declared with a value in the lexical space of its type, or is an xsi: attribute, or is admitted
     by the attribute wildcard; character data only of the declared simple type; the particle
     sequence holds and the left-over children satisfy the element wildcard (namespace rule and
     minimum);
   * [Valid]: NodeOK at every node, each child under the class its parent's table names for it
     (a declared member's class, else the global element of that name, else unconstrained: lax).
   The property: every document a builder emits is [ValidDoc] for the live table. *)
From Coq Require Import String Ascii List Bool Arith.
From Verif Require Import Base.Str C13.Model.
Import ListNotations.
Open Scope string_scope.
Open Scope list_scope.
Open Scope nat_scope.

(* lexical spaces that have a short declarative form *)
Definition Is_boolean (s : string) : Prop := s = "true" \/ s = "false" \/ s = "1" \/ s = "0".

Definition Is_ncname (s : string) : Prop :=
  exists c r, s = String c r /\ nc_start c = true /\ (forall x, In x (list_ascii_of_string r) -> nc_char x = true).

Definition in_lex (ty : lexty) (s : string) : Prop := check_lex ty s = true.

Definition InBounds (p : particle) (n : nat) : Prop :=
  p_min p <= n /\ match p_max p with Some m => n <= m | None => True end.

Inductive Seq : list particle -> list qname -> list qname -> Prop :=
| Seq_nil l : Seq [] l l
| Seq_cons p ps n l rest :
    InBounds p n ->
    match l with [] => True | y :: _ => y <> p_tag p end ->
    Seq ps l rest ->
    Seq (p :: ps) (repeat (p_tag p) n ++ l) rest.

Definition WildOK (w : wild) (target : string) (q : qname) : Prop :=
  match w with
  | WNone => False
  | WAny => True
  | WOther => q_ns q <> "" /\ q_ns q <> target
  end.

Definition AttrOK (ci : cinfo) (kv : qname * string) : Prop :=
  (exists d, find_decl ci (fst kv) = Some d /\ in_lex (a_ty d) (snd kv))
  \/ (find_decl ci (fst kv) = None /\ (q_ns (fst kv) = XSI \/ WildOK (ci_anyattr ci) (q_ns (ci_tag ci)) (fst kv))).

Definition TextOK (ts : textspec) (text : string) : Prop :=
  match ts with
  | TElemOnly => forall x, In x (list_ascii_of_string text) -> is_xws x = true
  | TLex ty => in_lex ty text
  end.

Record NodeOK (ci : cinfo) (tag : qname) (attrs : list (qname * string)) (text : string) (kidtags : list qname) : Prop := {
  n_tag : tag = ci_tag ci;
  n_required : forall d, In d (ci_attrs ci) -> a_req d = true -> exists v, In (a_name d, v) attrs;
  n_attrs : forall kv, In kv attrs -> AttrOK ci kv;
  n_text : TextOK (ci_text ci) text;
  n_kids : exists rest, Seq (ci_parts ci) kidtags rest
                        /\ (forall q, In q rest -> WildOK (ci_any ci) (q_ns (ci_tag ci)) q)
                        /\ ci_anymin ci <= length rest
                        /\ match ci_anymax ci with Some m => length rest <= m | None => True end
}.

Inductive Valid (T : table) : cref -> tree -> Prop :=
| Valid_skip t : Valid T CSkip t
| Valid_node k ci tag attrs text kids :
    class_at T k = Some ci ->
    NodeOK ci tag attrs text (map root_tag kids) ->
    Forall (fun x => Valid T (child_ref T ci (root_tag x)) x) kids ->
    Valid T (CK k) (Node tag attrs text kids).

Definition ValidDoc (T : table) (t : tree) : Prop :=
  exists k, elem_class T (root_tag t) = Some k /\ Valid T (CK k) t.

(* the property over one emitted document; spec_b is Model.valid_doc *)
Definition spec (T : table) (t : tree) : Prop := ValidDoc T t.
Definition spec_b (T : table) (t : tree) : bool := valid_doc T t.
