(* C13/Builders.v — pysaml2 element objects, their serialisation, and the message builders as coded.

   Part 2 of the model: [obj] is a SamlBase instance reduced to what serialisation reads
   (attribute members that are not None, text, child members by the tag they are registered under,
   extension elements); [to_tree T o] is SamlBase._to_element_tree: children are written member by
   member in the class's c_child_order (the table's particle order), extension elements after them
   (saml2/__init__.py 485-530).  [owf T o] is the order-free well-formedness of an object: right
   member classes, member counts within the table's bounds, required attributes set, values of the
   declared lexical form.  Proofs.v shows owf T o -> valid T (to_tree T o) for every table whose
   classes are consistent (table_wf), i.e. the serialiser puts every well-formed object into schema
   order, whatever was set.

   Part 3: the builders, restated from entity.py / client_base.py / s_utils.py / server.py with their
   option handling; arguments that are element instances built by the caller (Scoping, Subject,
   Conditions, NameID, an Extensions' content, ...) and the ds:Signature written by xmlsec1 enter as
   opaque instances [ORaw] of which only the serialisation is known. *)
From Coq Require Import String Ascii List Bool Arith NArith Lia.
From Verif Require Import Base.Str C13.Model.
From VerifGen Require Import C13Tables.
Import ListNotations.
Open Scope string_scope.
Open Scope list_scope.
Open Scope nat_scope.

(* ------------------------------------------------------------------ objects *)
Inductive obj :=
| Obj (k : nat)                                (* the class (index into the table) *)
      (attrs : list (qname * option string))   (* attribute members: None = not set *)
      (text : option string)
      (members : list (qname * list obj))      (* child members under the tag they serialise to *)
      (ext : list tree)                        (* extension elements (already element trees) *)
| ORaw (c : cref) (t : tree).                  (* an instance of class c known only by its serialisation *)

Definition set_attrs (attrs : list (qname * option string)) : list (qname * string) :=
  flat_map (fun kv => match snd kv with Some v => [(fst kv, v)] | None => [] end) attrs.

Definition text_of (t : option string) : string := match t with Some s => s | None => "" end.

Fixpoint assoc {A} (q : qname) (l : list (qname * list A)) : list A :=
  match l with
  | [] => []
  | (q', v) :: r => if qeqb q q' then v else assoc q r
  end.

Fixpoint to_tree (T : table) (o : obj) : tree :=
  match o with
  | ORaw _ t => t
  | Obj k attrs text members ext =>
      let ms := map (fun m => (fst m, map (to_tree T) (snd m))) members in
      match class_at T k with
      | Some ci => Node (ci_tag ci) (set_attrs attrs) (text_of text)
                        (flat_map (fun p => assoc (p_tag p) ms) (ci_parts ci) ++ ext)
      | None => Node (Q "" "?") (set_attrs attrs) (text_of text) ext
      end
  end.

Definition obj_cref (o : obj) : cref := match o with Obj k _ _ _ _ => CK k | ORaw c _ => c end.

Definition cref_eqb (a b : cref) : bool :=
  match a, b with CK x, CK y => x =? y | CSkip, CSkip => true | _, _ => false end.

(* a member object must be an instance of the member's class (a member registered with class None holds nothing) *)
Definition part_accepts (p : particle) (c : cref) : bool :=
  match p_cls p with Some k => cref_eqb c (CK k) | None => false end.

Definition qmem (q : qname) (l : list qname) : bool := existsb (qeqb q) l.

Fixpoint qnodup (l : list qname) : bool :=
  match l with [] => true | x :: r => negb (qmem x r) && qnodup r end.

(* attribute part of the well-formedness of one object *)
Definition oattrs_ok (ci : cinfo) (attrs : list (qname * option string)) : bool :=
  forallb (fun d => negb (a_req d) || has_attr (a_name d) (set_attrs attrs)) (ci_attrs ci)
  && forallb (fun kv => match snd kv with Some v => attr_ok ci (fst kv, v) | None => true end) attrs.

(* an extension element: admitted by the wildcard, not the tag of a member, valid under lax processing *)
Definition ext_ok (T : table) (ci : cinfo) (t : tree) : bool :=
  wild_ok (ci_any ci) (q_ns (ci_tag ci)) (root_tag t)
  && negb (qmem (root_tag t) (map p_tag (ci_parts ci)))
  && valid T (match elem_class T (root_tag t) with Some k => CK k | None => CSkip end) t.

Fixpoint owf (T : table) (o : obj) : bool :=
  match o with
  | ORaw c t => valid T c t
  | Obj k attrs text members ext =>
      let ms := map (fun m => (fst m, map (fun x => (obj_cref x, owf T x)) (snd m))) members in
      match class_at T k with
      | None => false
      | Some ci =>
          oattrs_ok ci attrs
          && text_ok (ci_text ci) (text_of text)
          && forallb (fun p => let os := assoc (p_tag p) ms in
                               in_bounds p (length os)
                               && forallb (fun cb => part_accepts p (fst cb) && snd cb) os) (ci_parts ci)
          && forallb (ext_ok T ci) ext
          && (ci_anymin ci <=? length ext)
          && (match ci_anymax ci with Some m => length ext <=? m | None => true end)
      end
  end.

(* consistency of the table itself (a per-run obligation on the regenerated table): member tags are
   distinct within a class, and a member's class carries the tag the member is registered under *)
Definition part_wf (T : table) (p : particle) : bool :=
  match p_cls p with
  | Some k => match class_at T k with Some ci' => qeqb (ci_tag ci') (p_tag p) | None => false end
  | None => true
  end.

Definition class_wf (T : table) (ci : cinfo) : bool :=
  qnodup (map p_tag (ci_parts ci)) && forallb (part_wf T) (ci_parts ci).

Definition table_wf (T : table) : bool := forallb (class_wf T) T.

(* ------------------------------------------------------------------ Python values *)
Inductive pyv := PNone | PBool (b : bool) | PStr (s : string).

Definition truthy (v : pyv) : bool :=
  match v with PNone => false | PBool b => b | PStr s => negb (is_empty s) end.

(* str(v) *)
Definition pystr (v : pyv) : string :=
  match v with PNone => "None" | PBool true => "True" | PBool false => "False" | PStr s => s end.

Definition struthy (o : option string) : bool :=
  match o with Some s => negb (is_empty s) | None => false end.

(* a or b for optional strings *)
Definition sor (a b : option string) : option string := if struthy a then a else b.

Definition at_ (n : string) (v : option string) : qname * option string := (Q "" n, v).

Definition opt_list {A} (o : option A) : list A := match o with Some x => [x] | None => [] end.

(* ------------------------------------------------------------------ constants of the code *)
Definition VERSION := "2.0".
Definition NAMEID_FORMAT_ENTITY := "urn:oasis:names:tc:SAML:2.0:nameid-format:entity".
Definition NAMEID_FORMAT_TRANSIENT := "urn:oasis:names:tc:SAML:2.0:nameid-format:transient".
Definition NAMEID_FORMAT_PERSISTENT := "urn:oasis:names:tc:SAML:2.0:nameid-format:persistent".
Definition BINDING_PAOS := "urn:oasis:names:tc:SAML:2.0:bindings:PAOS".
Definition BINDING_SOAP := "urn:oasis:names:tc:SAML:2.0:bindings:SOAP".
Definition STATUS_SUCCESS := "urn:oasis:names:tc:SAML:2.0:status:Success".
Definition STATUS_RESPONDER := "urn:oasis:names:tc:SAML:2.0:status:Responder".
Definition STATUS_AUTHN_FAILED := "urn:oasis:names:tc:SAML:2.0:status:AuthnFailed".

Definition SAML_NS := "urn:oasis:names:tc:SAML:2.0:assertion".
Definition SAMLP_NS := "urn:oasis:names:tc:SAML:2.0:protocol".
Definition DS_NS := "http://www.w3.org/2000/09/xmldsig#".
Definition EIDAS_NS := "http://eidas.europa.eu/saml-extensions".
Definition qa (l : string) := Q SAML_NS l.
Definition qp (l : string) := Q SAMLP_NS l.

(* ------------------------------------------------------------------ shared pieces *)
(* Entity._issuer(): Issuer(text=entityid, format=NAMEID_FORMAT_ENTITY) *)
Definition o_issuer (text : string) : obj :=
  Obj k_saml_Issuer [at_ "NameQualifier" None; at_ "SPNameQualifier" None; at_ "Format" (Some NAMEID_FORMAT_ENTITY);
                     at_ "SPProvidedID" None] (Some text) [] [].

(* what is observed of the run: the identifier drawn by sid() (or the caller's), the instant, and the
   ds:Signature element as the signer left it (None: the message carries none) *)
Record observed := { ob_id : string; ob_instant : string; ob_sig : option tree }.

(* sign = sign if sign is not None else self.should_sign; signing puts a ds:Signature member *)
Record signing := { sg_arg : option bool; sg_should : bool }.

Definition signs (s : signing) : bool := match sg_arg s with Some b => b | None => sg_should s end.

Definition sig_member (s : signing) (ob : observed) : option (list obj) :=
  match signs s, ob_sig ob with
  | true, Some t => Some [ORaw (CK k_xmldsig_Signature) t]
  | false, None => Some []
  | _, _ => None            (* the model and the observation differ on whether the message is signed *)
  end.

(* an Extensions instance: what the caller put in, plus what the builder appends *)
Definition o_extensions (content : list tree) : obj := Obj k_samlp_Extensions [] None [] content.

(* Entity._message (entity.py 531-597) for a request class k with the class-specific attribute and
   child members already collected in [attrs] / [members]: id, version, issue_instant, issuer from
   message_args unless given; destination / consent / extensions only when truthy *)
Definition message (k : nat) (entityid : string) (ob : observed) (destination : option string) (consent : bool)
           (extensions : option obj) (sig : list obj)
           (attrs : list (qname * option string)) (members : list (qname * list obj)) : obj :=
  Obj k
      ([at_ "ID" (Some (ob_id ob)); at_ "Version" (Some VERSION); at_ "IssueInstant" (Some (ob_instant ob));
        at_ "Destination" (if struthy destination then destination else None);
        at_ "Consent" (if consent then Some "true" else None)] ++ attrs)
      None
      ([(qa "Issuer", [o_issuer entityid]); (Q DS_NS "Signature", sig); (qp "Extensions", opt_list extensions)] ++ members)
      [].

(* ------------------------------------------------------------------ create_authn_request *)
(* configured endpoints: (url, binding) or a bare url — Config.endpoint, as in C04 *)
Inductive epspec := EP (url bind : string) | Bare (url : string).

Definition endpoint (specs : list epspec) (binding : string) : list string :=
  let spec := flat_map (fun e => match e with EP u b => if String.eqb b binding then [u] else [] | Bare _ => [] end) specs in
  let unspec := flat_map (fun e => match e with Bare u => [u] | EP _ _ => [] end) specs in
  match spec with [] => unspec | _ => spec end.

(* an attribute converter (saml2.attribute_converter.AttributeConverter) reduced to what
   create_requested_attribute_node reads: name_format, _to (friendly name -> name) and _fro (name -> friendly name);
   from_dict lower-cases the keys of both at load time.  The converters of a deployment are data: the built-in maps
   are regenerated from the live modules (C13Tables.builtin_convs), the maps of an attribute_map_dir come with the case *)
Record conv := { cv_format : string; cv_to : list (string * string); cv_fro : list (string * string) }.

Fixpoint sassoc (k : string) (l : list (string * string)) : option string :=
  match l with
  | [] => None
  | (k', v) :: r => if String.eqb k k' then Some v else sassoc k r
  end.

(* for converter in attribute_converters:
       try: v = converter.<map>[key]
       except KeyError: continue
       else: ...converter.name_format...; break
   = the entry and the name format of the FIRST converter whose map has the key; later converters are not consulted *)
Fixpoint first_hit (sel : conv -> list (string * string)) (key : string) (cs : list conv) : option (string * string) :=
  match cs with
  | [] => None
  | c :: r => match sassoc key (sel c) with
              | Some v => Some (v, cv_format c)
              | None => first_hit sel key r
              end
  end.

Definition mk_conv (x : string * (list (string * string) * list (string * string))) : conv :=
  {| cv_format := fst x; cv_to := fst (snd x); cv_fro := snd (snd x) |}.

Definition builtin_convs : list conv := map mk_conv builtin_convs_raw.

(* one eIDAS requested attribute as the caller / the configuration spells it: attr.get("name"), attr.get("friendly_name"),
   attr.get("name_format") (None: key absent or None) and attr.get("required", False) *)
Record rattr := { rq_name : option string; rq_friendly : option string; rq_format : option string; rq_required : pyv }.

(* the same with the two converter look-ups done *)
Record reqattr := {
  ra_name : option string; ra_friendly : option string; ra_format : option string;
  ra_required : pyv;                                   (* attr.get("required", False) *)
  ra_to_hit : option (string * string);                (* first converter with friendly.lower() in _to: (name, its name_format) *)
  ra_fro_hit : option (string * string)                (* first converter with name.lower() in _fro: (friendly, its name_format) *)
}.

(* create_requested_attribute_node (client_base.py 93-135), one item: the name (and a missing format) from
   the first converter that knows the friendly name, then the friendly name (and a still missing format)
   from the first converter that knows the name *)
Definition ra_step1 (r : reqattr) : option string * option string :=
  if struthy (ra_name r) then (ra_name r, ra_format r)
  else match ra_to_hit r with
       | Some (n, f) => (Some n, if struthy (ra_format r) then ra_format r else Some f)
       | None => (ra_name r, ra_format r)
       end.

Definition ra_step2 (r : reqattr) : option string * option string :=
  let fmt := snd (ra_step1 r) in
  if struthy (ra_friendly r) then (ra_friendly r, fmt)
  else match ra_fro_hit r with
       | Some (fr, f) => (Some fr, if struthy fmt then fmt else Some f)
       | None => (ra_friendly r, fmt)
       end.

(* the two loops over the converters.  None: "Missing required attribute: 'name' or 'friendly_name'" (ValueError).
   The first loop runs only when the name is missing (the friendly name is then truthy), the second only when the
   friendly name is missing (the name - given - is then truthy); the second look-up uses the name the first left *)
Definition ra_resolve (cs : list conv) (r : rattr) : option reqattr :=
  if negb (struthy (rq_name r)) && negb (struthy (rq_friendly r)) then None
  else
    let q0 := {| ra_name := rq_name r; ra_friendly := rq_friendly r; ra_format := rq_format r; ra_required := rq_required r;
                 ra_to_hit := match rq_friendly r with Some f => first_hit cv_to (lower f) cs | None => None end;
                 ra_fro_hit := None |} in
    Some {| ra_name := rq_name r; ra_friendly := rq_friendly r; ra_format := rq_format r; ra_required := rq_required r;
            ra_to_hit := ra_to_hit q0;
            ra_fro_hit := match fst (ra_step1 q0) with Some n => first_hit cv_fro (lower n) cs | None => None end |}.

Fixpoint ra_resolve_all (cs : list conv) (l : list rattr) : option (list reqattr) :=
  match l with
  | [] => Some []
  | r :: t => match ra_resolve cs r, ra_resolve_all cs t with
              | Some q, Some qs => Some (q :: qs)
              | _, _ => None
              end
  end.

(* the third step (repair 711f9f2e of finding 10): a name_format that is still missing after the two loops is taken from
   the first map whose _fro knows the name - the look-up the second loop does (ra_fro_hit), now also when that loop
   did not run or found a map without a usable format *)
Definition ra_step3 (r : reqattr) : option string :=
  let fmt := snd (ra_step2 r) in
  if struthy fmt then fmt
  else match fst (ra_step1 r) with
       | Some n => if is_empty n then fmt
                   else match ra_fro_hit r with Some (_, f) => Some f | None => fmt end
       | None => fmt
       end.

Definition requested_attribute_of (fmt : reqattr -> option string) (r : reqattr) : obj :=
  Obj k_extension_requested_attributes_RequestedAttribute
      [at_ "Name" (fst (ra_step1 r)); at_ "NameFormat" (fmt r); at_ "FriendlyName" (fst (ra_step2 r));
       at_ "isRequired" (Some (lower (pystr (ra_required r))))]
      None [] [].

Definition requested_attribute : reqattr -> obj := requested_attribute_of ra_step3.
(* before 711f9f2e: the format as the two loops left it *)
Definition requested_attribute_v0 : reqattr -> obj := requested_attribute_of (fun r => snd (ra_step2 r)).

Definition requested_attributes_node_of (item : reqattr -> obj) (rs : list reqattr) : obj :=
  Obj k_extension_requested_attributes_RequestedAttributes [] None
      [(Q EIDAS_NS "RequestedAttribute", map item rs)] [].

Definition requested_attributes_node : list reqattr -> obj := requested_attributes_node_of requested_attribute.
Definition requested_attributes_node_v0 : list reqattr -> obj := requested_attributes_node_of requested_attribute_v0.

Definition sp_type_node (t : string) : obj := Obj k_extension_sp_type_SPType [] (Some t) [] [].

(* requested_authn_context: an instance, or a mapping with class refs and a comparison *)
Inductive racv := RacNone | RacInst (t : tree)
                | RacMap (nonempty : bool) (accrs : list string) (comparison : option string).

(* truth value of the Python object: an instance is true, a dict is true when it has a key *)
Definition rac_truthy (r : racv) : bool :=
  match r with RacNone => false | RacInst _ => true | RacMap ne _ _ => ne end.

Definition o_class_ref (s : string) : obj := Obj k_saml_AuthnContextClassRef [] (Some s) [] [].

Definition rac_member (r : racv) : list obj :=
  match r with
  | RacNone => []
  | RacInst t => [ORaw (CK k_samlp_RequestedAuthnContext) t]
  | RacMap _ [] _ => []
  | RacMap _ accrs cmp =>
      [Obj k_samlp_RequestedAuthnContext
           [at_ "Comparison" (Some (match cmp with Some c => c | None => "exact" end))] None
           [(qa "AuthnContextClassRef", map o_class_ref accrs)] []]
  end.

(* the name_id_policy keyword: absent, None, or an instance (format, allow_create, sp_name_qualifier) *)
Inductive nipv := NipAbsent | NipNone | NipInst (fmt allow spnq : option string).

Definition o_name_id_policy (fmt spnq allow : option string) : obj :=
  Obj k_samlp_NameIDPolicy [at_ "Format" fmt; at_ "SPNameQualifier" spnq; at_ "AllowCreate" allow] None [] [].

Record ar_args := {
  (* configuration *)
  ar_entityid : string;
  ar_cfg_name : option string;             (* config.name: _my_name() *)
  ar_cfg_hide_acs : bool;                  (* hide_assertion_consumer_service is truthy *)
  ar_cfg_acs : list epspec;                (* endpoints["assertion_consumer_service"] *)
  ar_cfg_nip_format : option string;       (* name_id_policy_format *)
  ar_cfg_allow_create : bool;              (* bool(name_id_format_allow_create) *)
  ar_cfg_force_authn : pyv;
  ar_cfg_rac : racv;
  ar_cfg_sp_type : option string;
  ar_cfg_sp_type_in_md : option bool;      (* None / True / False *)
  ar_cfg_reqattrs : list rattr;           (* requested_attributes of the sp section *)
  ar_convs : list conv;                    (* config.attribute_converters, in order *)
  ar_signing : signing;
  (* call arguments *)
  ar_destination : option string;
  ar_vorg : string;
  ar_scoping : option tree;
  ar_binding : string;
  ar_service_url_binding : option string;
  ar_nameid_format : option string;
  ar_consent : bool;
  ar_extensions : option (list tree);      (* an Extensions instance and its content *)
  ar_sign_prepare : bool;
  ar_allow_create : option string;
  ar_reqattrs : list rattr;
  (* keyword arguments *)
  ar_kw_acs_urls0 : option string;         (* kwargs.pop("assertion_consumer_service_urls", [None])[0] *)
  ar_kw_acs_url : option string;
  ar_kw_acs_index : option string;
  ar_kw_provider_name : option string;
  ar_kw_rac : racv;
  ar_kw_conditions : option tree;
  ar_kw_subject : option tree;
  ar_kw_nip : nipv;
  ar_kw_force_authn : pyv;
  ar_kw_is_passive : option string;
  ar_kw_attr_cons_index : option string;
  ar_ob : observed
}.

(* AssertionConsumerServiceURL / AssertionConsumerServiceIndex / ProtocolBinding *)
Definition acs_choice (a : ar_args) : option string * option string * option string :=
  let acs_url_kw := sor (ar_kw_acs_urls0 a) (ar_kw_acs_url a) in
  let service_url := hd_error (endpoint (ar_cfg_acs a)
                                        (match ar_service_url_binding a with
                                         | Some b => if is_empty b then ar_binding a else b
                                         | None => ar_binding a end)) in
  let '(acs_url, acs_index, binding) :=
    if ar_cfg_hide_acs a then (None, None, None)
    else if struthy acs_url_kw then (acs_url_kw, None, Some (ar_binding a))
    else if struthy (ar_kw_acs_index a) then (None, ar_kw_acs_index a, Some (ar_binding a))
    else if struthy service_url then (service_url, None, Some (ar_binding a))
    else (None, None, Some (ar_binding a)) in
  (* a truthy assertion_consumer_service_urls[0] short-circuits the `or`: assertion_consumer_service_url
     is then never popped, reaches _filter_args with the other keywords and overwrites the choice above *)
  let acs_url := if struthy (ar_kw_acs_urls0 a) && (match ar_kw_acs_url a with Some _ => true | None => false end)
                 then ar_kw_acs_url a else acs_url in
  (acs_url, acs_index, binding).

(* NameIDPolicy: (format, sp_name_qualifier, allow_create) of the instance, if any *)
Definition nip_choice (a : ar_args) : option (option string * option string * option string) :=
  let fmt := sor (ar_nameid_format a) (sor (ar_cfg_nip_format a) None) in
  let fmt := if struthy fmt then fmt else None in
  let allow_create :=
    if opt_eqb String.eqb fmt (Some NAMEID_FORMAT_TRANSIENT) then None
    else if struthy (ar_allow_create a) then ar_allow_create a
    else Some (lower (pystr (PBool (ar_cfg_allow_create a)))) in
  let nip :=
    match ar_kw_nip a with
    | NipInst f al q => Some (f, q, al)
    | NipNone => None
    | NipAbsent => match fmt with Some f => Some (Some f, None, allow_create) | None => None end
    end in
  match nip with
  | Some (f, q, al) =>
      if negb (is_empty (ar_vorg a))
      then Some (Some (match fmt with Some f' => f' | None => NAMEID_FORMAT_PERSISTENT end), Some (ar_vorg a), al)
      else Some (f, q, al)
  | None => None
  end.

(* requested_attrs = requested_attributes or config "requested_attributes" or []; None: an item raises *)
Definition ras_choice (a : ar_args) : option (list reqattr) :=
  ra_resolve_all (ar_convs a) (match ar_reqattrs a with [] => ar_cfg_reqattrs a | l => l end).

(* eIDAS SPType / RequestedAttributes go into Extensions (created when there is none) *)
Definition ext_choice_gen (node : list reqattr -> obj) (a : ar_args) : option (list tree) :=
  let ext0 := ar_extensions a in
  let ext1 :=
    match ar_cfg_sp_type a, ar_cfg_sp_type_in_md a with
    | Some t, Some false =>
        if negb (is_empty t) then Some (match ext0 with Some c => c | None => [] end ++ [to_tree live_table (sp_type_node t)])
        else ext0
    | _, _ => ext0
    end in
  let ras := match ras_choice a with Some l => l | None => [] end in
  match ras with
  | [] => ext1
  | _ => Some (match ext1 with Some c => c | None => [] end ++ [to_tree live_table (node ras)])
  end.

Definition ext_choice : ar_args -> option (list tree) := ext_choice_gen requested_attributes_node.

Definition force_choice (a : ar_args) : option string :=
  let fa := if truthy (ar_kw_force_authn a) then ar_kw_force_authn a else ar_cfg_force_authn a in
  if mem (lower (pystr fa)) ["true"; "1"] then Some "true" else None.     (* the keyword was popped *)

Definition provider_choice (a : ar_args) : option string :=
  let binding := snd (acs_choice a) in
  if struthy (ar_kw_provider_name a) then ar_kw_provider_name a
  else if negb (opt_eqb String.eqb binding (Some BINDING_PAOS)) then ar_cfg_name a
  else ar_kw_provider_name a.

Definition rac_choice (a : ar_args) : racv := if rac_truthy (ar_kw_rac a) then ar_kw_rac a else ar_cfg_rac a.

Definition authn_request_gen (node : list reqattr -> obj) (a : ar_args) : option obj :=
  match ras_choice a with None => None | Some _ =>        (* ValueError of create_requested_attribute_node *)
  match sig_member (ar_signing a) (ar_ob a) with
  | None => None
  | Some sg =>
      Some (message k_samlp_AuthnRequest (ar_entityid a) (ar_ob a) (ar_destination a) (ar_consent a)
                    (match ext_choice_gen node a with Some c => Some (o_extensions c) | None => None end) sg
                    [at_ "ForceAuthn" (force_choice a); at_ "IsPassive" (ar_kw_is_passive a);
                     at_ "ProtocolBinding" (snd (acs_choice a));
                     at_ "AssertionConsumerServiceIndex" (snd (fst (acs_choice a)));
                     at_ "AssertionConsumerServiceURL" (fst (fst (acs_choice a)));
                     at_ "AttributeConsumingServiceIndex" (ar_kw_attr_cons_index a);
                     at_ "ProviderName" (provider_choice a)]
                    [(qa "Subject", map (ORaw (CK k_saml_Subject)) (opt_list (ar_kw_subject a)));
                     (qp "NameIDPolicy", match nip_choice a with Some (f, q, al) => [o_name_id_policy f q al] | None => [] end);
                     (qa "Conditions", map (ORaw (CK k_saml_Conditions)) (opt_list (ar_kw_conditions a)));
                     (qp "RequestedAuthnContext", rac_member (rac_choice a));
                     (qp "Scoping", map (ORaw (CK k_samlp_Scoping)) (opt_list (ar_scoping a)))])
  end end.

Definition authn_request : ar_args -> option obj := authn_request_gen requested_attributes_node.
(* before 711f9f2e (Corr.cls 10 recognises a regression by it) *)
Definition authn_request_v0 : ar_args -> option obj := authn_request_gen requested_attributes_node_v0.

(* ------------------------------------------------------------------ status factories (s_utils.py 238-273) *)
Definition o_status_code (value : string) (inner : list obj) : obj :=
  Obj k_samlp_StatusCode [at_ "Value" (Some value)] None [(qp "StatusCode", inner)] [].

Definition success_status : obj :=
  Obj k_samlp_Status [] None [(qp "StatusCode", [o_status_code STATUS_SUCCESS []])] [].

(* error_status_factory((code, text)) and status_message_factory(message, code, fro) *)
Definition nested_status (top code : string) (message : option string) : obj :=
  Obj k_samlp_Status [] None
      [(qp "StatusCode", [o_status_code top [o_status_code code []]]);
       (qp "StatusMessage", if struthy message
                            then [Obj k_samlp_StatusMessage [] message [] []] else [])] [].

Definition error_status (code : string) (message : option string) : obj := nested_status STATUS_RESPONDER code message.

(* the status argument of a builder: None (-> success_status_factory()), or one made by a factory *)
Inductive statusv := StNone | StSuccess | StNested (top code : string) (message : option string).

Definition status_obj (s : statusv) : obj :=
  match s with
  | StNone | StSuccess => success_status
  | StNested top code m => nested_status top code m
  end.

(* ------------------------------------------------------------------ Entity._status_response *)
(* response_class(issuer=issuer, id=mid, version=VERSION, issue_instant=instant(), status=status, **kwargs)
   kwargs = response_args(request, bindings) minus "binding": in_response_to, destination (possibly ""),
   and for an AuthnRequest / AttributeQuery also sp_entity_id / name_id_policy (not members: TypeError,
   outside the modelled domain) *)
Record sr_args := {
  sr_issuer : option string;               (* text of the Issuer instance handed in; None: no Issuer member *)
  sr_status : statusv;
  sr_in_response_to : option string;       (* request.id *)
  sr_destination : option string;          (* "" for SOAP: written as Destination="" *)
  sr_signing : signing;
  sr_ext : list tree;                      (* create_artifact_response: the stored message *)
  sr_ob : observed
}.

Definition status_response (k : nat) (a : sr_args) : option obj :=
  match sig_member (sr_signing a) (sr_ob a) with
  | None => None
  | Some sg =>
      Some (Obj k
                [at_ "ID" (Some (ob_id (sr_ob a))); at_ "Version" (Some VERSION);
                 at_ "IssueInstant" (Some (ob_instant (sr_ob a))); at_ "InResponseTo" (sr_in_response_to a);
                 at_ "Destination" (sr_destination a); at_ "Consent" None]
                None
                [(qa "Issuer", match sr_issuer a with Some i => [o_issuer i] | None => [] end);
                 (Q DS_NS "Signature", sg); (qp "Extensions", []);
                 (qp "Status", [status_obj (sr_status a)])]
                (sr_ext a))
  end.

Definition logout_response := status_response k_samlp_LogoutResponse.
Definition manage_name_id_response := status_response k_samlp_ManageNameIDResponse.
Definition artifact_response := status_response k_samlp_ArtifactResponse.

(* ------------------------------------------------------------------ Entity._response *)
(* Response(id=sid(), version, issue_instant); issuer; in_response_to; status; destination when truthy;
   _add_info(assertion=...).  Assertions / EncryptedAssertions enter as they were serialised. *)
Record rs_args := {
  rs_issuer : string;                      (* text of _issuer(issuer) *)
  rs_status : statusv;
  rs_in_response_to : option string;
  rs_consumer_url : option string;
  rs_assertions : list tree;
  rs_encrypted : list tree;
  rs_signing : signing;
  rs_ob : observed
}.

Definition response (a : rs_args) : option obj :=
  match sig_member (rs_signing a) (rs_ob a) with
  | None => None
  | Some sg =>
      Some (Obj k_samlp_Response
                [at_ "ID" (Some (ob_id (rs_ob a))); at_ "Version" (Some VERSION);
                 at_ "IssueInstant" (Some (ob_instant (rs_ob a))); at_ "InResponseTo" (rs_in_response_to a);
                 at_ "Destination" (if struthy (rs_consumer_url a) then rs_consumer_url a else None);
                 at_ "Consent" None]
                None
                [(qa "Issuer", [o_issuer (rs_issuer a)]); (Q DS_NS "Signature", sg); (qp "Extensions", []);
                 (qp "Status", [status_obj (rs_status a)]);
                 (qa "Assertion", map (ORaw (CK k_saml_Assertion)) (rs_assertions a));
                 (qa "EncryptedAssertion", map (ORaw (CK k_saml_EncryptedAssertion)) (rs_encrypted a))]
                [])
  end.

(* create_error_response = _response(in_response_to, destination, error_status_factory(info), issuer, sign) *)
Definition error_response (issuer : string) (code : string) (message : option string) (irt dest : option string)
           (sg : signing) (ob : observed) : option obj :=
  response {| rs_issuer := issuer; rs_status := StNested STATUS_RESPONDER code message; rs_in_response_to := irt;
              rs_consumer_url := dest; rs_assertions := []; rs_encrypted := []; rs_signing := sg; rs_ob := ob |}.

(* ------------------------------------------------------------------ create_logout_request *)
Record lr_args := {
  lr_entityid : string;
  lr_destination : option string;
  lr_name_id : option tree;                (* the NameID instance (given, or NameID(text=subject_id)) *)
  lr_reason : option string;
  lr_expire : option string;
  lr_consent : bool;
  lr_extensions : option (list tree);
  lr_session_indexes : list string;
  lr_signing : signing;
  lr_ob : observed
}.

Definition logout_request (a : lr_args) : option obj :=
  match lr_name_id a, sig_member (lr_signing a) (lr_ob a) with
  | Some nid, Some sg =>
      Some (message k_samlp_LogoutRequest (lr_entityid a) (lr_ob a) (lr_destination a) (lr_consent a)
                    (match lr_extensions a with Some c => Some (o_extensions c) | None => None end) sg
                    [at_ "Reason" (lr_reason a); at_ "NotOnOrAfter" (lr_expire a)]
                    [(qa "NameID", [ORaw (CK k_saml_NameID) nid]);
                     (qp "SessionIndex", map (fun s => Obj k_samlp_SessionIndex [] (Some s) [] []) (lr_session_indexes a))])
  | _, _ => None                           (* SAMLError("Missing subject identification") *)
  end.

(* ------------------------------------------------------------------ create_attribute_query *)
Record aq_args := {
  aq_entityid : string;
  aq_destination : option string;
  aq_name_id : tree;                       (* the NameID instance *)
  aq_attributes : list tree;               (* do_attributes(attribute): Attribute instances *)
  aq_consent : bool;
  aq_extensions : option (list tree);
  aq_signing : signing;
  aq_ob : observed
}.

Definition attribute_query (a : aq_args) : option obj :=
  match sig_member (aq_signing a) (aq_ob a) with
  | Some sg =>
      Some (message k_samlp_AttributeQuery (aq_entityid a) (aq_ob a) (aq_destination a) (aq_consent a)
                    (match aq_extensions a with Some c => Some (o_extensions c) | None => None end) sg
                    []
                    [(qa "Subject", [Obj k_saml_Subject [] None [(qa "NameID", [ORaw (CK k_saml_NameID) (aq_name_id a)])] []]);
                     (qa "Attribute", map (ORaw (CK k_saml_Attribute)) (aq_attributes a))])
  | None => None
  end.

(* ------------------------------------------------------------------ create_artifact_resolve *)
Definition artifact_resolve (entityid : string) (artifact : string) (destination : option string) (consent : bool)
           (extensions : option (list tree)) (sg : signing) (ob : observed) : option obj :=
  match sig_member sg ob with
  | Some s =>
      Some (message k_samlp_ArtifactResolve entityid ob destination consent
                    (match extensions with Some c => Some (o_extensions c) | None => None end) s
                    [] [(qp "Artifact", [Obj k_samlp_Artifact [] (Some artifact) [] []])])
  | None => None
  end.

(* ------------------------------------------------------------------ create_name_id_mapping_response *)
(* the pinned snapshot (before fix 04928d2a): NameIDMappingResponse(name_id, encrypted_id, in_response_to=...,
   **message_args()): the status argument is never used, no Status member is set *)
Definition name_id_mapping_response_v0 (entityid : string) (name_id : option tree) (irt : option string)
           (sg : signing) (ob : observed) : option obj :=
  match sig_member sg ob with
  | Some s =>
      Some (Obj k_samlp_NameIDMappingResponse
                [at_ "ID" (Some (ob_id ob)); at_ "Version" (Some VERSION);
                 at_ "IssueInstant" (Some (ob_instant ob)); at_ "InResponseTo" irt; at_ "Destination" None; at_ "Consent" None]
                None
                [(qa "Issuer", [o_issuer entityid]); (Q DS_NS "Signature", s);
                 (qa "NameID", map (ORaw (CK k_saml_NameID)) (opt_list name_id))] [])
  | None => None
  end.

(* as coded now (fix 04928d2a): status defaults to success_status_factory() and is passed on, members by name *)
Definition name_id_mapping_response (entityid : string) (name_id : option tree) (irt : option string)
           (status : statusv) (sg : signing) (ob : observed) : option obj :=
  match sig_member sg ob with
  | Some s =>
      Some (Obj k_samlp_NameIDMappingResponse
                [at_ "ID" (Some (ob_id ob)); at_ "Version" (Some VERSION);
                 at_ "IssueInstant" (Some (ob_instant ob)); at_ "InResponseTo" irt; at_ "Destination" None; at_ "Consent" None]
                None
                [(qa "Issuer", [o_issuer entityid]); (Q DS_NS "Signature", s); (qp "Status", [status_obj status]);
                 (qa "NameID", map (ORaw (CK k_saml_NameID)) (opt_list name_id))] [])
  | None => None
  end.

(* ------------------------------------------------------------------ metadata.entity_descriptor (the shell) *)
Definition MD_NS := "urn:oasis:names:tc:SAML:2.0:metadata".
Definition XML_NS := "http://www.w3.org/XML/1998/namespace".
Definition qm (l : string) := Q MD_NS l.

(* a configured name: a plain str, or a (text, lang) pair *)
Inductive locv := LStr (s : string) | LPair (text lang : string).

(* metadata._localized_name: try (text, lang) = val, on ValueError text=val, lang="en" — a str of exactly
   two characters unpacks as well *)
Definition localized (v : locv) : string * string :=
  match v with
  | LPair t l => (t, l)
  | LStr s => match s with
              | String a (String b EmptyString) => (String a EmptyString, String b EmptyString)
              | _ => (s, "en")
              end
  end.

(* one key of the organization dict: absent, a str / tuple, or a list of those *)
Inductive orgv := OrgAbsent | OrgOne (v : locv) | OrgList (l : list locv).

Definition org_values (o : orgv) : list (string * string) :=
  match o with OrgAbsent => [] | OrgOne v => [localized v] | OrgList l => map localized l end.

Definition o_localized (k : nat) (tl : string * string) : obj :=
  Obj k [(Q XML_NS "lang", Some (snd tl))] (Some (fst tl)) [] [].

(* do_organization_info *)
Definition organization (n d u : orgv) : obj :=
  Obj k_md_Organization [] None
      [(qm "OrganizationName", map (o_localized k_md_OrganizationName) (org_values n));
       (qm "OrganizationDisplayName", map (o_localized k_md_OrganizationDisplayName) (org_values d));
       (qm "OrganizationURL", map (o_localized k_md_OrganizationURL) (org_values u))] [].

Record ed_args := {
  ed_entityid : string;
  ed_valid_until : option string;            (* in_a_while(hours=valid_for) when valid_for is set *)
  ed_org : option (orgv * orgv * orgv);
  ed_contacts : list tree;                   (* do_contact_persons_info: as serialised *)
  ed_ext : list tree;                        (* content of md:Extensions ([]: no Extensions member) *)
  ed_idp : option tree; ed_sp : option tree; ed_aq : option tree; ed_aa : option tree; ed_pdp : option tree
}.

Definition entity_descriptor (a : ed_args) : obj :=
  Obj k_md_EntityDescriptor
      [at_ "entityID" (Some (ed_entityid a)); at_ "validUntil" (ed_valid_until a); at_ "cacheDuration" None; at_ "ID" None]
      None
      [(qm "Extensions", match ed_ext a with [] => [] | c => [Obj k_md_Extensions [] None [] c] end);
       (qm "IDPSSODescriptor", map (ORaw (CK k_md_IDPSSODescriptor)) (opt_list (ed_idp a)));
       (qm "SPSSODescriptor", map (ORaw (CK k_md_SPSSODescriptor)) (opt_list (ed_sp a)));
       (qm "AuthnAuthorityDescriptor", map (ORaw (CK k_md_AuthnAuthorityDescriptor)) (opt_list (ed_aq a)));
       (qm "AttributeAuthorityDescriptor", map (ORaw (CK k_md_AttributeAuthorityDescriptor)) (opt_list (ed_aa a)));
       (qm "PDPDescriptor", map (ORaw (CK k_md_PDPDescriptor)) (opt_list (ed_pdp a)));
       (qm "Organization", match ed_org a with Some (n, d, u) => [organization n d u] | None => [] end);
       (qm "ContactPerson", map (ORaw (CK k_md_ContactPerson)) (ed_contacts a))]
      [].

(* ------------------------------------------------------------------ what the correspondence compares *)
Inductive binfo :=
| BOther
| BAuthnRequest (a : ar_args)
| BLogoutRequest (a : lr_args)
| BLogoutResponse (a : sr_args)
| BManageNameIDResponse (a : sr_args)
| BArtifactResponse (a : sr_args)
| BResponse (a : rs_args)
| BAttributeQuery (a : aq_args)
| BArtifactResolve (entityid artifact : string) (destination : option string) (consent : bool)
                   (extensions : option (list tree)) (sg : signing) (ob : observed)
| BEntityDescriptor (a : ed_args)
| BNameIDMappingResponse (entityid : string) (name_id : option tree) (irt : option string) (status : statusv)
                         (sg : signing) (ob : observed).

Definition model_obj (b : binfo) : option (option obj) :=
  match b with
  | BOther => None
  | BAuthnRequest a => Some (authn_request a)
  | BLogoutRequest a => Some (logout_request a)
  | BLogoutResponse a => Some (logout_response a)
  | BManageNameIDResponse a => Some (manage_name_id_response a)
  | BArtifactResponse a => Some (artifact_response a)
  | BResponse a => Some (response a)
  | BAttributeQuery a => Some (attribute_query a)
  | BArtifactResolve e ar d c x s o => Some (artifact_resolve e ar d c x s o)
  | BEntityDescriptor a => Some (Some (entity_descriptor a))
  | BNameIDMappingResponse e n i st s o => Some (name_id_mapping_response e n i st s o)
  end.


Definition model_tree (b : binfo) : option (option tree) :=
  match model_obj b with
  | None => None
  | Some None => Some None
  | Some (Some o) => Some (Some (to_tree live_table o))
  end.
