(* C13/Release.v — two parts of the IdP's response builders that round 5 puts under the model:

   Part 1 (entity.py Entity._response, server.py gather_authn_response_args / _authn_response): WHICH assertion ends up
   inside a <saml:EncryptedAssertion>, and whether there is a certificate to encrypt it for.  The code decides the
   first in one place (the two guards at the top of _response + the conditions of part-B / part-C) and the second in
   another (_encrypt_assertion: the handed-in certificate, else the certificates of the metadata; with none it
   returns its input untouched).  An EncryptedAssertion that was prepared but not encrypted still holds the
   clear-text Assertion: EncryptedElementType demands xenc:EncryptedData, the document is invalid.

   Part 2 (attribute_converter.py AttributeConverter.to_ / to_eptid_value): eduPersonTargetedID is written as a
   saml:NameID element inside saml:AttributeValue; the value is a str or the documented dictionary
   {"text", "NameQualifier", "SPNameQualifier"}, or a list of those. *)
From Coq Require Import String Ascii List Bool Arith NArith.
From Verif Require Import Base.Str C13.Model C13.Builders.
From VerifGen Require Import C13Tables.
Import ListNotations.
Open Scope string_scope.
Open Scope list_scope.
Open Scope nat_scope.

(* ================================================================== Part 1: what gets encrypted *)
Inductive astate :=
| SClear        (* <saml:Assertion> *)
| SEnc          (* <saml:EncryptedAssertion> with xenc:EncryptedData *)
| SWrapped.     (* <saml:EncryptedAssertion> WITHOUT xenc:EncryptedData (the prepared wrapper was never encrypted) *)

Definition astate_eqb (a b : astate) : bool :=
  match a, b with SClear, SClear | SEnc, SEnc | SWrapped, SWrapped => true | _, _ => false end.

(* the entry the caller used *)
Inductive entry :=
| EAuthn        (* Server.create_authn_response *)
| EAuthnVia     (* Server.create_authn_request_response: forwards none of the encryption keywords *)
| EAttribute.   (* Server.create_attribute_response: hands its surplus keywords straight to Entity._response *)

Record enc_args := {
  ea_entry : entry;
  ea_md : bool;                    (* the metadata of the service provider has a certificate usable for encryption
                                      (Entity.has_encrypt_cert_in_metadata: use="encryption" or no use at all) *)
  ea_enc_kw : option bool;         (* encrypt_assertion of the call (None: not given, or given as None) *)
  ea_enc_cfg : option bool;        (* "encrypt_assertion" of the idp section of the configuration *)
  ea_adv_kw : option bool;         (* encrypted_advice_attributes of the call: None only if the caller SAYS None (the
                                      parameter of create_authn_response defaults to False) *)
  ea_adv_cfg : option bool;
  ea_pefim : bool;
  ea_cert_adv : bool;              (* encrypt_cert_advice handed in *)
  ea_cert_ass : bool;              (* encrypt_cert_assertion handed in *)
  ea_verify_adv : option bool;     (* verify_encrypt_cert_advice configured: what the callable answers *)
  ea_verify_ass : option bool
}.

(* gather_authn_response_args: val_kw if not None, else the configuration's if not None, else the default *)
Definition resolve_opt (kw cfg : option bool) (d : bool) : bool :=
  match kw with Some b => b | None => match cfg with Some b => b | None => d end end.

(* a configured verifier wants a certificate, and wants to like it; false = CertificateError *)
Definition verify_ok (flag : bool) (verify : option bool) (cert : bool) : bool :=
  if flag then match verify with Some ans => cert && ans | None => true end else true.

(* (encrypt_assertion, encrypted_advice_attributes) as they reach Entity._response; None: the call raised *)
Definition gathered (a : enc_args) : option (bool * bool) :=
  match ea_entry a with
  | EAttribute =>
      Some (match ea_enc_kw a with Some b => b | None => false end, match ea_adv_kw a with Some b => b | None => false end)
  | e =>
      let enc := resolve_opt (match e with EAuthnVia => None | _ => ea_enc_kw a end) (ea_enc_cfg a) false in
      let adv := resolve_opt (match e with EAuthnVia => Some false | _ => ea_adv_kw a end) (ea_adv_cfg a) false in
      let pefim := match e with EAuthnVia => false | _ => ea_pefim a end in
      if verify_ok (adv || pefim) (ea_verify_adv a) (match e with EAuthnVia => false | _ => ea_cert_adv a end)
         && verify_ok enc (ea_verify_ass a) (match e with EAuthnVia => false | _ => ea_cert_ass a end)
      then Some (enc, adv || pefim)          (* _authn_response: pefim switches encrypted_advice_attributes on *)
      else None
  end.

Definition eff_pefim (a : enc_args) : bool := match ea_entry a with EAuthn => ea_pefim a | _ => false end.
Definition eff_cert_adv (a : enc_args) : bool := match ea_entry a with EAuthnVia => false | _ => ea_cert_adv a end.
Definition eff_cert_ass (a : enc_args) : bool := match ea_entry a with EAuthnVia => false | _ => ea_cert_ass a end.

(* assertions inside the Advice of the main assertion: PEFIM puts the attribute assertion there, nothing else does *)
Definition advice_n (a : enc_args) : nat := if eff_pefim a then 1 else 0.

(* the two guards at the top of Entity._response *)
Definition guard_adv (a : enc_args) (adv : bool) : bool :=
  if negb (ea_md a) && negb (eff_cert_adv a) then false else adv.
Definition guard_enc (a : enc_args) (enc : bool) : bool :=
  if negb (ea_md a) && negb (eff_cert_ass a) then false else enc.

(* Entity._encrypt_assertion(cert, sp_entity_id, ...) finds something to encrypt for *)
Definition finds_cert (a : enc_args) (cert : bool) : bool := cert || ea_md a.

Definition wrapped (found : bool) : astate := if found then SEnc else SWrapped.

(* (state of the main assertion, state of the assertion inside its Advice if there is one); None: the call raised *)
Definition enc_plan (a : enc_args) : option (astate * option astate) :=
  match gathered a with
  | None => None
  | Some (enc0, adv0) =>
      let adv := guard_adv a adv0 in
      let enc := guard_enc a enc0 in
      let n := advice_n a in
      let enter := enc || (adv && (n =? 1)) in
      let advice :=
        if n =? 0 then None
        else Some (if enter && adv && (0 <? n) then wrapped (finds_cert a (eff_cert_adv a)) else SClear) in   (* part-B *)
      let main := if enc then wrapped (finds_cert a (eff_cert_ass a)) else SClear in                           (* part-C *)
      Some (main, advice)
  end.

(* ---- the same read off an emitted document *)
Definition XENC_NS := "http://www.w3.org/2001/04/xmlenc#".
Definition has_tag (ns local : string) (t : tree) : bool := qeqb (root_tag t) (Q ns local).
Definition is_assertion := has_tag SAML_NS "Assertion".
Definition is_encrypted_assertion := has_tag SAML_NS "EncryptedAssertion".

Definition wrapper_state (t : tree) : astate :=
  if existsb (has_tag XENC_NS "EncryptedData") (root_kids t) then SEnc else SWrapped.

Definition carrier_state (t : tree) : astate := if is_assertion t then SClear else wrapper_state t.

Definition carriers (l : list tree) : list tree := filter (fun k => is_assertion k || is_encrypted_assertion k) l.

(* the Assertion element itself where it can be seen: in the clear, or inside a wrapper that was not encrypted *)
Definition visible_assertion (t : tree) : option tree :=
  if is_assertion t then Some t else find is_assertion (root_kids t).

Definition advice_state (a : tree) : option astate :=
  match filter (has_tag SAML_NS "Advice") (root_kids a) with
  | adv :: _ => match carriers (root_kids adv) with k :: _ => Some (carrier_state k) | [] => None end
  | [] => None
  end.

Definition opt_astate_eqb (a b : option astate) : bool :=
  match a, b with Some x, Some y => astate_eqb x y | None, None => true | _, _ => false end.

(* a Response (or a bare Assertion) against the plan: the main assertion, and - where the main assertion is readable -
   its advice.  A document without any assertion (an error response) is not judged here. *)
Definition doc_matches (p : astate * option astate) (t : tree) : bool :=
  match (if is_assertion t then [t] else carriers (root_kids t)) with
  | [] => true
  | k :: _ =>
      astate_eqb (carrier_state k) (fst p)
      && match visible_assertion k with
         | Some a => opt_astate_eqb (advice_state a) (snd p)
         | None => true
         end
  end.

Definition enc_agrees (a : enc_args) (doc : option tree) : bool :=
  match enc_plan a, doc with
  | None, None => true
  | Some p, Some t => doc_matches p t
  | _, _ => false
  end.

(* no node of the document is an EncryptedAssertion that lacks its EncryptedData *)
Fixpoint no_clear_wrapper (t : tree) : bool :=
  match t with
  | Node _ _ _ kids =>
      negb (is_encrypted_assertion t && negb (existsb (has_tag XENC_NS "EncryptedData") kids))
      && (fix go (l : list tree) : bool := match l with [] => true | x :: r => no_clear_wrapper x && go r end) kids
  end.

(* ================================================================== Part 2: eduPersonTargetedID *)
Definition EPTID_OID := "urn:oid:1.3.6.1.4.1.5923.1.1.1.10".

(* one value as the caller wrote it: a str, None, or a dictionary (values: str or None) *)
Inductive eptv := EStr (s : string) | ENone | EDict (d : list (string * option string)).

(* the identity's entry: one value, or a list of values (`type(values) is not list`) *)
Inductive eptin := EOne (v : eptv) | EMany (l : list eptv).

Fixpoint dlookup (k : string) (d : list (string * option string)) : option (option string) :=
  match d with
  | [] => None
  | (k', v) :: r => if String.eqb k k' then Some v else dlookup k r
  end.

(* the keys of a Python dict are distinct *)
Definition dget := dlookup.

(* _create_nameid_ext_el: None = it raises (KeyError for a missing key; a qualifier None cannot be serialised) *)
Definition ept_nameid (v : eptv) : option tree :=
  match v with
  | EStr s => Some (Node (qa "NameID") [(Q "" "Format", NAMEID_FORMAT_PERSISTENT)] s [])
  | ENone => Some (Node (qa "NameID") [(Q "" "Format", NAMEID_FORMAT_PERSISTENT)] "" [])
  | EDict d =>
      match dget "text" d, dget "NameQualifier" d, dget "SPNameQualifier" d with
      | Some text, Some (Some nq), Some (Some spnq) =>
          Some (Node (qa "NameID")
                     [(Q "" "Format", NAMEID_FORMAT_PERSISTENT); (Q "" "NameQualifier", nq); (Q "" "SPNameQualifier", spnq)]
                     (text_of text) [])
      | _, _, _ => None
      end
  end.

Definition ept_value (v : eptv) : option obj :=
  match ept_nameid v with
  | Some t => Some (Obj k_saml_AttributeValue [] None [] [t])
  | None => None
  end.

Fixpoint ept_values (l : list eptv) : option (list obj) :=
  match l with
  | [] => Some []
  | v :: r => match ept_value v, ept_values r with
              | Some o, Some rest => Some (o :: rest)
              | _, _ => None
              end
  end.

Definition ept_list (i : eptin) : list eptv := match i with EOne v => [v] | EMany l => l end.

Record ept_args := {
  ep_name_format : string;       (* name format of the converter in force (its map has the oid) *)
  ep_key : string;               (* the key as the identity spells it: becomes FriendlyName *)
  ep_in : eptin
}.

(* the Attribute element AttributeConverter.to_ builds for the key *)
Definition ept_attribute (a : ept_args) : option obj :=
  match ept_values (ept_list (ep_in a)) with
  | Some vals =>
      Some (Obj k_saml_Attribute [at_ "Name" (Some EPTID_OID); at_ "NameFormat" (Some (ep_name_format a));
                                  at_ "FriendlyName" (Some (ep_key a))] None [(qa "AttributeValue", vals)] [])
  | None => None
  end.

Definition ept_tree (a : ept_args) : option tree :=
  match ept_attribute a with Some o => Some (to_tree live_table o) | None => None end.

(* ---- against an emitted document: every Attribute with that Name, wherever it can be read *)
Definition attr_value (n : qname) (t : tree) : option string :=
  match find (fun kv => qeqb (fst kv) n) (root_attrs t) with Some kv => Some (snd kv) | None => None end.

Definition is_eptid_attribute (t : tree) : bool :=
  has_tag SAML_NS "Attribute" t
  && match attr_value (Q "" "Name") t with Some v => String.eqb v EPTID_OID | None => false end.

Fixpoint collect (p : tree -> bool) (t : tree) : list tree :=
  (if p t then [t] else [])
  ++ match t with Node _ _ _ kids =>
       (fix go (l : list tree) : list tree := match l with [] => [] | x :: r => collect p x ++ go r end) kids
     end.

Definition nil_b {A} (l : list A) : bool := match l with [] => true | _ => false end.

(* released = the policy in force lets the attribute through (decided by the harness from the case); when it does, and
   the document shows an Assertion and no EncryptedAssertion, the element has to be there *)
Definition ept_agrees (a : ept_args) (released : bool) (doc : option tree) : bool :=
  match ept_tree a, doc with
  | None, None => true
  | Some m, Some t =>
      let l := collect is_eptid_attribute t in
      forallb (tree_eqb m) l
      && (if released && nil_b (collect is_encrypted_assertion t) && negb (nil_b (collect is_assertion t))
          then negb (nil_b l) else true)
  | _, _ => false
  end.
