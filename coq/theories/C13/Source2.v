(* C13/Source2.v — tie of the hand-written model of create_requested_attribute_node (C13/Builders.v: ra_resolve,
   ra_step1, ra_step2, first_hit) to the source TEXT, translator v2.

   coq/gen/C13Src2.v is regenerated on every run by harness/c13.py:regenerate_tables (harness/py2coq2.py) from the
   CURRENT text of /repo/src/saml2/client_base.py.  The theorem says: the translated function, applied to ANY list of
   attribute dictionaries (keys in any order, surplus keys, values absent / None / str) and ANY list of converters,
   yields the encoding of what Builders.ra_resolve_all yields - the RequestedAttributes node with one
   RequestedAttribute(name, name_format, friendly_name, is_required) per item, or ValueError.  Induction over both
   loops.  Side conditions: the strings that are lower-cased are ASCII (the translator refuses str.lower() on other
   strings), no map has a key "__class__" (the translator's dicts cannot hold it).

   The unqualified constructors PNone / PBool / PStr are those of Base/Py.v; the model's Python values are written
   Builders.PNone ... *)
From Coq Require Import String Ascii List Bool ZArith Arith Lia.
From Verif Require Import Base.Str C13.Model C13.Builders C13.BuilderProofs Base.Py Base.Py2.
From VerifGen Require Import C13Src2.
Import ListNotations.
Open Scope string_scope.
Set Default Timeout 20.

(* ---- encodings *)
Definition enc_entry (kv : string * string) : string * pyval := (fst kv, PStr (snd kv)).
Definition enc_dict (d : list (string * string)) : pyval := PObj (map enc_entry d).
Definition nocls (d : list (string * string)) : bool := forallb (fun kv => negb (String.eqb (fst kv) "__class__")) d.

Definition enc_conv (c : conv) : pyval :=
  PObj [("__class__", PStr "AttributeConverter"); ("name_format", PStr (cv_format c));
        ("_to", enc_dict (cv_to c)); ("_fro", enc_dict (cv_fro c))].
Definition conv_ok (c : conv) : bool := nocls (cv_to c) && nocls (cv_fro c).

Lemma nocls_is_obj d : nocls d = true -> is_obj (map enc_entry d) = false.
Proof.
  destruct d as [|[k v] r]; [reflexivity|]. cbn [nocls forallb map enc_entry fst is_obj].
  intros H. apply andb_true_iff in H as [H _]. apply negb_true_iff in H. exact H.
Qed.

Lemma assoc_enc k d : assoc_py k (map enc_entry d) = option_map PStr (sassoc k d).
Proof.
  induction d as [|[k' v] r IH]; [reflexivity|]. cbn [map enc_entry fst snd assoc_py sassoc].
  destruct (String.eqb k k'); [reflexivity|exact IH].
Qed.

Definition enc_o (o : option string) : pyval := match o with Some s => PStr s | None => PNone end.
Definition enc_pyv (v : Builders.pyv) : pyval :=
  match v with Builders.PNone => PNone | Builders.PBool b => PBool b | Builders.PStr s => PStr s end.

(* attr.get(key) is None (key absent, or present with None) or a str *)
Definition key_is (f : list (string * pyval)) (key : string) (o : option string) : Prop :=
  match assoc_py key f with
  | None | Some PNone => o = None
  | Some (PStr s) => o = Some s
  | Some _ => False
  end.

(* a dictionary that spells the attribute r: any order of keys, any other keys *)
Definition rep_attr (p : pyval) (r : rattr) : Prop :=
  exists f, p = PObj f /\ is_obj f = false
            /\ key_is f "name" (rq_name r) /\ key_is f "friendly_name" (rq_friendly r) /\ key_is f "name_format" (rq_format r)
            /\ match assoc_py "required" f with
               | None => rq_required r = Builders.PBool false
               | Some v => v = enc_pyv (rq_required r)
               end.

(* what is lower-cased has to be ASCII *)
Definition oascii (o : option string) : bool := match o with Some s => all_ascii s | None => true end.
Definition rattr_ascii (r : rattr) : bool :=
  oascii (rq_name r) && oascii (rq_friendly r)
  && match rq_required r with Builders.PStr s => all_ascii s | _ => true end.

Definition enc_item (q : reqattr) : pyval :=
  PObj [("__class__", PStr "RequestedAttribute"); ("name", enc_o (name_of q)); ("name_format", enc_o (format_of q));
        ("friendly_name", enc_o (friendly_of q)); ("is_required", PStr (lower (pystr (ra_required q))))].

Definition enc_res (r : option (list reqattr)) : pyval :=
  match r with
  | Some qs => PObj [("__class__", PStr "RequestedAttributes"); ("extension_elements", PList (map enc_item qs))]
  | None => PExc "ValueError"
  end.

Lemma key_is_get f key o : is_obj f = false -> key_is f key o -> p2_get (PObj f) (PStr key) = enc_o o.
Proof.
  intros Hf H. rewrite p2_get_dict by exact Hf. unfold key_is in H.
  destruct (assoc_py key f) as [[| | |s| | | |]|]; try contradiction; subst o; reflexivity.
Qed.

Lemma enc_o_good o : is_bad (enc_o o) = false.
Proof. destruct o; reflexivity. Qed.

Lemma enc_o_truthy o : py_truthy (enc_o o) = struthy o.
Proof. destruct o; reflexivity. Qed.

Lemma is_required_enc f r :
  is_obj f = false ->
  match assoc_py "required" f with None => rq_required r = Builders.PBool false | Some v => v = enc_pyv (rq_required r) end ->
  match rq_required r with Builders.PStr s => all_ascii s | _ => true end = true ->
  p2_lower (p2_str (p2_get3 (PObj f) (PStr "required") (PBool false))) = PStr (lower (pystr (rq_required r))).
Proof.
  intros Hf H Ha. rewrite p2_get3_dict by (exact Hf || reflexivity).
  destruct (assoc_py "required" f) as [v|].
  - subst v. destruct (rq_required r) as [|[|]|s]; cbn; try reflexivity. rewrite Ha. reflexivity.
  - rewrite H. reflexivity.
Qed.

(* ---- the inner loops: the state is [converter; looked-up value; name_format] *)
Section Inner.
  Variable sel : conv -> list (string * string).
  Variable field : string.
  Hypothesis field_enc : forall c, p2_attr (enc_conv c) field = enc_dict (sel c).
  Variable key : string.
  Variable vfmt : option string.
  Variable body : list pyval -> pyval -> ctl2.
  Hypothesis body_eq : forall c vc vval,
    body [vc; vval; enc_o vfmt] (enc_conv c)
    = py_bindS (fun n => if exc_matches n ["KeyError"] then NextS [enc_conv c; vval; enc_o vfmt]
                         else ExcS n [enc_conv c; vval; enc_o vfmt])
               (p2_getitem (p2_attr (enc_conv c) field) (PStr key))
               (fun v => match p2_branch (p2_not (enc_o vfmt)) with
                         | BTrue => py_bindS (fun n => ExcS n [enc_conv c; v; enc_o vfmt]) (p2_attr (enc_conv c) "name_format")
                                             (fun nf => BrkS [enc_conv c; v; nf])
                         | BFalse => BrkS [enc_conv c; v; enc_o vfmt]
                         | BExc n => ExcS n [enc_conv c; v; enc_o vfmt]
                         | BErr => RetS PErr
                         end).

  Lemma inner_loop cs :
    forallb (fun c => nocls (sel c)) cs = true ->
    forall vc vval, exists vc',
      pyfor2 (map enc_conv cs) [vc; vval; enc_o vfmt] body
      = match first_hit sel key cs with
        | Some (v, cf) => BrkS [vc'; PStr v; enc_o (if struthy vfmt then vfmt else Some cf)]
        | None => NextS [vc'; vval; enc_o vfmt]
        end.
  Proof.
    induction cs as [|c r IH]; intros Hok vc vval.
    - exists vc. reflexivity.
    - cbn [forallb] in Hok. apply andb_true_iff in Hok as [Hc Hr].
      cbn [map pyfor2 first_hit]. rewrite body_eq, field_enc. unfold enc_dict.
      rewrite p2_getitem_dict by (apply nocls_is_obj; exact Hc). rewrite assoc_enc.
      destruct (sassoc key (sel c)) as [v|]; cbn [option_map].
      + rewrite py_bindS_good by reflexivity. rewrite p2_not_good by apply enc_o_good. rewrite p2_branch_bool, enc_o_truthy.
        exists (enc_conv c). destruct (struthy vfmt); cbn [negb]; reflexivity.
      + rewrite py_bindS_exc. cbn [exc_matches mem String.eqb Ascii.eqb Bool.eqb orb]. exact (IH Hr (enc_conv c) vval).
  Qed.
End Inner.

Lemma append_item items req fmt fr nm :
  p2_append (PList items)
    (py_bind (PStr req) (fun a_8 => py_bind (enc_o fmt) (fun a_9 => py_bind (enc_o fr) (fun a_10 => py_bind (enc_o nm) (fun a_11 =>
       PObj [("__class__", PStr "RequestedAttribute"); ("name", a_11); ("name_format", a_9); ("friendly_name", a_10);
             ("is_required", a_8)])))))
  = PList (items ++ [PObj [("__class__", PStr "RequestedAttribute"); ("name", enc_o nm); ("name_format", enc_o fmt);
                           ("friendly_name", enc_o fr); ("is_required", PStr req)]]).
Proof. destruct fmt, fr, nm; reflexivity. Qed.

Lemma lower_enc s : all_ascii s = true -> p2_lower (PStr s) = PStr (lower s).
Proof. intros H. cbn. rewrite H. reflexivity. Qed.

Lemma convs_ok_to cs : forallb conv_ok cs = true -> forallb (fun c => nocls (cv_to c)) cs = true.
Proof.
  intros H. rewrite forallb_forall in *. intros c Hc. specialize (H c Hc). unfold conv_ok in H.
  apply andb_true_iff in H. tauto.
Qed.
Lemma convs_ok_fro cs : forallb conv_ok cs = true -> forallb (fun c => nocls (cv_fro c)) cs = true.
Proof.
  intros H. rewrite forallb_forall in *. intros c Hc. specialize (H c Hc). unfold conv_ok in H.
  apply andb_true_iff in H. tauto.
Qed.

Definition outcome (r : ctl2) (items : list pyval) (res : option (list reqattr)) : Prop :=
  match res with
  | Some qs => exists a b c d e, r = NextS [a; b; c; d; e; PList (items ++ map enc_item qs)]
  | None => exists a b c d e i, r = ExcS "ValueError" [a; b; c; d; e; i]
  end.

(* ---- the theorem *)
Theorem src2_crn_is_model ps l cs :
  Forall2 rep_attr ps l -> forallb rattr_ascii l = true -> forallb conv_ok cs = true ->
  src2_create_requested_attribute_node (PList ps) (PList (map enc_conv cs)) = enc_res (ra_resolve_all cs l).
Proof.
  intros Hrep Hasc Hcs. unfold src2_create_requested_attribute_node. rewrite p2_iter_check_list. cbn [py_bind py_iter2].
  match goal with |- context [pyfor2 _ _ ?b] => set (body := b) end.
  assert (Hstep : forall p r items a b c d e, rep_attr p r -> rattr_ascii r = true ->
            outcome (body [a; b; c; d; e; PList items] p) items (option_map (fun q => [q]) (ra_resolve cs r))).
  { intros p r items a b c d e [f [-> [Hf [Kn [Kf [Km Kr]]]]]] Ha.
    unfold rattr_ascii in Ha. apply andb_true_iff in Ha as [Ha Har]. apply andb_true_iff in Ha as [Han Haf].
    unfold body. cbv zeta.
    rewrite (key_is_get f "friendly_name" _ Hf Kf), (key_is_get f "name" _ Hf Kn), (key_is_get f "name_format" _ Hf Km).
    rewrite (is_required_enc f r Hf Kr Har).
    do 3 (rewrite py_bindS_good by apply enc_o_good). rewrite py_bindS_good by reflexivity.
    rewrite p2_iter_check_list. rewrite (py_bindS_good _ (PList (map enc_conv cs))) by reflexivity. rewrite py_iter2_list.
    rewrite !p2_not_good by apply enc_o_good. rewrite !enc_o_truthy. rewrite p2_and_good by reflexivity.
    cbn [py_truthy].
    destruct (struthy (rq_name r)) eqn:En; destruct (struthy (rq_friendly r)) eqn:Ef; cbn [negb p2_branch py_truthy].
    - (* name and friendly name given: nothing is looked up *)
      rewrite append_item. rewrite py_bindS_good by reflexivity.
      unfold outcome, ra_resolve. rewrite En, Ef. cbn [negb andb option_map map].
      do 5 eexists. unfold enc_item, name_of, friendly_of, format_of, ra_step2, ra_step1.
      cbn [ra_name ra_format ra_friendly ra_to_hit ra_fro_hit ra_required fst snd]. rewrite En, Ef. cbn [fst snd]. reflexivity.
    - (* name given, friendly name missing: the second loop *)
      destruct (struthy_some _ En) as [n Hn]. rewrite Hn in *. cbn [oascii enc_o] in Han |- *.
      rewrite (lower_enc n Han).
      rewrite py_bindS_good by reflexivity. rewrite py_iter2_list.
      match goal with |- context [pyfor2 (map enc_conv cs) _ ?b] => set (ib := b) end.
      destruct (inner_loop cv_fro "_fro" (fun c => eq_refl) (lower n) (rq_format r) ib (fun c vc vval => eq_refl) cs
                           (convs_ok_fro cs Hcs) e (enc_o (rq_friendly r))) as [vc' Hl].
      rewrite Hl. clear Hl.
      unfold outcome, ra_resolve. rewrite Hn, Ef. cbn [struthy] in En. cbn [struthy]. rewrite En. cbn [negb andb option_map map].
      unfold enc_item, name_of, friendly_of, format_of, ra_step2, ra_step1.
      cbn [ra_name ra_format ra_friendly ra_to_hit ra_fro_hit ra_required fst snd struthy]. rewrite En, Ef. cbn [fst snd negb].
      destruct (first_hit cv_fro (lower n) cs) as [[fr cf]|].
      + change (PStr fr) with (enc_o (Some fr)). change (PStr n) with (enc_o (Some n)).
        rewrite append_item. rewrite py_bindS_good by reflexivity. do 5 eexists. cbn [fst snd]. reflexivity.
      + change (PStr n) with (enc_o (Some n)).
        rewrite append_item. rewrite py_bindS_good by reflexivity. do 5 eexists. cbn [fst snd]. reflexivity.
    - (* name missing, friendly name given: the first loop *)
      destruct (struthy_some _ Ef) as [f0 Hf0]. rewrite Hf0 in *. cbn [oascii enc_o] in Haf |- *.
      rewrite (lower_enc f0 Haf).
      match goal with |- context [pyfor2 (map enc_conv cs) _ ?b] => set (ib := b) end.
      destruct (inner_loop cv_to "_to" (fun c => eq_refl) (lower f0) (rq_format r) ib (fun c vc vval => eq_refl) cs
                           (convs_ok_to cs Hcs) e (enc_o (rq_name r))) as [vc' Hl].
      rewrite Hl. clear Hl.
      unfold outcome, ra_resolve. rewrite Hf0, En. cbn [struthy] in Ef. cbn [struthy]. rewrite Ef. cbn [negb andb option_map map].
      unfold enc_item, name_of, friendly_of, format_of, ra_step2, ra_step1.
      cbn [ra_name ra_format ra_friendly ra_to_hit ra_fro_hit ra_required fst snd struthy]. rewrite En, Ef. cbn [fst snd negb].
      destruct (first_hit cv_to (lower f0) cs) as [[nm cf]|]; cbn [p2_branch py_truthy].
      + change (PStr nm) with (enc_o (Some nm)). change (PStr f0) with (enc_o (Some f0)).
        rewrite append_item. rewrite py_bindS_good by reflexivity. do 5 eexists. cbn [fst snd]. reflexivity.
      + change (PStr f0) with (enc_o (Some f0)).
        rewrite append_item. rewrite py_bindS_good by reflexivity. do 5 eexists. cbn [fst snd]. reflexivity.
    - (* neither *)
      unfold outcome, ra_resolve. rewrite En, Ef. cbn [negb andb option_map]. do 6 eexists. reflexivity. }
  assert (Hloop : forall ps0 l0, Forall2 rep_attr ps0 l0 -> forallb rattr_ascii l0 = true ->
            forall items a b c d e, outcome (pyfor2 ps0 [a; b; c; d; e; PList items] body) items (ra_resolve_all cs l0)).
  { intros ps0 l0 H. induction H as [|p r ps' l' Hp _ IH]; intros Ha items a b c d e.
    - cbn [pyfor2 ra_resolve_all outcome map]. do 5 eexists. rewrite app_nil_r. reflexivity.
    - cbn [forallb] in Ha. apply andb_true_iff in Ha as [Hr Ht]. cbn [pyfor2 ra_resolve_all].
      pose proof (Hstep p r items a b c d e Hp Hr) as Hs. unfold outcome in Hs.
      destruct (ra_resolve cs r) as [q|]; cbn [option_map] in Hs.
      + destruct Hs as (a' & b' & c' & d' & e' & Hs). rewrite Hs. cbn [map app].
        pose proof (IH Ht (items ++ [enc_item q])%list a' b' c' d' e') as Hi. unfold outcome in *.
        destruct (ra_resolve_all cs l'); [|exact Hi].
        destruct Hi as (a2 & b2 & c2 & d2 & e2 & Hi). rewrite Hi. do 5 eexists. rewrite <- app_assoc. reflexivity.
      + destruct Hs as (a' & b' & c' & d' & e' & i & Hs). rewrite Hs. unfold outcome. do 6 eexists. reflexivity. }
  pose proof (Hloop ps l Hrep Hasc [] PErr PErr PErr PErr PErr) as H. unfold outcome in H.
  destruct (ra_resolve_all cs l) as [qs|].
  - destruct H as (a & b & c & d & e & H). rewrite H. reflexivity.
  - destruct H as (a & b & c & d & e & i & H). rewrite H. reflexivity.
Qed.

(* non-vacuity: a request for two attributes against two maps, spelt with surplus keys and in another key order; the
   second item takes Name from the FIRST map although a name format is given and the last map does not know it *)
Definition ex_convs : list conv :=
  [{| cv_format := "urn:format:one"; cv_to := [("givenname", "urn:one:givenName")]; cv_fro := [("urn:one:givenname", "givenName")] |};
   {| cv_format := "urn:format:two"; cv_to := [("mail", "urn:two:mail")]; cv_fro := [("urn:two:mail", "mail")] |}].

Example src2_crn_sample :
  src2_create_requested_attribute_node
    (PList [PObj [("required", PBool true); ("name", PStr "URN:two:MAIL"); ("comment", PStr "x")];
            PObj [("name_format", PStr "urn:format:mine"); ("friendly_name", PStr "GivenName"); ("name", PNone)]])
    (PList (map enc_conv ex_convs))
  = PObj [("__class__", PStr "RequestedAttributes");
          ("extension_elements",
           PList [PObj [("__class__", PStr "RequestedAttribute"); ("name", PStr "URN:two:MAIL"); ("name_format", PStr "urn:format:two");
                        ("friendly_name", PStr "mail"); ("is_required", PStr "true")];
                  PObj [("__class__", PStr "RequestedAttribute"); ("name", PStr "urn:one:givenName");
                        ("name_format", PStr "urn:format:mine"); ("friendly_name", PStr "GivenName"); ("is_required", PStr "false")]])].
Proof. vm_compute. reflexivity. Qed.

Example src2_crn_sample_raises :
  src2_create_requested_attribute_node (PList [PObj [("friendly_name", PStr "mail")]; PObj [("required", PBool true)]])
                                       (PList (map enc_conv ex_convs)) = PExc "ValueError".
Proof. vm_compute. reflexivity. Qed.
