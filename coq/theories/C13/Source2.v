(* C13/Source2.v — tie of the hand-written model of create_requested_attribute_node (C13/Builders.v: ra_resolve,
   ra_step1, ra_step2, ra_step3, first_hit) to the source TEXT, translator v2.

   coq/gen/C13Src2.v is regenerated on every run by harness/c13.py:regenerate_tables (harness/py2coq2.py) from the
   CURRENT text of /repo/src/saml2/client_base.py.  The theorem says: the translated function, applied to ANY list of
   attribute dictionaries (keys in any order, surplus keys, values absent / None / str) and ANY list of converters,
   yields the encoding of what Builders.ra_resolve_all yields - the RequestedAttributes node with one
   RequestedAttribute(name, name_format, friendly_name, is_required) per item, or ValueError.  Induction over both
   loops.  Side conditions: the strings that are lower-cased are ASCII (the translator refuses str.lower() on other
   strings), no map has a key "__class__" (the translator's dicts cannot hold it).

   The unqualified constructors PNone / PBool / PStr are those of Base/Py.v; the model's Python values are written
   Builders.PNone ... *)
From Coq Require Import String Ascii List Bool ZArith Arith Lia.
From Verif Require Import Base.Str C13.Model C13.Builders C13.BuilderProofs Base.Py Base.Py2.
From VerifGen Require Import C13Src2.
Import ListNotations.
Open Scope string_scope.
Set Default Timeout 20.

(* ---- encodings *)
Definition enc_entry (kv : string * string) : string * pyval := (fst kv, PStr (snd kv)).
Definition enc_dict (d : list (string * string)) : pyval := PObj (map enc_entry d).
Definition nocls (d : list (string * string)) : bool := forallb (fun kv => negb (String.eqb (fst kv) "__class__")) d.

Definition enc_conv (c : conv) : pyval :=
  PObj [("__class__", PStr "AttributeConverter"); ("name_format", PStr (cv_format c));
        ("_to", enc_dict (cv_to c)); ("_fro", enc_dict (cv_fro c))].
(* no key "__class__"; the names a `to` table answers with are lower-cased by the third step: ASCII *)
Definition vals_ascii (d : list (string * string)) : bool := forallb (fun kv => all_ascii (snd kv)) d.
Definition conv_ok (c : conv) : bool := nocls (cv_to c) && nocls (cv_fro c) && vals_ascii (cv_to c).

Lemma nocls_is_obj d : nocls d = true -> is_obj (map enc_entry d) = false.
Proof.
  destruct d as [|[k v] r]; [reflexivity|]. cbn [nocls forallb map enc_entry fst is_obj].
  intros H. apply andb_true_iff in H as [H _]. apply negb_true_iff in H. exact H.
Qed.

Lemma assoc_enc k d : assoc_py k (map enc_entry d) = option_map PStr (sassoc k d).
Proof.
  induction d as [|[k' v] r IH]; [reflexivity|]. cbn [map enc_entry fst snd assoc_py sassoc].
  destruct (String.eqb k k'); [reflexivity|exact IH].
Qed.

Definition enc_o (o : option string) : pyval := match o with Some s => PStr s | None => PNone end.
Definition enc_pyv (v : Builders.pyv) : pyval :=
  match v with Builders.PNone => PNone | Builders.PBool b => PBool b | Builders.PStr s => PStr s end.

(* attr.get(key) is None (key absent, or present with None) or a str *)
Definition key_is (f : list (string * pyval)) (key : string) (o : option string) : Prop :=
  match assoc_py key f with
  | None | Some PNone => o = None
  | Some (PStr s) => o = Some s
  | Some _ => False
  end.

(* a dictionary that spells the attribute r: any order of keys, any other keys *)
Definition rep_attr (p : pyval) (r : rattr) : Prop :=
  exists f, p = PObj f /\ is_obj f = false
            /\ key_is f "name" (rq_name r) /\ key_is f "friendly_name" (rq_friendly r) /\ key_is f "name_format" (rq_format r)
            /\ match assoc_py "required" f with
               | None => rq_required r = Builders.PBool false
               | Some v => v = enc_pyv (rq_required r)
               end.

(* what is lower-cased has to be ASCII *)
Definition oascii (o : option string) : bool := match o with Some s => all_ascii s | None => true end.
Definition rattr_ascii (r : rattr) : bool :=
  oascii (rq_name r) && oascii (rq_friendly r)
  && match rq_required r with Builders.PStr s => all_ascii s | _ => true end.

Definition enc_item (q : reqattr) : pyval :=
  PObj [("__class__", PStr "RequestedAttribute"); ("name", enc_o (name_of q)); ("name_format", enc_o (format_of q));
        ("friendly_name", enc_o (friendly_of q)); ("is_required", PStr (lower (pystr (ra_required q))))].

Definition enc_res (r : option (list reqattr)) : pyval :=
  match r with
  | Some qs => PObj [("__class__", PStr "RequestedAttributes"); ("extension_elements", PList (map enc_item qs))]
  | None => PExc "ValueError"
  end.

Lemma key_is_get f key o : is_obj f = false -> key_is f key o -> p2_get (PObj f) (PStr key) = enc_o o.
Proof.
  intros Hf H. rewrite p2_get_dict by exact Hf. unfold key_is in H.
  destruct (assoc_py key f) as [[| | |s| | | |]|]; try contradiction; subst o; reflexivity.
Qed.

Lemma enc_o_good o : is_bad (enc_o o) = false.
Proof. destruct o; reflexivity. Qed.

Lemma enc_o_truthy o : py_truthy (enc_o o) = struthy o.
Proof. destruct o; reflexivity. Qed.

Lemma is_required_enc f r :
  is_obj f = false ->
  match assoc_py "required" f with None => rq_required r = Builders.PBool false | Some v => v = enc_pyv (rq_required r) end ->
  match rq_required r with Builders.PStr s => all_ascii s | _ => true end = true ->
  p2_lower (p2_str (p2_get3 (PObj f) (PStr "required") (PBool false))) = PStr (lower (pystr (rq_required r))).
Proof.
  intros Hf H Ha. rewrite p2_get3_dict by (exact Hf || reflexivity).
  destruct (assoc_py "required" f) as [v|].
  - subst v. destruct (rq_required r) as [|[|]|s]; cbn; try reflexivity. rewrite Ha. reflexivity.
  - rewrite H. reflexivity.
Qed.

(* ---- the inner loops: the state is [converter; looked-up value; name_format] *)
Section Inner.
  Variable sel : conv -> list (string * string).
  Variable field : string.
  Hypothesis field_enc : forall c, p2_attr (enc_conv c) field = enc_dict (sel c).
  Variable key : string.
  Variable vfmt : option string.
  Variable body : list pyval -> pyval -> ctl2.
  Hypothesis body_eq : forall c vc vval,
    body [vc; vval; enc_o vfmt] (enc_conv c)
    = py_bindS (fun n => if exc_matches n ["KeyError"] then NextS [enc_conv c; vval; enc_o vfmt]
                         else ExcS n [enc_conv c; vval; enc_o vfmt])
               (p2_getitem (p2_attr (enc_conv c) field) (PStr key))
               (fun v => match p2_branch (p2_not (enc_o vfmt)) with
                         | BTrue => py_bindS (fun n => ExcS n [enc_conv c; v; enc_o vfmt]) (p2_attr (enc_conv c) "name_format")
                                             (fun nf => BrkS [enc_conv c; v; nf])
                         | BFalse => BrkS [enc_conv c; v; enc_o vfmt]
                         | BExc n => ExcS n [enc_conv c; v; enc_o vfmt]
                         | BErr => RetS PErr
                         end).

  Lemma inner_loop cs :
    forallb (fun c => nocls (sel c)) cs = true ->
    forall vc vval, exists vc',
      pyfor2 (map enc_conv cs) [vc; vval; enc_o vfmt] body
      = match first_hit sel key cs with
        | Some (v, cf) => BrkS [vc'; PStr v; enc_o (if struthy vfmt then vfmt else Some cf)]
        | None => NextS [vc'; vval; enc_o vfmt]
        end.
  Proof.
    induction cs as [|c r IH]; intros Hok vc vval.
    - exists vc. reflexivity.
    - cbn [forallb] in Hok. apply andb_true_iff in Hok as [Hc Hr].
      cbn [map pyfor2 first_hit]. rewrite body_eq, field_enc. unfold enc_dict.
      rewrite p2_getitem_dict by (apply nocls_is_obj; exact Hc). rewrite assoc_enc.
      destruct (sassoc key (sel c)) as [v|]; cbn [option_map].
      + rewrite py_bindS_good by reflexivity. rewrite p2_not_good by apply enc_o_good. rewrite p2_branch_bool, enc_o_truthy.
        exists (enc_conv c). destruct (struthy vfmt); cbn [negb]; reflexivity.
      + rewrite py_bindS_exc. cbn [exc_matches mem String.eqb Ascii.eqb Bool.eqb orb]. exact (IH Hr (enc_conv c) vval).
  Qed.
End Inner.

Lemma append_item items v1 v2 v3 v4 :
  is_bad v1 = false -> is_bad v2 = false -> is_bad v3 = false -> is_bad v4 = false ->
  p2_append (PList items)
    (py_bind v1 (fun a_8 => py_bind v2 (fun a_9 => py_bind v3 (fun a_10 => py_bind v4 (fun a_11 =>
       PObj [("__class__", PStr "RequestedAttribute"); ("name", a_11); ("name_format", a_9); ("friendly_name", a_10);
             ("is_required", a_8)])))))
  = PList (items ++ [PObj [("__class__", PStr "RequestedAttribute"); ("name", v4); ("name_format", v2);
                           ("friendly_name", v3); ("is_required", v1)]]).
Proof. intros H1 H2 H3 H4. rewrite !py_bind_good by assumption. reflexivity. Qed.

Lemma lower_enc s : all_ascii s = true -> p2_lower (PStr s) = PStr (lower s).
Proof. intros H. cbn. rewrite H. reflexivity. Qed.

Lemma convs_ok_to cs : forallb conv_ok cs = true -> forallb (fun c => nocls (cv_to c)) cs = true.
Proof.
  intros H. rewrite forallb_forall in *. intros c Hc. specialize (H c Hc). unfold conv_ok in H.
  apply andb_true_iff in H as [H _]. apply andb_true_iff in H. tauto.
Qed.
Lemma convs_ok_fro cs : forallb conv_ok cs = true -> forallb (fun c => nocls (cv_fro c)) cs = true.
Proof.
  intros H. rewrite forallb_forall in *. intros c Hc. specialize (H c Hc). unfold conv_ok in H.
  apply andb_true_iff in H as [H _]. apply andb_true_iff in H. tauto.
Qed.

Lemma sassoc_ascii k d v : vals_ascii d = true -> sassoc k d = Some v -> all_ascii v = true.
Proof.
  induction d as [|[k' v'] r IH]; [discriminate|]. cbn [vals_ascii forallb sassoc snd]. intros H E.
  apply andb_true_iff in H as [H1 H2]. destruct (String.eqb k k'); [inversion E; subst; exact H1|exact (IH H2 E)].
Qed.

Lemma to_hit_ascii cs k v cf : forallb conv_ok cs = true -> first_hit cv_to k cs = Some (v, cf) -> all_ascii v = true.
Proof.
  induction cs as [|c r IH]; [discriminate|]. cbn [forallb first_hit]. intros H E. apply andb_true_iff in H as [Hc Hr].
  destruct (sassoc k (cv_to c)) as [v0|] eqn:Es.
  - inversion E; subst. unfold conv_ok in Hc. apply andb_true_iff in Hc as [_ Hv]. exact (sassoc_ascii _ _ _ Hv Es).
  - exact (IH Hr E).
Qed.

(* ---- the third loop: the state is [converter; name_format] *)
Section Inner3.
  Variable key : string.
  Variable vfmt : pyval.
  Variable body : list pyval -> pyval -> ctl2.
  Hypothesis body_eq : forall c vc,
    body [vc; vfmt] (enc_conv c)
    = match p2_branch (p2_in (PStr key) (p2_or (p2_attr (enc_conv c) "_fro") (PObj []))) with
      | BTrue => py_bindS (fun n => ExcS n [enc_conv c; vfmt]) (p2_attr (enc_conv c) "name_format")
                          (fun nf => BrkS [enc_conv c; nf])
      | BFalse => NextS [enc_conv c; vfmt]
      | BExc n => ExcS n [enc_conv c; vfmt]
      | BErr => RetS PErr
      end.

  Lemma inner3 cs :
    forallb (fun c => nocls (cv_fro c)) cs = true ->
    forall vc, exists vc',
      pyfor2 (map enc_conv cs) [vc; vfmt] body
      = match first_hit cv_fro key cs with
        | Some (_, cf) => BrkS [vc'; PStr cf]
        | None => NextS [vc'; vfmt]
        end.
  Proof.
    induction cs as [|c r IH]; intros Hok vc.
    - exists vc. reflexivity.
    - cbn [forallb] in Hok. apply andb_true_iff in Hok as [Hc Hr].
      cbn [map pyfor2 first_hit]. rewrite body_eq.
      change (p2_attr (enc_conv c) "_fro") with (enc_dict (cv_fro c)). unfold enc_dict.
      assert (Hor : p2_or (PObj (map enc_entry (cv_fro c))) (PObj []) = PObj (map enc_entry (cv_fro c))).
      { rewrite p2_or_good by reflexivity. destruct (cv_fro c); reflexivity. }
      rewrite Hor. rewrite p2_in_dict by (apply nocls_is_obj; exact Hc). rewrite assoc_enc, p2_branch_bool.
      destruct (sassoc key (cv_fro c)) as [v|]; cbn [option_map].
      + exists (enc_conv c). reflexivity.
      + exact (IH Hr (enc_conv c)).
  Qed.
End Inner3.

Lemma branch_not o : p2_branch (p2_not (enc_o o)) = if struthy o then BFalse else BTrue.
Proof. rewrite p2_not_good by apply enc_o_good. rewrite p2_branch_bool, enc_o_truthy. destruct (struthy o); reflexivity. Qed.

Lemma branch_and_not a b :
  p2_branch (p2_and (p2_not (enc_o a)) (p2_not (enc_o b))) = if negb (struthy a) && negb (struthy b) then BTrue else BFalse.
Proof.
  rewrite !p2_not_good by apply enc_o_good. rewrite !enc_o_truthy. rewrite p2_and_good by reflexivity. cbn [py_truthy].
  destruct (struthy a), (struthy b); reflexivity.
Qed.

(* the test of the third step: name and not name_format *)
Lemma branch_and_name n fo : is_empty n = false ->
  p2_branch (p2_and (PStr n) (p2_not (enc_o fo))) = if struthy fo then BFalse else BTrue.
Proof.
  intros H. rewrite p2_not_good by apply enc_o_good. rewrite enc_o_truthy. rewrite p2_and_good by reflexivity.
  cbn [py_truthy]. rewrite H. cbn [negb]. rewrite p2_branch_bool. destruct (struthy fo); reflexivity.
Qed.

Lemma branch_and_noname vn fo : struthy vn = false -> p2_branch (p2_and (enc_o vn) (p2_not (enc_o fo))) = BFalse.
Proof.
  intros H. rewrite p2_and_good by apply enc_o_good. rewrite enc_o_truthy, H.
  destruct vn as [x|]; [|reflexivity]. cbn [struthy] in H. cbn. destruct (is_empty x); [reflexivity|discriminate].
Qed.

Ltac loop3 n cs Hcs :=
  rewrite ?(py_bindS_good _ (PList (map enc_conv cs))) by reflexivity; rewrite ?py_iter2_list;
  match goal with |- context [pyfor2 (map enc_conv cs) [?vc; ?vf] ?b] =>
    let vc3 := fresh "vc3" in let Hl3 := fresh "Hl3" in
    destruct (inner3 (lower n) vf b (fun c vc0 => eq_refl) cs (convs_ok_fro cs Hcs) vc) as [vc3 Hl3]; rewrite Hl3; clear Hl3
  end.
Ltac finish := rewrite append_item by (apply enc_o_good || reflexivity); rewrite py_bindS_good by reflexivity;
  do 5 eexists; cbn [fst snd]; reflexivity.

Definition outcome (r : ctl2) (items : list pyval) (res : option (list reqattr)) : Prop :=
  match res with
  | Some qs => exists a b c d e, r = NextS [a; b; c; d; e; PList (items ++ map enc_item qs)]
  | None => exists a b c d e i, r = ExcS "ValueError" [a; b; c; d; e; i]
  end.

(* ---- the theorem *)
Theorem src2_crn_is_model ps l cs :
  Forall2 rep_attr ps l -> forallb rattr_ascii l = true -> forallb conv_ok cs = true ->
  src2_create_requested_attribute_node (PList ps) (PList (map enc_conv cs)) = enc_res (ra_resolve_all cs l).
Proof.
  intros Hrep Hasc Hcs. unfold src2_create_requested_attribute_node. rewrite p2_iter_check_list. cbn [py_bind py_iter2].
  match goal with |- context [pyfor2 _ _ ?b] => set (body := b) end.
  assert (Hstep : forall p r items a b c d e, rep_attr p r -> rattr_ascii r = true ->
            outcome (body [a; b; c; d; e; PList items] p) items (option_map (fun q => [q]) (ra_resolve cs r))).
  { intros p r items a b c d e [f [-> [Hf [Kn [Kf [Km Kr]]]]]] Ha.
    unfold rattr_ascii in Ha. apply andb_true_iff in Ha as [Ha Har]. apply andb_true_iff in Ha as [Han Haf].
    unfold body. cbv zeta.
    rewrite (key_is_get f "friendly_name" _ Hf Kf), (key_is_get f "name" _ Hf Kn), (key_is_get f "name_format" _ Hf Km).
    rewrite (is_required_enc f r Hf Kr Har).
    do 3 (rewrite py_bindS_good by apply enc_o_good). rewrite py_bindS_good by reflexivity.
    rewrite p2_iter_check_list. rewrite (py_bindS_good _ (PList (map enc_conv cs))) by reflexivity. rewrite py_iter2_list.
    rewrite !branch_and_not, !branch_not.
    destruct (struthy (rq_name r)) eqn:En; destruct (struthy (rq_friendly r)) eqn:Ef; cbn [negb andb].
    - (* name and friendly name given: no loop runs, the third step may *)
      destruct (struthy_some _ En) as [n Hn]. rewrite Hn in *. cbn [oascii enc_o] in Han |- *.
      pose proof (truthy_nonempty n En) as Hne.
      rewrite (branch_and_name n _ Hne), (lower_enc n Han).
      unfold outcome, ra_resolve. rewrite Hn, Ef. cbn [struthy] in En |- *. rewrite En. cbn [negb andb option_map map].
      unfold enc_item, name_of, friendly_of, format_of, ra_step3, ra_step2, ra_step1.
      cbn [ra_name ra_format ra_friendly ra_to_hit ra_fro_hit ra_required fst snd struthy]. rewrite En, Ef. cbn [fst snd]. rewrite Hne.
      destruct (struthy (rq_format r)) eqn:Efm.
      + change (PStr n) with (enc_o (Some n)). finish.
      + loop3 n cs Hcs. destruct (first_hit cv_fro (lower n) cs) as [[fr3 cf3]|].
        * change (PStr cf3) with (enc_o (Some cf3)). change (PStr n) with (enc_o (Some n)). finish.
        * change (PStr n) with (enc_o (Some n)). finish.
    - (* name given, friendly name missing: the second loop, then the third step *)
      destruct (struthy_some _ En) as [n Hn]. rewrite Hn in *. cbn [oascii enc_o] in Han |- *.
      pose proof (truthy_nonempty n En) as Hne. rewrite (lower_enc n Han).
      repeat (rewrite (py_bindS_good _ (PList (map enc_conv cs))) by reflexivity). rewrite ?py_iter2_list.
      match goal with |- context [pyfor2 (map enc_conv cs) [?vc; ?v; ?vf] ?b] => set (ib := b) end.
      destruct (inner_loop cv_fro "_fro" (fun c => eq_refl) (lower n) (rq_format r) ib (fun c vc vval => eq_refl) cs
                           (convs_ok_fro cs Hcs) e (enc_o (rq_friendly r))) as [vc' Hl].
      rewrite Hl. clear Hl ib.
      unfold outcome, ra_resolve. rewrite Hn, Ef. cbn [struthy] in En |- *. rewrite En. cbn [negb andb option_map map].
      unfold enc_item, name_of, friendly_of, format_of, ra_step3, ra_step2, ra_step1.
      cbn [ra_name ra_format ra_friendly ra_to_hit ra_fro_hit ra_required fst snd struthy]. rewrite En, Ef. cbn [fst snd]. rewrite Hne.
      destruct (first_hit cv_fro (lower n) cs) as [[fr cf]|] eqn:Eh; cbn [fst snd];
        rewrite (branch_and_name n _ Hne); destruct (struthy (rq_format r)) eqn:Efm; rewrite ?Efm.
      + change (PStr n) with (enc_o (Some n)). change (PStr fr) with (enc_o (Some fr)). finish.
      + destruct (struthy (Some cf)) eqn:Ecf.
        * change (PStr n) with (enc_o (Some n)). change (PStr fr) with (enc_o (Some fr)). finish.
        * loop3 n cs Hcs. rewrite Eh. change (PStr cf) with (enc_o (Some cf)).
          change (PStr n) with (enc_o (Some n)). change (PStr fr) with (enc_o (Some fr)). finish.
      + change (PStr n) with (enc_o (Some n)). finish.
      + loop3 n cs Hcs. rewrite Eh. change (PStr n) with (enc_o (Some n)). finish.
    - (* name missing, friendly name given: the first loop, then the third step *)
      destruct (struthy_some _ Ef) as [f0 Hf0]. rewrite Hf0 in *. cbn [oascii enc_o] in Haf |- *.
      rewrite (lower_enc f0 Haf).
      repeat (rewrite (py_bindS_good _ (PList (map enc_conv cs))) by reflexivity). rewrite ?py_iter2_list.
      match goal with |- context [pyfor2 (map enc_conv cs) [?vc; ?v; ?vf] ?b] => set (ib := b) end.
      destruct (inner_loop cv_to "_to" (fun c => eq_refl) (lower f0) (rq_format r) ib (fun c vc vval => eq_refl) cs
                           (convs_ok_to cs Hcs) e (enc_o (rq_name r))) as [vc' Hl].
      rewrite Hl. clear Hl ib.
      unfold outcome, ra_resolve. rewrite Hf0, En. cbn [struthy] in Ef |- *. rewrite Ef. cbn [negb andb option_map map].
      unfold enc_item, name_of, friendly_of, format_of, ra_step3, ra_step2, ra_step1.
      cbn [ra_name ra_format ra_friendly ra_to_hit ra_fro_hit ra_required fst snd struthy]. rewrite En, Ef. cbn [fst snd negb].
      destruct (first_hit cv_to (lower f0) cs) as [[nm cf]|] eqn:Eh; cbn [fst snd].
      + pose proof (to_hit_ascii cs _ _ _ Hcs Eh) as Hnm.
        destruct (is_empty nm) eqn:Enm.
        * change (PStr nm) with (enc_o (Some nm)). rewrite branch_and_noname by (cbn [struthy]; rewrite Enm; reflexivity).
          destruct (struthy (if struthy (rq_format r) then rq_format r else Some cf)); finish.
        * rewrite (branch_and_name nm _ Enm). destruct (struthy (rq_format r)) eqn:Efm; rewrite ?Efm; [finish|].
          destruct (struthy (Some cf)) eqn:Ecf; [finish|].
          rewrite (lower_enc nm Hnm). loop3 nm cs Hcs. destruct (first_hit cv_fro (lower nm) cs) as [[fr3 cf3]|]; finish.
      + rewrite (branch_and_noname (rq_name r) _ En).
        destruct (rq_name r) as [x|]; [|destruct (struthy (rq_format r)); finish].
        cbn [struthy] in En. destruct (is_empty x); [|discriminate]. destruct (struthy (rq_format r)); finish.
    - (* neither *)
      unfold outcome, ra_resolve. rewrite En, Ef. cbn [negb andb option_map]. do 6 eexists. reflexivity. }
  assert (Hloop : forall ps0 l0, Forall2 rep_attr ps0 l0 -> forallb rattr_ascii l0 = true ->
            forall items a b c d e, outcome (pyfor2 ps0 [a; b; c; d; e; PList items] body) items (ra_resolve_all cs l0)).
  { intros ps0 l0 H. induction H as [|p r ps' l' Hp _ IH]; intros Ha items a b c d e.
    - cbn [pyfor2 ra_resolve_all outcome map]. do 5 eexists. rewrite app_nil_r. reflexivity.
    - cbn [forallb] in Ha. apply andb_true_iff in Ha as [Hr Ht]. cbn [pyfor2 ra_resolve_all].
      pose proof (Hstep p r items a b c d e Hp Hr) as Hs. unfold outcome in Hs.
      destruct (ra_resolve cs r) as [q|]; cbn [option_map] in Hs.
      + destruct Hs as (a' & b' & c' & d' & e' & Hs). rewrite Hs. cbn [map app].
        pose proof (IH Ht (items ++ [enc_item q])%list a' b' c' d' e') as Hi. unfold outcome in *.
        destruct (ra_resolve_all cs l'); [|exact Hi].
        destruct Hi as (a2 & b2 & c2 & d2 & e2 & Hi). rewrite Hi. do 5 eexists. rewrite <- app_assoc. reflexivity.
      + destruct Hs as (a' & b' & c' & d' & e' & i & Hs). rewrite Hs. unfold outcome. do 6 eexists. reflexivity. }
  pose proof (Hloop ps l Hrep Hasc [] PErr PErr PErr PErr PErr) as H. unfold outcome in H.
  destruct (ra_resolve_all cs l) as [qs|].
  - destruct H as (a & b & c & d & e & H). rewrite H. reflexivity.
  - destruct H as (a & b & c & d & e & i & H). rewrite H. reflexivity.
Qed.

(* non-vacuity: a request for two attributes against two maps, spelt with surplus keys and in another key order; the
   second item takes Name from the FIRST map although a name format is given and the last map does not know it *)
Definition ex_convs : list conv :=
  [{| cv_format := "urn:format:one"; cv_to := [("givenname", "urn:one:givenName")]; cv_fro := [("urn:one:givenname", "givenName")] |};
   {| cv_format := "urn:format:two"; cv_to := [("mail", "urn:two:mail")]; cv_fro := [("urn:two:mail", "mail")] |}].

Example src2_crn_sample :
  src2_create_requested_attribute_node
    (PList [PObj [("required", PBool true); ("name", PStr "URN:two:MAIL"); ("comment", PStr "x")];
            PObj [("name_format", PStr "urn:format:mine"); ("friendly_name", PStr "GivenName"); ("name", PNone)]])
    (PList (map enc_conv ex_convs))
  = PObj [("__class__", PStr "RequestedAttributes");
          ("extension_elements",
           PList [PObj [("__class__", PStr "RequestedAttribute"); ("name", PStr "URN:two:MAIL"); ("name_format", PStr "urn:format:two");
                        ("friendly_name", PStr "mail"); ("is_required", PStr "true")];
                  PObj [("__class__", PStr "RequestedAttribute"); ("name", PStr "urn:one:givenName");
                        ("name_format", PStr "urn:format:mine"); ("friendly_name", PStr "GivenName"); ("is_required", PStr "false")]])].
Proof. vm_compute. reflexivity. Qed.

Example src2_crn_sample_raises :
  src2_create_requested_attribute_node (PList [PObj [("friendly_name", PStr "mail")]; PObj [("required", PBool true)]])
                                       (PList (map enc_conv ex_convs)) = PExc "ValueError".
Proof. vm_compute. reflexivity. Qed.

(* the third step (711f9f2e): name and friendly name given, no name_format - the format of the first map that knows the name *)
Example src2_crn_sample_third_step :
  src2_create_requested_attribute_node
    (PList [PObj [("name", PStr "urn:two:mail"); ("friendly_name", PStr "eMail")]]) (PList (map enc_conv ex_convs))
  = PObj [("__class__", PStr "RequestedAttributes");
          ("extension_elements",
           PList [PObj [("__class__", PStr "RequestedAttribute"); ("name", PStr "urn:two:mail"); ("name_format", PStr "urn:format:two");
                        ("friendly_name", PStr "eMail"); ("is_required", PStr "false")]])].
Proof. vm_compute. reflexivity. Qed.
