(* C13/Extra.v — what the schema documents demand BEYOND the element-class tables, as far as a builder can
   get it wrong, and the builders whose own logic is about exactly that.

   Part 1: three more checks on an emitted tree, all executable:
     * [ids_unique]  : the values of the attributes that the classes declare with type xs:ID (generated list
                       live_ids, same run, same classes as live_table) are pairwise different in a document;
     * [xsi_ok]      : an xsi:type names a built-in type of the XML-Schema namespace - the independent reader
                       hands the QName over RESOLVED against the namespace declarations in scope ("{uri}local"),
                       an unbound prefix or a name without namespace is left as written and names nothing - and
                       the character data has the lexical form of that type;
     * [choices_ok]  : the xs:choice groups of the schema types whose members the class tables list as
                       independent optional members (hand-written from saml-schema-protocol/-assertion/
                       -metadata-2.0.xsd; validated against those documents by the correspondence on every
                       emitted document and every injected defect).
   Part 2: s_utils.do_attributes / do_attribute / do_ava with AttributeValue.set_text / set_type as coded (the
   `attribute` argument of create_attribute_query; _v0 = before fix bf274fc5), create_name_id_mapping_request and
   create_manage_name_id_request with their "one of" logic, and the assertions of create_authn_query_response. *)
From Coq Require Import String Ascii List Bool Arith NArith Lia.
From Verif Require Import Base.Str C13.Model C13.Builders.
From VerifGen Require Import C13Tables.
Import ListNotations.
Open Scope string_scope.
Open Scope list_scope.
Open Scope nat_scope.

(* ------------------------------------------------------------------ xs:ID uniqueness *)
Definition id_attrs_of (I : list (list qname)) (k : nat) : list qname := nth k I [].

Definition node_ids (idattrs : list qname) (attrs : list (qname * string)) : list string :=
  flat_map (fun kv => if qmem (fst kv) idattrs then [xtrim (snd kv)] else []) attrs.

(* the xs:ID values of a (sub)tree, by the same assignment of classes to elements as [valid] uses *)
Fixpoint ids (T : table) (I : list (list qname)) (c : cref) (t : tree) : list string :=
  match c with
  | CSkip => []
  | CK k =>
      match class_at T k with
      | None => []
      | Some ci =>
          match t with
          | Node _ attrs _ kids =>
              node_ids (id_attrs_of I k) attrs
              ++ (fix go (l : list tree) : list string :=
                    match l with
                    | [] => []
                    | x :: r => ids T I (child_ref T ci (root_tag x)) x ++ go r
                    end) kids
          end
      end
  end.

Definition doc_ids (T : table) (I : list (list qname)) (t : tree) : list string :=
  match elem_class T (root_tag t) with Some k => ids T I (CK k) t | None => [] end.

Fixpoint nodupb (l : list string) : bool :=
  match l with [] => true | x :: r => negb (mem x r) && nodupb r end.

Definition ids_unique (T : table) (I : list (list qname)) (t : tree) : bool := nodupb (doc_ids T I t).

(* ------------------------------------------------------------------ xsi:type *)
Definition XS := "http://www.w3.org/2001/XMLSchema".

(* built-in types and the lexical form that is checked for them (LAny: named correctly, content not judged) *)
Definition xs_builtin : list (string * lexty) :=
  [("string", LAny); ("anyType", LAny); ("anySimpleType", LAny); ("anyURI", LAny); ("normalizedString", LAny); ("token", LAny);
   ("integer", LInteger); ("int", LInteger); ("short", LInteger); ("long", LInteger); ("byte", LInteger);
   ("nonNegativeInteger", LNonNeg); ("positiveInteger", LPosInt); ("unsignedShort", LUShort); ("unsignedByte", LUByte);
   ("boolean", LBoolean); ("base64Binary", LBase64); ("dateTime", LDateTime);
   ("date", LAny); ("time", LAny); ("float", LAny); ("double", LAny); ("decimal", LAny); ("duration", LAny);
   ("hexBinary", LAny); ("QName", LAny); ("NCName", LNCName); ("ID", LNCName)].

Fixpoint lookup (k : string) (l : list (string * lexty)) : option lexty :=
  match l with [] => None | (k', v) :: r => if String.eqb k k' then Some v else lookup k r end.

(* s = p ++ rest ? *)
Fixpoint strip_prefix (p s : string) : option string :=
  match p with
  | EmptyString => Some s
  | String a p' => match s with
                   | String b s' => if Ascii.eqb a b then strip_prefix p' s' else None
                   | EmptyString => None
                   end
  end.

Definition XS_CLARK : string := "{" ++ XS ++ "}".
Definition xs_clark (local : string) : string := XS_CLARK ++ local.

Definition xsi_type_ok (v text : string) : bool :=
  match strip_prefix XS_CLARK v with
  | Some local => match lookup local xs_builtin with Some ty => check_lex ty text | None => false end
  | None => false
  end.

Definition node_xsi_ok (attrs : list (qname * string)) (text : string) : bool :=
  forallb (fun kv => if qeqb (fst kv) (Q XSI "type") then xsi_type_ok (snd kv) text else true) attrs.

Fixpoint xsi_ok (t : tree) : bool :=
  match t with
  | Node _ attrs text kids =>
      node_xsi_ok attrs text
      && (fix go (l : list tree) : bool := match l with [] => true | x :: r => xsi_ok x && go r end) kids
  end.

(* an element whose xsi:type names a built-in SIMPLE type has that type in place of its declared one (saml:AttributeValue
   is xs:anyType by declaration): no element content and no attributes of its own *)
Definition simple_typed (attrs : list (qname * string)) : bool :=
  existsb (fun kv => qeqb (fst kv) (Q XSI "type")
                     && match strip_prefix XS_CLARK (snd kv) with
                        | Some local => negb (String.eqb local "anyType")
                                        && match lookup local xs_builtin with Some _ => true | None => false end
                        | None => false
                        end) attrs.

Fixpoint typed_ok (t : tree) : bool :=
  match t with
  | Node _ attrs _ kids =>
      (if simple_typed attrs
       then match kids with [] => true | _ => false end && forallb (fun kv => String.eqb (q_ns (fst kv)) XSI) attrs
       else true)
      && (fix go (l : list tree) : bool := match l with [] => true | x :: r => typed_ok x && go r end) kids
  end.

(* ------------------------------------------------------------------ choice groups *)
Inductive rule :=
| Count (min : nat) (max : option nat) (tags : list qname)   (* that many children out of this group *)
| Exclusive (a b : list qname).                               (* not children of both groups *)

Definition count_in (tags : list qname) (kids : list qname) : nat := length (filter (fun q => qmem q tags) kids).

Definition rule_ok (kids : list qname) (r : rule) : bool :=
  match r with
  | Count mn mx tags => let n := count_in tags kids in
                        (mn <=? n) && match mx with Some m => n <=? m | None => true end
  | Exclusive a b => (count_in a kids =? 0) || (count_in b kids =? 0)
  end.

Definition MD := "urn:oasis:names:tc:SAML:2.0:metadata".
Definition id_group : list qname := [qa "BaseID"; qa "NameID"; qa "EncryptedID"].

(* element (by the tag of its class) -> rules on its children *)
Definition choice_rules : list (qname * list rule) :=
  [ (qp "NameIDMappingRequest", [Count 1 (Some 1) id_group]);
    (qp "ManageNameIDRequest", [Count 1 (Some 1) [qa "NameID"; qa "EncryptedID"];
                                Count 1 (Some 1) [qp "NewID"; qp "NewEncryptedID"; qp "Terminate"]]);
    (qp "LogoutRequest", [Count 1 (Some 1) id_group]);
    (qp "NameIDMappingResponse", [Count 1 (Some 1) [qa "NameID"; qa "EncryptedID"]]);
    (qa "Subject", [Count 0 (Some 1) id_group; Count 1 None (id_group ++ [qa "SubjectConfirmation"])]);
    (qa "SubjectConfirmation", [Count 0 (Some 1) id_group]);
    (qa "Evidence", [Count 1 None [qa "AssertionIDRef"; qa "AssertionURIRef"; qa "Assertion"; qa "EncryptedAssertion"]]);
    (qa "Advice", []);
    (qa "AttributeStatement", [Count 1 None [qa "Attribute"; qa "EncryptedAttribute"]]);
    (qp "RequestedAuthnContext", [Count 1 None [qa "AuthnContextClassRef"; qa "AuthnContextDeclRef"];
                                  Exclusive [qa "AuthnContextClassRef"] [qa "AuthnContextDeclRef"]]);
    (Q MD "EntityDescriptor", [Count 1 None [Q MD "RoleDescriptor"; Q MD "IDPSSODescriptor"; Q MD "SPSSODescriptor";
                                             Q MD "AuthnAuthorityDescriptor"; Q MD "AttributeAuthorityDescriptor";
                                             Q MD "PDPDescriptor"; Q MD "AffiliationDescriptor"];
                               Exclusive [Q MD "AffiliationDescriptor"]
                                         [Q MD "RoleDescriptor"; Q MD "IDPSSODescriptor"; Q MD "SPSSODescriptor";
                                          Q MD "AuthnAuthorityDescriptor"; Q MD "AttributeAuthorityDescriptor";
                                          Q MD "PDPDescriptor"]]);
    (Q MD "EntitiesDescriptor", [Count 1 None [Q MD "EntityDescriptor"; Q MD "EntitiesDescriptor"]]) ].

Fixpoint rules_of (q : qname) (l : list (qname * list rule)) : list rule :=
  match l with [] => [] | (q', rs) :: r => if qeqb q q' then rs else rules_of q r end.

Definition node_choices_ok (R : list (qname * list rule)) (ci : cinfo) (kidtags : list qname) : bool :=
  forallb (rule_ok kidtags) (rules_of (ci_tag ci) R).

Fixpoint choices (T : table) (R : list (qname * list rule)) (c : cref) (t : tree) : bool :=
  match c with
  | CSkip => true
  | CK k =>
      match class_at T k with
      | None => true
      | Some ci =>
          match t with
          | Node _ _ _ kids =>
              node_choices_ok R ci (map root_tag kids)
              && (fix go (l : list tree) : bool :=
                    match l with
                    | [] => true
                    | x :: r => choices T R (child_ref T ci (root_tag x)) x && go r
                    end) kids
          end
      end
  end.

Definition choices_ok (T : table) (R : list (qname * list rule)) (t : tree) : bool :=
  match elem_class T (root_tag t) with Some k => choices T R (CK k) t | None => true end.

(* the rules of the root element alone (what a builder decides itself; the subtrees it is handed are the caller's) *)
Definition root_choices_ok (t : tree) : bool :=
  forallb (rule_ok (map root_tag (root_kids t))) (rules_of (root_tag t) choice_rules).

(* everything Coq judges of a document: the class tables and the three additions *)
Definition doc_ok (t : tree) : bool :=
  valid_doc live_table t && ids_unique live_table live_ids t && xsi_ok t && typed_ok t
  && choices_ok live_table choice_rules t.

(* ================================================================== s_utils.do_attributes *)
(* a value of the `attribute` dictionary: str / None / list of str, plain or as the first half of a TUPLE
   (value, type) *)
Inductive aval := AStr (s : string) | ANone | AList (l : list string).
Inductive aspec := SPlain (v : aval) | STuple (v : aval) (typ : string).
(* a key: a str, or a tuple of str *)
Inductive akey := KStr (s : string) | KTuple (l : list string).

(* Python unpacks a str by characters (code points); the model's strings are UTF-8 bytes *)
Definition is_cont (c : ascii) : bool := let n := nat_of_ascii c in (128 <=? n) && (n <? 192).

Fixpoint take_conts (s : string) : string * string :=
  match s with
  | String c r => if is_cont c then let (a, b) := take_conts r in (String c a, b) else (EmptyString, s)
  | EmptyString => (EmptyString, EmptyString)
  end.

Definition uncons_char (s : string) : option (string * string) :=
  match s with
  | EmptyString => None
  | String c r => let (a, b) := take_conts r in Some (String c a, b)
  end.

(* Some (a, b) when s consists of exactly two characters *)
Definition two_chars (s : string) : option (string * string) :=
  match uncons_char s with
  | Some (a, r) => match uncons_char r with
                   | Some (b, r') => if is_empty r' then Some (a, b) else None
                   | None => None
                   end
  | None => None
  end.

(* do_attributes before fix bf274fc5:  try: val, typ = spec / except ValueError: val = spec; typ = "" / except
   TypeError: val = ""; typ = "" — every sequence of exactly two items unpacked, a (value, type) tuple or not *)
Definition unpack_v0 (sp : aspec) : aval * string :=
  match sp with
  | STuple v typ => (v, typ)
  | SPlain (AList [a; b]) => (AStr a, b)
  | SPlain (AStr s) => match two_chars s with Some (a, b) => (AStr a, b) | None => (AStr s, "") end
  | SPlain ANone => (AStr "", "")
  | SPlain (AList l) => (AList l, "")
  end.

(* as coded now (bf274fc5): only a tuple of two carries a type; anything else iterable is the value; what cannot be
   iterated (None) becomes "" *)
Definition unpack (sp : aspec) : aval * string :=
  match sp with
  | STuple v typ => (v, typ)
  | SPlain ANone => (AStr "", "")
  | SPlain v => (v, "")
  end.

(* the inputs on which the old unpacking took a VALUE for a type: finding C13-F8 *)
Definition misread (sp : aspec) : bool :=
  match sp with
  | SPlain (AList [_; _]) => true
  | SPlain (AStr s) => match two_chars s with Some _ => true | None => false end
  | _ => false
  end.

(* split at the first colon *)
Fixpoint split_colon (s : string) : option (string * string) :=
  match s with
  | EmptyString => None
  | String c r => if (nat_of_ascii c =? 58) then Some (EmptyString, r)
                  else match split_colon r with Some (p, l) => Some (String c p, l) | None => None end
  end.

(* AttributeValue.set_type: the xs / xsd prefix of the type name is declared on the element.  set_text (always
   called first, with a str) has typed the value "xs:string" and declared xs. *)
Definition declared (typ : string) : list string :=
  ["xs"] ++ (if startswith typ "xs:" then ["xs"] else []) ++ (if startswith typ "xsd:" then ["xsd"] else []).

(* what a namespace-aware reader makes of the QName, given the declared prefixes (all bound to XS) *)
Definition resolve (decl : list string) (t : string) : string :=
  match split_colon t with
  | Some (p, local) => if mem p decl then xs_clark local else t
  | None => t
  end.

Definition final_type (typ : string) : string := if is_empty typ then "xs:string" else typ.

Definition o_attribute_value (typ text : string) : obj :=
  Obj k_saml_AttributeValue [(Q XSI "type", Some (resolve (declared typ) (final_type typ)))] (Some text) [] [].

(* do_ava(val, typ): None = it raises (a type for no value) *)
Definition do_ava (v : aval) (typ : string) : option (list obj) :=
  match v with
  | AStr s => Some [o_attribute_value typ s]
  | AList l => Some (map (o_attribute_value typ) l)
  | ANone => if is_empty typ then Some [] else None
  end.

Definition NAME_FORMAT_URI := "urn:oasis:names:tc:SAML:2.0:attrname-format:uri".

Definition nonempty (s : string) : option string := if is_empty s then None else Some s.

(* do_attribute: the key is the name, or (name, format, friendly) / (name, format); each set when truthy *)
Definition key_fields (k : akey) : option (option string * option string * option string) :=
  match k with
  | KStr s => Some (Some s, Some NAME_FORMAT_URI, None)
  | KTuple [n; f; fr] => Some (nonempty n, Some (if is_empty f then NAME_FORMAT_URI else f), nonempty fr)
  | KTuple [n; f] => Some (nonempty n, Some (if is_empty f then NAME_FORMAT_URI else f), None)
  | KTuple _ => None                                         (* ValueError *)
  end.

Section DoAttributes.
  Variable u : aspec -> aval * string.       (* how a value of the dictionary is read: unpack, or unpack_v0 *)

  Definition do_attribute_with (k : akey) (sp : aspec) : option obj :=
    let (v, typ) := u sp in
    match do_ava v typ, key_fields k with
    | Some vals, Some (n, f, fr) =>
        Some (Obj k_saml_Attribute [at_ "Name" n; at_ "NameFormat" f; at_ "FriendlyName" fr] None
                  [(qa "AttributeValue", vals)] [])
    | _, _ => None
    end.

  Fixpoint do_attributes_with (l : list (akey * aspec)) : option (list obj) :=
    match l with
    | [] => Some []
    | (k, sp) :: r => match do_attribute_with k sp, do_attributes_with r with
                      | Some a, Some rest => Some (a :: rest)
                      | _, _ => None
                      end
    end.

  (* create_attribute_query with the `attribute` dictionary as the caller wrote it *)
  Definition attribute_query_s_with (a : aq_args) (specs : list (akey * aspec)) : option obj :=
    match do_attributes_with specs, sig_member (aq_signing a) (aq_ob a) with
    | Some attrs, Some sg =>
        Some (message k_samlp_AttributeQuery (aq_entityid a) (aq_ob a) (aq_destination a) (aq_consent a)
                      (match aq_extensions a with Some c => Some (o_extensions c) | None => None end) sg
                      []
                      [(qa "Subject", [Obj k_saml_Subject [] None [(qa "NameID", [ORaw (CK k_saml_NameID) (aq_name_id a)])] []]);
                       (qa "Attribute", attrs)])
    | _, _ => None
    end.
End DoAttributes.

Definition do_attribute := do_attribute_with unpack.
Definition do_attributes := do_attributes_with unpack.
Definition attribute_query_s := attribute_query_s_with unpack.
Definition do_attribute_v0 := do_attribute_with unpack_v0.
Definition do_attributes_v0 := do_attributes_with unpack_v0.
Definition attribute_query_s_v0 := attribute_query_s_with unpack_v0.

(* ================================================================== "one of" builders *)
(* create_name_id_mapping_request (client_base.py): name_id wins over base_id wins over encrypted_id *)
Record nim_args := {
  nim_entityid : string;
  nim_destination : option string;
  nim_policy : tree;                       (* the NameIDPolicy instance *)
  nim_name_id : option tree;
  nim_base_id : option tree;
  nim_encrypted_id : option tree;
  nim_consent : bool;
  nim_extensions : option (list tree);
  nim_signing : signing;
  nim_ob : observed
}.

Definition is_none {A} (o : option A) : bool := match o with None => true | Some _ => false end.

Definition nim_base (a : nim_args) : option tree := if is_none (nim_name_id a) then nim_base_id a else None.
Definition nim_enc (a : nim_args) : option tree :=
  if is_none (nim_name_id a) && is_none (nim_base_id a) then nim_encrypted_id a else None.

Definition name_id_mapping_request (a : nim_args) : option obj :=
  if is_none (nim_name_id a) && is_none (nim_base_id a) && is_none (nim_encrypted_id a) then None   (* ValueError *)
  else
    match sig_member (nim_signing a) (nim_ob a) with
    | Some sg =>
        Some (message k_samlp_NameIDMappingRequest (nim_entityid a) (nim_ob a) (nim_destination a) (nim_consent a)
                      (match nim_extensions a with Some c => Some (o_extensions c) | None => None end) sg
                      []
                      [(qa "BaseID", map (ORaw (CK k_saml_BaseID)) (opt_list (nim_base a)));
                       (qa "NameID", map (ORaw (CK k_saml_NameID)) (opt_list (nim_name_id a)));
                       (qa "EncryptedID", map (ORaw (CK k_saml_EncryptedID)) (opt_list (nim_enc a)));
                       (qp "NameIDPolicy", [ORaw (CK k_samlp_NameIDPolicy) (nim_policy a)])])
    | None => None
    end.

(* create_manage_name_id_request (entity.py): name_id, else encrypted_id; new_id, else new_encrypted_id, else
   terminate; AttributeError when a group is empty *)
Record mni_args := {
  mni_entityid : string;
  mni_destination : option string;
  mni_name_id : option tree;
  mni_encrypted_id : option tree;
  mni_new_id : option string;              (* text of the NewID instance *)
  mni_new_encrypted_id : option tree;
  mni_terminate : bool;
  mni_consent : bool;
  mni_extensions : option (list tree);
  mni_signing : signing;
  mni_ob : observed
}.

Definition mni_who (a : mni_args) : option (list obj * list obj) :=
  match mni_name_id a, mni_encrypted_id a with
  | Some n, _ => Some ([ORaw (CK k_saml_NameID) n], [])
  | None, Some e => Some ([], [ORaw (CK k_saml_EncryptedID) e])
  | None, None => None
  end.

Definition mni_what (a : mni_args) : option (list obj * list obj * list obj) :=
  match mni_new_id a, mni_new_encrypted_id a, mni_terminate a with
  | Some s, _, _ => Some ([Obj k_samlp_NewID [] (Some s) [] []], [], [])
  | None, Some e, _ => Some ([], [ORaw (CK k_samlp_NewEncryptedID) e], [])
  | None, None, true => Some ([], [], [Obj k_samlp_Terminate [] None [] []])
  | None, None, false => None
  end.

Definition manage_name_id_request (a : mni_args) : option obj :=
  match mni_who a, mni_what a, sig_member (mni_signing a) (mni_ob a) with
  | Some (nid, eid), Some (new, newenc, term), Some sg =>
      Some (message k_samlp_ManageNameIDRequest (mni_entityid a) (mni_ob a) (mni_destination a) (mni_consent a)
                    (match mni_extensions a with Some c => Some (o_extensions c) | None => None end) sg
                    []
                    [(qa "NameID", nid); (qa "EncryptedID", eid);
                     (qp "NewID", new); (qp "NewEncryptedID", newenc); (qp "Terminate", term)])
  | _, _, _ => None
  end.

(* ================================================================== create_authn_query_response: the assertions *)
Definition aqr_assertion (entityid id instant : string) (subject : tree) (statement : tree) : obj :=
  Obj k_saml_Assertion
      [at_ "Version" (Some VERSION); at_ "ID" (Some id); at_ "IssueInstant" (Some instant)] None
      [(qa "Issuer", [o_issuer entityid]); (qa "Subject", [ORaw (CK k_saml_Subject) subject]);
       (qa "AuthnStatement", [ORaw (CK k_saml_AuthnStatement) statement])] [].

(* before fix 8ef9e86e: margs = self.message_args() was evaluated ONCE; every statement found got
   Assertion(authn_statement=statement, subject=subject, **margs): one id, one instant, one issuer for all *)
Definition aqr_assertions_v0 (entityid id instant : string) (subject : tree) (statements : list tree) : list obj :=
  map (aqr_assertion entityid id instant subject) statements.

(* as coded now: message_args() per assertion — each statement comes with the identifier sid() drew for it *)
Definition aqr_assertions (entityid instant : string) (subject : tree) (ids_statements : list (string * tree)) : list obj :=
  map (fun p => aqr_assertion entityid (fst p) instant subject (snd p)) ids_statements.

(* ------------------------------------------------------------------ the correspondence's additional builder inputs *)
Inductive xinfo :=
| XBNone
| XBAttributeQuery (a : aq_args) (specs : list (akey * aspec))
| XBNameIDMappingRequest (a : nim_args)
| XBManageNameIDRequest (a : mni_args).

Definition xmodel_obj (b : xinfo) : option (option obj) :=
  match b with
  | XBNone => None
  | XBAttributeQuery a specs => Some (attribute_query_s a specs)
  | XBNameIDMappingRequest a => Some (name_id_mapping_request a)
  | XBManageNameIDRequest a => Some (manage_name_id_request a)
  end.

Definition xmodel_tree (b : xinfo) : option (option tree) :=
  match xmodel_obj b with
  | None => None
  | Some None => Some None
  | Some (Some o) => Some (Some (to_tree live_table o))
  end.

(* what the code did before fix bf274fc5 for the same arguments (class 8 recognises a regression by it) *)
Definition xmodel_tree_v0 (b : xinfo) : option (option tree) :=
  match b with
  | XBAttributeQuery a specs =>
      Some (match attribute_query_s_v0 a specs with Some o => Some (to_tree live_table o) | None => None end)
  | _ => None
  end.
