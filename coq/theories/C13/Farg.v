(* C13/Farg.v — the `farg` argument tree of Server.create_authn_response / create_attribute_response /
   setup_assertion, and what becomes of it: saml2.argtree.is_set / add_path, Server.update_farg (server.py 299-342),
   s_utils.factory, assertion.do_subject_confirmation / do_subject (assertion.py 720-757), restated as coded.

   The caller may hand in any nested dictionary; update_farg promises to fill in what was left out
   (SubjectConfirmation/@Method = bearer, SubjectConfirmationData/@InResponseTo, /@Recipient) and to keep what
   was given.  The tree is untyped on purpose: dictionaries, strings, None, element instances and lists may sit
   anywhere, and a subscript into something that is not a dictionary raises (None below). *)
From Coq Require Import String Ascii List Bool Arith NArith Lia.
From Verif Require Import Base.Str C13.Model C13.Builders.
From VerifGen Require Import C13Tables.
Import ListNotations.
Open Scope string_scope.
Open Scope list_scope.
Open Scope nat_scope.

(* ------------------------------------------------------------------ argument trees *)
Inductive arg :=
| FNone
| FStr (s : string)
| FInst (t : tree)                        (* an element instance of the caller, known by its serialisation *)
| FDict (l : list (string * arg))         (* a dict: keys in insertion order, no key twice *)
| FList (l : list arg).

Fixpoint lookup (k : string) (l : list (string * arg)) : option arg :=
  match l with
  | [] => None
  | (k', v) :: r => if String.eqb k k' then Some v else lookup k r
  end.

(* d[k] = v : replaces in place, or appends *)
Fixpoint set (k : string) (v : arg) (l : list (string * arg)) : list (string * arg) :=
  match l with
  | [] => [(k, v)]
  | (k', v') :: r => if String.eqb k k' then (k, v) :: r else (k', v') :: set k v r
  end.

Definition has_key (k : string) (l : list (string * arg)) : bool :=
  match lookup k l with Some _ => true | None => false end.

Definition is_fnone (a : arg) : bool := match a with FNone => true | _ => false end.

(* t[p1][p2]...: None = a key is missing or a subscript hits something that is not a dict *)
Fixpoint get (t : arg) (path : list string) : option arg :=
  match path with
  | [] => Some t
  | s :: r => match t with
              | FDict l => match lookup s l with Some t' => get t' r | None => None end
              | _ => None
              end
  end.

(* argtree.is_set: KeyError -> False; the value at the end is not None -> True.  Only KeyError is caught: a
   subscript into None / a str / a list / an instance is a TypeError that escapes (None here) *)
Fixpoint is_set (t : arg) (path : list string) : option bool :=
  match path with
  | [] => Some (negb (is_fnone t))
  | s :: r => match t with
              | FDict l => match lookup s l with Some t' => is_set t' r | None => Some false end
              | _ => None
              end
  end.

(* argtree.add_path(tdict, steps ++ [key; value]): walk down, creating {} where a step is missing, then assign *)
Fixpoint add_path (t : arg) (steps : list string) (key : string) (v : arg) : option arg :=
  match t with
  | FDict l =>
      match steps with
      | [] => Some (FDict (set key v l))
      | s :: r =>
          match add_path (match lookup s l with Some t' => t' | None => FDict [] end) r key v with
          | Some t'' => Some (FDict (set s t'' l))
          | None => None
          end
      end
  | _ => None
  end.

(* ------------------------------------------------------------------ Server.update_farg *)
Definition SCM_BEARER := "urn:oasis:names:tc:SAML:2.0:cm:bearer".
Definition SCM_HOLDER_OF_KEY := "urn:oasis:names:tc:SAML:2.0:cm:holder-of-key".

Definition SC : list string := ["assertion"; "subject"; "subject_confirmation"].
Definition SCD : list string := SC ++ ["subject_confirmation_data"].
Definition P_METHOD : list string := SC ++ ["method"].
Definition P_IRT : list string := SCD ++ ["in_response_to"].
Definition P_RECIPIENT : list string := SCD ++ ["recipient"].

Definition ostr (o : option string) : arg := match o with Some s => FStr s | None => FNone end.

(* `not farg` *)
Definition falsy (f : arg) : bool :=
  match f with
  | FNone | FDict [] | FList [] => true
  | FStr s => is_empty s
  | _ => false
  end.

(* if not is_set(farg, steps + [key]): add_path(farg, steps + [key, v]) *)
Definition default_if_unset (f : arg) (steps : list string) (key : string) (v : arg) : option arg :=
  match is_set f (steps ++ [key]) with
  | None => None
  | Some true => Some f
  | Some false => add_path f steps key v
  end.

Definition fresh_farg (irt url : option string) : arg :=
  FDict [("assertion", FDict [("subject", FDict [("subject_confirmation",
     FDict [("method", FStr SCM_BEARER);
            ("subject_confirmation_data", FDict [("in_response_to", ostr irt); ("recipient", ostr url)])])])])].

Definition update_farg (irt url : option string) (farg : arg) : option arg :=
  if falsy farg then Some (fresh_farg irt url)
  else
    match default_if_unset farg SC "method" (FStr SCM_BEARER) with
    | None => None
    | Some f1 =>
        match default_if_unset f1 SCD "in_response_to" (ostr irt) with
        | None => None
        | Some f2 => default_if_unset f2 SCD "recipient" (ostr url)
        end
    end.

(* ------------------------------------------------------------------ s_utils.factory on the classes involved *)
(* an attribute member: Some None = left unset.  A dict there makes factory look for a child class that does not
   exist (TypeError), an instance / list cannot be written as an attribute value *)
Definition attr_val (o : option arg) : option (option string) :=
  match o with
  | None | Some FNone => Some None
  | Some (FStr s) => Some (Some s)
  | Some _ => None
  end.

Fixpoint insts (l : list arg) : option (list tree) :=
  match l with
  | [] => Some []
  | FInst t :: r => match insts r with Some ts => Some (t :: ts) | None => None end
  | _ :: _ => None
  end.

(* a child member of class k: nothing, an instance, a dict (factory recurses with [mk]), a list of instances; a
   str cannot be serialised as a child *)
Definition child_val (k : nat) (mk : list (string * arg) -> option obj) (o : option arg) : option (list obj) :=
  match o with
  | None | Some FNone => Some []
  | Some (FInst t) => Some [ORaw (CK k) t]
  | Some (FDict d) => match mk d with Some x => Some [x] | None => None end
  | Some (FList l) => match insts l with Some ts => Some (map (ORaw (CK k)) ts) | None => None end
  | Some (FStr _) => None
  end.

(* a dict under a key that names no child: factory(None, ...) raises; any other value under an unknown key is
   set as a plain Python attribute and never written *)
Definition unknown_dict (known : list string) (d : list (string * arg)) : bool :=
  existsb (fun kv => negb (mem (fst kv) known) && match snd kv with FDict _ => true | _ => false end) d.

Definition name_id_of (d : list (string * arg)) : option obj :=
  if unknown_dict ["name_qualifier"; "sp_name_qualifier"; "format"; "sp_provided_id"; "text"] d then None
  else match attr_val (lookup "name_qualifier" d), attr_val (lookup "sp_name_qualifier" d), attr_val (lookup "format" d),
             attr_val (lookup "sp_provided_id" d), attr_val (lookup "text" d) with
       | Some nq, Some spnq, Some fmt, Some spid, Some text =>
           Some (Obj k_saml_NameID [at_ "NameQualifier" nq; at_ "SPNameQualifier" spnq; at_ "Format" fmt; at_ "SPProvidedID" spid]
                     text [] [])
       | _, _, _, _, _ => None
       end.

(* BaseID / EncryptedID given as a dict are outside the model (the first is abstract, the second holds cipher data) *)
Definition no_dict (_ : list (string * arg)) : option obj := None.

(* factory(SubjectConfirmationData, **d), then _scd.not_on_or_after = not_on_or_after; [ext]: the key info of a
   holder-of-key confirmation *)
Definition scd_of (noa : string) (ext : list tree) (d : list (string * arg)) : option obj :=
  if unknown_dict ["not_before"; "not_on_or_after"; "recipient"; "in_response_to"; "address"] d then None
  else match lookup "not_on_or_after" d with
       | Some (FDict _) => None
       | _ =>
           match attr_val (lookup "not_before" d), attr_val (lookup "recipient" d), attr_val (lookup "in_response_to" d),
                 attr_val (lookup "address" d) with
           | Some nb, Some rc, Some irt, Some ad =>
               Some (Obj k_saml_SubjectConfirmationData
                         [at_ "NotBefore" nb; at_ "NotOnOrAfter" (Some noa); at_ "Recipient" rc; at_ "InResponseTo" irt;
                          at_ "Address" ad] None [] ext)
           | _, _, _, _ => None
           end
       end.

Fixpoint remove_key (k : string) (l : list (string * arg)) : list (string * arg) :=
  match l with
  | [] => []
  | (k', v) :: r => if String.eqb k k' then remove_key k r else (k', v) :: remove_key k r
  end.

(* do_subject_confirmation(not_on_or_after, key_info=None, **treeargs) *)
Definition sc_of (noa : string) (specs : list (string * arg)) : option obj :=
  if has_key "not_on_or_after" specs then None                     (* TypeError: multiple values for the argument *)
  else
    let key_info := lookup "key_info" specs in
    let d := remove_key "key_info" specs in
    if unknown_dict ["method"; "base_id"; "name_id"; "encrypted_id"; "subject_confirmation_data"] d then None
    else
      match attr_val (lookup "method" d),
            child_val k_saml_BaseID no_dict (lookup "base_id" d),
            child_val k_saml_NameID name_id_of (lookup "name_id" d),
            child_val k_saml_EncryptedID no_dict (lookup "encrypted_id" d),
            lookup "subject_confirmation_data" d with
      | Some m, Some b, Some n, Some e, Some (FDict sd) =>
          let build (scd : obj) :=
            Obj k_saml_SubjectConfirmation [at_ "Method" m] None
                [(qa "BaseID", b); (qa "NameID", n); (qa "EncryptedID", e); (qa "SubjectConfirmationData", [scd])] [] in
          if opt_eqb String.eqb m (Some SCM_HOLDER_OF_KEY)
          then match key_info with
               | Some (FInst t) => match scd_of noa [t] sd with Some scd => Some (build scd) | None => None end
               | _ => None                                         (* add_extension_element(None / a dict) *)
               end
          else match scd_of noa [] sd with Some scd => Some (build scd) | None => None end
      | _, _, _, _, _ => None        (* no SubjectConfirmationData to put NotOnOrAfter on (unreachable behind update_farg) *)
      end.

Fixpoint scs_of (noa : string) (l : list arg) : option (list obj) :=
  match l with
  | [] => Some []
  | FDict specs :: r => match sc_of noa specs, scs_of noa r with
                        | Some x, Some xs => Some (x :: xs)
                        | _, _ => None
                        end
  | _ :: _ => None
  end.

(* ------------------------------------------------------------------ the Subject of the assertion *)
Record fa_args := {
  fa_farg : arg;                          (* the caller's farg; FNone: not given *)
  fa_in_response_to : option string;
  fa_consumer_url : option string;        (* create_authn_response: destination; create_attribute_response: sp_entity_id *)
  fa_name_id : option tree;               (* the NameID instance of the subject (the caller's, or the one the
                                             identifier database made: as observed) *)
  fa_not_on_or_after : string             (* policy.not_on_or_after(sp_entity_id): as the Conditions of the same assertion show it *)
}.

Definition subject_obj (name_id : option tree) (scs : list obj) : obj :=
  Obj k_saml_Subject [] None
      [(qa "NameID", map (ORaw (CK k_saml_NameID)) (opt_list name_id)); (qa "SubjectConfirmation", scs)] [].

(* update_farg, then Assertion.construct: do_subject(policy.not_on_or_after(sp), name_id, **farg["assertion"]["subject"]) *)
Definition subject_of (a : fa_args) : option obj :=
  match update_farg (fa_in_response_to a) (fa_consumer_url a) (fa_farg a) with
  | None => None
  | Some f =>
      match get f ["assertion"; "subject"] with
      | Some (FDict sd) =>
          if has_key "name_id" sd || has_key "not_on_or_after" sd then None    (* multiple values for the argument *)
          else match lookup "subject_confirmation" sd with
               | Some (FDict specs) =>
                   match sc_of (fa_not_on_or_after a) specs with
                   | Some sc => Some (subject_obj (fa_name_id a) [sc])
                   | None => None
                   end
               | Some (FList l) =>                                   (* unreachable behind update_farg: is_set raises on a list *)
                   match scs_of (fa_not_on_or_after a) l with
                   | Some scs => Some (subject_obj (fa_name_id a) scs)
                   | None => None
                   end
               | _ => None
               end
      | _ => None
      end
  end.

Definition subject_tree (a : fa_args) : option tree :=
  match subject_of a with Some o => Some (to_tree live_table o) | None => None end.

(* the Method attribute of every SubjectConfirmation member of a Subject object is set *)
Definition sc_has_method (o : obj) : bool :=
  match o with
  | Obj _ attrs _ _ _ => has_attr (Q "" "Method") (set_attrs attrs)
  | ORaw _ t => has_attr (Q "" "Method") (root_attrs t)
  end.

Definition subject_confirmations (o : obj) : list obj :=
  match o with Obj _ _ _ ms _ => assoc (qa "SubjectConfirmation") ms | ORaw _ _ => [] end.
