(* C05/Spec.v — the property over whole seconds (fractions dropped), equality second left free. *)
From Coq Require Import ZArith Bool List.
From Verif Require Import C05.Model.
Import ListNotations.
Open Scope Z_scope.

Definition sec (s : stamp) : Z := fst s.
Definition skew (x : input) : Z := match atd x with Some z => z | None => 0 end.

Definition uppers (tt : times) : list Z :=
  flat_map (fun o => match o with Some s => [sec s] | None => [] end) [cnooa tt; snooa tt; sess tt].
Definition lowers (tt : times) : list Z :=
  flat_map (fun o => match o with Some s => [sec s] | None => [] end) [cnb tt; snb tt].

Definition ordered (nb nooa : option stamp) : Prop :=
  match nb, nooa with Some a, Some b => sec a <= sec b | _, _ => True end.

Definition expected_expiry (tt : times) : option Z :=
  match sess tt, cnooa tt with
  | Some s, _ => Some (sec s)
  | None, Some c => Some (sec c)
  | None, None => None
  end.

(* soundness half: identity only inside every window (plus skew), bounds ordered, fresh IssueInstant,
   and the reported expiry is SessionNotOnOrAfter when present, otherwise Conditions NotOnOrAfter *)
Definition sound (x : input) (v : verdict) : Prop :=
  match v with
  | Reject => True
  | Accept reported =>
      (forall u, In u (uppers (t x)) -> now x <= u + skew x)
      /\ (forall l, In l (lowers (t x)) -> l - skew x <= now x)
      /\ ordered (cnb (t x)) (cnooa (t x)) /\ ordered (snb (t x)) (snooa (t x))
      /\ Z.abs (sec (issue (t x)) - now x) <= 86400 + skew x
      /\ (forall e, expected_expiry (t x) = Some e -> reported = e)
  end.

(* completeness half: strictly inside all windows it is accepted.  Interpretation recorded in
   DESIGN: bearer confirmation data that carries NotBefore must also carry NotOnOrAfter (the
   implementation rejects a one-sided lower bound), and skew is non-negative. *)
Definition strictly_inside (x : input) : Prop :=
  0 <= skew x
  /\ (forall u, In u (uppers (t x)) -> now x < u + skew x)
  /\ (forall l, In l (lowers (t x)) -> l - skew x < now x)
  /\ ordered (cnb (t x)) (cnooa (t x)) /\ ordered (snb (t x)) (snooa (t x))
  /\ (snb (t x) <> None -> snooa (t x) <> None)
  /\ Z.abs (sec (issue (t x)) - now x) < 86400 + skew x.

Definition spec (x : input) (v : verdict) : Prop :=
  sound x v /\ (strictly_inside x -> v <> Reject).

(* boolean versions *)
Definition ordered_b (nb nooa : option stamp) : bool :=
  match nb, nooa with Some a, Some b => sec a <=? sec b | _, _ => true end.

Definition opt_some_b {A} (o : option A) : bool := match o with Some _ => true | None => false end.

Definition sound_b (x : input) (v : verdict) : bool :=
  match v with
  | Reject => true
  | Accept reported =>
      forallb (fun u => now x <=? u + skew x) (uppers (t x))
      && forallb (fun l => l - skew x <=? now x) (lowers (t x))
      && ordered_b (cnb (t x)) (cnooa (t x)) && ordered_b (snb (t x)) (snooa (t x))
      && (Z.abs (sec (issue (t x)) - now x) <=? 86400 + skew x)
      && match expected_expiry (t x) with Some e => reported =? e | None => true end
  end.

Definition strictly_inside_b (x : input) : bool :=
  (0 <=? skew x)
  && forallb (fun u => now x <? u + skew x) (uppers (t x))
  && forallb (fun l => l - skew x <? now x) (lowers (t x))
  && ordered_b (cnb (t x)) (cnooa (t x)) && ordered_b (snb (t x)) (snooa (t x))
  && (negb (opt_some_b (snb (t x))) || opt_some_b (snooa (t x)))
  && (Z.abs (sec (issue (t x)) - now x) <? 86400 + skew x).

Definition spec_b (x : input) (v : verdict) : bool :=
  sound_b x v && (negb (strictly_inside_b x) || match v with Reject => false | Accept _ => true end).
