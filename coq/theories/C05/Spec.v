(* C05/Spec.v — the property over whole seconds (fractions dropped), equality second left free. *)
From Coq Require Import ZArith Bool List.
From Verif Require Import C05.Model.
Import ListNotations.
Open Scope Z_scope.

Definition sec (s : stamp) : Z := fst s.
Definition skew (x : input) : Z := match atd x with Some z => z | None => 0 end.

Definition uppers (tt : times) : list Z :=
  flat_map (fun o => match o with Some s => [sec s] | None => [] end) [cnooa tt; snooa tt; sess tt].
Definition lowers (tt : times) : list Z :=
  flat_map (fun o => match o with Some s => [sec s] | None => [] end) [cnb tt; snb tt].

Definition ordered (nb nooa : option stamp) : Prop :=
  match nb, nooa with Some a, Some b => sec a <= sec b | _, _ => True end.

Definition expected_expiry (tt : times) : option Z :=
  match sess tt, cnooa tt with
  | Some s, _ => Some (sec s)
  | None, Some c => Some (sec c)
  | None, None => None
  end.

(* soundness half: identity only inside every window (plus skew), bounds ordered, fresh IssueInstant,
   and the reported expiry is SessionNotOnOrAfter when present, otherwise Conditions NotOnOrAfter *)
Definition sound (x : input) (v : verdict) : Prop :=
  match v with
  | Reject => True
  | Accept reported =>
      (forall u, In u (uppers (t x)) -> now x <= u + skew x)
      /\ (forall l, In l (lowers (t x)) -> l - skew x <= now x)
      /\ ordered (cnb (t x)) (cnooa (t x)) /\ ordered (snb (t x)) (snooa (t x))
      /\ Z.abs (sec (issue (t x)) - now x) <= 86400 + skew x
      /\ (forall e, expected_expiry (t x) = Some e -> reported = e)
  end.

(* completeness half: strictly inside all windows it is accepted.  Interpretation recorded in
   DESIGN: bearer confirmation data that carries NotBefore must also carry NotOnOrAfter (the
   implementation rejects a one-sided lower bound), and skew is non-negative. *)
Definition strictly_inside (x : input) : Prop :=
  0 <= skew x
  /\ (forall u, In u (uppers (t x)) -> now x < u + skew x)
  /\ (forall l, In l (lowers (t x)) -> l - skew x < now x)
  /\ ordered (cnb (t x)) (cnooa (t x)) /\ ordered (snb (t x)) (snooa (t x))
  /\ (snb (t x) <> None -> snooa (t x) <> None)
  /\ Z.abs (sec (issue (t x)) - now x) < 86400 + skew x.

Definition spec (x : input) (v : verdict) : Prop :=
  sound x v /\ (strictly_inside x -> v <> Reject).

(* boolean versions *)
Definition ordered_b (nb nooa : option stamp) : bool :=
  match nb, nooa with Some a, Some b => sec a <=? sec b | _, _ => true end.

Definition opt_some_b {A} (o : option A) : bool := match o with Some _ => true | None => false end.

Definition sound_b (x : input) (v : verdict) : bool :=
  match v with
  | Reject => true
  | Accept reported =>
      forallb (fun u => now x <=? u + skew x) (uppers (t x))
      && forallb (fun l => l - skew x <=? now x) (lowers (t x))
      && ordered_b (cnb (t x)) (cnooa (t x)) && ordered_b (snb (t x)) (snooa (t x))
      && (Z.abs (sec (issue (t x)) - now x) <=? 86400 + skew x)
      && match expected_expiry (t x) with Some e => reported =? e | None => true end
  end.

Definition strictly_inside_b (x : input) : bool :=
  (0 <=? skew x)
  && forallb (fun u => now x <? u + skew x) (uppers (t x))
  && forallb (fun l => l - skew x <? now x) (lowers (t x))
  && ordered_b (cnb (t x)) (cnooa (t x)) && ordered_b (snb (t x)) (snooa (t x))
  && (negb (opt_some_b (snb (t x))) || opt_some_b (snooa (t x)))
  && (Z.abs (sec (issue (t x)) - now x) <? 86400 + skew x).

Definition spec_b (x : input) (v : verdict) : bool :=
  sound_b x v && (negb (strictly_inside_b x) || match v with Reject => false | Accept _ => true end).

(* ====================================================================================================
   The property over the whole message (Model.message: any delivery, Conditions or none, any number of bearer
   confirmations and AuthnStatements).  Written from the property text:
     - no identity when now is later than a SessionNotOnOrAfter (of ANY AuthnStatement) plus skew, outside the
       Conditions window (when there are Conditions), or when no bearer confirmation has a window that holds now
       (plus skew) with ordered bounds (saml-core/profiles: ONE confirmation that holds confirms the subject);
       nor when the Response IssueInstant is more than a day plus skew away — whatever the delivery;
     - the expiry reported is a SessionNotOnOrAfter when one is present, otherwise the Conditions NotOnOrAfter;
     - strictly inside all windows it is accepted.  Interpretations for the completeness half: the delivery is
       one the SP can unpack (POST, Redirect, SOAP), the Response is not addressed to somebody else, there is
       exactly one AuthnStatement (saml2int; the implementation refuses any other number), and every bearer
       confirmation has data (with NotOnOrAfter when it has NotBefore) and is strictly inside. *)
Definition xskew (x : xinput) : Z := match xatd x with Some z => z | None => 0 end.

Definition lower_ok (n k : Z) (o : option stamp) : Prop := match o with Some a => sec a - k <= n | None => True end.
Definition upper_ok (n k : Z) (o : option stamp) : Prop := match o with Some b => n <= sec b + k | None => True end.
Definition w_inside (n k : Z) (w : window) : Prop :=
  lower_ok n k (fst w) /\ upper_ok n k (snd w) /\ ordered (fst w) (snd w).

Definition lower_strict (n k : Z) (o : option stamp) : Prop := match o with Some a => sec a - k < n | None => True end.
Definition upper_strict (n k : Z) (o : option stamp) : Prop := match o with Some b => n < sec b + k | None => True end.
Definition w_strict (n k : Z) (w : window) : Prop :=
  lower_strict n k (fst w) /\ upper_strict n k (snd w) /\ ordered (fst w) (snd w).

Definition present {A} (l : list (option A)) : list A :=
  flat_map (fun o => match o with Some a => [a] | None => [] end) l.

(* the expiry the application is told *)
Definition xexpiry_ok (m : message) (reported : Z) : Prop :=
  match present (m_statements m) with
  | _ :: _ => In reported (map sec (present (m_statements m)))
  | [] => match m_conditions m with
          | Some (_, Some c) => reported = sec c
          | _ => True
          end
  end.

Definition xsound (x : xinput) (v : verdict) : Prop :=
  match v with
  | Reject => True
  | Accept reported =>
      let m := xm x in
      (forall s, In s (m_statements m) -> upper_ok (xnow x) (xskew x) s)
      /\ (forall w, m_conditions m = Some w -> w_inside (xnow x) (xskew x) w)
      /\ (exists w, In (Some w) (m_confirmations m) /\ w_inside (xnow x) (xskew x) w)
      /\ Z.abs (sec (m_issue m) - xnow x) <= 86400 + xskew x
      /\ xexpiry_ok m reported
  end.

Definition xstrictly_inside (x : xinput) : Prop :=
  let m := xm x in
  0 <= xskew x
  /\ unravels (m_binding m) = true /\ m_destination m <> Some false
  /\ (exists s, m_statements m = [s] /\ upper_strict (xnow x) (xskew x) s)
  /\ (forall w, m_conditions m = Some w -> w_strict (xnow x) (xskew x) w)
  /\ m_confirmations m <> []
  /\ (forall d, In d (m_confirmations m) ->
        exists w, d = Some w /\ w_strict (xnow x) (xskew x) w /\ (fst w <> None -> snd w <> None))
  /\ Z.abs (sec (m_issue m) - xnow x) < 86400 + xskew x.

Definition xspec (x : xinput) (v : verdict) : Prop :=
  xsound x v /\ (xstrictly_inside x -> v <> Reject).

(* boolean versions *)
Definition lower_ok_b (n k : Z) (o : option stamp) : bool := match o with Some a => sec a - k <=? n | None => true end.
Definition upper_ok_b (n k : Z) (o : option stamp) : bool := match o with Some b => n <=? sec b + k | None => true end.
Definition w_inside_b (n k : Z) (w : window) : bool :=
  lower_ok_b n k (fst w) && upper_ok_b n k (snd w) && ordered_b (fst w) (snd w).
Definition lower_strict_b (n k : Z) (o : option stamp) : bool := match o with Some a => sec a - k <? n | None => true end.
Definition upper_strict_b (n k : Z) (o : option stamp) : bool := match o with Some b => n <? sec b + k | None => true end.
Definition w_strict_b (n k : Z) (w : window) : bool :=
  lower_strict_b n k (fst w) && upper_strict_b n k (snd w) && ordered_b (fst w) (snd w).

Definition xexpiry_ok_b (m : message) (reported : Z) : bool :=
  match present (m_statements m) with
  | _ :: _ => existsb (fun e => reported =? e) (map sec (present (m_statements m)))
  | [] => match m_conditions m with
          | Some (_, Some c) => reported =? sec c
          | _ => true
          end
  end.

Definition xsound_b (x : xinput) (v : verdict) : bool :=
  match v with
  | Reject => true
  | Accept reported =>
      let m := xm x in
      forallb (upper_ok_b (xnow x) (xskew x)) (m_statements m)
      && match m_conditions m with Some w => w_inside_b (xnow x) (xskew x) w | None => true end
      && existsb (fun d => match d with Some w => w_inside_b (xnow x) (xskew x) w | None => false end)
                 (m_confirmations m)
      && (Z.abs (sec (m_issue m) - xnow x) <=? 86400 + xskew x)
      && xexpiry_ok_b m reported
  end.

Definition xstrictly_inside_b (x : xinput) : bool :=
  let m := xm x in
  (0 <=? xskew x)
  && unravels (m_binding m) && match m_destination m with Some false => false | _ => true end
  && match m_statements m with [s] => upper_strict_b (xnow x) (xskew x) s | _ => false end
  && match m_conditions m with Some w => w_strict_b (xnow x) (xskew x) w | None => true end
  && match m_confirmations m with [] => false | _ => true end
  && forallb (fun d => match d with
                       | Some w => w_strict_b (xnow x) (xskew x) w && (negb (opt_some_b (fst w)) || opt_some_b (snd w))
                       | None => false
                       end) (m_confirmations m)
  && (Z.abs (sec (m_issue m) - xnow x) <? 86400 + xskew x).

Definition xspec_b (x : xinput) (v : verdict) : bool :=
  xsound_b x v && (negb (xstrictly_inside_b x) || match v with Reject => false | Accept _ => true end).

(* ====================================================================================================
   The property over a DECORATED message (Model.dinput: every confirmation has a method, its data may name an Address
   and carry a KeyInfo; the application may name the peer).  Written from the property text; the decorations appear in
   it only as far as the text speaks of them:
     - soundness: as [xsound], where "a bearer confirmation whose window holds now" is asked of the confirmations
       whose method IS bearer (the property does not speak about the windows of holder-of-key / sender-vouches
       confirmations: one of those may confirm the subject in place of a bearer one; an unknown method confirms
       nothing), AND read literally: no identity while the current time is outside the bounds (plus skew) of ANY bearer
       SubjectConfirmationData — whatever Address, KeyInfo or neighbours it has.  Address, KeyInfo and the peer's
       address occur nowhere else: they have no bearing on a validity window;
     - completeness: strictly inside all windows it is accepted — for a message all of whose confirmations are
       bearer, whose Addresses (when present) are IPv4/IPv6 texts naming the peer the application reports (when it
       reports one), and whose Recipient is an endpoint of the SP when the application gives conversation info. *)
Definition dconfs (x : dinput) : list (option window * decor) := zipd (m_confirmations (xm (d_x x))) (d_decor x).

Definition confirms (n k : Z) (c : option window * decor) : Prop :=
  match k_method (snd c) with
  | MBearer => match fst c with Some w => w_inside n k w | None => False end
  | MHolderOfKey | MSenderVouches => True
  | MOther => False
  end.

Definition bearer_bounds (n k : Z) (c : option window * decor) : Prop :=
  match k_method (snd c), fst c with
  | MBearer, Some w => lower_ok n k (fst w) /\ upper_ok n k (snd w)
  | _, _ => True
  end.

Definition dsound (x : dinput) (v : verdict) : Prop :=
  match v with
  | Reject => True
  | Accept reported =>
      let m := xm (d_x x) in
      let n := xnow (d_x x) in
      let k := xskew (d_x x) in
      (forall s, In s (m_statements m) -> upper_ok n k s)
      /\ (forall w, m_conditions m = Some w -> w_inside n k w)
      /\ (forall c, In c (dconfs x) -> bearer_bounds n k c)
      /\ (exists c, In c (dconfs x) /\ confirms n k c)
      /\ Z.abs (sec (m_issue m) - n) <= 86400 + k
      /\ xexpiry_ok m reported
  end.

Definition names_peer (r : remote) (a : address) : Prop :=
  match r, a with
  | RAddr j, AWell i => i = j
  | _, AMal _ => False
  | _, _ => True
  end.

Definition dstrictly_inside (x : dinput) : Prop :=
  xstrictly_inside (d_x x)
  /\ (forall c, In c (dconfs x) -> k_method (snd c) = MBearer /\ names_peer (d_remote x) (k_address (snd c)))
  /\ (d_remote x = RNone \/ d_served x = true).

Definition dspec (x : dinput) (v : verdict) : Prop :=
  dsound x v /\ (dstrictly_inside x -> v <> Reject).

(* boolean versions *)
Definition confirms_b (n k : Z) (c : option window * decor) : bool :=
  match k_method (snd c) with
  | MBearer => match fst c with Some w => w_inside_b n k w | None => false end
  | MHolderOfKey | MSenderVouches => true
  | MOther => false
  end.

Definition bearer_bounds_b (n k : Z) (c : option window * decor) : bool :=
  match k_method (snd c), fst c with
  | MBearer, Some w => lower_ok_b n k (fst w) && upper_ok_b n k (snd w)
  | _, _ => true
  end.

Definition dsound_b (x : dinput) (v : verdict) : bool :=
  match v with
  | Reject => true
  | Accept reported =>
      let m := xm (d_x x) in
      let n := xnow (d_x x) in
      let k := xskew (d_x x) in
      forallb (upper_ok_b n k) (m_statements m)
      && match m_conditions m with Some w => w_inside_b n k w | None => true end
      && forallb (bearer_bounds_b n k) (dconfs x)
      && existsb (confirms_b n k) (dconfs x)
      && (Z.abs (sec (m_issue m) - n) <=? 86400 + k)
      && xexpiry_ok_b m reported
  end.

Definition names_peer_b (r : remote) (a : address) : bool :=
  match r, a with
  | RAddr j, AWell i => i =? j
  | _, AMal _ => false
  | _, _ => true
  end.

Definition is_bearer (m : method) : bool := match m with MBearer => true | _ => false end.

Definition dstrictly_inside_b (x : dinput) : bool :=
  xstrictly_inside_b (d_x x)
  && forallb (fun c => is_bearer (k_method (snd c)) && names_peer_b (d_remote x) (k_address (snd c))) (dconfs x)
  && (match d_remote x with RNone => true | _ => false end || d_served x).

Definition dspec_b (x : dinput) (v : verdict) : bool :=
  dsound_b x v && (negb (dstrictly_inside_b x) || match v with Reject => false | Accept _ => true end).
