From Coq Require Import ZArith Bool List String.
From Verif Require Import Base.Run C05.Model C05.Spec C05.Time.
Import ListNotations.
Open Scope Z_scope.

(* four kinds of case: a whole Response of the usual shape through the acceptance path (HTTP-POST, Conditions,
   one bearer confirmation, one AuthnStatement); a whole Response of ANY shape (delivery, Destination, encrypted
   or not, Conditions or none, several confirmations / AuthnStatements: Model.message); such a Response whose
   confirmations are DECORATED (method, Address, KeyInfo) and for which the application may name the peer
   (Model.dinput); or one time-stamp TEXT through
   calendar.timegm(time_util.str_to_time(text)) (observed: the seconds, or the exception class) *)
Inductive case := CAccept (x : input) (v : verdict) | CMsg (x : xinput) (v : verdict) | CDec (x : dinput) (v : verdict)
  | CTime (s : string) (r : tres).

Definition mk (now : Z) (atd : option Z) (cnb cnooa snb snooa sess : option stamp) (issue : stamp)
  (obs : verdict) : case :=
  CAccept {| now := now; atd := atd;
      t := {| cnb := cnb; cnooa := cnooa; snb := snb; snooa := snooa; sess := sess; issue := issue |} |} obs.

Definition mkx (now : Z) (atd : option Z) (b : binding) (dest : option bool) (enc : bool) (issue : stamp)
  (cond : option window) (confs : list (option window)) (stmts : list (option stamp)) (obs : verdict) : case :=
  CMsg {| xnow := now; xatd := atd;
          xm := {| m_binding := b; m_destination := dest; m_encrypted := enc; m_issue := issue; m_conditions := cond;
                   m_confirmations := confs; m_statements := stmts |} |} obs.

(* decoration of one confirmation: method, Address, KeyInfo *)
Definition dk (m : method) (a : address) (ki : bool) : decor := {| k_method := m; k_address := a; k_keyinfo := ki |}.

Definition mkd (now : Z) (atd : option Z) (b : binding) (dest : option bool) (enc : bool) (issue : stamp)
  (cond : option window) (confs : list (option window)) (stmts : list (option stamp))
  (decs : list decor) (r : remote) (served : bool) (obs : verdict) : case :=
  CDec {| d_x := {| xnow := now; xatd := atd;
                    xm := {| m_binding := b; m_destination := dest; m_encrypted := enc; m_issue := issue; m_conditions := cond;
                             m_confirmations := confs; m_statements := stmts |} |};
          d_decor := decs; d_remote := r; d_served := served |} obs.

Definition verdict_eqb (a b : verdict) : bool :=
  match a, b with
  | Reject, Reject => true
  | Accept x, Accept y => x =? y
  | _, _ => false
  end.

Definition agrees (c : case) : bool :=
  match c with
  | CAccept x v => verdict_eqb (accept x) v
  | CMsg x v => verdict_eqb (xaccept x) v
  | CDec x v => verdict_eqb (daccept x) v
  | CTime s r => tres_eqb (str_to_secs s) r
  end.
(* the property speaks about acceptance; for a text case the spec is what C05 needs from the reader: a text
   that denotes a calendar date and time of day in the strptime format is read as exactly that second *)
Definition holds (c : case) : bool :=
  match c with
  | CAccept x v => spec_b x v
  | CMsg x v => xspec_b x v
  | CDec x v => dspec_b x v
  | CTime s r => match strptime s, r with
                 | Some f, TVal z => Z.eqb z (timegm f)     (* a well-formed calendar text reads as that second *)
                 | Some f, _ => negb (timegm f <? Y10K)%Z   (* ... unless it lies beyond year 9999 (leap second 9999-12-31T23:59:60) *)
                 | None, _ => true
                 end
  end.
Definition cls (c : case) : nat := 0.
Definition run := run_cases agrees holds cls.
Definition explain (c : case) :=
  match c with
  | CAccept x v => (Some (accept x, sound_b x v, strictly_inside_b x), None)
  | CMsg x v => (Some (xaccept x, xsound_b x v, xstrictly_inside_b x), None)
  | CDec x v => (Some (daccept x, dsound_b x v, dstrictly_inside_b x), None)
  | CTime s r => (None, Some (str_to_secs s, strptime s, frag s))
  end.
