From Coq Require Import ZArith Bool List.
From Verif Require Import Base.Run C05.Model C05.Spec.
Import ListNotations.
Open Scope Z_scope.

Definition case := (input * verdict)%type.

Definition mk (now : Z) (atd : option Z) (cnb cnooa snb snooa sess : option stamp) (issue : stamp)
  (obs : verdict) : case :=
  ({| now := now; atd := atd;
      t := {| cnb := cnb; cnooa := cnooa; snb := snb; snooa := snooa; sess := sess; issue := issue |} |}, obs).

Definition verdict_eqb (a b : verdict) : bool :=
  match a, b with
  | Reject, Reject => true
  | Accept x, Accept y => x =? y
  | _, _ => false
  end.

Definition agrees (c : case) : bool := verdict_eqb (accept (fst c)) (snd c).
Definition holds (c : case) : bool := spec_b (fst c) (snd c).
Definition cls (c : case) : nat := 0.
Definition run := run_cases agrees holds cls.
Definition explain (c : case) := (accept (fst c), sound_b (fst c) (snd c), strictly_inside_b (fst c)).
