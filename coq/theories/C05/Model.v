(* C05/Model.v — time checks of the SP acceptance path, as coded.
   Mirrors: validate.validate_on_or_after / validate_before (94-116), time_util.later_than,
   StatusResponse.issue_instant_ok (393-400), AuthnResponse.authn_statement_ok (555-572),
   condition_ok (575-608), _bearer_confirmed (681-712), session_info (1070-1100),
   skew plumbing entity.py 1409-1410.  Time is Z seconds since the epoch. *)
From Coq Require Import ZArith Bool List.
Import ListNotations.
Open Scope Z_scope.

(* a timestamp as it appears in the document: whole seconds + "had a fractional part";
   time_util.str_to_time drops the fraction *)
Definition stamp := (Z * bool)%type.
Definition str_to_time (s : stamp) : Z := fst s.

Record times := {
  cnb : option stamp;      (* Conditions/@NotBefore *)
  cnooa : option stamp;    (* Conditions/@NotOnOrAfter *)
  snb : option stamp;      (* SubjectConfirmationData/@NotBefore *)
  snooa : option stamp;    (* SubjectConfirmationData/@NotOnOrAfter *)
  sess : option stamp;     (* AuthnStatement/@SessionNotOnOrAfter *)
  issue : stamp            (* Response/@IssueInstant *)
}.

Record input := {
  now : Z;                       (* virtual clock *)
  atd : option Z;                (* config accepted_time_diff: None = unset *)
  t : times
}.

(* entity._parse_response: kwargs["timeslack"] only when accepted_time_diff is truthy *)
Definition timeslack (a : option Z) : Z :=
  match a with
  | Some z => if z =? 0 then 0 else z
  | None => 0
  end.

(* validate_on_or_after: None = raises ResponseLifetimeExceed; Some v = returns v (0 for absent) *)
Definition validate_on_or_after (now slack : Z) (b : option stamp) : option Z :=
  match b with
  | None => Some 0
  | Some s => let nooa := str_to_time s in if now >? nooa + slack then None else Some nooa
  end.

(* validate_before: false = raises ToEarly *)
Definition validate_before (now slack : Z) (b : option stamp) : bool :=
  match b with
  | None => true
  | Some s => negb (str_to_time s >? now + slack)
  end.

(* time_util.later_than(after, before) *)
Definition later_than (a b : option stamp) : bool :=
  match b, a with
  | None, _ => true
  | Some _, None => false
  | Some y, Some x => str_to_time x >=? str_to_time y
  end.

(* issue_instant_ok: struct_time comparison; the lower bound (built with datetime.timetuple(),
   tm_isdst = -1) compares below an equal gmtime() value (tm_isdst = 0): lower inclusive,
   upper exclusive *)
Definition issue_instant_ok (now slack : Z) (i : stamp) : bool :=
  (now - 86400 - slack <=? str_to_time i) && (str_to_time i <? now + 86400 + slack).

Inductive verdict := Accept (reported_not_on_or_after : Z) | Reject.

Definition accept (x : input) : verdict :=
  let sl := timeslack (atd x) in
  let n := now x in
  let tt := t x in
  if negb (issue_instant_ok n sl (issue tt)) then Reject else
  (* authn_statement_ok *)
  match validate_on_or_after n sl (sess tt) with
  | None => Reject
  | Some session =>
    (* condition_ok *)
    if match cnb tt, cnooa tt with Some _, Some _ => negb (later_than (cnooa tt) (cnb tt)) | _, _ => false end
    then Reject else
    match validate_on_or_after n sl (cnooa tt) with
    | None => Reject
    | Some nooa =>
      if negb (validate_before n sl (cnb tt)) then Reject else
      (* get_subject / _bearer_confirmed for the bearer confirmation *)
      match validate_on_or_after n sl (snooa tt) with
      | None => Reject
      | Some _ =>
        if negb (validate_before n sl (snb tt)) then Reject else
        if negb (later_than (snooa tt) (snb tt)) then Reject else
        (* session_info *)
        Accept (if session >? 0 then session else nooa)
      end
    end
  end.

(* ====================================================================================================
   The whole message (strengthening round 2).  [input]/[accept] above describe ONE shape of message: HTTP-POST
   delivery, one Conditions element, one bearer SubjectConfirmation with data, one AuthnStatement.  Below the
   shape is an input too: how the Response was delivered, whether it names a Destination, whether the assertion
   arrives encrypted (parse_assertion applies the same _assertion() to both kinds), whether it has Conditions, and ANY NUMBER of bearer confirmations and AuthnStatements (document order).
   Mirrors: entity._parse_response (asynchop from the binding), Entity.unravel (bindings it can unpack),
   StatusResponse._verify (issue_instant_ok for every delivery), AuthnResponse.authn_statement_ok (exactly one
   AuthnStatement), condition_ok (no Conditions -> fine), get_subject (loop over the confirmations),
   session_info.  [xaccept_widen] (C05/Proofs.v): on the old shape it is [accept]. *)
Inductive binding := BPost | BRedirect | BSoap | BPaos.

(* entity._parse_response: kwargs["asynchop"] = binding not in [BINDING_SOAP, BINDING_PAOS] *)
Definition asynchop (b : binding) : bool := match b with BSoap | BPaos => false | _ => true end.
(* Entity.unravel: PAOS is not among the bindings it unpacks (UnknownBinding) *)
Definition unravels (b : binding) : bool := match b with BPaos => false | _ => true end.

Definition window := (option stamp * option stamp)%type.      (* NotBefore, NotOnOrAfter *)

Record message := {
  m_binding : binding;
  m_destination : option bool;               (* Response/@Destination: None absent, Some true: the SP's endpoint
                                                for that binding, Some false: somebody else's address *)
  m_encrypted : bool;                        (* the assertion arrives as an EncryptedAssertion (for the SP's key) *)
  m_issue : stamp;                           (* Response/@IssueInstant *)
  m_conditions : option window;              (* None: the assertion has no Conditions element *)
  m_confirmations : list (option window);    (* bearer SubjectConfirmations; None: without SubjectConfirmationData *)
  m_statements : list (option stamp)         (* SessionNotOnOrAfter of each AuthnStatement *)
}.
Record xinput := { xnow : Z; xatd : option Z; xm : message }.

(* StatusResponse._verify: the Destination is looked at only on the asynchronous path, and only when present;
   the IssueInstant on EVERY path.  false = returns None / False *)
Definition verify_ok (n sl : Z) (m : message) : bool :=
  (if asynchop (m_binding m) then match m_destination m with Some false => false | _ => true end else true)
  && issue_instant_ok n sl (m_issue m).

(* authn_statement_ok(): anything but exactly one AuthnStatement raises ValueError; None = raises;
   Some v = self.session_not_on_or_after afterwards (0: not set) *)
Definition statements_ok (n sl : Z) (sts : list (option stamp)) : option Z :=
  match sts with
  | [b] => validate_on_or_after n sl b
  | _ => None
  end.

(* condition_ok(): None = returns False or raises; Some v = self.not_on_or_after afterwards *)
Definition conditions_ok (n sl : Z) (c : option window) : option Z :=
  match c with
  | None => Some 0
  | Some (nb, nooa) =>
      if match nb, nooa with Some _, Some _ => negb (later_than nooa nb) | _, _ => false end then None else
      match validate_on_or_after n sl nooa with
      | None => None
      | Some v => if validate_before n sl nb then Some v else None
      end
  end.

(* _bearer_confirmed(data): raises (the two validate functions), returns False (no data / bounds out of order), or True *)
Inductive confirm := CRaise | CSkip | CKeep.
Definition bearer_confirmed (n sl : Z) (d : option window) : confirm :=
  match d with
  | None => CSkip
  | Some (nb, nooa) =>
      match validate_on_or_after n sl nooa with
      | None => CRaise
      | Some _ => if negb (validate_before n sl nb) then CRaise
                  else if later_than nooa nb then CKeep else CSkip
      end
  end.

(* get_subject(): the loop; an exception ends everything, a confirmation that is not confirmed is dropped, and
   at least one has to remain ("No valid subject confirmation") *)
Fixpoint confirmations_ok (n sl : Z) (l : list (option window)) (kept : bool) : bool :=
  match l with
  | [] => kept
  | d :: r => match bearer_confirmed n sl d with
              | CRaise => false
              | CSkip => confirmations_ok n sl r kept
              | CKeep => confirmations_ok n sl r true
              end
  end.

Definition xaccept (x : xinput) : verdict :=
  let sl := timeslack (xatd x) in
  let n := xnow x in
  let m := xm x in
  if negb (unravels (m_binding m)) then Reject else
  if negb (verify_ok n sl m) then Reject else
  match statements_ok n sl (m_statements m) with
  | None => Reject
  | Some session =>
    match conditions_ok n sl (m_conditions m) with
    | None => Reject
    | Some nooa =>
      if confirmations_ok n sl (m_confirmations m) false
      then Accept (if session >? 0 then session else nooa)
      else Reject
    end
  end.

(* the old shape as a message *)
Definition widen (x : input) : xinput :=
  {| xnow := now x; xatd := atd x;
     xm := {| m_binding := BPost; m_destination := Some true; m_encrypted := false; m_issue := issue (t x);
              m_conditions := Some (cnb (t x), cnooa (t x));
              m_confirmations := [Some (snb (t x), snooa (t x))];
              m_statements := [sess (t x)] |} |}.

(* ====================================================================================================
   The decorations of a bearer confirmation and the conversation (strengthening round 6).  [message] knows of a
   confirmation only its window.  A SubjectConfirmation also has a Method, its data may name an Address (optional in
   saml-core 2.4.1.2; Shibboleth and ADFS send it) and carry a ds:KeyInfo, and the application may tell the SP which
   peer the message came from (conv_info["remote_addr"]).  Mirrors get_subject(): verify_attesting_entity() first,
   then per confirmation the method's check (_bearer_confirmed: no data -> not confirmed; an Address that is not an
   IPv4/IPv6 text makes valid_address() raise NotValid; then the window exactly as before;
   _holder_of_key_confirmed: data with a KeyInfo; sender-vouches: nothing), then verify_recipient() for a
   confirmation that is kept (always true without conv_info).  A well-formed Address, a KeyInfo or the method of a
   NEIGHBOURING confirmation never takes part in a window decision. *)
Inductive method := MBearer | MHolderOfKey | MSenderVouches | MOther.
(* SubjectConfirmationData/@Address: absent (or the empty string: falsy), a well-formed IPv4 / IPv6 / [IPv6] text,
   any other text; [i] numbers the text (two attributes name the same peer iff the texts are equal) *)
Inductive address := ANone | AWell (i : Z) | AMal (i : Z).
Record decor := { k_method : method; k_address : address; k_keyinfo : bool }.
Definition plain : decor := {| k_method := MBearer; k_address := ANone; k_keyinfo := false |}.
(* conv_info: not given / names the wildcard 0.0.0.0 / names the peer with text number [i] *)
Inductive remote := RNone | RAny | RAddr (i : Z).

Record dinput := {
  d_x : xinput;
  d_decor : list decor;      (* parallel to m_confirmations (missing entries: [plain]) *)
  d_remote : remote;
  d_served : bool            (* the Recipient of the confirmations is one of the SP's endpoints for the delivery binding
                                (looked at only when the application gives conv_info) *)
}.

Fixpoint zipd (ws : list (option window)) (ds : list decor) : list (option window * decor) :=
  match ws with
  | [] => []
  | w :: r => match ds with
              | [] => (w, plain) :: zipd r []
              | d :: s => (w, d) :: zipd r s
              end
  end.

Definition address_id (a : address) : option Z := match a with ANone => None | AWell i | AMal i => Some i end.

(* verify_attesting_entity(): one confirmation has to be "correct" *)
Definition attests (r : remote) (c : option window * decor) : bool :=
  match fst c with
  | None => true
  | Some _ => match address_id (k_address (snd c)), r with
              | Some i, RAddr j => i =? j
              | _, _ => true
              end
  end.

(* verify_recipient() *)
Definition recipient_ok (r : remote) (served : bool) : bool := match r with RNone => true | _ => served end.

Definition confirmed (n sl : Z) (r : remote) (served : bool) (c : option window * decor) : confirm :=
  let keep := if recipient_ok r served then CKeep else CRaise in
  match k_method (snd c), fst c with
  | MBearer, None => CSkip
  | MBearer, Some w => match k_address (snd c) with
                       | AMal _ => CRaise
                       | _ => match bearer_confirmed n sl (Some w) with CKeep => keep | o => o end
                       end
  | MHolderOfKey, None => CSkip
  | MHolderOfKey, Some _ => if k_keyinfo (snd c) then keep else CSkip
  | MSenderVouches, None => CRaise          (* _data.recipient on None: AttributeError *)
  | MSenderVouches, Some _ => keep
  | MOther, _ => CRaise                     (* ValueError: unknown method *)
  end.

Fixpoint dconfirmations_ok (n sl : Z) (r : remote) (served : bool) (l : list (option window * decor)) (kept : bool) : bool :=
  match l with
  | [] => kept
  | c :: rest => match confirmed n sl r served c with
                 | CRaise => false
                 | CSkip => dconfirmations_ok n sl r served rest kept
                 | CKeep => dconfirmations_ok n sl r served rest true
                 end
  end.

Definition daccept (x : dinput) : verdict :=
  let sl := timeslack (xatd (d_x x)) in
  let n := xnow (d_x x) in
  let m := xm (d_x x) in
  if negb (unravels (m_binding m)) then Reject else
  if negb (verify_ok n sl m) then Reject else
  match statements_ok n sl (m_statements m) with
  | None => Reject
  | Some session =>
    match conditions_ok n sl (m_conditions m) with
    | None => Reject
    | Some nooa =>
      let cs := zipd (m_confirmations m) (d_decor x) in
      if existsb (attests (d_remote x)) cs && dconfirmations_ok n sl (d_remote x) (d_served x) cs false
      then Accept (if session >? 0 then session else nooa)
      else Reject
    end
  end.

(* an undecorated message *)
Definition undecorated (x : xinput) : dinput := {| d_x := x; d_decor := []; d_remote := RNone; d_served := true |}.
