(* C05/Model.v — time checks of the SP acceptance path, as coded.
   Mirrors: validate.validate_on_or_after / validate_before (94-116), time_util.later_than,
   StatusResponse.issue_instant_ok (393-400), AuthnResponse.authn_statement_ok (555-572),
   condition_ok (575-608), _bearer_confirmed (681-712), session_info (1070-1100),
   skew plumbing entity.py 1409-1410.  Time is Z seconds since the epoch. *)
From Coq Require Import ZArith Bool List.
Import ListNotations.
Open Scope Z_scope.

(* a timestamp as it appears in the document: whole seconds + "had a fractional part";
   time_util.str_to_time drops the fraction *)
Definition stamp := (Z * bool)%type.
Definition str_to_time (s : stamp) : Z := fst s.

Record times := {
  cnb : option stamp;      (* Conditions/@NotBefore *)
  cnooa : option stamp;    (* Conditions/@NotOnOrAfter *)
  snb : option stamp;      (* SubjectConfirmationData/@NotBefore *)
  snooa : option stamp;    (* SubjectConfirmationData/@NotOnOrAfter *)
  sess : option stamp;     (* AuthnStatement/@SessionNotOnOrAfter *)
  issue : stamp            (* Response/@IssueInstant *)
}.

Record input := {
  now : Z;                       (* virtual clock *)
  atd : option Z;                (* config accepted_time_diff: None = unset *)
  t : times
}.

(* entity._parse_response: kwargs["timeslack"] only when accepted_time_diff is truthy *)
Definition timeslack (a : option Z) : Z :=
  match a with
  | Some z => if z =? 0 then 0 else z
  | None => 0
  end.

(* validate_on_or_after: None = raises ResponseLifetimeExceed; Some v = returns v (0 for absent) *)
Definition validate_on_or_after (now slack : Z) (b : option stamp) : option Z :=
  match b with
  | None => Some 0
  | Some s => let nooa := str_to_time s in if now >? nooa + slack then None else Some nooa
  end.

(* validate_before: false = raises ToEarly *)
Definition validate_before (now slack : Z) (b : option stamp) : bool :=
  match b with
  | None => true
  | Some s => negb (str_to_time s >? now + slack)
  end.

(* time_util.later_than(after, before) *)
Definition later_than (a b : option stamp) : bool :=
  match b, a with
  | None, _ => true
  | Some _, None => false
  | Some y, Some x => str_to_time x >=? str_to_time y
  end.

(* issue_instant_ok: struct_time comparison; the lower bound (built with datetime.timetuple(),
   tm_isdst = -1) compares below an equal gmtime() value (tm_isdst = 0): lower inclusive,
   upper exclusive *)
Definition issue_instant_ok (now slack : Z) (i : stamp) : bool :=
  (now - 86400 - slack <=? str_to_time i) && (str_to_time i <? now + 86400 + slack).

Inductive verdict := Accept (reported_not_on_or_after : Z) | Reject.

Definition accept (x : input) : verdict :=
  let sl := timeslack (atd x) in
  let n := now x in
  let tt := t x in
  if negb (issue_instant_ok n sl (issue tt)) then Reject else
  (* authn_statement_ok *)
  match validate_on_or_after n sl (sess tt) with
  | None => Reject
  | Some session =>
    (* condition_ok *)
    if match cnb tt, cnooa tt with Some _, Some _ => negb (later_than (cnooa tt) (cnb tt)) | _, _ => false end
    then Reject else
    match validate_on_or_after n sl (cnooa tt) with
    | None => Reject
    | Some nooa =>
      if negb (validate_before n sl (cnb tt)) then Reject else
      (* get_subject / _bearer_confirmed for the bearer confirmation *)
      match validate_on_or_after n sl (snooa tt) with
      | None => Reject
      | Some _ =>
        if negb (validate_before n sl (snb tt)) then Reject else
        if negb (later_than (snooa tt) (snb tt)) then Reject else
        (* session_info *)
        Accept (if session >? 0 then session else nooa)
      end
    end
  end.
