(* C05/Source.v — the hand-written models of validate.validate_on_or_after / validate_before equal the
   functions the translator (harness/py2coq.py) produced from the CURRENT source text
   (coq/gen/C05Src.v, regenerated on every run).  The clock (time_util.utc_now) and the timestamp
   parser (calendar.timegm . time_util.str_to_time) are parameters of the translated functions; here they
   are instantiated by the virtual clock value and by any parser [to_secs] that agrees with the model's
   [str_to_time] on the encoded timestamp. *)
From Coq Require Import String List Bool ZArith.
From Verif Require Import Base.Str Base.Py C05.Model.
From VerifGen Require Import C05Src.
Import ListNotations.
Open Scope Z_scope.

Section Source.
  (* the attribute value as text: any non-empty string whose parse is the model's str_to_time *)
  Variable text_of : stamp -> string.
  Variable to_secs : pyval -> pyval.
  Hypothesis text_nonempty : forall s, is_empty (text_of s) = false.
  Hypothesis parse_ok : forall s, to_secs (PStr (text_of s)) = PInt (str_to_time s).

  Definition enc_stamp (b : option stamp) : pyval :=
    match b with Some s => PStr (text_of s) | None => PNone end.

  (* result encoding: the bound in seconds, False for an absent attribute, or the exception *)
  Definition enc_voa (b : option stamp) (r : option Z) : pyval :=
    match r, b with
    | None, _ => PExc "ResponseLifetimeExceed"
    | Some _, None => PBool false
    | Some v, Some _ => PInt v
    end.

  Theorem src_validate_on_or_after_is_model : forall now slack b,
    src_validate_on_or_after (PInt now) to_secs (enc_stamp b) (PInt slack)
    = enc_voa b (validate_on_or_after now slack b).
  Proof.
    intros now slack [s|]; unfold src_validate_on_or_after, validate_on_or_after, enc_stamp, enc_voa.
    - cbn [py_truthy]. rewrite text_nonempty. cbn [negb]. rewrite parse_ok.
      cbn [py_add py_gt py_cmp py_truthy]. destruct (now >? str_to_time s + slack); reflexivity.
    - reflexivity.
  Qed.

  Theorem src_validate_before_is_model : forall now slack b,
    src_validate_before (PInt now) to_secs (enc_stamp b) (PInt slack)
    = if validate_before now slack b then PBool true else PExc "ToEarly".
  Proof.
    intros now slack [s|]; unfold src_validate_before, validate_before, enc_stamp.
    - cbn [py_truthy]. rewrite text_nonempty. cbn [negb]. rewrite parse_ok.
      cbn [py_add py_gt py_cmp py_truthy]. destruct (str_to_time s >? now + slack); reflexivity.
    - reflexivity.
  Qed.
End Source.

(* the hypotheses are satisfiable: decimal-free instance (text "t", parser by table lookup is not needed:
   a parser that inverts text_of on its image exists for any injective text_of; here the one-stamp case) *)
Example source_instance : exists text_of to_secs,
  (forall s : stamp, is_empty (text_of s) = false) /\
  (forall s : stamp, fst s = 5 -> to_secs (PStr (text_of s)) = PInt (str_to_time s)).
Proof.
  exists (fun _ => "2026-01-01T00:00:05Z"%string), (fun _ => PInt 5).
  split; [reflexivity|]. intros s H. unfold str_to_time. rewrite H. reflexivity.
Qed.
