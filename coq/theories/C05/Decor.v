(* C05/Decor.v — proofs about the decorated message (Model.daccept, Spec.dspec): strengthening round 6. *)
From Coq Require Import ZArith Bool List Lia ZifyBool Btauto.
From Verif Require Import C05.Model C05.Spec C05.Proofs.
Import ListNotations.
Open Scope Z_scope.

(* ---- soundness of one confirmation *)
Lemma bearer_noraise_bounds n k w : bearer_confirmed n k (Some w) <> CRaise ->
  lower_ok_b n k (fst w) && upper_ok_b n k (snd w) = true.
Proof.
  destruct w as [[[a fa]|] [[b fb]|]]; unfold bearer_confirmed; unfold_w; intros H.
  all: repeat match type of H with context [if ?c then _ else _] => destruct c eqn:? end; cbn [negb] in *;
    try (exfalso; apply H; reflexivity); try reflexivity.
  all: repeat match goal with Hx : context [if ?c then _ else _] |- _ => destruct c eqn:?; try discriminate Hx end; lia.
Qed.

Lemma confirmed_noraise_bounds n k r s c : confirmed n k r s c <> CRaise -> bearer_bounds_b n k c = true.
Proof.
  destruct c as [[w|] [m a ki]]; unfold confirmed, bearer_bounds_b; cbn [fst snd k_method k_address k_keyinfo];
    destruct m; try reflexivity.
  intros H. apply bearer_noraise_bounds. intros E. apply H. destruct a; try reflexivity; rewrite E; reflexivity.
Qed.

Lemma confirmed_keep_sound n k r s c : confirmed n k r s c = CKeep -> confirms_b n k c = true.
Proof.
  destruct c as [[w|] [m a ki]]; unfold confirmed, confirms_b; cbn [fst snd k_method k_address k_keyinfo];
    destruct m; try reflexivity; try discriminate.
  intros H. assert (E : bearer_confirmed n k (Some w) = CKeep).
  { destruct a; try discriminate H; destruct (bearer_confirmed n k (Some w)); try discriminate H; reflexivity. }
  destruct (bearer_keep_sound _ _ _ E) as [w' [[= <-] Hw]]. exact Hw.
Qed.

Lemma dconfirmations_ok_sound n k r s l : forall kept, dconfirmations_ok n k r s l kept = true ->
  forallb (bearer_bounds_b n k) l = true /\ (kept = true \/ existsb (confirms_b n k) l = true).
Proof.
  induction l as [|c rest IH]; intros kept H; cbn [dconfirmations_ok forallb existsb] in *.
  - split; [reflexivity|left; exact H].
  - destruct (confirmed n k r s c) eqn:E; [discriminate H| |].
    + destruct (IH _ H) as [B G]. rewrite B, (confirmed_noraise_bounds n k r s c) by (rewrite E; discriminate).
      split; [reflexivity|]. destruct G as [G|G]; [left; exact G|right; rewrite G; apply orb_true_r].
    + destruct (IH _ H) as [B _]. rewrite B, (confirmed_noraise_bounds n k r s c) by (rewrite E; discriminate).
      split; [reflexivity|]. right. rewrite (confirmed_keep_sound _ _ _ _ _ E). reflexivity.
Qed.

Lemma daccept_sound_b x : 0 < xnow (d_x x) - xskew (d_x x) -> dsound_b x (daccept x) = true.
Proof.
  destruct x as [[n a m] ds r s]. unfold daccept, xskew, verify_ok, dconfs. cbn [d_x d_decor d_remote d_served xnow xatd xm].
  rewrite timeslack_skew. set (k := match a with Some z => z | None => 0 end). intros Hpos.
  destruct (unravels (m_binding m)); cbn [negb]; [|reflexivity].
  destruct (issue_instant_ok n k (m_issue m)) eqn:Ei; rewrite ?andb_false_r; cbn [negb]; [|reflexivity].
  destruct (if asynchop (m_binding m) then _ else true); cbn [andb negb]; [|reflexivity].
  destruct (statements_ok n k (m_statements m)) as [session|] eqn:Es; [|reflexivity].
  destruct (conditions_ok n k (m_conditions m)) as [nooa|] eqn:Ec; [|reflexivity].
  destruct (existsb (attests r) (zipd (m_confirmations m) ds)); cbn [andb]; [|reflexivity].
  destruct (dconfirmations_ok n k r s (zipd (m_confirmations m) ds) false) eqn:Ek; [|reflexivity].
  destruct (statements_ok_sound _ _ _ _ Hpos Es) as [S1 S2].
  pose proof (conditions_ok_sound _ _ _ _ Ec) as C1.
  destruct (dconfirmations_ok_sound _ _ _ _ _ _ Ek) as [B [K|K]]; [discriminate K|].
  unfold dsound_b, xskew, dconfs. cbn [d_x d_decor xnow xatd xm]. fold k.
  rewrite !andb_true_iff. repeat split.
  - exact S1.
  - destruct (m_conditions m) as [w|]; [apply C1|reflexivity].
  - exact B.
  - exact K.
  - unfold issue_instant_ok, str_to_time, sec in *. lia.
  - unfold xexpiry_ok_b. destruct (present (m_statements m)) as [|e l] eqn:Ep.
    + subst session. cbn [Z.gtb Z.compare]. destruct (m_conditions m) as [[nb [c|]]|]; try reflexivity.
      destruct C1 as [_ ->]. apply Z.eqb_refl.
    + destruct S2 as [-> S2]. exact S2.
Qed.

(* ---- completeness *)
Definition dconf_strict_b (n k : Z) (r : remote) (c : option window * decor) : bool :=
  conf_strict_b n k (fst c) && (is_bearer (k_method (snd c)) && names_peer_b r (k_address (snd c))).

Lemma confirmed_complete n k r s c :
  dconf_strict_b n k r c = true -> recipient_ok r s = true -> confirmed n k r s c = CKeep /\ attests r c = true.
Proof.
  destruct c as [[w|] [m a ki]]; unfold dconf_strict_b, confirmed, attests;
    cbn [fst snd k_method k_address k_keyinfo conf_strict_b]; intros H Hr; [|discriminate H].
  apply andb_true_iff in H as [Hw H]. apply andb_true_iff in H as [Hm Ha].
  destruct m; try discriminate Hm. rewrite (bearer_keep_complete _ _ _ Hw), Hr.
  destruct a as [|i|i], r as [| |j]; cbn [names_peer_b address_id] in *; try discriminate Ha; split; try reflexivity.
  exact Ha.
Qed.

Lemma dconfirmations_ok_complete n k r s l : forallb (dconf_strict_b n k r) l = true -> recipient_ok r s = true ->
  forall kept, dconfirmations_ok n k r s l kept = match l with [] => kept | _ => true end.
Proof.
  intros H Hr. induction l as [|c rest IH]; intros kept; [reflexivity|]. cbn [forallb] in H.
  apply andb_true_iff in H as [Hc Hrest]. cbn [dconfirmations_ok].
  destruct (confirmed_complete _ _ _ _ _ Hc Hr) as [-> _]. rewrite (IH Hrest). destruct rest; reflexivity.
Qed.

Lemma forallb_zipd_fst (f : option window -> bool) ws : forall ds,
  forallb (fun c => f (fst c)) (zipd ws ds) = forallb f ws.
Proof.
  induction ws as [|w r IH]; intros ds; [reflexivity|]. destruct ds as [|d s]; cbn [zipd forallb fst]; rewrite IH; reflexivity.
Qed.

Lemma forallb_and {A} (f g : A -> bool) l : forallb (fun c => f c && g c) l = forallb f l && forallb g l.
Proof. induction l as [|c r IH]; [reflexivity|]. cbn [forallb]. rewrite IH. btauto. Qed.

Lemma daccept_complete_b x : dstrictly_inside_b x = true -> daccept x <> Reject.
Proof.
  destruct x as [[n a m] ds r s]. unfold dstrictly_inside_b, xstrictly_inside_b, daccept, xskew, verify_ok, dconfs.
  cbn [d_x d_decor d_remote d_served xnow xatd xm]. rewrite timeslack_skew.
  set (k := match a with Some z => z | None => 0 end). intros H.
  repeat (apply andb_true_iff in H; let H' := fresh "H" in destruct H as [H H']).
  fold (conf_strict_b n k) in *.
  rename H into Hk0, H8 into Hun, H7 into Hd, H6 into Hst, H5 into Hc, H4 into Hne, H3 into Hcf, H2 into Hi,
    H1 into Hdec, H0 into Hrec.
  rewrite Hun. cbn [negb]. rewrite (issue_complete _ _ _ Hi).
  assert (Ed : (if asynchop (m_binding m) then match m_destination m with Some false => false | _ => true end else true) = true).
  { destruct (asynchop (m_binding m)); [exact Hd|reflexivity]. }
  rewrite Ed. cbn [andb negb].
  destruct (m_statements m) as [|st [|st2 rr]]; try discriminate Hst. cbn [statements_ok].
  destruct (statement_complete _ _ _ Hst) as [v ->].
  destruct (conditions_complete _ _ _ Hc) as [v' ->].
  assert (Hr : recipient_ok r s = true).
  { unfold recipient_ok. destruct r; [reflexivity|exact Hrec|exact Hrec]. }
  assert (Hall : forallb (dconf_strict_b n k r) (zipd (m_confirmations m) ds) = true).
  { unfold dconf_strict_b. rewrite forallb_and, (forallb_zipd_fst (conf_strict_b n k)), Hcf, Hdec. reflexivity. }
  rewrite (dconfirmations_ok_complete _ _ _ _ _ Hall Hr).
  destruct (m_confirmations m) as [|w ws]; [discriminate Hne|].
  assert (Hat : existsb (attests r) (zipd (w :: ws) ds) = true).
  { destruct ds as [|d dd]; cbn [zipd existsb forallb] in *; apply andb_true_iff in Hall as [Hc0 _];
      destruct (confirmed_complete _ _ _ _ _ Hc0 Hr) as [_ ->]; reflexivity. }
  rewrite Hat. destruct ds; cbn [zipd andb]; discriminate.
Qed.

(* ---- reflection *)
Lemma confirms_b_iff n k c : confirms_b n k c = true <-> confirms n k c.
Proof.
  unfold confirms_b, confirms. destruct (k_method (snd c)); try tauto; try (split; [discriminate|tauto]).
  destruct (fst c) as [w|]; [apply w_inside_b_iff|split; [discriminate|tauto]].
Qed.

Lemma bearer_bounds_b_iff n k c : bearer_bounds_b n k c = true <-> bearer_bounds n k c.
Proof.
  unfold bearer_bounds_b, bearer_bounds. destruct (k_method (snd c)); try tauto.
  destruct (fst c) as [w|]; [|tauto]. rewrite andb_true_iff, lower_ok_b_iff, upper_ok_b_iff. tauto.
Qed.

Lemma names_peer_b_iff r a : names_peer_b r a = true <-> names_peer r a.
Proof.
  destruct r, a; cbn; try tauto; try (split; [discriminate|tauto]). apply Z.eqb_eq.
Qed.

Lemma dsound_b_iff x v : dsound_b x v = true <-> dsound x v.
Proof.
  unfold dsound_b, dsound. destruct v as [rep|]; [|tauto]. cbv zeta.
  rewrite !andb_true_iff, !forallb_forall, existsb_exists, Z.leb_le, xexpiry_ok_b_iff.
  set (m := xm (d_x x)). set (n := xnow (d_x x)). set (k := xskew (d_x x)).
  assert (E1 : (forall s, In s (m_statements m) -> upper_ok_b n k s = true)
               <-> (forall s, In s (m_statements m) -> upper_ok n k s)).
  { split; intros H s Hs; apply upper_ok_b_iff, H, Hs. }
  assert (E2 : match m_conditions m with Some w => w_inside_b n k w | None => true end = true
               <-> (forall w, m_conditions m = Some w -> w_inside n k w)).
  { destruct (m_conditions m) as [w|].
    - rewrite w_inside_b_iff. split; [intros H w' [= <-]; exact H|intros H; apply H; reflexivity].
    - split; [intros _ w [=]|reflexivity]. }
  assert (E3 : (forall c, In c (dconfs x) -> bearer_bounds_b n k c = true)
               <-> (forall c, In c (dconfs x) -> bearer_bounds n k c)).
  { split; intros H c Hc; apply bearer_bounds_b_iff, H, Hc. }
  assert (E4 : (exists c, In c (dconfs x) /\ confirms_b n k c = true) <-> (exists c, In c (dconfs x) /\ confirms n k c)).
  { split; intros [c [Hc H]]; exists c; (split; [exact Hc|apply confirms_b_iff, H]). }
  rewrite E1, E2, E3, E4. tauto.
Qed.

Lemma dstrictly_inside_b_iff x : dstrictly_inside_b x = true <-> dstrictly_inside x.
Proof.
  unfold dstrictly_inside_b, dstrictly_inside. rewrite !andb_true_iff, xstrictly_inside_b_iff, forallb_forall, orb_true_iff.
  assert (E1 : (forall c, In c (dconfs x) ->
                  is_bearer (k_method (snd c)) && names_peer_b (d_remote x) (k_address (snd c)) = true)
               <-> (forall c, In c (dconfs x) -> k_method (snd c) = MBearer /\ names_peer (d_remote x) (k_address (snd c)))).
  { assert (B : forall m, is_bearer m = true <-> m = MBearer) by (intros []; cbn; split; congruence).
    split; intros H c Hc; specialize (H c Hc).
    - apply andb_true_iff in H as [H1 H2]. split; [apply B, H1|apply names_peer_b_iff, H2].
    - destruct H as [H1 H2]. apply andb_true_iff. split; [apply B, H1|apply names_peer_b_iff, H2]. }
  assert (E2 : match d_remote x with RNone => true | _ => false end = true <-> d_remote x = RNone).
  { destruct (d_remote x); split; congruence. }
  rewrite E1, E2. tauto.
Qed.

Lemma dspec_b_iff x v : dspec_b x v = true <-> dspec x v.
Proof.
  unfold dspec_b, dspec. rewrite andb_true_iff, dsound_b_iff, orb_true_iff, negb_true_iff.
  rewrite <- dstrictly_inside_b_iff.
  assert (E : (match v with Reject => false | Accept _ => true end) = true <-> v <> Reject).
  { destruct v; split; congruence. }
  rewrite E. destruct (dstrictly_inside_b x); split; intros [H1 H2]; (split; [exact H1|]).
  - destruct H2 as [H2|H2]; [discriminate|intros _; exact H2].
  - right. apply H2. reflexivity.
  - intros H; discriminate.
  - left. reflexivity.
Qed.

Lemma dvalidity_holds x : 0 < xnow (d_x x) - xskew (d_x x) -> dspec x (daccept x).
Proof.
  intros Hpos. split.
  - apply dsound_b_iff, daccept_sound_b, Hpos.
  - intros H. apply daccept_complete_b, dstrictly_inside_b_iff, H.
Qed.

(* ---- decorations that have no bearing: a bearer confirmation whose data name a well-formed Address and / or carry a
   KeyInfo is treated exactly as the bare one (no conversation info) *)
Definition harmless (d : decor) : bool :=
  is_bearer (k_method d) && match k_address d with AMal _ => false | _ => true end.

Lemma confirmed_harmless n k s w d : harmless d = true -> confirmed n k RNone s (w, d) = bearer_confirmed n k w.
Proof.
  destruct d as [m a ki]. unfold harmless, confirmed. cbn [fst snd k_method k_address k_keyinfo recipient_ok].
  intros H. apply andb_true_iff in H as [Hm Ha]. destruct m; try discriminate Hm.
  destruct w as [w|]; [|reflexivity]. destruct a; try discriminate Ha; destruct (bearer_confirmed n k (Some w)); reflexivity.
Qed.

Lemma dconfirmations_harmless n k s ws : forall ds kept, forallb harmless ds = true ->
  dconfirmations_ok n k RNone s (zipd ws ds) kept = confirmations_ok n k ws kept.
Proof.
  induction ws as [|w r IH]; intros ds kept H; [reflexivity|].
  destruct ds as [|d dd]; cbn [zipd dconfirmations_ok confirmations_ok].
  - rewrite (confirmed_harmless n k s w plain eq_refl). destruct (bearer_confirmed n k w); try reflexivity; apply IH; reflexivity.
  - cbn [forallb] in H. apply andb_true_iff in H as [Hd Hdd]. rewrite (confirmed_harmless _ _ _ _ _ Hd).
    destruct (bearer_confirmed n k w); try reflexivity; apply IH; exact Hdd.
Qed.

Lemma attests_rnone l : existsb (attests RNone) l = match l with [] => false | _ => true end.
Proof.
  destruct l as [|c r]; [reflexivity|]. cbn [existsb].
  assert (E : attests RNone c = true).
  { unfold attests. destruct (fst c); [|reflexivity]. destruct (address_id _); reflexivity. }
  rewrite E. reflexivity.
Qed.

Lemma daccept_harmless x :
  d_remote x = RNone -> forallb harmless (d_decor x) = true -> daccept x = xaccept (d_x x).
Proof.
  destruct x as [[n a m] ds r s]. cbn [d_x d_decor d_remote d_served]. intros -> H. unfold daccept, xaccept.
  cbn [d_x d_decor d_remote d_served xnow xatd xm].
  destruct (negb (unravels (m_binding m))); [reflexivity|].
  destruct (negb (verify_ok n (timeslack a) m)); [reflexivity|].
  destruct (statements_ok n (timeslack a) (m_statements m)); [|reflexivity].
  destruct (conditions_ok n (timeslack a) (m_conditions m)); [|reflexivity].
  rewrite (dconfirmations_harmless _ _ _ _ _ _ H), attests_rnone.
  destruct (m_confirmations m) as [|w ws]; [reflexivity|]. destruct ds; reflexivity.
Qed.

Lemma daccept_undecorated x : daccept (undecorated x) = xaccept x.
Proof. apply daccept_harmless; reflexivity. Qed.

(* nothing was loosened: on an undecorated message the decorated property implies the property of the whole message *)
Lemma zipd_nil ws : zipd ws [] = map (fun w => (w, plain)) ws.
Proof. induction ws as [|w r IH]; [reflexivity|]. cbn [zipd map]. rewrite IH. reflexivity. Qed.

Lemma dspec_undecorated x v : dspec (undecorated x) v -> xspec x v.
Proof.
  intros [S C]. split.
  - destruct v as [rep|]; [|exact I]. cbn [dsound undecorated d_x] in S. destruct S as [S1 [S2 [_ [[c [Hc Hk]] [S5 S6]]]]].
    cbv zeta in *. refine (conj S1 (conj S2 (conj _ (conj S5 S6)))).
    unfold dconfs, undecorated in Hc. cbn [d_x d_decor] in Hc. rewrite zipd_nil in Hc. apply in_map_iff in Hc as [w [<- Hw]].
    unfold confirms in Hk. cbn [fst snd plain k_method] in Hk. destruct w as [w|]; [|contradiction]. exists w. split; assumption.
  - intros H. apply C. split; [exact H|]. split; [|left; reflexivity].
    intros c Hc. unfold dconfs, undecorated in Hc. cbn [d_x d_decor] in Hc. rewrite zipd_nil in Hc.
    apply in_map_iff in Hc as [w [<- _]]. split; reflexivity.
Qed.

(* the window of EVERY bearer SubjectConfirmationData counts, whatever its Address / KeyInfo, whatever the peer, and
   whatever stands next to it: now later than its NotOnOrAfter plus skew, or earlier than its NotBefore minus skew ->
   no identity *)
Lemma dconfirmations_raise n k r s c l : In c l -> confirmed n k r s c = CRaise ->
  forall kept, dconfirmations_ok n k r s l kept = false.
Proof.
  induction l as [|c0 rest IH]; intros Hin E kept; [contradiction|]. cbn [dconfirmations_ok].
  destruct Hin as [->|Hin]; [rewrite E; reflexivity|].
  destruct (confirmed n k r s c0); [reflexivity|apply IH; assumption|apply IH; assumption].
Qed.

Lemma outside_bearer_window_rejected x w d :
  In (Some w, d) (dconfs x) -> k_method d = MBearer ->
  (match snd w with Some b => xnow (d_x x) > fst b + timeslack (xatd (d_x x)) | None => False end
   \/ match fst w with Some a => fst a > xnow (d_x x) + timeslack (xatd (d_x x)) | None => False end) ->
  daccept x = Reject.
Proof.
  intros Hin Hm Hout. unfold daccept.
  destruct (negb (unravels _)); [reflexivity|]. destruct (negb (verify_ok _ _ _)); [reflexivity|].
  destruct (statements_ok _ _ _); [|reflexivity]. destruct (conditions_ok _ _ _); [|reflexivity].
  fold (dconfs x).
  assert (E : confirmed (xnow (d_x x)) (timeslack (xatd (d_x x))) (d_remote x) (d_served x) (Some w, d) = CRaise).
  { unfold confirmed. cbn [fst snd]. rewrite Hm. destruct (k_address d); try reflexivity;
      (assert (B : bearer_confirmed (xnow (d_x x)) (timeslack (xatd (d_x x))) (Some w) = CRaise);
       [|rewrite B; reflexivity]);
      destruct w as [[[a fa]|] [[b fb]|]]; unfold bearer_confirmed; unfold_w; cbn [fst snd] in Hout;
      split_ifs; try reflexivity; lia. }
  rewrite (dconfirmations_raise _ _ _ _ _ _ Hin E). rewrite andb_false_r. reflexivity.
Qed.

(* non-vacuity: a bearer confirmation that names the peer (IPv6 text 3) and carries a KeyInfo, strictly inside: accepted
   when the application reports that peer, refused when it reports another one; expired by one second past the skew:
   refused although a sender-vouches confirmation stands next to it *)
Example decor_example :
  let m cs := {| m_binding := BPost; m_destination := Some true; m_encrypted := false; m_issue := (1700000001, false);
                 m_conditions := Some (None, Some (1700000300, false)); m_confirmations := cs; m_statements := [None] |} in
  let x cs ds r := {| d_x := {| xnow := 1700000000; xatd := Some 60; xm := m cs |}; d_decor := ds; d_remote := r; d_served := true |} in
  let d := {| k_method := MBearer; k_address := AWell 3; k_keyinfo := true |} in
  dstrictly_inside_b (x [Some (None, Some (1700000300, false))] [d] (RAddr 3)) = true
  /\ daccept (x [Some (None, Some (1700000300, false))] [d] (RAddr 3)) = Accept 1700000300
  /\ daccept (x [Some (None, Some (1700000300, false))] [d] (RAddr 4)) = Reject
  /\ daccept (x [Some (None, Some (1699999939, false)); Some (None, Some (1700000300, false))]
                [d; {| k_method := MSenderVouches; k_address := ANone; k_keyinfo := false |}] RNone) = Reject.
Proof. vm_compute. repeat split; reflexivity. Qed.
