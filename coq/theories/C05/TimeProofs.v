(* C05/TimeProofs.v — what the text level guarantees, for ALL time stamps:
   reading back what time_util.instant() writes gives the same second (issuer and acceptor agree on every
   instant from the epoch to the end of year 9999), a fraction and a missing "Z" do not change the value,
   and everything strptime lets through is a real calendar date. *)
From Coq Require Import String Ascii List Bool NArith ZArith Lia ZifyBool ZifyN.
From Verif Require Import Base.Str C05.Time.
From Verif Require C13.Model C13.Lex.
Import ListNotations.
Ltac Zify.zify_post_hook ::= Z.div_mod_to_equations.
Open Scope N_scope.

Module L := C13.Lex.

(* ------------------------------------------------------------------ digits *)
Lemma dv_dc n : n < 10 -> dv (L.dc n) = Some n.
Proof.
  intros H. unfold dv, L.dc. rewrite N_ascii_embedding by lia.
  assert (E1 : (48 <=? 48 + n) = true) by (apply N.leb_le; lia).
  assert (E2 : (48 + n <=? 57) = true) by (apply N.leb_le; lia).
  rewrite E1, E2. cbn [andb]. f_equal. lia.
Qed.

Lemma N_of_dc n : n < 10 -> N_of_ascii (L.dc n) = 48 + n.
Proof. intros H. unfold L.dc. apply N_ascii_embedding. lia. Qed.

Lemma is_char_dc k n : n < 10 -> k < 48 -> is_char k (L.dc n) = false.
Proof. intros H Hk. unfold is_char. rewrite N_of_dc by exact H. apply N.eqb_neq. lia. Qed.

Lemma f_year_four y rest : y < 10000 -> f_year (L.four_digits y rest) = Some (y, rest).
Proof.
  intros H. unfold L.four_digits, L.two_digits, f_year.
  rewrite !dv_dc.
  - f_equal. f_equal. lia.
  - pose proof (N.mod_lt (y mod 100) 10). lia.
  - apply N.div_lt_upper_bound; [lia|]. pose proof (N.mod_lt y 100). lia.
  - apply N.mod_lt. lia.
  - apply N.div_lt_upper_bound; lia.
Qed.

Lemma two_or_one_two ok2 ok1 n rest :
  n < 100 -> ok2 (n / 10) (n mod 10) = true -> two_or_one ok2 ok1 (L.two_digits n rest) = Some (n, rest).
Proof.
  intros H Hok. unfold L.two_digits, two_or_one.
  rewrite !dv_dc.
  - rewrite Hok. f_equal. f_equal. lia.
  - apply N.mod_lt. lia.
  - apply N.div_lt_upper_bound; lia.
Qed.

(* the two-digit forms cover every value the formatter can write: one exhaustive computation over 0..99 *)
Definition forms_ok (n : N) : bool :=
  (negb ((1 <=? n) && (n <=? 12)) || month_ok2 (n / 10) (n mod 10))
  && (negb ((1 <=? n) && (n <=? 31)) || day_ok2 (n / 10) (n mod 10))
  && (negb (n <=? 23) || hour_ok2 (n / 10) (n mod 10))
  && (negb (n <=? 59) || min_ok2 (n / 10) (n mod 10))
  && (negb (n <=? 61) || sec_ok2 (n / 10) (n mod 10)).

Lemma forms_all : L.all_range forms_ok 0 100 = true.
Proof. vm_compute. reflexivity. Qed.

Lemma forms_at n : n < 100 -> forms_ok n = true.
Proof. intros H. apply (L.all_range_spec forms_ok 100 0 forms_all); lia. Qed.

Ltac use_forms n H :=
  let F := fresh "F" in
  pose proof (forms_at n ltac:(lia)) as F; unfold forms_ok in F;
  repeat (apply andb_true_iff in F; destruct F as [F ?]);
  repeat match goal with
         | X : (negb ?c || ?r) = true |- _ =>
             let E := fresh "E" in
             assert (E : c = true) by (repeat (apply andb_true_iff; split); apply N.leb_le; lia);
             rewrite E in X; cbn [negb orb] in X
         end.

Lemma f_month_two m rest : 1 <= m -> m <= 12 -> f_month (L.two_digits m rest) = Some (m, rest).
Proof.
  intros H1 H2. apply two_or_one_two; [lia|].
  pose proof (forms_at m ltac:(lia)) as F. unfold forms_ok in F.
  apply andb_true_iff in F as [F _]. apply andb_true_iff in F as [F _].
  apply andb_true_iff in F as [F _]. apply andb_true_iff in F as [F _].
  assert (E : ((1 <=? m) && (m <=? 12)) = true) by (apply andb_true_iff; split; apply N.leb_le; lia).
  rewrite E in F. exact F.
Qed.

Lemma f_day_two d rest : 1 <= d -> d <= 31 -> f_day (L.two_digits d rest) = Some (d, rest).
Proof.
  intros H1 H2. unfold f_day. unfold L.two_digits at 1.
  rewrite is_char_dc; [|apply N.div_lt_upper_bound; lia|lia].
  change (String (L.dc (d / 10)) (String (L.dc (d mod 10)) rest)) with (L.two_digits d rest).
  apply two_or_one_two; [lia|].
  pose proof (forms_at d ltac:(lia)) as F. unfold forms_ok in F.
  apply andb_true_iff in F as [F _]. apply andb_true_iff in F as [F _].
  apply andb_true_iff in F as [F _]. apply andb_true_iff in F as [_ F].
  assert (E : ((1 <=? d) && (d <=? 31)) = true) by (apply andb_true_iff; split; apply N.leb_le; lia).
  rewrite E in F. exact F.
Qed.

Lemma f_hour_two h rest : h <= 23 -> f_hour (L.two_digits h rest) = Some (h, rest).
Proof.
  intros H. apply two_or_one_two; [lia|].
  pose proof (forms_at h ltac:(lia)) as F. unfold forms_ok in F.
  apply andb_true_iff in F as [F _]. apply andb_true_iff in F as [F _]. apply andb_true_iff in F as [_ F].
  assert (E : (h <=? 23) = true) by (apply N.leb_le; lia). rewrite E in F. exact F.
Qed.

Lemma f_min_two mi rest : mi <= 59 -> f_min (L.two_digits mi rest) = Some (mi, rest).
Proof.
  intros H. apply two_or_one_two; [lia|].
  pose proof (forms_at mi ltac:(lia)) as F. unfold forms_ok in F.
  apply andb_true_iff in F as [F _]. apply andb_true_iff in F as [_ F].
  assert (E : (mi <=? 59) = true) by (apply N.leb_le; lia). rewrite E in F. exact F.
Qed.

Lemma f_sec_two s rest : s <= 61 -> f_sec (L.two_digits s rest) = Some (s, rest).
Proof.
  intros H. apply two_or_one_two; [lia|].
  pose proof (forms_at s ltac:(lia)) as F. unfold forms_ok in F.
  apply andb_true_iff in F as [_ F].
  assert (E : (s <=? 61) = true) by (apply N.leb_le; lia). rewrite E in F. exact F.
Qed.

(* ------------------------------------------------------------------ strptime reads what strftime wrote *)
Lemma strptime_re_format y m d h mi s :
  y < 10000 -> 1 <= m -> m <= 12 -> 1 <= d -> d <= 31 -> h <= 23 -> mi <= 59 -> s <= 61 ->
  strptime_re (L.format_instant (y, m, d, h, mi, s)) = Some (y, m, d, h, mi, s).
Proof.
  intros Hy Hm1 Hm2 Hd1 Hd2 Hh Hmi Hs. unfold L.format_instant, strptime_re.
  rewrite f_year_four by exact Hy. cbn [expect is_minus is_char N_of_ascii N.eqb Pos.eqb].
  change (is_minus "-"%char) with true. cbn iota.
  rewrite f_month_two by assumption. cbn [expect]. change (is_minus "-"%char) with true. cbn iota.
  rewrite f_day_two by assumption. cbn [expect]. change (is_T "T"%char) with true. cbn iota.
  rewrite f_hour_two by assumption. cbn [expect]. change (is_colon ":"%char) with true. cbn iota.
  rewrite f_min_two by assumption. cbn [expect]. change (is_colon ":"%char) with true. cbn iota.
  rewrite f_sec_two by assumption. cbn [expect]. change (is_Z "Z"%char) with true. cbn iota.
  reflexivity.
Qed.

(* ------------------------------------------------------------------ timegm inverts gmtime: one era, exhaustively *)
Definition era_rt (doe : N) : bool :=
  let '(y0, m, d) := L.era_civil doe in
  let yoe := if m <=? 2 then y0 - 1 else y0 in
  let mp := if 2 <? m then m - 3 else m + 9 in
  (negb (m <=? 2) || (1 <=? y0)) && (yoe <? 400) && (1 <=? d)
  && (yoe * 365 + yoe / 4 - yoe / 100 + (153 * mp + 2) / 5 + d - 1 =? doe).

Lemma era_rt_all : L.all_range era_rt 0 146097 = true.
Proof. vm_compute. reflexivity. Qed.

Lemma era_rt_at doe : doe < 146097 -> era_rt doe = true.
Proof. intros H. apply (L.all_range_spec era_rt 146097 0 era_rt_all); lia. Qed.

Lemma dfc_era y0 m d era doe :
  L.era_civil doe = (y0, m, d) -> doe < 146097 -> dfc (y0 + era * 400) m d = era * 146097 + doe.
Proof.
  intros Ec Hdoe. pose proof (era_rt_at doe Hdoe) as R. unfold era_rt in R. rewrite Ec in R.
  apply andb_true_iff in R as [R Hsum]. apply andb_true_iff in R as [R Hd].
  apply andb_true_iff in R as [Hy0 Hyoe].
  apply N.eqb_eq in Hsum. apply N.ltb_lt in Hyoe. apply N.leb_le in Hd.
  unfold dfc.
  set (yoe := if m <=? 2 then y0 - 1 else y0) in *.
  assert (Hy' : (if m <=? 2 then y0 + era * 400 - 1 else y0 + era * 400) = yoe + era * 400).
  { unfold yoe. destruct (m <=? 2) eqn:Em; [|reflexivity].
    cbn [negb orb] in Hy0. apply N.leb_le in Hy0. lia. }
  rewrite Hy'.
  rewrite N.div_add by lia. rewrite N.mod_add by lia.
  rewrite (N.div_small yoe 400) by exact Hyoe. rewrite (N.mod_small yoe 400) by exact Hyoe.
  rewrite N.add_0_l. rewrite Hsum. reflexivity.
Qed.

Theorem timegm_gmtime ts : timegm (L.gmtime ts) = Z.of_N ts.
Proof.
  unfold L.gmtime.
  set (days := ts / 86400). set (secs := ts mod 86400). set (z := days + 719468).
  assert (Hdoe : z mod 146097 < 146097) by (apply N.mod_lt; lia).
  destruct (L.era_civil (z mod 146097)) as [[y0 m] d] eqn:Ec.
  unfold timegm. rewrite (dfc_era y0 m d (z / 146097) (z mod 146097) Ec Hdoe).
  assert (Ez : z / 146097 * 146097 + z mod 146097 = z).
  { pose proof (N.div_mod z 146097 ltac:(lia)). lia. }
  rewrite Ez. unfold z.
  assert (Hs : secs < 86400) by (apply N.mod_lt; lia).
  assert (Ets : ts = 86400 * days + secs) by (apply N.div_mod; lia).
  assert (E1 : secs = 3600 * (secs / 3600) + secs mod 3600) by (apply N.div_mod; lia).
  assert (E2 : secs mod 3600 = 60 * (secs mod 3600 / 60) + (secs mod 3600) mod 60) by (apply N.div_mod; lia).
  assert (E3 : (secs mod 3600) mod 60 = secs mod 60) by lia.
  lia.
Qed.

(* ------------------------------------------------------------------ the main statements *)
Lemma leap_same y : Time.leap y = C13.Model.leap y.
Proof. reflexivity. Qed.
Lemma dim_same b m : Time.dim b m = L.dim b m.
Proof. reflexivity. Qed.

Lemma gmtime_fields ts :
  ts < 253402300800 ->
  let '(y, m, d, h, mi, s) := L.gmtime ts in
  1 <= y /\ y < 10000 /\ 1 <= m /\ m <= 12 /\ 1 <= d /\ d <= Time.dim (Time.leap y) m /\ d <= 31 /\ h <= 23 /\ mi <= 59 /\ s <= 59.
Proof.
  intros Hts. unfold L.gmtime.
  set (days := ts / 86400). set (secs := ts mod 86400). set (z := days + 719468).
  assert (Hdays : days < 2932897) by (apply N.div_lt_upper_bound; lia).
  assert (Hsecs : secs < 86400) by (apply N.mod_lt; lia).
  assert (Hdoe : z mod 146097 < 146097) by (apply N.mod_lt; lia).
  pose proof (L.era_ok_at _ Hdoe) as Hok. unfold L.era_ok in Hok.
  destruct (L.era_civil (z mod 146097)) as [[y0 m] d] eqn:Ec.
  apply andb_true_iff in Hok as [Hok Hor]. apply andb_true_iff in Hok as [Hok Hy400].
  apply andb_true_iff in Hok as [Hok Hd2]. apply andb_true_iff in Hok as [Hok Hd1].
  apply andb_true_iff in Hok as [Hm1 Hm2].
  apply N.leb_le in Hm1, Hm2, Hd1, Hd2, Hy400.
  assert (Hera_lo : 4 <= z / 146097) by (apply N.div_le_lower_bound; lia).
  assert (Hera_hi : z / 146097 <= 24) by (apply N.lt_succ_r; apply N.div_lt_upper_bound; lia).
  assert (Hy_hi : y0 + z / 146097 * 400 < 10000).
  { destruct (N.eq_dec (z / 146097) 24) as [E|NE].
    - pose proof (N.div_mod z 146097 ltac:(lia)) as Ez. rewrite E in Ez.
      apply orb_true_iff in Hor as [H3|H3]; [apply N.ltb_lt in H3; lia|apply N.leb_le in H3; lia].
    - lia. }
  assert (Hh : secs / 3600 < 24) by (apply N.div_lt_upper_bound; lia).
  assert (Hmi : secs mod 3600 / 60 < 60) by (apply N.div_lt_upper_bound; [lia|]; pose proof (N.mod_lt secs 3600 ltac:(lia)); lia).
  assert (Hs : secs mod 60 < 60) by (apply N.mod_lt; lia).
  assert (Hdim : L.dim (C13.Model.leap y0) m <= 31).
  { unfold L.dim. destruct (m =? 2); [destruct (C13.Model.leap y0); lia|]. destruct ((m =? 4) || (m =? 6) || (m =? 9) || (m =? 11)); lia. }
  rewrite leap_same, dim_same, L.leap_era.
  repeat split; lia.
Qed.

(* reading back what instant() wrote: the very second, for every instant from the epoch to the end of year 9999 *)
Theorem str_to_secs_instant ts : ts < 253402300800 -> str_to_secs (L.instant ts) = TVal (Z.of_N ts).
Proof.
  intros Hts. pose proof (gmtime_fields ts Hts) as F. pose proof (timegm_gmtime ts) as G.
  unfold L.instant. destruct (L.gmtime ts) as [[[[[y m] d] h] mi] s].
  destruct F as (Hy1 & Hy2 & Hm1 & Hm2 & Hd1 & Hdim & Hd2 & Hh & Hmi & Hs).
  unfold str_to_secs.
  assert (Hne : is_empty (L.format_instant (y, m, d, h, mi, s)) = false) by reflexivity.
  rewrite Hne. unfold strptime. rewrite strptime_re_format by (assumption || lia).
  unfold date_ok.
  assert (E1 : (1 <=? y) = true) by (apply N.leb_le; lia).
  assert (E2 : (d <=? Time.dim (Time.leap y) m) = true) by (apply N.leb_le; lia).
  rewrite E1, E2. cbn [andb]. unfold renorm. rewrite G.
  assert (E3 : (Z.of_N ts <? Y10K)%Z = true) by (apply Z.ltb_lt; unfold Y10K; lia).
  rewrite E3. reflexivity.
Qed.

(* everything strptime lets through is a calendar date with a time of day (seconds up to 61: leap seconds) *)
Lemma two_or_one_bound ok2 ok1 s n r (B : N) :
  (forall x y, x < 10 -> y < 10 -> ok2 x y = true -> 10 * x + y <= B) -> 9 <= B ->
  two_or_one ok2 ok1 s = Some (n, r) -> n <= B.
Proof.
  intros Hb H9 H. unfold two_or_one in H.
  destruct s as [|a r0]; [discriminate|].
  destruct (dv a) as [x|] eqn:Ea; [|discriminate].
  assert (Hx : x < 10).
  { unfold dv in Ea. destruct ((48 <=? N_of_ascii a) && (N_of_ascii a <=? 57)) eqn:E; [|discriminate].
    apply andb_true_iff in E as [E1 E2]. apply N.leb_le in E1, E2. injection Ea as <-. lia. }
  destruct r0 as [|b r1].
  - destruct (ok1 x); [|discriminate]. injection H as <- _. lia.
  - destruct (dv b) as [y|] eqn:Eb.
    + assert (Hyy : y < 10).
      { unfold dv in Eb. destruct ((48 <=? N_of_ascii b) && (N_of_ascii b <=? 57)) eqn:E; [|discriminate].
        apply andb_true_iff in E as [E1 E2]. apply N.leb_le in E1, E2. injection Eb as <-. lia. }
      destruct (ok2 x y) eqn:E2.
      * injection H as <- _. apply Hb; assumption.
      * destruct (ok1 x); [|discriminate]. injection H as <- _. lia.
    + destruct (ok1 x); [|discriminate]. injection H as <- _. lia.
Qed.

Lemma two_or_one_pos ok2 ok1 s n r :
  (forall x y, ok2 x y = true -> 1 <= 10 * x + y) -> (forall x, ok1 x = true -> 1 <= x) ->
  two_or_one ok2 ok1 s = Some (n, r) -> 1 <= n.
Proof.
  intros H2 H1 H. unfold two_or_one in H.
  destruct s as [|a r0]; [discriminate|].
  destruct (dv a) as [x|]; [|discriminate].
  destruct r0 as [|b r1].
  - destruct (ok1 x) eqn:E; [|discriminate]. injection H as <- _. apply H1. exact E.
  - destruct (dv b) as [y|].
    + destruct (ok2 x y) eqn:E2.
      * injection H as <- _. apply H2. exact E2.
      * destruct (ok1 x) eqn:E; [|discriminate]. injection H as <- _. apply H1. exact E.
    + destruct (ok1 x) eqn:E; [|discriminate]. injection H as <- _. apply H1. exact E.
Qed.

Theorem strptime_is_a_date s y m d h mi sec :
  strptime s = Some (y, m, d, h, mi, sec) ->
  1 <= y /\ 1 <= m /\ m <= 12 /\ 1 <= d /\ d <= Time.dim (Time.leap y) m /\ h <= 23 /\ mi <= 59 /\ sec <= 61.
Proof.
  unfold strptime. destruct (strptime_re s) as [f|] eqn:E; [|discriminate].
  destruct (date_ok f) eqn:Ed; [|discriminate]. intros H. injection H as ->.
  unfold date_ok in Ed. apply andb_true_iff in Ed as [Ey Edim]. apply N.leb_le in Ey, Edim.
  unfold strptime_re in E.
  destruct (f_year s) as [[y' r1]|]; [|discriminate].
  destruct (expect is_minus r1) as [r2|]; [|discriminate].
  destruct (f_month r2) as [[m' r3]|] eqn:Em; [|discriminate].
  destruct (expect is_minus r3) as [r4|]; [|discriminate].
  destruct (f_day r4) as [[d' r5]|] eqn:Edd; [|discriminate].
  destruct (expect is_T r5) as [r6|]; [|discriminate].
  destruct (f_hour r6) as [[h' r7]|] eqn:Eh; [|discriminate].
  destruct (expect is_colon r7) as [r8|]; [|discriminate].
  destruct (f_min r8) as [[mi' r9]|] eqn:Emi; [|discriminate].
  destruct (expect is_colon r9) as [r10|]; [|discriminate].
  destruct (f_sec r10) as [[s' r11]|] eqn:Es; [|discriminate].
  destruct (expect is_Z r11) as [[|c r12]|]; try discriminate.
  injection E as -> -> -> -> -> ->.
  assert (Hm : 1 <= m /\ m <= 12).
  { split.
    - apply (two_or_one_pos month_ok2 nonzero r2 m r3); [| |exact Em].
      + intros x y0 Hk. unfold month_ok2 in Hk. lia.
      + intros x Hk. unfold nonzero in Hk. lia.
    - apply (two_or_one_bound month_ok2 nonzero r2 m r3 12); [|lia|exact Em].
      intros x y0 Hx Hy0 Hk. unfold month_ok2 in Hk. lia. }
  assert (Hd : 1 <= d).
  { unfold f_day in Edd.
    assert (Hgen : two_or_one day_ok2 nonzero r4 = Some (d, r5) -> 1 <= d).
    { apply two_or_one_pos.
      - intros x y0 Hk. unfold day_ok2 in Hk. lia.
      - intros x Hk. unfold nonzero in Hk. lia. }
    destruct r4 as [|a [|b r]]; try (apply Hgen; exact Edd).
    destruct (is_char 32 a); [|apply Hgen; exact Edd].
    destruct (dv b) as [y0|]; [|discriminate]. destruct (nonzero y0) eqn:En; [|discriminate].
    injection Edd as <- _. unfold nonzero in En. lia. }
  assert (Hh : h <= 23).
  { apply (two_or_one_bound hour_ok2 any1 r6 h r7 23); [|lia|exact Eh].
    intros x y0 Hx Hy0 Hk. unfold hour_ok2 in Hk. lia. }
  assert (Hmi : mi <= 59).
  { apply (two_or_one_bound min_ok2 any1 r8 mi r9 59); [|lia|exact Emi].
    intros x y0 Hx Hy0 Hk. unfold min_ok2 in Hk. lia. }
  assert (Hs : sec <= 61).
  { apply (two_or_one_bound sec_ok2 any1 r10 sec r11 61); [|lia|exact Es].
    intros x y0 Hx Hy0 Hk. unfold sec_ok2 in Hk. lia. }
  repeat split; try lia.
Qed.
