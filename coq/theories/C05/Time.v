(* C05/Time.v — the TEXT level of time stamps: saml2.time_util.str_to_time followed by calendar.timegm,
   as validate.validate_on_or_after / validate_before / time_util.later_than / issue_instant_ok use them.

   [strptime] restates time.strptime(s, "%Y-%m-%dT%H:%M:%SZ") - the regular expression CPython builds
   for that format: Y = 4 digits, m = 1[0-2] or 0[1-9] or [1-9], d = 3[01] or [12][0-9] or 0[1-9] or [1-9] or space[1-9],
   H = 2[0-3] or [0-1][0-9] or [0-9], M = [0-5][0-9] or [0-9], S = 6[01] or [0-5][0-9] or [0-9], literals matched
   without regard to case, whole string consumed - followed by the date check of datetime.date (year >= 1, day within the
   month); [frag] restates TIME_FORMAT_WITH_FRAGMENT
       ^ ( dddd-dd-ddTdd:dd:dd ) ( "." digits )? Z? $      [d = one decimal digit; digits = zero or more]
   used with .match (so '$' also matches before one trailing line feed); [str_to_secs] is the
   control flow of str_to_time (strptime, on ValueError the fragment expression and strptime of
   group 1 + "Z") followed by calendar.timegm ([timegm]: days from the civil date, proleptic Gregorian).

   ASCII digits only: Python's \d also matches other Unicode decimal digits (and int() converts
   them); the correspondence generator does not draw such characters (recorded as an assumption). *)
From Coq Require Import String Ascii List Bool NArith ZArith Lia.
From Verif Require Import Base.Str.
Import ListNotations.
Open Scope N_scope.

(* ------------------------------------------------------------------ characters *)
Definition dv (c : ascii) : option N :=
  let n := N_of_ascii c in if (48 <=? n) && (n <=? 57) then Some (n - 48) else None.

Definition is_char (n : N) (c : ascii) : bool := N_of_ascii c =? n.
(* a literal of the strptime format: matched case-insensitively *)
Definition is_char_ci (upper lower : N) (c : ascii) : bool := is_char upper c || is_char lower c.

Definition expect (p : ascii -> bool) (s : string) : option string :=
  match s with String c r => if p c then Some r else None | EmptyString => None end.

(* ------------------------------------------------------------------ the fields of strptime *)
Definition f_year (s : string) : option (N * string) :=
  match s with
  | String a (String b (String c (String d r))) =>
      match dv a, dv b, dv c, dv d with
      | Some x, Some y, Some z, Some w => Some (1000 * x + 100 * y + 10 * z + w, r)
      | _, _, _, _ => None
      end
  | _ => None
  end.

(* one alternative list "two-digit forms | one-digit form": the two-digit forms are tried first; when the
   two characters do not form one, the single digit is taken and the next character is left to the literal
   that follows (which is never a digit, so regex backtracking cannot find another way) *)
Definition two_or_one (ok2 : N -> N -> bool) (ok1 : N -> bool) (s : string) : option (N * string) :=
  match s with
  | String a r =>
      match dv a with
      | Some x =>
          match r with
          | String b r' =>
              match dv b with
              | Some y => if ok2 x y then Some (10 * x + y, r') else if ok1 x then Some (x, r) else None
              | None => if ok1 x then Some (x, r) else None
              end
          | EmptyString => if ok1 x then Some (x, r) else None
          end
      | None => None
      end
  | EmptyString => None
  end.

Definition month_ok2 (x y : N) : bool := ((x =? 1) && (y <=? 2)) || ((x =? 0) && (1 <=? y)).
Definition day_ok2 (x y : N) : bool := ((x =? 3) && (y <=? 1)) || ((1 <=? x) && (x <=? 2)) || ((x =? 0) && (1 <=? y)).
Definition hour_ok2 (x y : N) : bool := ((x =? 2) && (y <=? 3)) || (x <=? 1).
Definition min_ok2 (x y : N) : bool := x <=? 5.
Definition sec_ok2 (x y : N) : bool := ((x =? 6) && (y <=? 1)) || (x <=? 5).
Definition nonzero (x : N) : bool := 1 <=? x.
Definition any1 (x : N) : bool := true.

Definition f_month := two_or_one month_ok2 nonzero.
(* %d also has the space-padded form " [1-9]" *)
Definition f_day (s : string) : option (N * string) :=
  match s with
  | String a (String b r) =>
      if is_char 32 a then match dv b with Some y => if nonzero y then Some (y, r) else None | None => None end
      else two_or_one day_ok2 nonzero s
  | _ => two_or_one day_ok2 nonzero s
  end.
Definition f_hour := two_or_one hour_ok2 any1.
Definition f_min := two_or_one min_ok2 any1.
Definition f_sec := two_or_one sec_ok2 any1.

Definition leap (y : N) : bool := ((y mod 4 =? 0) && negb (y mod 100 =? 0)) || (y mod 400 =? 0).
Definition dim (yleap : bool) (m : N) : N :=
  if m =? 2 then (if yleap then 29 else 28)
  else if (m =? 4) || (m =? 6) || (m =? 9) || (m =? 11) then 30 else 31.

Definition fields := (N * N * N * N * N * N)%type.

Definition is_minus := is_char 45.
Definition is_colon := is_char 58.
Definition is_T := is_char_ci 84 116.
Definition is_Z := is_char_ci 90 122.

(* the regular-expression part *)
Definition strptime_re (s : string) : option fields :=
  match f_year s with
  | Some (y, r1) =>
  match expect is_minus r1 with
  | Some r2 =>
  match f_month r2 with
  | Some (m, r3) =>
  match expect is_minus r3 with
  | Some r4 =>
  match f_day r4 with
  | Some (d, r5) =>
  match expect is_T r5 with
  | Some r6 =>
  match f_hour r6 with
  | Some (h, r7) =>
  match expect is_colon r7 with
  | Some r8 =>
  match f_min r8 with
  | Some (mi, r9) =>
  match expect is_colon r9 with
  | Some r10 =>
  match f_sec r10 with
  | Some (sec, r11) =>
  match expect is_Z r11 with
  | Some EmptyString => Some (y, m, d, h, mi, sec)
  | _ => None
  end | None => None end | None => None end | None => None end | None => None end | None => None end
  | None => None end | None => None end | None => None end | None => None end | None => None end
  | None => None end.

(* datetime.date(year, month, day) must exist *)
Definition date_ok (f : fields) : bool :=
  let '(y, m, d, _, _, _) := f in (1 <=? y) && (d <=? dim (leap y) m).

Definition strptime (s : string) : option fields :=
  match strptime_re s with
  | Some f => if date_ok f then Some f else None
  | None => None
  end.

(* ------------------------------------------------------------------ the fragment expression *)
Definition is_digit (c : ascii) : bool := match dv c with Some _ => true | None => false end.

Fixpoint take_pat (pat : list (ascii -> bool)) (s : string) : option (string * string) :=
  match pat with
  | [] => Some (EmptyString, s)
  | p :: ps =>
      match s with
      | String c r => if p c then match take_pat ps r with Some (h, t) => Some (String c h, t) | None => None end else None
      | EmptyString => None
      end
  end.

Definition D := is_digit.
Definition frag_pat : list (ascii -> bool) :=
  [D; D; D; D; is_char 45; D; D; is_char 45; D; D; is_char 84; D; D; is_char 58; D; D; is_char 58; D; D].

Fixpoint drop_digits (s : string) : string :=
  match s with String c r => if is_digit c then drop_digits r else s | EmptyString => s end.

(* group 1 of the match, or None *)
Definition frag (s : string) : option string :=
  match take_pat frag_pat s with
  | Some (base, rest) =>
      let r1 := match rest with String c r => if is_char 46 c then drop_digits r else rest | EmptyString => rest end in
      let r2 := match r1 with String c r => if is_char 90 c then r else r1 | EmptyString => r1 end in
      match r2 with
      | EmptyString => Some base
      | String c EmptyString => if is_char 10 c then Some base else None
      | _ => None
      end
  | None => None
  end.

(* ------------------------------------------------------------------ calendar.timegm *)
(* days from 0000-03-01 to the civil date (year >= 1, month 1..12, day >= 1) *)
Definition dfc (y m d : N) : N :=
  let y' := if m <=? 2 then y - 1 else y in
  let era := y' / 400 in
  let yoe := y' mod 400 in
  let mp := if 2 <? m then m - 3 else m + 9 in
  era * 146097 + (yoe * 365 + yoe / 4 - yoe / 100 + (153 * mp + 2) / 5 + d - 1).

Definition timegm (f : fields) : Z :=
  let '(y, m, d, h, mi, s) := f in
  ((Z.of_N (dfc y m d) - 719468) * 86400 + Z.of_N h * 3600 + Z.of_N mi * 60 + Z.of_N s)%Z.

(* ------------------------------------------------------------------ str_to_time ; timegm *)
(* TOther: an exception class the model never predicts (observation side only) *)
Inductive tres := TVal (z : Z) | TValueError | TAttributeError | TEmpty | TOther.

Definition tres_eqb (a b : tres) : bool :=
  match a, b with
  | TVal x, TVal y => Z.eqb x y
  | TValueError, TValueError | TAttributeError, TAttributeError | TEmpty, TEmpty => true
  | _, _ => false
  end.

(* str_to_time ends with time.gmtime(calendar.timegm(then)): a leap second written at the very end of year 9999
   lands in year 10000, which time.gmtime refuses (ValueError) *)
Definition Y10K : Z := 253402300800%Z.
Definition renorm (f : fields) : tres :=
  let v := timegm f in if (v <? Y10K)%Z then TVal v else TValueError.

Definition str_to_secs (s : string) : tres :=
  if is_empty s then TEmpty     (* str_to_time returns 0, an int: calendar.timegm(0) is a TypeError *)
  else match strptime s with
       | Some f => renorm f
       | None =>
           match frag s with
           | None => TAttributeError           (* elem is None: elem.groups() *)
           | Some base =>
               match strptime (base ++ "Z") with
               | Some f => renorm f
               | None => TValueError
               end
           end
       end.
