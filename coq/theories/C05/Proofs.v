(* C05/Proofs.v *)
From Coq Require Import ZArith Bool List Lia ZifyBool.
From Verif Require Import C05.Model C05.Spec.
Import ListNotations.
Open Scope Z_scope.

Ltac unfold_all :=
  unfold accept, sound_b, strictly_inside_b, timeslack, issue_instant_ok, validate_on_or_after, validate_before,
    later_than, str_to_time, uppers, lowers, expected_expiry, ordered_b, opt_some_b, sec, skew in *;
  cbn [now atd t cnb cnooa snb snooa sess issue fst flat_map app forallb negb] in *.

Ltac split_ifs :=
  repeat (match goal with
          | |- context [if ?b then _ else _] => destruct b eqn:?
          | |- context [match ?o with Some _ => _ | None => _ end] => destruct o eqn:?
          end; cbn [negb fst flat_map app forallb] in *);
  repeat (match goal with
          | H : (if ?b then _ else _) = _ |- _ => destruct b eqn:?; try discriminate H
          end);
  repeat (match goal with
          | H : Some _ = Some _ |- _ => injection H as H
          end).

(* soundness, boolean form, for every input whose clock reads after 1970 + skew *)
Lemma accept_sound_b x : 0 < now x - skew x -> sound_b x (accept x) = true.
Proof.
  destruct x as [n a [c1 c2 s1 s2 se [i fi]]]. intros Hpos. unfold_all.
  destruct a as [z|]; [destruct (z =? 0) eqn:Ez|];
  destruct c1 as [[c1 f1]|], c2 as [[c2 f2]|], s1 as [[s1 g1]|], s2 as [[s2 g2]|], se as [[se h]|];
  cbn [fst flat_map app forallb negb] in *;
  split_ifs; try reflexivity; try discriminate; lia.
Qed.

Lemma accept_complete_b x : strictly_inside_b x = true -> accept x <> Reject.
Proof.
  destruct x as [n a [c1 c2 s1 s2 se [i fi]]]. unfold_all.
  destruct a as [z|]; [destruct (z =? 0) eqn:Ez|];
  destruct c1 as [[c1 f1]|], c2 as [[c2 f2]|], s1 as [[s1 g1]|], s2 as [[s2 g2]|], se as [[se h]|];
  cbn [fst flat_map app forallb negb] in *; intros Hin;
  split_ifs; try discriminate; lia.
Qed.

(* reflection of the boolean spec *)
Lemma forallb_le (f : Z -> bool) (P : Z -> Prop) l :
  (forall z, f z = true <-> P z) -> (forallb f l = true <-> forall z, In z l -> P z).
Proof. intros H. rewrite forallb_forall. split; intros G z Hz; apply H, G, Hz. Qed.

Lemma ordered_b_iff a b : ordered_b a b = true <-> ordered a b.
Proof. unfold ordered_b, ordered. destruct a, b; try tauto. apply Z.leb_le. Qed.

Lemma sound_b_iff x v : sound_b x v = true <-> sound x v.
Proof.
  unfold sound_b, sound. destruct v as [r|]; [|tauto].
  rewrite !andb_true_iff.
  rewrite (forallb_le _ (fun u => now x <= u + skew x)) by (intros; apply Z.leb_le).
  rewrite (forallb_le _ (fun l => l - skew x <= now x)) by (intros; apply Z.leb_le).
  rewrite !ordered_b_iff, Z.leb_le.
  assert (E : (match expected_expiry (t x) with Some e => r =? e | None => true end) = true
              <-> (forall e, expected_expiry (t x) = Some e -> r = e)).
  { destruct (expected_expiry (t x)) as [e|].
    - rewrite Z.eqb_eq. split; [intros -> e' [= ->]; reflexivity|intros H; apply H; reflexivity].
    - split; [intros _ e [=]|reflexivity]. }
  rewrite E. tauto.
Qed.

Lemma strictly_inside_b_iff x : strictly_inside_b x = true <-> strictly_inside x.
Proof.
  unfold strictly_inside_b, strictly_inside. rewrite !andb_true_iff.
  rewrite (forallb_le _ (fun u => now x < u + skew x)) by (intros; apply Z.ltb_lt).
  rewrite (forallb_le _ (fun l => l - skew x < now x)) by (intros; apply Z.ltb_lt).
  rewrite !ordered_b_iff, Z.leb_le, Z.ltb_lt.
  assert (E : negb (opt_some_b (snb (t x))) || opt_some_b (snooa (t x)) = true
              <-> (snb (t x) <> None -> snooa (t x) <> None)).
  { destruct (snb (t x)), (snooa (t x)); cbn; split; try tauto; try congruence.
    intros H. exfalso. apply H; congruence. }
  rewrite E. tauto.
Qed.

Lemma spec_b_iff x v : spec_b x v = true <-> spec x v.
Proof.
  unfold spec_b, spec. rewrite andb_true_iff, sound_b_iff, orb_true_iff, negb_true_iff.
  rewrite <- strictly_inside_b_iff.
  assert (E : (match v with Reject => false | Accept _ => true end) = true <-> v <> Reject).
  { destruct v; split; congruence. }
  rewrite E. destruct (strictly_inside_b x); split; intros [H1 H2]; (split; [exact H1|]).
  - destruct H2 as [H2|H2]; [discriminate|intros _; exact H2].
  - right. apply H2. reflexivity.
  - intros H; discriminate.
  - left. reflexivity.
Qed.

Lemma validity_holds x : 0 < now x - skew x -> spec x (accept x).
Proof.
  intros Hpos. split.
  - apply sound_b_iff, accept_sound_b, Hpos.
  - intros H. apply accept_complete_b, strictly_inside_b_iff, H.
Qed.

(* non-vacuity: an input strictly inside every window, accepted, expiry = SessionNotOnOrAfter *)
Example inside_example :
  let x := {| now := 1700000000; atd := Some 60;
              t := {| cnb := Some (1699999990, false); cnooa := Some (1700000300, true);
                      snb := None; snooa := Some (1700000300, false);
                      sess := Some (1700003600, false); issue := (1700000001, false) |} |} in
  strictly_inside_b x = true /\ accept x = Accept 1700003600 /\ 0 < now x - skew x.
Proof. vm_compute. repeat split; reflexivity. Qed.

(* one second past NotOnOrAfter + skew is rejected, whatever else holds *)
Lemma too_old_rejected x s :
  cnooa (t x) = Some s -> now x > fst s + timeslack (atd x) -> accept x = Reject.
Proof.
  destruct x as [n a [c1 c2 s1 s2 se [i fi]]]. cbn [t cnooa now atd]. intros -> H.
  unfold accept. cbn [now atd t cnb cnooa snb snooa sess issue].
  unfold validate_on_or_after at 2. unfold str_to_time.
  destruct (negb (issue_instant_ok n (timeslack a) (i, fi))); [reflexivity|].
  destruct (validate_on_or_after n (timeslack a) se); [|reflexivity].
  match goal with |- (if ?b then _ else _) = _ => destruct b end; [reflexivity|].
  destruct (n >? fst s + timeslack a) eqn:E; [reflexivity|lia].
Qed.
