(* C05/Proofs.v *)
From Coq Require Import ZArith Bool List Lia ZifyBool Btauto.
From Verif Require Import C05.Model C05.Spec.
Import ListNotations.
Open Scope Z_scope.

Ltac unfold_all :=
  unfold accept, sound_b, strictly_inside_b, timeslack, issue_instant_ok, validate_on_or_after, validate_before,
    later_than, str_to_time, uppers, lowers, expected_expiry, ordered_b, opt_some_b, sec, skew in *;
  cbn [now atd t cnb cnooa snb snooa sess issue fst flat_map app forallb negb] in *.

Ltac split_ifs :=
  repeat (match goal with
          | |- context [if ?b then _ else _] => destruct b eqn:?
          | |- context [match ?o with Some _ => _ | None => _ end] => destruct o eqn:?
          end; cbn [negb fst flat_map app forallb] in *);
  repeat (match goal with
          | H : (if ?b then _ else _) = _ |- _ => destruct b eqn:?; try discriminate H
          end);
  repeat (match goal with
          | H : Some _ = Some _ |- _ => injection H as H
          end).

(* soundness, boolean form, for every input whose clock reads after 1970 + skew *)
Lemma accept_sound_b x : 0 < now x - skew x -> sound_b x (accept x) = true.
Proof.
  destruct x as [n a [c1 c2 s1 s2 se [i fi]]]. intros Hpos. unfold_all.
  destruct a as [z|]; [destruct (z =? 0) eqn:Ez|];
  destruct c1 as [[c1 f1]|], c2 as [[c2 f2]|], s1 as [[s1 g1]|], s2 as [[s2 g2]|], se as [[se h]|];
  cbn [fst flat_map app forallb negb] in *;
  split_ifs; try reflexivity; try discriminate; lia.
Qed.

Lemma accept_complete_b x : strictly_inside_b x = true -> accept x <> Reject.
Proof.
  destruct x as [n a [c1 c2 s1 s2 se [i fi]]]. unfold_all.
  destruct a as [z|]; [destruct (z =? 0) eqn:Ez|];
  destruct c1 as [[c1 f1]|], c2 as [[c2 f2]|], s1 as [[s1 g1]|], s2 as [[s2 g2]|], se as [[se h]|];
  cbn [fst flat_map app forallb negb] in *; intros Hin;
  split_ifs; try discriminate; lia.
Qed.

(* reflection of the boolean spec *)
Lemma forallb_le (f : Z -> bool) (P : Z -> Prop) l :
  (forall z, f z = true <-> P z) -> (forallb f l = true <-> forall z, In z l -> P z).
Proof. intros H. rewrite forallb_forall. split; intros G z Hz; apply H, G, Hz. Qed.

Lemma ordered_b_iff a b : ordered_b a b = true <-> ordered a b.
Proof. unfold ordered_b, ordered. destruct a, b; try tauto. apply Z.leb_le. Qed.

Lemma sound_b_iff x v : sound_b x v = true <-> sound x v.
Proof.
  unfold sound_b, sound. destruct v as [r|]; [|tauto].
  rewrite !andb_true_iff.
  rewrite (forallb_le _ (fun u => now x <= u + skew x)) by (intros; apply Z.leb_le).
  rewrite (forallb_le _ (fun l => l - skew x <= now x)) by (intros; apply Z.leb_le).
  rewrite !ordered_b_iff, Z.leb_le.
  assert (E : (match expected_expiry (t x) with Some e => r =? e | None => true end) = true
              <-> (forall e, expected_expiry (t x) = Some e -> r = e)).
  { destruct (expected_expiry (t x)) as [e|].
    - rewrite Z.eqb_eq. split; [intros -> e' [= ->]; reflexivity|intros H; apply H; reflexivity].
    - split; [intros _ e [=]|reflexivity]. }
  rewrite E. tauto.
Qed.

Lemma strictly_inside_b_iff x : strictly_inside_b x = true <-> strictly_inside x.
Proof.
  unfold strictly_inside_b, strictly_inside. rewrite !andb_true_iff.
  rewrite (forallb_le _ (fun u => now x < u + skew x)) by (intros; apply Z.ltb_lt).
  rewrite (forallb_le _ (fun l => l - skew x < now x)) by (intros; apply Z.ltb_lt).
  rewrite !ordered_b_iff, Z.leb_le, Z.ltb_lt.
  assert (E : negb (opt_some_b (snb (t x))) || opt_some_b (snooa (t x)) = true
              <-> (snb (t x) <> None -> snooa (t x) <> None)).
  { destruct (snb (t x)), (snooa (t x)); cbn; split; try tauto; try congruence.
    intros H. exfalso. apply H; congruence. }
  rewrite E. tauto.
Qed.

Lemma spec_b_iff x v : spec_b x v = true <-> spec x v.
Proof.
  unfold spec_b, spec. rewrite andb_true_iff, sound_b_iff, orb_true_iff, negb_true_iff.
  rewrite <- strictly_inside_b_iff.
  assert (E : (match v with Reject => false | Accept _ => true end) = true <-> v <> Reject).
  { destruct v; split; congruence. }
  rewrite E. destruct (strictly_inside_b x); split; intros [H1 H2]; (split; [exact H1|]).
  - destruct H2 as [H2|H2]; [discriminate|intros _; exact H2].
  - right. apply H2. reflexivity.
  - intros H; discriminate.
  - left. reflexivity.
Qed.

Lemma validity_holds x : 0 < now x - skew x -> spec x (accept x).
Proof.
  intros Hpos. split.
  - apply sound_b_iff, accept_sound_b, Hpos.
  - intros H. apply accept_complete_b, strictly_inside_b_iff, H.
Qed.

(* non-vacuity: an input strictly inside every window, accepted, expiry = SessionNotOnOrAfter *)
Example inside_example :
  let x := {| now := 1700000000; atd := Some 60;
              t := {| cnb := Some (1699999990, false); cnooa := Some (1700000300, true);
                      snb := None; snooa := Some (1700000300, false);
                      sess := Some (1700003600, false); issue := (1700000001, false) |} |} in
  strictly_inside_b x = true /\ accept x = Accept 1700003600 /\ 0 < now x - skew x.
Proof. vm_compute. repeat split; reflexivity. Qed.

(* one second past NotOnOrAfter + skew is rejected, whatever else holds *)
Lemma too_old_rejected x s :
  cnooa (t x) = Some s -> now x > fst s + timeslack (atd x) -> accept x = Reject.
Proof.
  destruct x as [n a [c1 c2 s1 s2 se [i fi]]]. cbn [t cnooa now atd]. intros -> H.
  unfold accept. cbn [now atd t cnb cnooa snb snooa sess issue].
  unfold validate_on_or_after at 2. unfold str_to_time.
  destruct (negb (issue_instant_ok n (timeslack a) (i, fi))); [reflexivity|].
  destruct (validate_on_or_after n (timeslack a) se); [|reflexivity].
  match goal with |- (if ?b then _ else _) = _ => destruct b end; [reflexivity|].
  destruct (n >? fst s + timeslack a) eqn:E; [reflexivity|lia].
Qed.

(* ====================================================================================================
   The whole message (Model.xaccept, Spec.xspec) *)
Lemma timeslack_skew a : timeslack a = match a with Some z => z | None => 0 end.
Proof. unfold timeslack. destruct a as [z|]; [|reflexivity]. destruct (Z.eqb_spec z 0); [symmetry; assumption|reflexivity]. Qed.

Ltac split_hyp_ifs :=
  repeat match goal with
         | H : context [if ?b then _ else _] |- _ => destruct b eqn:?; cbn [negb] in *
         end.

Ltac unfold_w :=
  unfold w_inside_b, w_strict_b, lower_ok_b, upper_ok_b, lower_strict_b, upper_strict_b, ordered_b, opt_some_b,
    validate_on_or_after, validate_before, later_than, str_to_time, sec in *;
  cbn [fst snd negb] in *.

(* ---- soundness, stage by stage *)
Lemma statements_ok_sound n k sts v : 0 < n - k -> statements_ok n k sts = Some v ->
  forallb (upper_ok_b n k) sts = true
  /\ match present sts with
     | _ :: _ => (v >? 0) = true /\ existsb (fun e => v =? e) (map sec (present sts)) = true
     | [] => v = 0
     end.
Proof.
  intros Hpos H. destruct sts as [|b [|b2 r]]; try discriminate H. cbn [statements_ok] in H.
  destruct b as [[s f]|]; unfold present; cbn [flat_map app forallb map existsb]; unfold_w.
  - destruct (n >? s + k) eqn:E; [discriminate H|]. injection H as <-. repeat split; lia.
  - injection H as <-. split; reflexivity.
Qed.

Lemma conditions_ok_sound n k c v : conditions_ok n k c = Some v ->
  match c with
  | Some w => w_inside_b n k w = true /\ match snd w with Some s => v = sec s | None => True end
  | None => True
  end.
Proof.
  destruct c as [[nb nooa]|]; [|intros _; exact I]. unfold conditions_ok.
  destruct nb as [[a fa]|], nooa as [[b fb]|]; unfold_w; intros H; split_hyp_ifs; try discriminate;
    try (injection H as <-); split; try reflexivity; try exact I; lia.
Qed.

Lemma bearer_keep_sound n k d : bearer_confirmed n k d = CKeep -> exists w, d = Some w /\ w_inside_b n k w = true.
Proof.
  destruct d as [[nb nooa]|]; [|discriminate]. intros H. exists (nb, nooa). split; [reflexivity|].
  unfold bearer_confirmed in H.
  destruct nb as [[a fa]|], nooa as [[b fb]|]; unfold_w; split_hyp_ifs; try discriminate; lia.
Qed.

Definition conf_inside_b (n k : Z) (d : option window) : bool :=
  match d with Some w => w_inside_b n k w | None => false end.

Lemma confirmations_ok_sound n k l : forall kept, confirmations_ok n k l kept = true ->
  kept = true \/ existsb (conf_inside_b n k) l = true.
Proof.
  induction l as [|d r IH]; intros kept H; cbn [confirmations_ok existsb] in *; [left; exact H|].
  destruct (bearer_confirmed n k d) eqn:E; [discriminate H| |].
  - destruct (IH _ H) as [G|G]; [left; exact G|right; rewrite G; apply orb_true_r].
  - right. destruct (bearer_keep_sound _ _ _ E) as [w [-> Hw]]. cbn [conf_inside_b]. rewrite Hw. reflexivity.
Qed.

Lemma xaccept_sound_b x : 0 < xnow x - xskew x -> xsound_b x (xaccept x) = true.
Proof.
  destruct x as [n a m]. unfold xaccept, xskew, verify_ok. cbn [xnow xatd xm]. rewrite timeslack_skew.
  set (k := match a with Some z => z | None => 0 end). intros Hpos.
  destruct (unravels (m_binding m)); cbn [negb]; [|reflexivity].
  destruct (issue_instant_ok n k (m_issue m)) eqn:Ei; rewrite ?andb_false_r; cbn [negb]; [|reflexivity].
  destruct (if asynchop (m_binding m) then _ else true); cbn [andb negb]; [|reflexivity].
  destruct (statements_ok n k (m_statements m)) as [session|] eqn:Es; [|reflexivity].
  destruct (conditions_ok n k (m_conditions m)) as [nooa|] eqn:Ec; [|reflexivity].
  destruct (confirmations_ok n k (m_confirmations m) false) eqn:Ek; [|reflexivity].
  destruct (statements_ok_sound _ _ _ _ Hpos Es) as [S1 S2].
  pose proof (conditions_ok_sound _ _ _ _ Ec) as C1.
  destruct (confirmations_ok_sound _ _ _ _ Ek) as [K|K]; [discriminate K|].
  unfold xsound_b, xskew. cbn [xnow xatd xm]. fold k. fold (conf_inside_b n k).
  rewrite !andb_true_iff. repeat split.
  - exact S1.
  - destruct (m_conditions m) as [w|]; [apply C1|reflexivity].
  - exact K.
  - unfold issue_instant_ok, str_to_time, sec in *. lia.
  - unfold xexpiry_ok_b. destruct (present (m_statements m)) as [|e r] eqn:Ep.
    + subst session. cbn [Z.gtb Z.compare]. destruct (m_conditions m) as [[nb [c|]]|]; try reflexivity.
      destruct C1 as [_ ->]. apply Z.eqb_refl.
    + destruct S2 as [-> S2]. exact S2.
Qed.

(* ---- completeness, stage by stage *)
Lemma bearer_keep_complete n k w :
  w_strict_b n k w && (negb (opt_some_b (fst w)) || opt_some_b (snd w)) = true -> bearer_confirmed n k (Some w) = CKeep.
Proof.
  destruct w as [[[a fa]|] [[b fb]|]]; unfold bearer_confirmed; unfold_w; intros H; split_ifs; try reflexivity;
    try discriminate; lia.
Qed.

Definition conf_strict_b (n k : Z) (d : option window) : bool :=
  match d with
  | Some w => w_strict_b n k w && (negb (opt_some_b (fst w)) || opt_some_b (snd w))
  | None => false
  end.

Lemma confirmations_ok_complete n k l : forallb (conf_strict_b n k) l = true ->
  forall kept, confirmations_ok n k l kept = match l with [] => kept | _ => true end.
Proof.
  induction l as [|d r IH]; intros H kept; [reflexivity|]. cbn [forallb] in H. apply andb_true_iff in H as [Hd Hr].
  cbn [confirmations_ok]. destruct d as [w|]; [|discriminate Hd]. cbn [conf_strict_b] in Hd.
  rewrite (bearer_keep_complete _ _ _ Hd). rewrite (IH Hr). destruct r; reflexivity.
Qed.

Lemma issue_complete n k i : (Z.abs (sec i - n) <? 86400 + k) = true -> issue_instant_ok n k i = true.
Proof. unfold issue_instant_ok, str_to_time, sec. lia. Qed.

Lemma statement_complete n k st : upper_strict_b n k st = true -> exists v, validate_on_or_after n k st = Some v.
Proof.
  destruct st as [[st f]|]; unfold_w; intros H; [|eexists; reflexivity].
  destruct (n >? st + k) eqn:E; [lia|eexists; reflexivity].
Qed.

Lemma conditions_complete n k c :
  match c with Some w => w_strict_b n k w | None => true end = true -> exists v, conditions_ok n k c = Some v.
Proof.
  destruct c as [[[[c1 f1]|] [[c2 f2]|]]|]; unfold conditions_ok; unfold_w; intros H; split_ifs;
    try (eexists; reflexivity); try discriminate; lia.
Qed.

Lemma xaccept_complete_b x : xstrictly_inside_b x = true -> xaccept x <> Reject.
Proof.
  destruct x as [n a m]. unfold xstrictly_inside_b, xaccept, xskew, verify_ok. cbn [xnow xatd xm]. rewrite timeslack_skew.
  set (k := match a with Some z => z | None => 0 end). intros H.
  repeat (apply andb_true_iff in H; let H' := fresh "H" in destruct H as [H H']).
  fold (conf_strict_b n k) in *.
  rename H into Hk0, H6 into Hun, H5 into Hd, H4 into Hst, H3 into Hc, H2 into Hne, H1 into Hcf, H0 into Hi.
  rewrite Hun. cbn [negb]. rewrite (issue_complete _ _ _ Hi).
  assert (Ed : (if asynchop (m_binding m) then match m_destination m with Some false => false | _ => true end else true) = true).
  { destruct (asynchop (m_binding m)); [exact Hd|reflexivity]. }
  rewrite Ed. cbn [andb negb].
  destruct (m_statements m) as [|s [|s2 r]]; try discriminate Hst. cbn [statements_ok].
  destruct (statement_complete _ _ _ Hst) as [v ->].
  destruct (conditions_complete _ _ _ Hc) as [v' ->].
  rewrite (confirmations_ok_complete _ _ _ Hcf). destruct (m_confirmations m); [discriminate Hne|]. discriminate.
Qed.

(* ---- reflection *)
Lemma lower_ok_b_iff n k o : lower_ok_b n k o = true <-> lower_ok n k o.
Proof. destruct o; cbn; [apply Z.leb_le|tauto]. Qed.
Lemma upper_ok_b_iff n k o : upper_ok_b n k o = true <-> upper_ok n k o.
Proof. destruct o; cbn; [apply Z.leb_le|tauto]. Qed.
Lemma lower_strict_b_iff n k o : lower_strict_b n k o = true <-> lower_strict n k o.
Proof. destruct o; cbn; [apply Z.ltb_lt|tauto]. Qed.
Lemma upper_strict_b_iff n k o : upper_strict_b n k o = true <-> upper_strict n k o.
Proof. destruct o; cbn; [apply Z.ltb_lt|tauto]. Qed.
Lemma w_inside_b_iff n k w : w_inside_b n k w = true <-> w_inside n k w.
Proof. unfold w_inside_b, w_inside. rewrite !andb_true_iff, lower_ok_b_iff, upper_ok_b_iff, ordered_b_iff. tauto. Qed.
Lemma w_strict_b_iff n k w : w_strict_b n k w = true <-> w_strict n k w.
Proof. unfold w_strict_b, w_strict. rewrite !andb_true_iff, lower_strict_b_iff, upper_strict_b_iff, ordered_b_iff. tauto. Qed.

Lemma xexpiry_ok_b_iff m r : xexpiry_ok_b m r = true <-> xexpiry_ok m r.
Proof.
  unfold xexpiry_ok_b, xexpiry_ok. destruct (present (m_statements m)) as [|e l].
  - destruct (m_conditions m) as [[nb [c|]]|]; try tauto. apply Z.eqb_eq.
  - rewrite existsb_exists. split.
    + intros [z [Hz E]]. apply Z.eqb_eq in E. subst z. exact Hz.
    + intros Hz. exists r. split; [exact Hz|apply Z.eqb_refl].
Qed.

Lemma xsound_b_iff x v : xsound_b x v = true <-> xsound x v.
Proof.
  unfold xsound_b, xsound. destruct v as [r|]; [|tauto]. cbv zeta.
  rewrite !andb_true_iff, forallb_forall, existsb_exists, Z.leb_le, xexpiry_ok_b_iff.
  assert (E1 : (forall s, In s (m_statements (xm x)) -> upper_ok_b (xnow x) (xskew x) s = true)
               <-> (forall s, In s (m_statements (xm x)) -> upper_ok (xnow x) (xskew x) s)).
  { split; intros H s Hs; apply upper_ok_b_iff, H, Hs. }
  assert (E2 : match m_conditions (xm x) with Some w => w_inside_b (xnow x) (xskew x) w | None => true end = true
               <-> (forall w, m_conditions (xm x) = Some w -> w_inside (xnow x) (xskew x) w)).
  { destruct (m_conditions (xm x)) as [w|].
    - rewrite w_inside_b_iff. split; [intros H w' [= <-]; exact H|intros H; apply H; reflexivity].
    - split; [intros _ w [=]|reflexivity]. }
  assert (E3 : (exists d, In d (m_confirmations (xm x)) /\
                  match d with Some w => w_inside_b (xnow x) (xskew x) w | None => false end = true)
               <-> (exists w, In (Some w) (m_confirmations (xm x)) /\ w_inside (xnow x) (xskew x) w)).
  { split.
    - intros [[w|] [Hd Hw]]; [|discriminate Hw]. exists w. split; [exact Hd|apply w_inside_b_iff, Hw].
    - intros [w [Hd Hw]]. exists (Some w). split; [exact Hd|apply w_inside_b_iff, Hw]. }
  rewrite E1, E2, E3. tauto.
Qed.

Lemma xstrictly_inside_b_iff x : xstrictly_inside_b x = true <-> xstrictly_inside x.
Proof.
  unfold xstrictly_inside_b, xstrictly_inside. cbv zeta.
  rewrite !andb_true_iff, forallb_forall, Z.leb_le, Z.ltb_lt.
  assert (E1 : match m_destination (xm x) with Some false => false | _ => true end = true
               <-> m_destination (xm x) <> Some false).
  { destruct (m_destination (xm x)) as [[|]|]; split; congruence. }
  assert (E2 : match m_statements (xm x) with [s] => upper_strict_b (xnow x) (xskew x) s | _ => false end = true
               <-> (exists s, m_statements (xm x) = [s] /\ upper_strict (xnow x) (xskew x) s)).
  { destruct (m_statements (xm x)) as [|s [|s2 r]].
    - split; [discriminate|intros [s [H _]]; discriminate H].
    - rewrite upper_strict_b_iff. split; [intros H; exists s; split; [reflexivity|exact H]|intros [s' [[= <-] H]]; exact H].
    - split; [discriminate|intros [s' [H _]]; discriminate H]. }
  assert (E3 : match m_conditions (xm x) with Some w => w_strict_b (xnow x) (xskew x) w | None => true end = true
               <-> (forall w, m_conditions (xm x) = Some w -> w_strict (xnow x) (xskew x) w)).
  { destruct (m_conditions (xm x)) as [w|].
    - rewrite w_strict_b_iff. split; [intros H w' [= <-]; exact H|intros H; apply H; reflexivity].
    - split; [intros _ w [=]|reflexivity]. }
  assert (E4 : match m_confirmations (xm x) with [] => false | _ => true end = true <-> m_confirmations (xm x) <> []).
  { destruct (m_confirmations (xm x)); split; congruence. }
  assert (E5 : (forall d, In d (m_confirmations (xm x)) ->
                  match d with
                  | Some w => w_strict_b (xnow x) (xskew x) w && (negb (opt_some_b (fst w)) || opt_some_b (snd w))
                  | None => false
                  end = true)
               <-> (forall d, In d (m_confirmations (xm x)) ->
                      exists w, d = Some w /\ w_strict (xnow x) (xskew x) w /\ (fst w <> None -> snd w <> None))).
  { assert (P : forall w : window, negb (opt_some_b (fst w)) || opt_some_b (snd w) = true <-> (fst w <> None -> snd w <> None)).
    { intros [[a|] [b|]]; cbn; split; try tauto; try congruence. intros H. exfalso. apply H; congruence. }
    split; intros H d Hd; specialize (H d Hd).
    - destruct d as [w|]; [|discriminate H]. apply andb_true_iff in H as [H1 H2]. exists w.
      split; [reflexivity|]. split; [apply w_strict_b_iff, H1|apply P, H2].
    - destruct H as [w [-> [H1 H2]]]. apply andb_true_iff. split; [apply w_strict_b_iff, H1|apply P, H2]. }
  rewrite E1, E2, E3, E4, E5. tauto.
Qed.

Lemma xspec_b_iff x v : xspec_b x v = true <-> xspec x v.
Proof.
  unfold xspec_b, xspec. rewrite andb_true_iff, xsound_b_iff, orb_true_iff, negb_true_iff.
  rewrite <- xstrictly_inside_b_iff.
  assert (E : (match v with Reject => false | Accept _ => true end) = true <-> v <> Reject).
  { destruct v; split; congruence. }
  rewrite E. destruct (xstrictly_inside_b x); split; intros [H1 H2]; (split; [exact H1|]).
  - destruct H2 as [H2|H2]; [discriminate|intros _; exact H2].
  - right. apply H2. reflexivity.
  - intros H; discriminate.
  - left. reflexivity.
Qed.

Lemma xvalidity_holds x : 0 < xnow x - xskew x -> xspec x (xaccept x).
Proof.
  intros Hpos. split.
  - apply xsound_b_iff, xaccept_sound_b, Hpos.
  - intros H. apply xaccept_complete_b, xstrictly_inside_b_iff, H.
Qed.

(* ---- the old shape: on a message with HTTP-POST delivery, Conditions, one bearer confirmation with data and one
   AuthnStatement, the wide model is [accept] and the wide property is [spec] (nothing was loosened) *)
Lemma xaccept_widen x : xaccept (widen x) = accept x.
Proof.
  destruct x as [n a [c1 c2 s1 s2 se i]]. unfold xaccept, widen, accept, verify_ok, statements_ok, conditions_ok.
  cbn [now atd t cnb cnooa snb snooa sess issue xnow xatd xm m_binding m_destination m_encrypted m_issue m_conditions
       m_confirmations m_statements unravels asynchop negb andb confirmations_ok bearer_confirmed].
  set (sl := timeslack a). clearbody sl.
  destruct (issue_instant_ok n sl i); cbn [negb]; [|reflexivity].
  destruct (validate_on_or_after n sl se) as [session|]; [|reflexivity].
  destruct (match c1, c2 with Some _, Some _ => negb (later_than c2 c1) | _, _ => false end); [reflexivity|].
  destruct (validate_on_or_after n sl c2) as [nooa|]; [|reflexivity].
  destruct (validate_before n sl c1); cbn [negb]; [|reflexivity].
  destruct (validate_on_or_after n sl s2) as [w|]; [|reflexivity].
  destruct (validate_before n sl s1); cbn [negb]; [|reflexivity].
  destruct (later_than s2 s1); reflexivity.
Qed.

Lemma xsound_b_widen x v : xsound_b (widen x) v = sound_b x v.
Proof.
  destruct x as [n a [c1 c2 s1 s2 se i]]. destruct v as [r|]; [|reflexivity].
  unfold xsound_b, sound_b, widen, xskew, skew, xexpiry_ok_b, expected_expiry, uppers, lowers, present.
  cbn [now atd t cnb cnooa snb snooa sess issue xnow xatd xm m_binding m_destination m_encrypted m_issue m_conditions
       m_confirmations m_statements forallb existsb].
  set (k := match a with Some z => z | None => 0 end). clearbody k.
  destruct c1 as [[c1 f1]|], c2 as [[c2 f2]|], s1 as [[s1 g1]|], s2 as [[s2 g2]|], se as [[se h]|];
    unfold_w; cbn [flat_map app forallb map existsb fst snd]; btauto.
Qed.

Lemma xstrictly_inside_b_widen x : xstrictly_inside_b (widen x) = strictly_inside_b x.
Proof.
  destruct x as [n a [c1 c2 s1 s2 se i]].
  unfold xstrictly_inside_b, strictly_inside_b, widen, xskew, skew, uppers, lowers.
  cbn [now atd t cnb cnooa snb snooa sess issue xnow xatd xm m_binding m_destination m_encrypted m_issue m_conditions
       m_confirmations m_statements forallb unravels].
  set (k := match a with Some z => z | None => 0 end). clearbody k.
  destruct c1 as [[c1 f1]|], c2 as [[c2 f2]|], s1 as [[s1 g1]|], s2 as [[s2 g2]|], se as [[se h]|];
    unfold_w; cbn [flat_map app forallb fst snd]; btauto.
Qed.

Lemma xspec_widen x v : xspec (widen x) v <-> spec x v.
Proof.
  rewrite <- xspec_b_iff, <- spec_b_iff. unfold xspec_b, spec_b. rewrite xsound_b_widen, xstrictly_inside_b_widen. tauto.
Qed.

(* ---- how the Response was delivered does not matter: any two deliveries the SP can unpack, with a
   Destination that is absent or the SP's own, the assertion in the clear or encrypted, give the same verdict *)
Definition redeliver (b : binding) (d : option bool) (e : bool) (x : xinput) : xinput :=
  {| xnow := xnow x; xatd := xatd x;
     xm := {| m_binding := b; m_destination := d; m_encrypted := e; m_issue := m_issue (xm x); m_conditions := m_conditions (xm x);
              m_confirmations := m_confirmations (xm x); m_statements := m_statements (xm x) |} |}.

Lemma delivery_independent x b d e :
  unravels (m_binding (xm x)) = true -> m_destination (xm x) <> Some false ->
  unravels b = true -> d <> Some false ->
  xaccept (redeliver b d e x) = xaccept x.
Proof.
  destruct x as [n a [b0 d0 e0 i c cf st]]. unfold redeliver, xaccept, verify_ok.
  cbn [xnow xatd xm m_binding m_destination m_encrypted m_issue m_conditions m_confirmations m_statements].
  intros H1 H2 H3 H4. rewrite H1, H3.
  assert (E : forall bb (dd : option bool), dd <> Some false ->
              (if asynchop bb then match dd with Some false => false | _ => true end else true) = true).
  { intros bb [[|]|] Hd; destruct (asynchop bb); try reflexivity. exfalso. apply Hd. reflexivity. }
  rewrite (E b d H4), (E b0 d0 H2). reflexivity.
Qed.

(* a stale IssueInstant is refused over EVERY delivery (also the synchronous ones) *)
Lemma stale_issue_rejected x :
  Z.abs (sec (m_issue (xm x)) - xnow x) > 86400 + timeslack (xatd x) -> xaccept x = Reject.
Proof.
  intros H. unfold xaccept, verify_ok.
  destruct (unravels (m_binding (xm x))); cbn [negb]; [|reflexivity].
  assert (E : issue_instant_ok (xnow x) (timeslack (xatd x)) (m_issue (xm x)) = false).
  { unfold issue_instant_ok, str_to_time, sec in *. lia. }
  rewrite E, andb_false_r. reflexivity.
Qed.

(* an expired SessionNotOnOrAfter in ANY AuthnStatement means no identity *)
Lemma any_session_expired_rejected x s :
  In (Some s) (m_statements (xm x)) -> xnow x > fst s + timeslack (xatd x) -> xaccept x = Reject.
Proof.
  intros Hin H. unfold xaccept.
  destruct (negb (unravels (m_binding (xm x)))); [reflexivity|].
  destruct (negb (verify_ok (xnow x) (timeslack (xatd x)) (xm x))); [reflexivity|].
  destruct (m_statements (xm x)) as [|b [|b2 r]]; try reflexivity. cbn [statements_ok].
  destruct Hin as [->|[]]. unfold validate_on_or_after, str_to_time.
  destruct (xnow x >? fst s + timeslack (xatd x)) eqn:E; [reflexivity|lia].
Qed.

(* non-vacuity: a SOAP delivery without Destination, no Conditions, two confirmations of which the second holds
   would be refused only for its two AuthnStatements; with one it is accepted and reports SessionNotOnOrAfter *)
Example wide_example :
  let m st := {| m_binding := BSoap; m_destination := None; m_encrypted := true; m_issue := (1700000001, false); m_conditions := None;
                 m_confirmations := [None; Some (None, Some (1700000300, false))]; m_statements := st |} in
  let x st := {| xnow := 1700000000; xatd := Some 60; xm := m st |} in
  xstrictly_inside_b (x [Some (1700003600, true)]) = false
  /\ xaccept (x [Some (1700003600, true)]) = Accept 1700003600
  /\ xaccept (x [None; Some (1700003600, true)]) = Reject
  /\ xstrictly_inside_b {| xnow := 1700000000; xatd := Some 60;
                           xm := {| m_binding := BSoap; m_destination := None; m_encrypted := true; m_issue := (1700000001, false);
                                    m_conditions := None;
                                    m_confirmations := [Some (None, Some (1700000300, false))];
                                    m_statements := [Some (1700003600, true)] |} |} = true.
Proof. vm_compute. repeat split; reflexivity. Qed.
