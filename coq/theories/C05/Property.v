(* C05/Property.v — property theorems only. *)
From Coq Require Import ZArith Bool List String.
From Verif Require Import Base.Str Base.Py C05.Model C05.Spec C05.Proofs C05.Source C05.Time C05.TimeProofs.
From Verif Require C13.Lex.
From VerifGen Require Import C05Src.
Open Scope Z_scope.

(* C05: for every placement of the six timestamps, every skew setting and every clock value after
   1970+skew: identity only inside all windows (plus skew) with ordered bounds and a fresh
   IssueInstant, reported expiry as specified, and acceptance strictly inside all windows. *)
Theorem c05_validity : forall x, 0 < now x - skew x -> spec x (accept x).
Proof. exact validity_holds. Qed.
Print Assumptions c05_validity.

Theorem c05_spec_reflect : forall x v, spec_b x v = true <-> spec x v.
Proof. exact spec_b_iff. Qed.
Print Assumptions c05_spec_reflect.

Theorem c05_too_old : forall x s,
  cnooa (t x) = Some s -> now x > fst s + timeslack (atd x) -> accept x = Reject.
Proof. exact too_old_rejected. Qed.
Print Assumptions c05_too_old.

(* tie to the source TEXT: validate.validate_on_or_after / validate_before as translated from /repo's
   current source on this run (coq/gen/C05Src.v, harness/py2coq.py) compute the model's functions, for
   every clock value, skew and bound; the clock and the timestamp parser are parameters *)
Theorem c05_source_validate_on_or_after :
  forall (text_of : stamp -> String.string) (to_secs : pyval -> pyval),
  (forall s, is_empty (text_of s) = false) -> (forall s, to_secs (PStr (text_of s)) = PInt (str_to_time s)) ->
  forall now slack b,
    src_validate_on_or_after (PInt now) to_secs (enc_stamp text_of b) (PInt slack)
    = enc_voa b (validate_on_or_after now slack b).
Proof. exact src_validate_on_or_after_is_model. Qed.
Print Assumptions c05_source_validate_on_or_after.

Theorem c05_source_validate_before :
  forall (text_of : stamp -> String.string) (to_secs : pyval -> pyval),
  (forall s, is_empty (text_of s) = false) -> (forall s, to_secs (PStr (text_of s)) = PInt (str_to_time s)) ->
  forall now slack b,
    src_validate_before (PInt now) to_secs (enc_stamp text_of b) (PInt slack)
    = if validate_before now slack b then PBool true else PExc "ToEarly"%string.
Proof. exact src_validate_before_is_model. Qed.
Print Assumptions c05_source_validate_before.

(* ---- the TEXT level of time stamps (C05/Time.v: str_to_time ; calendar.timegm as coded, compared with
   the real functions on ~2800 texts per run).  The issuer writes time stamps with time_util.instant();
   the acceptor reads exactly the same second back, for EVERY instant from the epoch to the end of
   year 9999 (gmtime / strftime / strptime / timegm all modelled; calendar facts by one exhaustive
   computation over the 146097 days of a 400-year era, lifted to all eras) *)
Theorem c05_text_roundtrip : forall ts : N,
  (ts < 253402300800)%N -> str_to_secs (C13.Lex.instant ts) = TVal (Z.of_N ts).
Proof. exact str_to_secs_instant. Qed.
Print Assumptions c05_text_roundtrip.

(* calendar.timegm inverts time.gmtime on every non-negative time stamp *)
Theorem c05_timegm_gmtime : forall ts : N, timegm (C13.Lex.gmtime ts) = Z.of_N ts.
Proof. exact timegm_gmtime. Qed.
Print Assumptions c05_timegm_gmtime.

(* whatever text strptime lets through denotes a calendar date and a time of day *)
Theorem c05_text_is_a_date : forall s y m d h mi sec,
  strptime s = Some (y, m, d, h, mi, sec) ->
  (1 <= y /\ 1 <= m /\ m <= 12 /\ 1 <= d /\ d <= Time.dim (Time.leap y) m /\ h <= 23 /\ mi <= 59 /\ sec <= 61)%N.
Proof. exact strptime_is_a_date. Qed.
Print Assumptions c05_text_is_a_date.
