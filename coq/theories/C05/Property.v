(* C05/Property.v — property theorems only. *)
From Coq Require Import ZArith Bool List String.
From Verif Require Import Base.Str Base.Py Base.Py2 C05.Model C05.Spec C05.Proofs C05.Decor C05.Source C05.Source2 C05.Time C05.TimeProofs.
From Verif Require C13.Lex.
From VerifGen Require Import C05Src C05Src2 C05Src2v.
Import ListNotations.
Open Scope Z_scope.

(* C05: for every placement of the six timestamps, every skew setting and every clock value after
   1970+skew: identity only inside all windows (plus skew) with ordered bounds and a fresh
   IssueInstant, reported expiry as specified, and acceptance strictly inside all windows. *)
Theorem c05_validity : forall x, 0 < now x - skew x -> spec x (accept x).
Proof. exact validity_holds. Qed.
Print Assumptions c05_validity.

Theorem c05_spec_reflect : forall x v, spec_b x v = true <-> spec x v.
Proof. exact spec_b_iff. Qed.
Print Assumptions c05_spec_reflect.

Theorem c05_too_old : forall x s,
  cnooa (t x) = Some s -> now x > fst s + timeslack (atd x) -> accept x = Reject.
Proof. exact too_old_rejected. Qed.
Print Assumptions c05_too_old.

(* ---- the whole message (strengthening round 2): the SHAPE of the message is quantified too — how the Response
   is delivered (HTTP-POST, HTTP-Redirect, SOAP = the synchronous path, PAOS), its Destination (own / absent /
   somebody else's), Conditions or none, any number of bearer SubjectConfirmations (with or without data) and any
   number of AuthnStatements.  Identity only when now is inside the Conditions window, inside the window of SOME
   bearer confirmation with ordered bounds, not later than ANY SessionNotOnOrAfter (all plus skew) and the
   IssueInstant is fresh — over every delivery; the expiry reported is a SessionNotOnOrAfter when one is present,
   otherwise the Conditions NotOnOrAfter; strictly inside everything (one AuthnStatement, a delivery the SP can
   unpack, not addressed to somebody else) it is accepted. *)
Theorem c05_message_validity : forall x, 0 < xnow x - xskew x -> xspec x (xaccept x).
Proof. exact xvalidity_holds. Qed.
Print Assumptions c05_message_validity.

Theorem c05_message_spec_reflect : forall x v, xspec_b x v = true <-> xspec x v.
Proof. exact xspec_b_iff. Qed.
Print Assumptions c05_message_spec_reflect.

(* nothing was loosened: on the old shape the wide model is [accept] and the wide property is [spec] *)
Theorem c05_message_widens_model : forall x, xaccept (widen x) = accept x.
Proof. exact xaccept_widen. Qed.
Print Assumptions c05_message_widens_model.

Theorem c05_message_widens_spec : forall x v, xspec (widen x) v <-> spec x v.
Proof. exact xspec_widen. Qed.
Print Assumptions c05_message_widens_spec.

(* the delivery (binding, Destination absent or own, assertion in the clear or encrypted) does not matter *)
Theorem c05_delivery_independent : forall x b d e,
  unravels (m_binding (xm x)) = true -> m_destination (xm x) <> Some false ->
  unravels b = true -> d <> Some false ->
  xaccept (redeliver b d e x) = xaccept x.
Proof. exact delivery_independent. Qed.
Print Assumptions c05_delivery_independent.

Theorem c05_stale_issue_instant : forall x,
  Z.abs (sec (m_issue (xm x)) - xnow x) > 86400 + timeslack (xatd x) -> xaccept x = Reject.
Proof. exact stale_issue_rejected. Qed.
Print Assumptions c05_stale_issue_instant.

Theorem c05_any_session_expired : forall x s,
  In (Some s) (m_statements (xm x)) -> xnow x > fst s + timeslack (xatd x) -> xaccept x = Reject.
Proof. exact any_session_expired_rejected. Qed.
Print Assumptions c05_any_session_expired.

(* tie to the source TEXT: validate.validate_on_or_after / validate_before as translated from /repo's
   current source on this run (coq/gen/C05Src.v, harness/py2coq.py) compute the model's functions, for
   every clock value, skew and bound; the clock and the timestamp parser are parameters *)
Theorem c05_source_validate_on_or_after :
  forall (text_of : stamp -> String.string) (to_secs : pyval -> pyval),
  (forall s, is_empty (text_of s) = false) -> (forall s, to_secs (PStr (text_of s)) = PInt (str_to_time s)) ->
  forall now slack b,
    src_validate_on_or_after (PInt now) to_secs (enc_stamp text_of b) (PInt slack)
    = enc_voa b (validate_on_or_after now slack b).
Proof. exact src_validate_on_or_after_is_model. Qed.
Print Assumptions c05_source_validate_on_or_after.

Theorem c05_source_validate_before :
  forall (text_of : stamp -> String.string) (to_secs : pyval -> pyval),
  (forall s, is_empty (text_of s) = false) -> (forall s, to_secs (PStr (text_of s)) = PInt (str_to_time s)) ->
  forall now slack b,
    src_validate_before (PInt now) to_secs (enc_stamp text_of b) (PInt slack)
    = if validate_before now slack b then PBool true else PExc "ToEarly"%string.
Proof. exact src_validate_before_is_model. Qed.
Print Assumptions c05_source_validate_before.

(* ---- the TEXT level of time stamps (C05/Time.v: str_to_time ; calendar.timegm as coded, compared with
   the real functions on ~2800 texts per run).  The issuer writes time stamps with time_util.instant();
   the acceptor reads exactly the same second back, for EVERY instant from the epoch to the end of
   year 9999 (gmtime / strftime / strptime / timegm all modelled; calendar facts by one exhaustive
   computation over the 146097 days of a 400-year era, lifted to all eras) *)
Theorem c05_text_roundtrip : forall ts : N,
  (ts < 253402300800)%N -> str_to_secs (C13.Lex.instant ts) = TVal (Z.of_N ts).
Proof. exact str_to_secs_instant. Qed.
Print Assumptions c05_text_roundtrip.

(* calendar.timegm inverts time.gmtime on every non-negative time stamp *)
Theorem c05_timegm_gmtime : forall ts : N, timegm (C13.Lex.gmtime ts) = Z.of_N ts.
Proof. exact timegm_gmtime. Qed.
Print Assumptions c05_timegm_gmtime.

(* whatever text strptime lets through denotes a calendar date and a time of day *)
Theorem c05_text_is_a_date : forall s y m d h mi sec,
  strptime s = Some (y, m, d, h, mi, sec) ->
  (1 <= y /\ 1 <= m /\ m <= 12 /\ 1 <= d /\ d <= Time.dim (Time.leap y) m /\ h <= 23 /\ mi <= 59 /\ sec <= 61)%N.
Proof. exact strptime_is_a_date. Qed.
Print Assumptions c05_text_is_a_date.

Open Scope string_scope.
Open Scope list_scope.
Open Scope Z_scope.

(* ---- source tie, translator v2 (harness/py2coq2.py + Base/Py2.v; coq/gen/C05Src2.v, C05Src2v.v re-translated
   from /repo's current source on this run; proofs in C05/Source2.v).  Each translated function, applied to the
   encoding of the model's input, yields the encoding of the model's output — for ALL inputs.  The clock, the
   time-stamp readers, datetime arithmetic and the calls that leave the anchored code are parameters with the
   stated hypotheses (shown satisfiable in Source2.v: clock_instance, condition_ok_instance, ...); the three
   methods call the TRANSLATED validate_* / later_than. *)
Theorem c05_source2_validate_on_or_after :
  forall (text_of : stamp -> String.string) (to_secs : pyval -> pyval),
  (forall s, is_empty (text_of s) = false) -> (forall s, to_secs (PStr (text_of s)) = PInt (str_to_time s)) ->
  forall now slack b,
    src2_validate_on_or_after (PInt now) to_secs (enc_ts text_of b) (PInt slack)
    = enc_voa2 b (validate_on_or_after now slack b).
Proof. exact src2_validate_on_or_after_is_model. Qed.
Print Assumptions c05_source2_validate_on_or_after.

Theorem c05_source2_validate_before :
  forall (text_of : stamp -> String.string) (to_secs : pyval -> pyval),
  (forall s, is_empty (text_of s) = false) -> (forall s, to_secs (PStr (text_of s)) = PInt (str_to_time s)) ->
  forall now slack b,
    src2_validate_before (PInt now) to_secs (enc_ts text_of b) (PInt slack)
    = if validate_before now slack b then PBool true else PExc "ToEarly".
Proof. exact src2_validate_before_is_model. Qed.
Print Assumptions c05_source2_validate_before.

Theorem c05_source2_later_than :
  forall (text_of : stamp -> String.string) (parse gmtime : pyval -> pyval) (kgm : Z -> Z),
  (forall s, parse (PStr (text_of s)) = PInt (kgm (str_to_time s))) ->
  (forall a b, (kgm a >=? kgm b) = (a >=? b)) ->
  forall a b,
    src2_later_than parse gmtime (enc_ts text_of a) (enc_ts text_of b) = PBool (later_than a b).
Proof. exact src2_later_than_is_model. Qed.
Print Assumptions c05_source2_later_than.

(* skew plumbing: the factory hands the constructor timeslack = Model.timeslack (accepted_time_diff) unless the
   caller gave a non-zero one *)
Theorem c05_source2_authn_response :
  forall security_context int_ : pyval -> pyval,
  (forall c, is_bad (security_context c) = false) ->
  int_ PNone = PExc "TypeError" -> (forall z, int_ (PInt z) = PInt z) ->
  forall (atd : option Z) (eid : String.string) (ts : Z) (ra oq ah au was ci : pyval),
  is_bad ra = false -> is_bad oq = false -> is_bad ah = false -> is_bad au = false -> is_bad was = false ->
  is_bad ci = false ->
  src2_authn_response security_context int_ (enc_conf atd eid) ra oq (PInt ts) ah au was ci
  = PObj [("arg0", security_context (enc_conf atd eid)); ("arg1", PList nil); ("arg2", PStr eid); ("arg3", ra);
          ("arg4", oq); ("arg5", PInt (if ts =? 0 then timeslack atd else ts)); ("asynchop", ah);
          ("allow_unsolicited", au); ("want_assertions_signed", was); ("conv_info", ci)].
Proof. exact src2_authn_response_is_model. Qed.
Print Assumptions c05_source2_authn_response.

Theorem c05_source2_issue_instant_ok :
  forall (text_of : stamp -> String.string) (parse : pyval -> pyval) (kgm : Z -> Z) (aud : pyval),
  (forall s, parse (PStr (text_of s)) = PInt (kgm (str_to_time s))) ->
  forall (now : Z) (in_a_while a_while_ago timetuple : pyval -> pyval) (shift_time : pyval -> pyval -> pyval)
         (ktt : Z -> Z),
  (forall d, in_a_while (PInt d) = PInt (now + 86400 * d)) ->
  (forall d, a_while_ago (PInt d) = PInt (now - 86400 * d)) ->
  (forall t d, shift_time (PInt t) (PInt d) = PInt (t + d)) ->
  (forall t, timetuple (PInt t) = PInt (ktt t)) ->
  (forall a b, (ktt a <? kgm b) = (a <=? b)) -> (forall a b, (kgm a <? ktt b) = (a <? b)) ->
  forall r : self_,
    src2_issue_instant_ok in_a_while a_while_ago shift_time timetuple parse (enc_self text_of aud r)
    = PBool (issue_instant_ok now (f_slack r) (f_issue r)).
Proof. exact src2_issue_instant_ok_is_model. Qed.
Print Assumptions c05_source2_issue_instant_ok.

(* StatusResponse._verify: whatever the delivery (asynchop or not), whatever the Destination, a Response of version
   2.0 goes on only when issue_instant_ok() says so; the Destination matters on the asynchronous path only *)
Theorem c05_source2_verify :
  forall (issue_instant_ok_ status_ok float_ : pyval -> pyval) (two : pyval) (r : vself) (fresh : bool) (status : outcome),
  (forall d, v_dest r = Some d -> is_empty d = false) ->
  issue_instant_ok_ (enc_v r) = PBool fresh -> status_ok (enc_v r) = enc_outcome status ->
  src2_verify issue_instant_ok_ status_ok float_ two (enc_v r) = m_verify (v_async r) (dest_class r) fresh status.
Proof. exact src2_verify_is_model. Qed.
Print Assumptions c05_source2_verify.

Theorem c05_source2_verify_is_verify_ok : forall n sl m,
  py_truthy (m_verify (asynchop (m_binding m)) (m_destination m) (issue_instant_ok n sl (m_issue m)) (ORet true))
  = verify_ok n sl m.
Proof. exact m_verify_is_verify_ok. Qed.
Print Assumptions c05_source2_verify_is_verify_ok.

Theorem c05_source2_authn_statement_ok :
  forall (text_of : stamp -> String.string) (to_secs : pyval -> pyval) (aud : pyval),
  (forall s, is_empty (text_of s) = false) -> (forall s, to_secs (PStr (text_of s)) = PInt (str_to_time s)) ->
  forall (now : Z) (r : self_) (optional : bool),
    src2_authn_statement_ok (PInt now) to_secs (enc_self text_of aud r) (PBool optional)
    = let p := m_authn_statement_ok now (f_slack r) optional (f_statements r) (f_session r) in
      enc_result text_of aud (fst p, with_session r (snd p)).
Proof. exact src2_authn_statement_ok_is_model. Qed.
Print Assumptions c05_source2_authn_statement_ok.

Theorem c05_source2_condition_ok :
  forall (text_of : stamp -> String.string) (to_secs parse gmtime : pyval -> pyval) (kgm : Z -> Z) (aud : pyval),
  (forall s, is_empty (text_of s) = false) -> (forall s, to_secs (PStr (text_of s)) = PInt (str_to_time s)) ->
  (forall s, parse (PStr (text_of s)) = PInt (kgm (str_to_time s))) ->
  (forall a b, (kgm a >=? kgm b) = (a >=? b)) ->
  forall (keyswv : pyval -> pyval) (for_me : pyval -> pyval -> pyval) (xsi_type : pyval) (fm : bool),
  (forall a b, keyswv (enc_conditions text_of aud a b) = PList (map PStr (cond_keys a b))) ->
  (forall a b eid, for_me (enc_conditions text_of aud a b) (PStr eid) = PBool fm) ->
  forall (now : Z) (r : self_) (lax : bool) (a b : option stamp),
  f_conditions r = Some (a, b) ->
    src2_condition_ok (PInt now) to_secs parse gmtime keyswv for_me xsi_type (enc_self text_of aud r) (PBool lax)
    = let p := m_condition_ok now (f_slack r) lax (f_test r) fm a b (f_nooa r) in
      enc_result text_of aud (fst p, with_nooa r (snd p)).
Proof. exact src2_condition_ok_is_model. Qed.
Print Assumptions c05_source2_condition_ok.

Theorem c05_source2_condition_ok_no_conditions :
  forall (text_of : stamp -> String.string) (to_secs parse gmtime : pyval -> pyval) (aud : pyval)
         (keyswv : pyval -> pyval) (for_me : pyval -> pyval -> pyval) (xsi_type : pyval) (now : Z) (r : self_)
         (lax : bool),
  f_conditions r = None ->
    src2_condition_ok (PInt now) to_secs parse gmtime keyswv for_me xsi_type (enc_self text_of aud r) (PBool lax)
    = enc_result text_of aud (ORet true, r).
Proof. exact src2_condition_ok_no_conditions. Qed.
Print Assumptions c05_source2_condition_ok_no_conditions.

Theorem c05_source2_bearer_confirmed :
  forall (text_of : stamp -> String.string) (to_secs parse gmtime : pyval -> pyval) (kgm : Z -> Z) (aud : pyval),
  (forall s, is_empty (text_of s) = false) -> (forall s, to_secs (PStr (text_of s)) = PInt (str_to_time s)) ->
  (forall s, parse (PStr (text_of s)) = PInt (kgm (str_to_time s))) ->
  (forall a b, (kgm a >=? kgm b) = (a >=? b)) ->
  forall (valid_address : pyval -> pyval) (now : Z) (r : self_) (snb snooa : option stamp) (irt : pyval),
  f_asynchop r = false ->
    src2_bearer_confirmed (PInt now) to_secs parse gmtime valid_address (enc_self text_of aud r)
      (enc_data text_of snb snooa irt)
    = enc_result text_of aud (m_bearer_window now (f_slack r) snb snooa, r).
Proof. exact src2_bearer_confirmed_is_model. Qed.
Print Assumptions c05_source2_bearer_confirmed.

Theorem c05_source2_bearer_confirmed_async :
  forall (text_of : stamp -> String.string) (to_secs parse gmtime : pyval -> pyval) (kgm : Z -> Z) (aud : pyval),
  (forall s, is_empty (text_of s) = false) -> (forall s, to_secs (PStr (text_of s)) = PInt (str_to_time s)) ->
  (forall s, parse (PStr (text_of s)) = PInt (kgm (str_to_time s))) ->
  (forall a b, (kgm a >=? kgm b) = (a >=? b)) ->
  forall (valid_address : pyval -> pyval) (now : Z) (r : self_) (snb snooa : option stamp) (irt cf : String.string),
  f_asynchop r = true -> f_irt r = PStr irt -> f_outstanding r = PObj ((irt, PStr cf) :: nil) ->
  f_came_from r = PNone -> is_empty irt = false -> String.eqb irt "__class__" = false ->
    src2_bearer_confirmed (PInt now) to_secs parse gmtime valid_address (enc_self text_of aud r)
      (enc_data text_of snb snooa (PStr irt))
    = let o := m_bearer_window now (f_slack r) snb snooa in
      enc_result text_of aud (o, match o with ORet true => with_came_from r (PStr cf) | _ => r end).
Proof. exact src2_bearer_confirmed_async_is_model. Qed.
Print Assumptions c05_source2_bearer_confirmed_async.

Theorem c05_source2_session_info :
  forall (text_of : stamp -> String.string) (aud : pyval) (issuer authz_decision_info authn_info : pyval -> pyval),
  (forall v, is_bad (issuer v) = false) -> (forall v, is_bad (authz_decision_info v) = false) ->
  (forall v, is_bad (authn_info v) = false) ->
  forall r : self_,
  is_bad (f_name_id r) = false -> is_bad (f_ava r) = false -> is_bad (f_came_from r) = false ->
    src2_session_info issuer authz_decision_info authn_info (enc_self text_of aud r)
    = (let nooa := PInt (m_reported (f_session r) (f_nooa r)) in
       if String.eqb (f_context r) "AuthzQuery"
       then PObj [("name_id", f_name_id r); ("came_from", f_came_from r); ("issuer", issuer (enc_self text_of aud r));
                  ("not_on_or_after", nooa); ("authz_decision_info", authz_decision_info (enc_self text_of aud r))]
       else match f_statements r with
            | nil => PExc "StatusInvalidAuthnResponseStatement"
            | cons _ _ => PObj [("ava", f_ava r); ("name_id", f_name_id r); ("came_from", f_came_from r);
                                ("issuer", issuer (enc_self text_of aud r)); ("not_on_or_after", nooa);
                                ("authn_info", authn_info (enc_self text_of aud r)); ("session_index", PStr "s-1")]
            end).
Proof. exact src2_session_info_is_model. Qed.
Print Assumptions c05_source2_session_info.

(* the stages that the four methods were proved equal to ARE Model.accept (every SessionNotOnOrAfter after 1970) *)
Theorem c05_source2_accept_by_parts : forall x,
  (forall s, sess (t x) = Some s -> str_to_time s <> 0) -> accept x = accept_by_parts x.
Proof. exact accept_is_by_parts. Qed.
Print Assumptions c05_source2_accept_by_parts.

(* ---- decorated confirmations (strengthening round 6): every SubjectConfirmation has a METHOD (bearer, holder-of-key,
   sender-vouches, unknown), its data may name an ADDRESS (well-formed or not) and carry a KeyInfo, and the application
   may name the PEER the message came from.  For all of these, all message shapes, all clock values after 1970+skew:
   identity only inside the Conditions window, not later than any SessionNotOnOrAfter, inside the bounds of EVERY
   bearer SubjectConfirmationData (whatever its Address, KeyInfo or neighbours) and with one confirmation that
   confirms; accepted strictly inside. *)
Theorem c05_decorated_validity : forall x, 0 < xnow (d_x x) - xskew (d_x x) -> dspec x (daccept x).
Proof. exact dvalidity_holds. Qed.
Print Assumptions c05_decorated_validity.

Theorem c05_decorated_spec_reflect : forall x v, dspec_b x v = true <-> dspec x v.
Proof. exact dspec_b_iff. Qed.
Print Assumptions c05_decorated_spec_reflect.

(* an Address that is an IPv4/IPv6 text and a KeyInfo have no bearing: without conversation info the verdict is that of
   the bare message *)
Theorem c05_decorations_without_bearing : forall x,
  d_remote x = RNone -> forallb harmless (d_decor x) = true -> daccept x = xaccept (d_x x).
Proof. exact daccept_harmless. Qed.
Print Assumptions c05_decorations_without_bearing.

Theorem c05_decorated_widens_model : forall x, daccept (undecorated x) = xaccept x.
Proof. exact daccept_undecorated. Qed.
Print Assumptions c05_decorated_widens_model.

(* nothing was loosened: on an undecorated message the decorated property implies the property of the whole message *)
Theorem c05_decorated_widens_spec : forall x v, dspec (undecorated x) v -> xspec x v.
Proof. exact dspec_undecorated. Qed.
Print Assumptions c05_decorated_widens_spec.

(* now outside the bounds (plus skew) of ANY bearer SubjectConfirmationData: no identity — whatever Address / KeyInfo
   it has, whatever the peer, whatever other confirmations (of any method) stand next to it *)
Theorem c05_outside_any_bearer_window : forall x w d,
  In (Some w, d) (dconfs x) -> k_method d = MBearer ->
  (match snd w with Some b => xnow (d_x x) > fst b + timeslack (xatd (d_x x)) | None => False end
   \/ match fst w with Some a => fst a > xnow (d_x x) + timeslack (xatd (d_x x)) | None => False end) ->
  daccept x = Reject.
Proof. exact outside_bearer_window_rejected. Qed.
Print Assumptions c05_outside_any_bearer_window.

(* source tie: _bearer_confirmed on data that NAME AN ADDRESS (valid_address external: True for an IPv4/IPv6 text,
   raises NotValid otherwise): the window decides exactly as without the Address *)
Theorem c05_source2_bearer_confirmed_address :
  forall (text_of : stamp -> String.string) (to_secs parse gmtime : pyval -> pyval) (kgm : Z -> Z) (aud : pyval),
  (forall s, is_empty (text_of s) = false) -> (forall s, to_secs (PStr (text_of s)) = PInt (str_to_time s)) ->
  (forall s, parse (PStr (text_of s)) = PInt (kgm (str_to_time s))) ->
  (forall a b, (kgm a >=? kgm b) = (a >=? b)) ->
  forall (valid_address : pyval -> pyval) (atext : String.string), is_empty atext = false ->
  forall (now : Z) (r : self_) (snb snooa : option stamp) (irt : pyval),
  valid_address (PStr atext) = PBool true -> f_asynchop r = false ->
    src2_bearer_confirmed (PInt now) to_secs parse gmtime valid_address (enc_self text_of aud r)
      (enc_data_at text_of (PStr atext) snb snooa irt)
    = enc_result text_of aud (m_bearer_window now (f_slack r) snb snooa, r).
Proof. exact src2_bearer_confirmed_address_is_model. Qed.
Print Assumptions c05_source2_bearer_confirmed_address.

Theorem c05_source2_bearer_confirmed_address_async :
  forall (text_of : stamp -> String.string) (to_secs parse gmtime : pyval -> pyval) (kgm : Z -> Z) (aud : pyval),
  (forall s, is_empty (text_of s) = false) -> (forall s, to_secs (PStr (text_of s)) = PInt (str_to_time s)) ->
  (forall s, parse (PStr (text_of s)) = PInt (kgm (str_to_time s))) ->
  (forall a b, (kgm a >=? kgm b) = (a >=? b)) ->
  forall (valid_address : pyval -> pyval) (atext : String.string), is_empty atext = false ->
  forall (now : Z) (r : self_) (snb snooa : option stamp) (irt cf : String.string),
  valid_address (PStr atext) = PBool true ->
  f_asynchop r = true -> f_irt r = PStr irt -> f_outstanding r = PObj ((irt, PStr cf) :: nil) ->
  f_came_from r = PNone -> is_empty irt = false -> String.eqb irt "__class__" = false ->
    src2_bearer_confirmed (PInt now) to_secs parse gmtime valid_address (enc_self text_of aud r)
      (enc_data_at text_of (PStr atext) snb snooa (PStr irt))
    = let o := m_bearer_window now (f_slack r) snb snooa in
      enc_result text_of aud (o, match o with ORet true => with_came_from r (PStr cf) | _ => r end).
Proof. exact src2_bearer_confirmed_address_async_is_model. Qed.
Print Assumptions c05_source2_bearer_confirmed_address_async.

Theorem c05_source2_bearer_confirmed_bad_address :
  forall (text_of : stamp -> String.string) (to_secs parse gmtime : pyval -> pyval) (aud : pyval),
  forall (valid_address : pyval -> pyval) (atext : String.string), is_empty atext = false ->
  forall (now : Z) (r : self_) (snb snooa : option stamp) (irt : pyval),
  valid_address (PStr atext) = PExc "NotValid" ->
    src2_bearer_confirmed (PInt now) to_secs parse gmtime valid_address (enc_self text_of aud r)
      (enc_data_at text_of (PStr atext) snb snooa irt)
    = enc_result text_of aud (OExc "NotValid", r).
Proof. exact src2_bearer_confirmed_bad_address_raises. Qed.
Print Assumptions c05_source2_bearer_confirmed_bad_address.
