(* C05/Property.v — property theorems only. *)
From Coq Require Import ZArith Bool List.
From Verif Require Import C05.Model C05.Spec C05.Proofs.
Open Scope Z_scope.

(* C05: for every placement of the six timestamps, every skew setting and every clock value after
   1970+skew: identity only inside all windows (plus skew) with ordered bounds and a fresh
   IssueInstant, reported expiry as specified, and acceptance strictly inside all windows. *)
Theorem c05_validity : forall x, 0 < now x - skew x -> spec x (accept x).
Proof. exact validity_holds. Qed.
Print Assumptions c05_validity.

Theorem c05_spec_reflect : forall x v, spec_b x v = true <-> spec x v.
Proof. exact spec_b_iff. Qed.
Print Assumptions c05_spec_reflect.

Theorem c05_too_old : forall x s,
  cnooa (t x) = Some s -> now x > fst s + timeslack (atd x) -> accept x = Reject.
Proof. exact too_old_rejected. Qed.
Print Assumptions c05_too_old.
