(* C05/Source2.v — source tie, translator v2 (harness/py2coq2.py, Base/Py2.v; reference notes/translator_v2.md).
   coq/gen/C05Src2.v and coq/gen/C05Src2v.v are re-translated from the CURRENT source text of /repo on every
   run.  For each translated function: the function applied to the encoding of the model's input equals the
   encoding of the model's output, for ALL inputs (exceptions included).

     validate.validate_on_or_after / validate_before      = Model.validate_on_or_after / validate_before
     time_util.later_than                                 = Model.later_than
     response.authn_response (skew plumbing)              = Model.timeslack
     StatusResponse.issue_instant_ok                      = Model.issue_instant_ok
     StatusResponse._verify                               = Model.verify_ok (every delivery consults issue_instant_ok)
     AuthnResponse.authn_statement_ok / condition_ok /
       _bearer_confirmed / session_info                   = the four stages of Model.accept (m_* below;
                                                            [accept_by_parts]: accept IS their composition)

   The three methods call the TRANSLATED validate_* / later_than (not assumptions about them).  External:
   the clock [now], the time-stamp readers ([to_secs] = calendar.timegm . str_to_time, [parse] = str_to_time
   as a comparable struct_time, represented by an order key), datetime arithmetic, and calls that leave the
   anchored code (keyswv, for_me, issuer, ...): Section variables with hypotheses, each shown satisfiable. *)
Set Default Timeout 20.
From Coq Require Import String Ascii List Bool ZArith Lia.
From Verif Require Import Base.Str Base.Py Base.Py2 C05.Model.
From VerifGen Require Import C05Src2 C05Src2v.
Import ListNotations.
Open Scope string_scope.
Open Scope Z_scope.

(* what a call does: raises (class name) or returns *)
Inductive outcome := OExc (n : string) | ORet (b : bool).
Definition enc_outcome (o : outcome) : pyval := match o with OExc n => PExc n | ORet b => PBool b end.

(* ================================================================== the stages of Model.accept *)
(* authn_statement_ok(optional): the outcome and self.session_not_on_or_after afterwards.  [sts]: the
   SessionNotOnOrAfter of every AuthnStatement.  A bound that reads as second 0 is "false" for the code. *)
Definition m_authn_statement_ok (now sl : Z) (optional : bool) (sts : list (option stamp)) (old : Z) : outcome * Z :=
  match sts with
  | [b] => match b with
           | None => (ORet true, old)
           | Some _ => match validate_on_or_after now sl b with
                       | None => (OExc "ResponseLifetimeExceed", old)
                       | Some v => if v =? 0 then (ORet false, old) else (ORet true, v)
                       end
           end
  | _ => if optional then (ORet true, old) else (OExc "ValueError", old)
  end.

(* condition_ok(lax) for an assertion WITH Conditions (that have some content): outcome and self.not_on_or_after
   afterwards.  [test]: self.test, [fm]: what for_me() answers *)
Definition m_condition_ok (now sl : Z) (lax test fm : bool) (cnb cnooa : option stamp) (old : Z) : outcome * Z :=
  let lax' := test || lax in
  if match cnb, cnooa with Some _, Some _ => negb (later_than cnooa cnb) | _, _ => false end then (ORet false, old) else
  let '(exc, nooa) :=
    match cnooa with
    | Some _ => match validate_on_or_after now sl cnooa with
                | None => (Some "ResponseLifetimeExceed", old)
                | Some v => (if validate_before now sl cnb then None else Some "ToEarly", v)
                end
    | None => (if validate_before now sl cnb then None else Some "ToEarly", old)
    end in
  let audience nooa := if negb fm && negb lax' then (OExc "Exception", nooa) else (ORet true, nooa) in
  match exc with
  | Some n => if lax' then audience 0 else (OExc n, nooa)
  | None => audience nooa
  end.

(* _bearer_confirmed: the SubjectConfirmationData window *)
Definition m_bearer_window (now sl : Z) (snb snooa : option stamp) : outcome :=
  match validate_on_or_after now sl snooa with
  | None => OExc "ResponseLifetimeExceed"
  | Some _ => if negb (validate_before now sl snb) then OExc "ToEarly"
              else ORet (later_than snooa snb)
  end.

(* session_info: which expiry is reported *)
Definition m_reported (session nooa : Z) : Z := if session >? 0 then session else nooa.

Definition accept_by_parts (x : input) : verdict :=
  let sl := timeslack (atd x) in
  let n := now x in
  let tt := t x in
  if negb (issue_instant_ok n sl (issue tt)) then Reject else
  match m_authn_statement_ok n sl false [sess tt] 0 with
  | (ORet true, session) =>
      match m_condition_ok n sl false false true (cnb tt) (cnooa tt) 0 with
      | (ORet true, nooa) =>
          match m_bearer_window n sl (snb tt) (snooa tt) with
          | ORet true => Accept (m_reported session nooa)
          | _ => Reject
          end
      | _ => Reject
      end
  | _ => Reject
  end.

(* Model.accept is the composition of the stages (the SP starts with both expiry attributes at 0; a
   SessionNotOnOrAfter that reads as second 0 of 1970 is outside the property's assumptions) *)
Theorem accept_is_by_parts : forall x,
  (forall s, sess (t x) = Some s -> str_to_time s <> 0) -> accept x = accept_by_parts x.
Proof.
  intros [n a [cnb cnooa snb snooa sess issue]] H. unfold accept, accept_by_parts.
  cbn [now atd t Model.cnb Model.cnooa Model.snb Model.snooa Model.sess Model.issue] in *.
  destruct (issue_instant_ok n (timeslack a) issue); cbn [negb]; [|reflexivity].
  unfold m_authn_statement_ok, m_condition_ok, m_bearer_window, m_reported. cbn [orb negb andb].
  assert (Hs : match sess with Some s => (str_to_time s =? 0) = false | None => True end).
  { destruct sess as [s|]; [|exact I]. apply Z.eqb_neq, H. reflexivity. }
  set (sl := timeslack a). clearbody sl.
  destruct (validate_on_or_after n sl snooa) as [w|], (validate_before n sl snb), (later_than snooa snb);
    cbn [negb];
    (destruct sess as [s|]; cbn [validate_on_or_after];
     [destruct (n >? str_to_time s + sl); [reflexivity|]; rewrite Hs|]);
    destruct cnb as [b|], cnooa as [c|]; cbn [validate_on_or_after validate_before later_than];
    repeat match goal with
           | |- context [?x >? ?y] => destruct (x >? y)
           | |- context [?x >=? ?y] => destruct (x >=? y)
           end; reflexivity.
Qed.

(* ================================================================== clock and time-stamp readers *)
Section Clock.
  (* the attribute value as text: any non-empty string; [to_secs] = calendar.timegm . str_to_time reads the
     model's second; [parse] = str_to_time yields a struct_time, represented by an integer order key [kgm secs]
     (struct_time values made by time.gmtime compare like their seconds) *)
  Variable text_of : stamp -> string.
  Variables to_secs parse gmtime : pyval -> pyval.
  Variable kgm : Z -> Z.
  Variable aud : pyval.                     (* Conditions/AudienceRestriction: read by for_me() only *)
  Hypothesis text_nonempty : forall s, is_empty (text_of s) = false.
  Hypothesis to_secs_ok : forall s, to_secs (PStr (text_of s)) = PInt (str_to_time s).
  Hypothesis parse_ok : forall s, parse (PStr (text_of s)) = PInt (kgm (str_to_time s)).
  Hypothesis kgm_ge : forall a b, (kgm a >=? kgm b) = (a >=? b).

  Definition enc_ts (b : option stamp) : pyval :=
    match b with Some s => PStr (text_of s) | None => PNone end.

  (* validate_on_or_after: the bound in seconds, False for an absent attribute, or the exception *)
  Definition enc_voa2 (b : option stamp) (r : option Z) : pyval :=
    match r, b with
    | None, _ => PExc "ResponseLifetimeExceed"
    | Some _, None => PBool false
    | Some v, Some _ => PInt v
    end.

  Lemma branch_stamp s : p2_branch (PStr (text_of s)) = BTrue.
  Proof. cbn [p2_branch py_truthy]. rewrite text_nonempty. reflexivity. Qed.

  Theorem src2_validate_on_or_after_is_model : forall now slack b,
    src2_validate_on_or_after (PInt now) to_secs (enc_ts b) (PInt slack)
    = enc_voa2 b (validate_on_or_after now slack b).
  Proof.
    intros now slack [s|]; unfold src2_validate_on_or_after, validate_on_or_after, enc_ts, enc_voa2; [|reflexivity].
    rewrite branch_stamp. cbn [py_bind]. rewrite to_secs_ok. cbn [py_bind].
    change (p2_gt (PInt now) (p2_add (PInt (str_to_time s)) (PInt slack))) with (PBool (now >? str_to_time s + slack)).
    rewrite p2_branch_bool. destruct (now >? str_to_time s + slack); reflexivity.
  Qed.

  Theorem src2_validate_before_is_model : forall now slack b,
    src2_validate_before (PInt now) to_secs (enc_ts b) (PInt slack)
    = if validate_before now slack b then PBool true else PExc "ToEarly".
  Proof.
    intros now slack [s|]; unfold src2_validate_before, validate_before, enc_ts; [|reflexivity].
    rewrite branch_stamp. cbn [py_bind]. rewrite to_secs_ok. cbn [py_bind].
    change (p2_gt (PInt (str_to_time s)) (p2_add (PInt now) (PInt slack))) with (PBool (str_to_time s >? now + slack)).
    rewrite p2_branch_bool. destruct (str_to_time s >? now + slack); cbn [negb]; [|reflexivity].
    cbn [py_bind p2_int s1 p2_str p2_fconcat]. reflexivity.
  Qed.

  Theorem src2_later_than_is_model : forall a b,
    src2_later_than parse gmtime (enc_ts a) (enc_ts b) = PBool (later_than a b).
  Proof.
    intros [x|] [y|]; unfold src2_later_than, later_than, enc_ts; cbn -[Z.geb]; rewrite ?parse_ok; cbn -[Z.geb];
      rewrite ?parse_ok; cbn -[Z.geb]; rewrite ?kgm_ge; reflexivity.
  Qed.

  (* ================================================================ the response object *)
  Definition enc_statement (b : option stamp) : pyval :=
    PObj [("__class__", PStr "AuthnStatement"); ("session_not_on_or_after", enc_ts b); ("session_index", PStr "s-1")].
  Definition enc_conditions (cnb cnooa : option stamp) : pyval :=
    PObj [("__class__", PStr "Conditions"); ("not_before", enc_ts cnb); ("not_on_or_after", enc_ts cnooa);
          ("condition", PList []); ("audience_restriction", aud)].
  Definition enc_data (snb snooa : option stamp) (irt : pyval) : pyval :=
    PObj [("__class__", PStr "SubjectConfirmationData"); ("address", PNone); ("not_before", enc_ts snb);
          ("not_on_or_after", enc_ts snooa); ("in_response_to", irt)].

  (* the attributes of an AuthnResponse that the translated methods read or write; [f_rest]: all others *)
  Record self_ := {
    f_slack : Z; f_test : bool; f_entity_id : string; f_nooa : Z; f_session : Z;
    f_asynchop : bool; f_irt : pyval; f_outstanding : pyval; f_came_from : pyval; f_allow : bool;
    f_context : string; f_name_id : pyval; f_ava : pyval;
    f_conditions : option (option stamp * option stamp);      (* None: the assertion has no Conditions *)
    f_statements : list (option stamp);                       (* SessionNotOnOrAfter of each AuthnStatement *)
    f_issue : stamp;
    f_rest : list (string * pyval) }.

  Definition enc_self (r : self_) : pyval :=
    PObj ([("__class__", PStr "AuthnResponse"); ("timeslack", PInt (f_slack r)); ("test", PBool (f_test r));
           ("entity_id", PStr (f_entity_id r)); ("not_on_or_after", PInt (f_nooa r));
           ("session_not_on_or_after", PInt (f_session r)); ("asynchop", PBool (f_asynchop r));
           ("in_response_to", f_irt r); ("outstanding_queries", f_outstanding r); ("came_from", f_came_from r);
           ("allow_unsolicited", PBool (f_allow r)); ("context", PStr (f_context r)); ("name_id", f_name_id r);
           ("ava", f_ava r);
           ("assertion", PObj [("__class__", PStr "Assertion");
                               ("conditions", match f_conditions r with
                                              | Some (a, b) => enc_conditions a b
                                              | None => PNone
                                              end);
                               ("authn_statement", PList (map enc_statement (f_statements r)))]);
           ("response", PObj [("__class__", PStr "Response"); ("issue_instant", PStr (text_of (f_issue r)))])]
          ++ f_rest r)%list.

  Definition with_nooa (r : self_) (v : Z) : self_ :=
    {| f_slack := f_slack r; f_test := f_test r; f_entity_id := f_entity_id r; f_nooa := v; f_session := f_session r;
       f_asynchop := f_asynchop r; f_irt := f_irt r; f_outstanding := f_outstanding r; f_came_from := f_came_from r;
       f_allow := f_allow r; f_context := f_context r; f_name_id := f_name_id r; f_ava := f_ava r;
       f_conditions := f_conditions r; f_statements := f_statements r; f_issue := f_issue r; f_rest := f_rest r |}.
  Definition with_session (r : self_) (v : Z) : self_ :=
    {| f_slack := f_slack r; f_test := f_test r; f_entity_id := f_entity_id r; f_nooa := f_nooa r; f_session := v;
       f_asynchop := f_asynchop r; f_irt := f_irt r; f_outstanding := f_outstanding r; f_came_from := f_came_from r;
       f_allow := f_allow r; f_context := f_context r; f_name_id := f_name_id r; f_ava := f_ava r;
       f_conditions := f_conditions r; f_statements := f_statements r; f_issue := f_issue r; f_rest := f_rest r |}.
  Definition with_came_from (r : self_) (v : pyval) : self_ :=
    {| f_slack := f_slack r; f_test := f_test r; f_entity_id := f_entity_id r; f_nooa := f_nooa r; f_session := f_session r;
       f_asynchop := f_asynchop r; f_irt := f_irt r; f_outstanding := f_outstanding r; f_came_from := v;
       f_allow := f_allow r; f_context := f_context r; f_name_id := f_name_id r; f_ava := f_ava r;
       f_conditions := f_conditions r; f_statements := f_statements r; f_issue := f_issue r; f_rest := f_rest r |}.

  Lemma with_session_same r : with_session r (f_session r) = r.
  Proof. destruct r; reflexivity. Qed.
  Lemma with_nooa_same r : with_nooa r (f_nooa r) = r.
  Proof. destruct r; reflexivity. Qed.

  Lemma setattr_session r v : is_bad v = false ->
    p2_setattr (enc_self r) "session_not_on_or_after" v
    = match v with PInt z => enc_self (with_session r z) | _ => p2_setattr (enc_self r) "session_not_on_or_after" v end.
  Proof. destruct v; reflexivity. Qed.

  (* ---------------------------------------------------------------- authn_statement_ok *)
  Definition enc_result (p : outcome * self_) : pyval := PList [enc_outcome (fst p); enc_self (snd p)].

  Theorem src2_authn_statement_ok_is_model : forall now r optional,
    src2_authn_statement_ok (PInt now) to_secs (enc_self r) (PBool optional)
    = let p := m_authn_statement_ok now (f_slack r) optional (f_statements r) (f_session r) in
      enc_result (fst p, with_session r (snd p)).
  Proof.
    intros now r optional. unfold src2_authn_statement_ok, enc_result. cbn [fst snd].
    change (p2_attr (p2_attr (enc_self r) "assertion") "authn_statement")
      with (PList (map enc_statement (f_statements r))).
    change (p2_attr (enc_self r) "timeslack") with (PInt (f_slack r)).
    unfold m_authn_statement_ok.
    destruct (f_statements r) as [|b [|b2 rest]].
    - cbn. destruct optional; cbn; rewrite with_session_same; reflexivity.
    - cbn [map]. 
      change (p2_len (PList [enc_statement b])) with (PInt 1).
      change (p2_getitem (PList [enc_statement b]) (PInt 0)) with (enc_statement b).
      rewrite py_bindh_good by reflexivity. cbv beta.
      change (p2_branch (p2_ne (PInt 1) (PInt 1))) with BFalse. cbv iota.
      rewrite py_bindh_good by reflexivity. cbv beta.
      change (p2_attr (enc_statement b) "session_not_on_or_after") with (enc_ts b).
      destruct b as [s|].
      + cbn [enc_ts]. rewrite branch_stamp. cbn [py_bind].
        change (PStr (text_of s)) with (enc_ts (Some s)). rewrite src2_validate_on_or_after_is_model.
        cbn [validate_on_or_after]. destruct (now >? str_to_time s + f_slack r); cbn [enc_voa2 fst snd enc_outcome].
        * cbn. rewrite with_session_same. reflexivity.
        * cbn [p2_branch py_truthy]. destruct (str_to_time s =? 0); cbn [negb fst snd enc_outcome].
          -- rewrite with_session_same. reflexivity.
          -- cbn [enc_ts py_bind]. rewrite to_secs_ok. cbn [py_bindh p2_bind]. reflexivity.
      + cbn. rewrite with_session_same. reflexivity.
    - assert (L : p2_len (PList (map enc_statement (b :: b2 :: rest))) = PInt (Z.of_nat (S (S (length rest))))).
      { cbn [map]. unfold p2_len. rewrite s1_good by reflexivity. cbn [length]. rewrite map_length. reflexivity. }
      rewrite L. rewrite py_bindh_good by reflexivity. cbv beta.
      change (p2_ne (PInt (Z.of_nat (S (S (length rest))))) (PInt 1))
        with (PBool (negb (Z.of_nat (S (S (length rest))) =? 1))).
      assert (N : (Z.of_nat (S (S (length rest))) =? 1) = false) by (apply Z.eqb_neq; lia).
      rewrite N. cbn [negb]. rewrite p2_branch_bool. rewrite p2_branch_bool.
      destruct optional; cbn [fst snd enc_outcome]; rewrite with_session_same; [reflexivity|].
      change (p2_str (PInt (Z.of_nat (S (S (length rest))))))
        with (PStr (dec_of_Z (Z.of_nat (S (S (length rest)))))).
      cbn [p2_fconcat]. rewrite py_bindh_good by reflexivity. cbv beta. rewrite py_bindh_good by reflexivity. reflexivity.
  Qed.

  (* ---------------------------------------------------------------- attribute reads / writes of the encodings *)
  Lemma attr_timeslack r : p2_attr (enc_self r) "timeslack" = PInt (f_slack r).
  Proof. reflexivity. Qed.
  Lemma attr_test r : p2_attr (enc_self r) "test" = PBool (f_test r).
  Proof. reflexivity. Qed.
  Lemma attr_entity_id r : p2_attr (enc_self r) "entity_id" = PStr (f_entity_id r).
  Proof. reflexivity. Qed.
  Lemma attr_conditions r :
    p2_attr (p2_attr (enc_self r) "assertion") "conditions"
    = match f_conditions r with Some (a, b) => enc_conditions a b | None => PNone end.
  Proof. reflexivity. Qed.
  Lemma cond_nb a b : p2_attr (enc_conditions a b) "not_before" = enc_ts a.
  Proof. reflexivity. Qed.
  Lemma cond_nooa a b : p2_attr (enc_conditions a b) "not_on_or_after" = enc_ts b.
  Proof. reflexivity. Qed.
  Lemma cond_condition a b : p2_attr (enc_conditions a b) "condition" = PList [].
  Proof. reflexivity. Qed.
  Lemma setattr_nooa r z : p2_setattr (enc_self r) "not_on_or_after" (PInt z) = enc_self (with_nooa r z).
  Proof. reflexivity. Qed.
  Lemma enc_self_good r : is_bad (enc_self r) = false.
  Proof. reflexivity. Qed.
  Lemma enc_stamp_good b : is_bad (enc_ts b) = false.
  Proof. destruct b; reflexivity. Qed.
  Lemma branch_enc_stamp b : p2_branch (enc_ts b) = match b with Some _ => BTrue | None => BFalse end.
  Proof. destruct b as [s|]; [apply branch_stamp|reflexivity]. Qed.

  (* the translated callees on a present attribute *)
  Lemma voa_some now sl s :
    src2_validate_on_or_after (PInt now) to_secs (PStr (text_of s)) (PInt sl)
    = if now >? str_to_time s + sl then PExc "ResponseLifetimeExceed" else PInt (str_to_time s).
  Proof.
    change (PStr (text_of s)) with (enc_ts (Some s)). rewrite src2_validate_on_or_after_is_model.
    cbn [validate_on_or_after]. destruct (now >? str_to_time s + sl); reflexivity.
  Qed.
  Lemma voa_none now sl : src2_validate_on_or_after (PInt now) to_secs PNone (PInt sl) = PBool false.
  Proof. reflexivity. Qed.
  Lemma vb_some now sl s :
    src2_validate_before (PInt now) to_secs (PStr (text_of s)) (PInt sl)
    = if str_to_time s >? now + sl then PExc "ToEarly" else PBool true.
  Proof.
    change (PStr (text_of s)) with (enc_ts (Some s)). rewrite src2_validate_before_is_model.
    cbn [validate_before]. destruct (str_to_time s >? now + sl); reflexivity.
  Qed.
  Lemma vb_none now sl : src2_validate_before (PInt now) to_secs PNone (PInt sl) = PBool true.
  Proof. reflexivity. Qed.
  Lemma lt_some x y :
    src2_later_than parse gmtime (PStr (text_of x)) (PStr (text_of y)) = PBool (str_to_time x >=? str_to_time y).
  Proof. apply (src2_later_than_is_model (Some x) (Some y)). Qed.

  (* congruence at the head of a translated body (applied with every argument given: no search in the goal) *)
  Lemma br_cong c v (a b : pyval) (e : string -> pyval) err R :
    c = v ->
    match v with BTrue => a | BFalse => b | BExc n => e n | BErr => err end = R ->
    match c with BTrue => a | BFalse => b | BExc n => e n | BErr => err end = R.
  Proof. intros ->. exact (fun H => H). Qed.
  Lemma bindh_cong h e v k (R : pyval) : e = v -> py_bindh h v k = R -> py_bindh h e k = R.
  Proof. intros ->. exact (fun H => H). Qed.
  Lemma bind_cong e v k (R : pyval) : e = v -> py_bind v k = R -> py_bind e k = R.
  Proof. intros ->. exact (fun H => H). Qed.
  Lemma bindh_good h e k (R : pyval) : is_bad e = false -> k e = R -> py_bindh h e k = R.
  Proof. intros H <-. apply py_bindh_good, H. Qed.
  Lemma bind_good e k (R : pyval) : is_bad e = false -> k e = R -> py_bind e k = R.
  Proof. intros H <-. apply py_bind_good, H. Qed.
  Lemma not_conditions a b : p2_not (enc_conditions a b) = PBool false.
  Proof. reflexivity. Qed.

  (* ---------------------------------------------------------------- running a translated body
     The left-hand side is evaluated at its HEAD only: a generated [let k_N := ...] is unfolded when it is
     reached (the others stay folded, the goal stays small), the test of a branch / the value of a bind is
     simplified on its own ([rw]: rewriting with the hypotheses about externals) and decides the branch;
     when it is an open comparison or an open bool the proof splits there. *)
  Ltac ext_rw :=
    match goal with
    | |- context [p2_attr (enc_self _) _] =>
        first [ rewrite attr_timeslack | rewrite attr_test | rewrite attr_entity_id ]
    | |- context [p2_attr (p2_attr (enc_self _) _) _] => rewrite attr_conditions
    | |- context [p2_attr (enc_conditions _ _) _] => first [ rewrite cond_nb | rewrite cond_nooa | rewrite cond_condition ]
    | |- context [p2_setattr (enc_self _) _ _] => rewrite setattr_nooa
    | |- context [p2_not (enc_conditions _ _)] => rewrite not_conditions
    | |- context [src2_validate_on_or_after] => first [ rewrite voa_some | rewrite voa_none ]
    | |- context [src2_validate_before] => first [ rewrite vb_some | rewrite vb_none ]
    | |- context [src2_later_than] => rewrite lt_some
    | |- context [is_empty (text_of _)] => rewrite text_nonempty
    | |- context [to_secs (PStr _)] => rewrite to_secs_ok
    | |- context [parse (PStr _)] => rewrite parse_ok
    | |- context [kgm _ >=? kgm _] => rewrite kgm_ge
    | |- context [py_bind _ _] => rewrite py_bind_good by reflexivity
    | |- context [py_bindh _ _ _] => rewrite py_bindh_good by reflexivity
    end.
  (* the open tests are named up front ([name_tests]: comparison = variable), so that a split is the
     destruction of a variable and never a search through the (big) left-hand side *)
  Ltac name_tests :=
    repeat match goal with
           | |- context [?x >? ?y] => let c := fresh "c" in let E := fresh "E" in remember (x >? y) as c eqn:E
           | |- context [?x >=? ?y] => let c := fresh "c" in let E := fresh "E" in remember (x >=? y) as c eqn:E
           | |- context [?x <? ?y] => let c := fresh "c" in let E := fresh "E" in remember (x <? y) as c eqn:E
           | |- context [?x <=? ?y] => let c := fresh "c" in let E := fresh "E" in remember (x <=? y) as c eqn:E
           | |- context [?x =? ?y] => let c := fresh "c" in let E := fresh "E" in remember (x =? y) as c eqn:E
           end.
  Ltac fold_tests :=
    match goal with
    | |- context [Z.gtb _ _] => idtac | |- context [Z.geb _ _] => idtac | |- context [Z.ltb _ _] => idtac
    | |- context [Z.leb _ _] => idtac | |- context [Z.eqb _ _] => idtac | |- context [f_test _] => idtac
    end;
    match goal with E : ?c = ?t |- context [?t] =>
      is_var c; lazymatch t with true => fail | false => fail | _ => idtac end; rewrite <- E end.
  Ltac split_in c :=
    match c with
    | context [if ?b then _ else _] => is_var b; destruct b
    | context [PBool ?b] => is_var b; destruct b
    | context [negb ?b] => is_var b; destruct b
    | ?b => is_var b; destruct b
    end.
  Ltac simp_goal rw :=
    progress (repeat first [progress cbn -[Z.gtb Z.geb Z.ltb Z.leb Z.eqb Z.add Z.sub Z.mul Z.of_nat dec_of_Z
                                            enc_self enc_conditions enc_statement enc_data str_to_time]
                           | rw | fold_tests | ext_rw]);
    reflexivity.
  (* "this external value is not an exception": from the hypotheses in the context *)
  Ltac good := solve [assumption | eauto 2].
  Ltac mkdict_good :=
    rewrite p2_mkdict_good
      by (cbn [map snd forallb];
          repeat match goal with |- context [is_bad ?v] => rewrite (ltac:(good) : is_bad v = false) end;
          reflexivity).
  Ltac head_of t := lazymatch t with ?f _ => head_of f | _ => t end.
  Ltac hd_with rw :=
    lazymatch goal with
    | |- (let x := ?V in @?B x) = ?R =>
        (* a generated continuation / handler: kept as a local definition, unfolded only where it is called *)
        let k := fresh "k" in pose (k := V); change (B k = R); cbv beta
    | |- match ?v with BTrue => ?a | BFalse => ?b | BExc n => @?e n | BErr => ?err end = ?R =>
        first [ refine (br_cong v _ a b e err R _ _); [solve [simp_goal rw]|]; cbv beta iota
              | split_in v; cbv beta iota ]
    | |- py_bindh ?h (PExc ?n) ?k = _ => change (py_bindh h (PExc n) k) with (h n); cbv beta
    | |- py_bindh ?h ?e ?k = ?R =>
        first [ refine (bindh_good h e k R eq_refl _); cbv beta
              | refine (bindh_good h e k R ltac:(good) _); cbv beta
              | refine (bindh_cong h e _ k R _ _); [solve [simp_goal rw]|]
              | split_in e; cbv beta iota ]
    | |- py_bind ?e ?k = ?R =>
        first [ refine (bind_good e k R eq_refl _); cbv beta
              | refine (bind_good e k R ltac:(good) _); cbv beta
              | refine (bind_cong e _ k R _ _); [solve [simp_goal rw]|]
              | split_in e; cbv beta iota ]
    | |- (if ?c then _ else _) = _ => let b := eval vm_compute in c in change c with b; cbv beta iota
    | |- ?L = ?R =>
        let h := head_of L in
        first [ is_var h;
                let V := eval cbv delta [h] in h in
                lazymatch L with
                | h ?x => change (V x = R)
                | h ?x ?y => change (V x y = R)
                | h ?x ?y ?z => change (V x y z = R)
                end; cbv beta
              | progress cbv beta ]
    end.
  Ltac run_with rw := repeat hd_with rw.
  Ltac run := run_with fail.

  (* ---------------------------------------------------------------- condition_ok *)
  Section ConditionOk.
    Variable keyswv : pyval -> pyval.
    Variable for_me : pyval -> pyval -> pyval.
    Variable xsi_type : pyval.
    Variable fm : bool.                       (* what for_me() answers *)
    (* keyswv(): the names of the attributes and children that have a value; the assertions of the model's
       domain always carry an AudienceRestriction *)
    Definition cond_keys (a b : option stamp) : list string :=
      ((match a with Some _ => ["not_before"] | None => [] end) ++
       (match b with Some _ => ["not_on_or_after"] | None => [] end) ++ ["audience_restriction"])%list.
    Hypothesis keyswv_ok : forall a b, keyswv (enc_conditions a b) = PList (map PStr (cond_keys a b)).
    Hypothesis for_me_ok : forall a b eid, for_me (enc_conditions a b) (PStr eid) = PBool fm.

    Lemma keyswv_branch a b : p2_branch (p2_not (keyswv (enc_conditions a b))) = BFalse.
    Proof. rewrite keyswv_ok. destruct a, b; reflexivity. Qed.

    Definition cond_goal now r lax a b : Prop :=
      src2_condition_ok (PInt now) to_secs parse gmtime keyswv for_me xsi_type (enc_self r) (PBool lax)
      = let p := m_condition_ok now (f_slack r) lax (f_test r) fm a b (f_nooa r) in
        enc_result (fst p, with_nooa r (snd p)).

    Ltac cond_case Hc :=
      unfold cond_goal, m_condition_ok, enc_result; cbn [fst snd];
      match goal with |- context [f_test ?r] => remember (f_test r) as tst eqn:Et end;
      cbn [validate_on_or_after validate_before later_than]; name_tests;
      cbv delta [src2_condition_ok]; cbv beta;
      run_with ltac:(first [rewrite keyswv_ok | rewrite for_me_ok | rewrite Hc]);
      cbn [orb andb negb fst snd enc_outcome]; reflexivity.

    (* one lemma per shape of the Conditions element (keeps every single command short) *)
    Lemma cond_both now r lax sa sb : f_conditions r = Some (Some sa, Some sb) -> cond_goal now r lax (Some sa) (Some sb).
    Proof. intros Hc. cond_case Hc. Qed.
    Lemma cond_nb_only now r lax sa : f_conditions r = Some (Some sa, None) -> cond_goal now r lax (Some sa) None.
    Proof. intros Hc. cond_case Hc. Qed.
    Lemma cond_nooa_only now r lax sb : f_conditions r = Some (None, Some sb) -> cond_goal now r lax None (Some sb).
    Proof. intros Hc. cond_case Hc. Qed.
    Lemma cond_neither now r lax : f_conditions r = Some (None, None) -> cond_goal now r lax None None.
    Proof. intros Hc. cond_case Hc. Qed.

    Theorem src2_condition_ok_is_model : forall now r lax a b,
      f_conditions r = Some (a, b) ->
      src2_condition_ok (PInt now) to_secs parse gmtime keyswv for_me xsi_type (enc_self r) (PBool lax)
      = let p := m_condition_ok now (f_slack r) lax (f_test r) fm a b (f_nooa r) in
        enc_result (fst p, with_nooa r (snd p)).
    Proof.
      intros now r lax [sa|] [sb|] Hc;
        [apply cond_both|apply cond_nb_only|apply cond_nooa_only|apply cond_neither]; exact Hc.
    Qed.

    (* an assertion without Conditions is accepted as it is *)
    Theorem src2_condition_ok_no_conditions : forall now r lax,
      f_conditions r = None ->
      src2_condition_ok (PInt now) to_secs parse gmtime keyswv for_me xsi_type (enc_self r) (PBool lax)
      = enc_result (ORet true, r).
    Proof.
      intros now r lax Hc. cbv delta [src2_condition_ok]; cbv beta.
      run_with ltac:(rewrite Hc). reflexivity.
    Qed.
  End ConditionOk.

  (* ---------------------------------------------------------------- _bearer_confirmed *)
  Lemma attr_asynchop r : p2_attr (enc_self r) "asynchop" = PBool (f_asynchop r).
  Proof. reflexivity. Qed.
  Lemma data_nb a b i : p2_attr (enc_data a b i) "not_before" = enc_ts a.
  Proof. reflexivity. Qed.
  Lemma data_nooa a b i : p2_attr (enc_data a b i) "not_on_or_after" = enc_ts b.
  Proof. reflexivity. Qed.
  Lemma data_address a b i : p2_attr (enc_data a b i) "address" = PNone.
  Proof. reflexivity. Qed.
  Lemma not_data a b i : p2_not (enc_data a b i) = PBool false.
  Proof. reflexivity. Qed.

  Section Bearer.
    Variable valid_address : pyval -> pyval.     (* not reached: the confirmation data carry no Address *)

    Ltac data_rw :=
      first [ rewrite data_nb | rewrite data_nooa | rewrite data_address | rewrite not_data | rewrite attr_asynchop ].

    (* the window part: a synchronous exchange (asynchop false) has nothing after it *)
    Theorem src2_bearer_confirmed_is_model : forall now r snb snooa irt,
      f_asynchop r = false ->
      src2_bearer_confirmed (PInt now) to_secs parse gmtime valid_address (enc_self r) (enc_data snb snooa irt)
      = enc_result (m_bearer_window now (f_slack r) snb snooa, r).
    Proof.
      intros now r snb snooa irt Ha. unfold m_bearer_window, enc_result. cbn [fst snd].
      destruct snb as [sa|], snooa as [sb|]; cbn [validate_on_or_after validate_before later_than]; name_tests;
        cbv delta [src2_bearer_confirmed]; cbv beta.
      - (run_with ltac:(first [data_rw | rewrite Ha]); cbn [negb enc_outcome]; reflexivity).
      - (run_with ltac:(first [data_rw | rewrite Ha]); cbn [negb enc_outcome]; reflexivity).
      - (run_with ltac:(first [data_rw | rewrite Ha]); cbn [negb enc_outcome]; reflexivity).
      - (run_with ltac:(first [data_rw | rewrite Ha]); cbn [negb enc_outcome]; reflexivity).
    Qed.

    (* the exchange of the correspondence cases: asynchronous, the Response answers the one outstanding request
       [irt] (filed with the caller's context [cf]) and so does the confirmation: inside the window the
       context is taken over, outside nothing else happens *)
    Lemma attr_irt r : p2_attr (enc_self r) "in_response_to" = f_irt r.
    Proof. reflexivity. Qed.
    Lemma attr_outstanding r : p2_attr (enc_self r) "outstanding_queries" = f_outstanding r.
    Proof. reflexivity. Qed.
    Lemma attr_came_from r : p2_attr (enc_self r) "came_from" = f_came_from r.
    Proof. reflexivity. Qed.
    Lemma data_irt a b i : p2_attr (enc_data a b i) "in_response_to" = i.
    Proof. reflexivity. Qed.
    Lemma setattr_came_from r v : is_bad v = false -> p2_setattr (enc_self r) "came_from" v = enc_self (with_came_from r v).
    Proof. destruct v; intros H; try discriminate; reflexivity. Qed.

    Ltac rw_cf := rewrite setattr_came_from by reflexivity.

    Theorem src2_bearer_confirmed_async_is_model : forall now r snb snooa irt cf,
      f_asynchop r = true -> f_irt r = PStr irt -> f_outstanding r = PObj [(irt, PStr cf)] -> f_came_from r = PNone ->
      is_empty irt = false -> String.eqb irt "__class__" = false ->
      src2_bearer_confirmed (PInt now) to_secs parse gmtime valid_address (enc_self r) (enc_data snb snooa (PStr irt))
      = let o := m_bearer_window now (f_slack r) snb snooa in
        enc_result (o, match o with ORet true => with_came_from r (PStr cf) | _ => r end).
    Proof.
      intros now r snb snooa irt cf Ha Hi Ho Hf Hne Hcls. unfold m_bearer_window, enc_result. cbn [fst snd].
      destruct snb as [sa|], snooa as [sb|]; cbn [validate_on_or_after validate_before later_than]; name_tests;
        cbv delta [src2_bearer_confirmed]; cbv beta.
      all: (run_with ltac:(first [data_rw | rewrite Ha | rewrite attr_irt | rewrite attr_outstanding
                                | rewrite attr_came_from | rewrite data_irt | rewrite Hi | rewrite Ho | rewrite Hf
                                | rewrite Hne | rewrite Hcls | rewrite String.eqb_refl
                                | rw_cf]);
                 cbn [negb enc_outcome]; reflexivity).
    Qed.
  End Bearer.

  (* ---------------------------------------------------------------- _bearer_confirmed, data that name an Address
     (strengthening round 6).  SubjectConfirmationData/@Address is optional; when it is there, valid_address() is
     asked (external: True for an IPv4/IPv6 text, raises NotValid for anything else) and NOTHING else changes: the
     window is looked at exactly as for data without an Address. *)
  Definition enc_data_at (addr : pyval) (snb snooa : option stamp) (irt : pyval) : pyval :=
    PObj [("__class__", PStr "SubjectConfirmationData"); ("address", addr); ("not_before", enc_ts snb);
          ("not_on_or_after", enc_ts snooa); ("in_response_to", irt)].
  Lemma enc_data_is_at snb snooa irt : enc_data snb snooa irt = enc_data_at PNone snb snooa irt.
  Proof. reflexivity. Qed.
  Lemma dat_nb d a b i : p2_attr (enc_data_at d a b i) "not_before" = enc_ts a.
  Proof. reflexivity. Qed.
  Lemma dat_nooa d a b i : p2_attr (enc_data_at d a b i) "not_on_or_after" = enc_ts b.
  Proof. reflexivity. Qed.
  Lemma dat_address d a b i : p2_attr (enc_data_at d a b i) "address" = d.
  Proof. reflexivity. Qed.
  Lemma dat_irt d a b i : p2_attr (enc_data_at d a b i) "in_response_to" = i.
  Proof. reflexivity. Qed.
  Lemma not_dat d a b i : p2_not (enc_data_at d a b i) = PBool false.
  Proof. reflexivity. Qed.

  Section BearerAddress.
    Variable valid_address : pyval -> pyval.
    Variable atext : string.                    (* the Address attribute: any non-empty text *)
    Hypothesis atext_nonempty : is_empty atext = false.

    Ltac dat_rw :=
      first [ rewrite dat_nb | rewrite dat_nooa | rewrite dat_address | rewrite not_dat | rewrite attr_asynchop
            | rewrite dat_irt | rewrite atext_nonempty ].

    (* a well-formed Address: the window decides, as without it (synchronous exchange) *)
    Theorem src2_bearer_confirmed_address_is_model : forall now r snb snooa irt,
      valid_address (PStr atext) = PBool true -> f_asynchop r = false ->
      src2_bearer_confirmed (PInt now) to_secs parse gmtime valid_address (enc_self r) (enc_data_at (PStr atext) snb snooa irt)
      = enc_result (m_bearer_window now (f_slack r) snb snooa, r).
    Proof.
      intros now r snb snooa irt Hv Ha. unfold m_bearer_window, enc_result. cbn [fst snd].
      destruct snb as [sa|], snooa as [sb|]; cbn [validate_on_or_after validate_before later_than]; name_tests;
        cbv delta [src2_bearer_confirmed]; cbv beta.
      all: (run_with ltac:(first [dat_rw | rewrite Ha | rewrite Hv]); cbn [negb enc_outcome]; reflexivity).
    Qed.

    (* ... and in the exchange of the correspondence cases (asynchronous, the one outstanding request) *)
    Theorem src2_bearer_confirmed_address_async_is_model : forall now r snb snooa irt cf,
      valid_address (PStr atext) = PBool true ->
      f_asynchop r = true -> f_irt r = PStr irt -> f_outstanding r = PObj [(irt, PStr cf)] -> f_came_from r = PNone ->
      is_empty irt = false -> String.eqb irt "__class__" = false ->
      src2_bearer_confirmed (PInt now) to_secs parse gmtime valid_address (enc_self r)
        (enc_data_at (PStr atext) snb snooa (PStr irt))
      = let o := m_bearer_window now (f_slack r) snb snooa in
        enc_result (o, match o with ORet true => with_came_from r (PStr cf) | _ => r end).
    Proof.
      intros now r snb snooa irt cf Hv Ha Hi Ho Hf Hne Hcls. unfold m_bearer_window, enc_result. cbn [fst snd].
      destruct snb as [sa|], snooa as [sb|]; cbn [validate_on_or_after validate_before later_than]; name_tests;
        cbv delta [src2_bearer_confirmed]; cbv beta.
      all: (run_with ltac:(first [dat_rw | rewrite Ha | rewrite Hv | rewrite attr_irt | rewrite attr_outstanding
                                | rewrite attr_came_from | rewrite Hi | rewrite Ho | rewrite Hf
                                | rewrite Hne | rewrite Hcls | rewrite String.eqb_refl
                                | rewrite setattr_came_from by reflexivity]);
                 cbn [negb enc_outcome]; reflexivity).
    Qed.

    (* an Address that is no IPv4/IPv6 text: NotValid, whatever the window and the kind of exchange *)
    Theorem src2_bearer_confirmed_bad_address_raises : forall now r snb snooa irt,
      valid_address (PStr atext) = PExc "NotValid" ->
      src2_bearer_confirmed (PInt now) to_secs parse gmtime valid_address (enc_self r) (enc_data_at (PStr atext) snb snooa irt)
      = enc_result (OExc "NotValid", r).
    Proof.
      intros now r snb snooa irt Hv. unfold enc_result. cbn [fst snd].
      cbv delta [src2_bearer_confirmed]; cbv beta.
      run_with ltac:(first [dat_rw | rewrite Hv]). cbn [enc_outcome]. reflexivity.
    Qed.
  End BearerAddress.

  (* ---------------------------------------------------------------- session_info *)
  Lemma attr_session r : p2_attr (enc_self r) "session_not_on_or_after" = PInt (f_session r).
  Proof. reflexivity. Qed.
  Lemma attr_nooa r : p2_attr (enc_self r) "not_on_or_after" = PInt (f_nooa r).
  Proof. reflexivity. Qed.
  Lemma attr_context r : p2_attr (enc_self r) "context" = PStr (f_context r).
  Proof. reflexivity. Qed.
  Lemma attr_name_id r : p2_attr (enc_self r) "name_id" = f_name_id r.
  Proof. reflexivity. Qed.
  Lemma attr_ava r : p2_attr (enc_self r) "ava" = f_ava r.
  Proof. reflexivity. Qed.
  Lemma attr_came_from' r : p2_attr (enc_self r) "came_from" = f_came_from r.
  Proof. reflexivity. Qed.
  Lemma attr_statements r :
    p2_attr (p2_attr (enc_self r) "assertion") "authn_statement" = PList (map enc_statement (f_statements r)).
  Proof. reflexivity. Qed.
  Lemma getattr3_statements r :
    p2_getattr3 (p2_attr (enc_self r) "assertion") "authn_statement" PNone = PList (map enc_statement (f_statements r)).
  Proof. reflexivity. Qed.

  Section SessionInfo.
    Variables issuer authz_decision_info authn_info : pyval -> pyval.
    Hypothesis issuer_good : forall v, is_bad (issuer v) = false.
    Hypothesis authz_good : forall v, is_bad (authz_decision_info v) = false.
    Hypothesis authn_info_good : forall v, is_bad (authn_info v) = false.

    Ltac si_rw :=
      first [ rewrite attr_session | rewrite attr_nooa | rewrite attr_context | rewrite attr_name_id | rewrite attr_ava
            | rewrite attr_came_from' | rewrite getattr3_statements | rewrite attr_statements ].

    (* which expiry is reported: SessionNotOnOrAfter when it was set (> 0), otherwise Conditions/NotOnOrAfter *)
    Theorem src2_session_info_is_model : forall r,
      is_bad (f_name_id r) = false -> is_bad (f_ava r) = false -> is_bad (f_came_from r) = false ->
      src2_session_info issuer authz_decision_info authn_info (enc_self r)
      = let nooa := PInt (m_reported (f_session r) (f_nooa r)) in
        if String.eqb (f_context r) "AuthzQuery"
        then PObj [("name_id", f_name_id r); ("came_from", f_came_from r); ("issuer", issuer (enc_self r));
                   ("not_on_or_after", nooa); ("authz_decision_info", authz_decision_info (enc_self r))]
        else match f_statements r with
             | _ :: _ => PObj [("ava", f_ava r); ("name_id", f_name_id r); ("came_from", f_came_from r);
                               ("issuer", issuer (enc_self r)); ("not_on_or_after", nooa);
                               ("authn_info", authn_info (enc_self r)); ("session_index", PStr "s-1")]
             | [] => PExc "StatusInvalidAuthnResponseStatement"
             end.
    Proof.
      intros r Hn Ha Hc. unfold m_reported. cbv zeta.
      remember (String.eqb (f_context r) "AuthzQuery") as cq eqn:Eq.
      destruct (f_statements r) as [|b rest] eqn:Es; name_tests; cbv delta [src2_session_info]; cbv beta.
      all: run_with ltac:(first [si_rw | rewrite Es | rewrite <- Eq]).
      all: try reflexivity.
      all: repeat si_rw; cbn [map enc_statement p2_getitem]; mkdict_good; reflexivity.
    Qed.
  End SessionInfo.

  (* ---------------------------------------------------------------- issue_instant_ok *)
  Lemma attr_issue r : p2_attr (p2_attr (enc_self r) "response") "issue_instant" = PStr (text_of (f_issue r)).
  Proof. reflexivity. Qed.

  Section IssueInstant.
    (* datetime values are represented by their (whole) second; datetime.timetuple() yields a struct_time
       with tm_isdst = -1, str_to_time() one with tm_isdst = 0: order keys [ktt] / [kgm] such that at equal
       seconds the timetuple() value is the smaller one (coq/gen/C05Src2v.v: the translated function) *)
    Variable now : Z.
    Variables in_a_while a_while_ago timetuple : pyval -> pyval.
    Variable shift_time : pyval -> pyval -> pyval.
    Variable ktt : Z -> Z.
    Hypothesis in_a_while_ok : forall d, in_a_while (PInt d) = PInt (now + 86400 * d).
    Hypothesis a_while_ago_ok : forall d, a_while_ago (PInt d) = PInt (now - 86400 * d).
    Hypothesis shift_time_ok : forall t d, shift_time (PInt t) (PInt d) = PInt (t + d).
    Hypothesis timetuple_ok : forall t, timetuple (PInt t) = PInt (ktt t).
    Hypothesis ktt_lt_kgm : forall a b, (ktt a <? kgm b) = (a <=? b).
    Hypothesis kgm_lt_ktt : forall a b, (kgm a <? ktt b) = (a <? b).

    Theorem src2_issue_instant_ok_is_model : forall r,
      src2_issue_instant_ok in_a_while a_while_ago shift_time timetuple parse (enc_self r)
      = PBool (issue_instant_ok now (f_slack r) (f_issue r)).
    Proof.
      intros r. unfold issue_instant_ok. cbv delta [src2_issue_instant_ok]; cbv beta.
      run_with ltac:(first [ rewrite attr_issue | rewrite in_a_while_ok | rewrite a_while_ago_ok | rewrite shift_time_ok
                           | rewrite timetuple_ok ]).
      change (p2_lt (PInt ?a) (PInt ?b)) with (PBool (a <? b)). cbn [py_bind].
      change (p2_lt (PInt ?a) (PInt ?b)) with (PBool (a <? b)).
      rewrite ktt_lt_kgm, kgm_lt_ktt.
      replace (now - 86400 * 1 + - f_slack r) with (now - 86400 - f_slack r) by lia.
      replace (now + 86400 * 1 + f_slack r) with (now + 86400 + f_slack r) by lia.
      destruct (now - 86400 - f_slack r <=? str_to_time (f_issue r)); reflexivity.
    Qed.
  End IssueInstant.

  (* ---------------------------------------------------------------- skew plumbing: response.authn_response *)
  Definition enc_conf (atd : option Z) (eid : string) : pyval :=
    PObj [("__class__", PStr "SPConfig");
          ("accepted_time_diff", match atd with Some z => PInt z | None => PNone end);
          ("attribute_converters", PList []); ("entityid", PStr eid)].

  Section Plumbing.
    Variable security_context : pyval -> pyval.
    Variable int_ : pyval -> pyval.            (* the builtin int(): identity on ints, TypeError on None *)
    Hypothesis sec_good : forall c, is_bad (security_context c) = false.
    Hypothesis int_none : int_ PNone = PExc "TypeError".
    Hypothesis int_int : forall z, int_ (PInt z) = PInt z.

    Lemma conf_atd atd eid :
      p2_attr (enc_conf atd eid) "accepted_time_diff" = match atd with Some z => PInt z | None => PNone end.
    Proof. reflexivity. Qed.

    (* the AuthnResponse is constructed with timeslack = the caller's value when that is non-zero, otherwise the
       configured accepted_time_diff (0 when unset): Model.timeslack *)
    Theorem src2_authn_response_is_model : forall atd eid ts ra oq ah au was ci,
      is_bad ra = false -> is_bad oq = false -> is_bad ah = false -> is_bad au = false -> is_bad was = false ->
      is_bad ci = false ->
      src2_authn_response security_context int_ (enc_conf atd eid) ra oq (PInt ts) ah au was ci
      = PObj [("arg0", security_context (enc_conf atd eid)); ("arg1", PList []); ("arg2", PStr eid); ("arg3", ra);
              ("arg4", oq); ("arg5", PInt (if ts =? 0 then timeslack atd else ts)); ("asynchop", ah);
              ("allow_unsolicited", au); ("want_assertions_signed", was); ("conv_info", ci)].
    Proof.
      intros atd eid ts ra oq ah au was ci H1 H2 H3 H4 H5 H6.
      assert (Hz : forall z, timeslack (Some z) = z).
      { intros z. unfold timeslack. destruct (Z.eqb_spec z 0); [symmetry; assumption|reflexivity]. }
      destruct atd as [z|]; [rewrite Hz|cbn [timeslack]]; name_tests; cbv delta [src2_authn_response]; cbv beta.
      all: run_with ltac:(first [rewrite conf_atd | rewrite int_none | rewrite int_int]).
      all: mkdict_good; reflexivity.
    Qed.
  End Plumbing.
End Clock.

(* ================================================================== StatusResponse._verify
   (coq/gen/C05Src2v.v; the float constant 2.0 handed in as an external value).  For a Response of version 2.0
   parsed by an AuthnResponse (request_id 0): the Destination is looked at on the asynchronous path only (and only
   when present), issue_instant_ok() and status_ok() are consulted on EVERY path.  [dest_class] is
   Model.m_destination, [m_verify] answers "go on" exactly when Model.verify_ok does. *)
Section Verify.
  Variables issue_instant_ok_ status_ok float_ : pyval -> pyval.
  Variable two : pyval.

  Record vself := { v_irt : pyval; v_async : bool; v_addrs : list string; v_dest : option string;
                    v_rest : list (string * pyval) }.
  Definition enc_v (r : vself) : pyval :=
    PObj ([("__class__", PStr "AuthnResponse"); ("request_id", PInt 0); ("in_response_to", v_irt r);
           ("asynchop", PBool (v_async r)); ("return_addrs", PList (map PStr (v_addrs r)));
           ("response", PObj [("__class__", PStr "Response"); ("version", PStr "2.0");
                              ("destination", match v_dest r with Some d => PStr d | None => PNone end)])]
          ++ v_rest r)%list.

  Definition dest_class (r : vself) : option bool :=
    match v_dest r with None => None | Some d => Some (existsb (String.eqb d) (v_addrs r)) end.

  Definition m_verify (async : bool) (dest : option bool) (fresh : bool) (status : outcome) : pyval :=
    if async && match dest with Some false => true | _ => false end then PNone
    else if fresh then enc_outcome status else PBool false.

  Lemma not_in_addrs d l : p2_not_in (PStr d) (PList (map PStr l)) = PBool (negb (existsb (String.eqb d) l)).
  Proof.
    unfold p2_not_in, p2_in, s2. cbn [py_bind].
    assert (H : list_has (PStr d) (map PStr l) = Some (existsb (String.eqb d) l)).
    { induction l as [|y r IH]; [reflexivity|]. cbn [map list_has existsb].
      change (pv_eq (PStr d) (PStr y)) with (Some (String.eqb d y)). destruct (String.eqb d y); [reflexivity|exact IH]. }
    rewrite H. reflexivity.
  Qed.

  Theorem src2_verify_is_model : forall r fresh status,
    (forall d, v_dest r = Some d -> is_empty d = false) ->
    issue_instant_ok_ (enc_v r) = PBool fresh -> status_ok (enc_v r) = enc_outcome status ->
    src2_verify issue_instant_ok_ status_ok float_ two (enc_v r) = m_verify (v_async r) (dest_class r) fresh status.
  Proof.
    intros r fresh status Hd Hi Hs. cbv delta [src2_verify]; cbv beta zeta.
    rewrite Hi, Hs.
    change (p2_attr (enc_v r) "request_id") with (PInt 0).
    change (p2_attr (p2_attr (enc_v r) "response") "version") with (PStr "2.0").
    change (p2_attr (enc_v r) "asynchop") with (PBool (v_async r)).
    change (p2_attr (p2_attr (enc_v r) "response") "destination")
      with (match v_dest r with Some d => PStr d | None => PNone end).
    change (p2_attr (enc_v r) "return_addrs") with (PList (map PStr (v_addrs r))).
    change (p2_and (PInt 0) ?x) with (PInt 0).
    change (p2_branch (PInt 0)) with BFalse. cbv iota.
    change (p2_branch (p2_ne (PStr "2.0") (PStr "2.0"))) with BFalse. cbv iota.
    unfold m_verify, dest_class. rewrite p2_branch_bool.
    (* the rest is evaluation: every shape of the final `issue_instant_ok() and status_ok()` computes *)
    destruct (v_async r); cbn [andb].
    - destruct (v_dest r) as [d|] eqn:Ed.
      + rewrite not_in_addrs. unfold p2_and at 1. cbn [py_truthy]. rewrite (Hd d eq_refl). cbn [negb].
        rewrite p2_branch_bool. destruct (existsb (String.eqb d) (v_addrs r)); cbn [negb]; [|reflexivity].
        destruct fresh, status as [n|b]; reflexivity.
      + change (p2_branch (p2_and PNone ?x)) with BFalse. cbv iota. destruct fresh, status as [n|b]; reflexivity.
    - destruct fresh, status as [n|b]; reflexivity.
  Qed.

  (* the answer is "go on" exactly when Model.verify_ok says so (and the status is Success) *)
  Lemma m_verify_is_verify_ok n sl m :
    py_truthy (m_verify (asynchop (m_binding m)) (m_destination m) (issue_instant_ok n sl (m_issue m)) (ORet true))
    = verify_ok n sl m.
  Proof.
    unfold m_verify, verify_ok. destruct (asynchop (m_binding m)), (m_destination m) as [[|]|],
      (issue_instant_ok n sl (m_issue m)); reflexivity.
  Qed.
End Verify.

(* ================================================================== the hypotheses are satisfiable *)
(* a text for every time stamp (sign and unary digits: the point is only that SOME injective rendering and its
   reader exist; the real rendering and reader are the subject of C05/Time.v) *)
Fixpoint ones (n : nat) : string := match n with O => EmptyString | S k => String "1"%char (ones k) end.
Definition text0 (s : stamp) : string :=
  String (if fst s <? 0 then "-"%char else "+"%char) (ones (Z.abs_nat (fst s))).
Definition val0 (t : string) : Z :=
  match t with
  | String c r => let n := Z.of_nat (String.length r) in if Ascii.eqb c "-"%char then - n else n
  | EmptyString => 0
  end.
Lemma length_ones n : String.length (ones n) = n.
Proof. induction n as [|k IH]; cbn [ones String.length]; [reflexivity|]. rewrite IH. reflexivity. Qed.
Lemma val0_text0 s : val0 (text0 s) = str_to_time s.
Proof.
  unfold val0, text0, str_to_time. rewrite length_ones, Zabs2Nat.id_abs.
  destruct (Z.ltb_spec (fst s) 0); cbn [Ascii.eqb Bool.eqb]; lia.
Qed.
Definition reader (key : Z -> Z) (v : pyval) : pyval := match v with PStr t => PInt (key (val0 t)) | _ => PErr end.

Example clock_instance : exists text_of to_secs parse kgm,
  (forall s : stamp, is_empty (text_of s) = false) /\
  (forall s, to_secs (PStr (text_of s)) = PInt (str_to_time s)) /\
  (forall s, parse (PStr (text_of s)) = PInt (kgm (str_to_time s))) /\
  (forall a b, (kgm a >=? kgm b) = (a >=? b)).
Proof.
  exists text0, (reader (fun z => z)), (reader (fun z => 2 * z + 1)), (fun z => 2 * z + 1).
  repeat split.
  - intros s. cbn [reader]. rewrite val0_text0. reflexivity.
  - intros s. cbn [reader]. rewrite val0_text0. reflexivity.
  - intros a b. destruct (Z.geb_spec (2 * a + 1) (2 * b + 1)), (Z.geb_spec a b); try reflexivity; lia.
Qed.

(* keyswv(): the names of the fields that have a (truthy) value; for_me(): any constant answer *)
Definition keyswv0 (v : pyval) : pyval :=
  match v with
  | PObj f => PList (map (fun kv => PStr (fst kv))
                         (filter (fun kv => py_truthy (snd kv) && negb (String.eqb (fst kv) "__class__")) f))
  | _ => PErr
  end.
Example condition_ok_instance : forall fm, exists keyswv for_me,
  (forall a b, keyswv (enc_conditions text0 (PList [PStr "sp"]) a b) = PList (map PStr (cond_keys a b))) /\
  (forall a b eid, for_me (enc_conditions text0 (PList [PStr "sp"]) a b) (PStr eid) = PBool fm).
Proof.
  intros fm. exists keyswv0, (fun _ _ => PBool fm). split; [|reflexivity].
  intros [a|] [b|]; reflexivity.
Qed.

Example session_info_instance : exists issuer authz_decision_info authn_info : pyval -> pyval,
  (forall v, is_bad (issuer v) = false) /\ (forall v, is_bad (authz_decision_info v) = false) /\
  (forall v, is_bad (authn_info v) = false).
Proof. exists (fun _ => PStr "idp"), (fun _ => PList []), (fun _ => PList []). repeat split. Qed.

(* datetimes as seconds; struct_time order keys: 2 * seconds + (tm_isdst + 1) *)
Definition on_int (f : Z -> Z) (v : pyval) : pyval := match v with PInt z => PInt (f z) | _ => PErr end.
Example issue_instant_instance : forall now, exists in_a_while a_while_ago timetuple shift_time ktt kgm,
  (forall d, in_a_while (PInt d) = PInt (now + 86400 * d)) /\
  (forall d, a_while_ago (PInt d) = PInt (now - 86400 * d)) /\
  (forall t d, shift_time (PInt t) (PInt d) = PInt (t + d)) /\
  (forall t, timetuple (PInt t) = PInt (ktt t)) /\
  (forall a b, (ktt a <? kgm b) = (a <=? b)) /\
  (forall a b, (kgm a <? ktt b) = (a <? b)) /\
  (forall a b, (kgm a >=? kgm b) = (a >=? b)).
Proof.
  intros now.
  exists (on_int (fun d => now + 86400 * d)), (on_int (fun d => now - 86400 * d)), (on_int (fun t => 2 * t)),
    (fun a b => match a, b with PInt t, PInt d => PInt (t + d) | _, _ => PErr end), (fun t => 2 * t), (fun t => 2 * t + 1).
  repeat split; intros a b.
  - destruct (Z.ltb_spec (2 * a) (2 * b + 1)), (Z.leb_spec a b); try reflexivity; lia.
  - destruct (Z.ltb_spec (2 * a + 1) (2 * b)), (Z.ltb_spec a b); try reflexivity; lia.
  - destruct (Z.geb_spec (2 * a + 1) (2 * b + 1)), (Z.geb_spec a b); try reflexivity; lia.
Qed.

Example plumbing_instance : exists security_context int_ : pyval -> pyval,
  (forall c, is_bad (security_context c) = false) /\ int_ PNone = PExc "TypeError" /\ (forall z, int_ (PInt z) = PInt z).
Proof.
  exists (fun _ => PStr "sec"), (fun v => match v with PInt z => PInt z | PNone => PExc "TypeError" | _ => PErr end).
  repeat split.
Qed.

Example verify_instance : forall fresh status, exists issue_instant_ok_ status_ok : pyval -> pyval,
  (forall v, issue_instant_ok_ v = PBool fresh) /\ (forall v, status_ok v = enc_outcome status).
Proof. intros fresh status. exists (fun _ => PBool fresh), (fun _ => enc_outcome status). split; reflexivity. Qed.
