(* C12/Corr.v — correspondence runner.  A case carries the abstract input and everything observed
   on the real implementation; Coq recomputes the model on the same input and evaluates the spec
   on the OBSERVED output.

   Objects arrive in a sparse form (only members that hold something); [dense] aligns them with the
   class table, [sparse_ok] refuses a member name the table does not have. *)
From Coq Require Import String Ascii List Bool Arith NArith.
From Verif Require Import Base.Str Base.Run Base.Xml Base.ClassTable C12.Model C12.Spec C12.Xsd C12.Build C12.Prefix.
From VerifGen Require Import ClassTables C12Vocab C12Schema.   (* C12Vocab: only so that make builds it for the case files *)
Import ListNotations.
Open Scope string_scope.
Open Scope list_scope.

Inductive sobj : Type :=
  SO (c : N) (sa : list (string * string)) (sk : list (string * list sobj)) (ext : list ee)
     (xa : attrs) (tx : option string).

(* round 5 (seeds C12-0 / C12-9): the serialisation entry points of SamlBase, as steps of a HISTORY on long-lived
   instances in one process: to_string() / str(), to_string(nspair), register_prefix(nspair),
   to_string_force_namespace(nspair), get_xml_string_with_self_contained_assertion_within_encrypted_assertion() *)
Inductive sop := SPlain | SNs (np : nspairs) | SReg (np : nspairs) | SForce (np : nspairs) | SSelf.

Definition pairs_eqb : list (string * string) -> list (string * string) -> bool :=
  list_eqb (fun a b => String.eqb (fst a) (fst b) && String.eqb (snd a) (snd b)).

Definition sop_eqb (a b : sop) : bool :=
  match a, b with
  | SPlain, SPlain | SSelf, SSelf => true
  | SNs x, SNs y | SReg x, SReg y | SForce x, SForce y => pairs_eqb x y
  | _, _ => false
  end.

Definition writes (op : sop) : bool := match op with SReg _ => false | _ => true end.
Definition exact_op (op : sop) : bool := match op with SPlain | SNs _ => true | _ => false end.

(* what the step does to the process-global registry *)
Definition model_map (m : nsmap) (op : sop) : nsmap :=
  match op with SNs np | SReg np => register_prefix m np | _ => m end.

(* the (prefix, namespace) bindings in force while the step writes: the registry and the forced pairs *)
Definition step_binds (gm : nsmap) (op : sop) : list (string * string) :=
  map (fun up => (snd up, fst up)) gm ++ match op with SForce np => np | _ => [] end.

Section Corr.
  Variable T : table.
  Variable X : xsd_table.    (* ranks of the child element names, from the XML Schema files (C12/Xsd.v) *)

  (* schema order as the library's table has it AND as the schema files have it *)
  Definition in_order (c : N) (t : tree) : bool := ordered_b T c t && xsd_ordered_b T X c t.

  (* which children are unknown is said by the schema files, not by the library's table (C12/Xsd.v, round 5) *)
  Definition kept (c : N) (t : tree) (o : obj) : bool := xsd_kept_b T X xsd_extra_allowed c t o.

  Fixpoint dense (s : sobj) : obj :=
    match s with
    | SO c sa sk ext xa tx =>
        let dk := map (fun mk => (fst mk, map dense (snd mk))) sk in
        match class_at T c with
        | None => Obj c [] [] ext xa tx
        | Some ci =>
            Obj c (map (fun a => (at_member a, get_member (at_member a) sa)) (c_attributes ci))
                  (map (fun s => (ch_member s, get_list (ch_member s) dk)) (c_children ci))
                  ext xa tx
        end
    end.

  Fixpoint sparse_ok (s : sobj) : bool :=
    match s with
    | SO c sa sk _ _ _ =>
        match class_at T c with
        | None => false
        | Some ci =>
            snodup (map fst sa) && snodup (map fst sk)
            && forallb (fun kv => smem (fst kv) (map at_member (c_attributes ci))) sa
            && forallb (fun mk => smem (fst mk) (map ch_member (c_children ci)) && nonempty (snd mk)
                                  && forallb sparse_ok (snd mk)) sk
        end
    end.

  Inductive pres := POk (o : sobj) | PNone | PRaise.
  Inductive mres := MOk (o : obj) | MNone | MRaise | MUnmodelled.

  (* create_class_from_xml_string after the XML parser: root tag check, then harvest *)
  Definition mparse (c : N) (t : tree) : mres :=
    match class_at T c with
    | None => MRaise
    | Some ci =>
        if qname_eqb (t_tag t) (c_tag ci) then
          match harvest_status T c t with
          | SOk => MOk (harvest T c t)
          | SRaise => MRaise
          | SUnmodelled => MUnmodelled
          end
        else MNone
    end.

  Definition agree_pres (m : mres) (r : pres) : bool :=
    match m, r with
    | MOk o, POk s => sparse_ok s && obj_eqb o (dense s)
    | MNone, PNone => true
    | MRaise, PRaise => true
    | MUnmodelled, _ => true
    | _, _ => false
    end.

  (* one step of a history: instance j, the call, and what was observed after it: the registry
     (ElementTree._namespace_map), the instance, what the independent reader makes of the bytes (None: the call
     raised or the bytes are not well-formed), what the library's parser makes of them, and an identifier of the
     byte string (equal identifiers = equal bytes) *)
  Inductive sstep := SStep (j : nat) (op : sop) (gm : nsmap) (after : sobj) (out : option tree) (r : pres) (bid : nat).

  Inductive case :=
  | RT (c : N) (o_in : sobj) (t1 : tree) (r1 : pres) (t2 : option tree) (same12 : bool) (r2 : pres) (same23 : bool)
  | DOC (c : N) (t : tree) (r : pres) (t2 : option tree) (r2 : pres) (same23 : bool)
  | IMPL (ok : bool)                  (* implementation-only check *)
  | IMPLF (k : nat) (ok : bool)       (* implementation-only probe of listed finding class k *)
  (* round 5: an AttributeValueBase instance built through the PUBLIC API along recipe b (C12/Build.v): the
     constructor with its three keywords, then set_text / .text = / set_type / extension_attributes[..] = ..;
     what was built is o_in, the rest is what RT observes *)
  | RTB (c : N) (b : recipe) (o_in : sobj) (t1 : tree) (r1 : pres) (t2 : option tree) (same12 : bool) (r2 : pres)
        (same23 : bool)
  | BRAISE (c : N) (b : recipe)       (* the recipe raised ValueError on the implementation *)
  | BNONSTR (c : N) (b : recipe)      (* the text member of the built instance is not a str (to_string() raises) *)
  (* round 5: a history of serialisation calls on several long-lived instances; gm0 = the registry at the start *)
  | SEQ (gm0 : nsmap) (objs : list sobj) (steps : list sstep).

  Definition follow (c : N) (r : pres) (t2 : option tree) (r2 : pres) : bool :=
    match r, t2 with
    | POk o, Some t2' => tree_eqb (ser T (dense o)) t2' && agree_pres (mparse c t2') r2
    | POk _, None => false
    | _, _ => true
    end.

  Definition agrees_rt (c : N) (o_in : sobj) (t1 : tree) (r1 : pres) (t2 : option tree) (r2 : pres) : bool :=
    sparse_ok o_in && N.eqb (o_cls (dense o_in)) c
    && tree_eqb (ser T (dense o_in)) t1 && agree_pres (mparse c t1) r1 && follow c r1 t2 r2.

  (* the model of the building side gives the instance the implementation built *)
  Definition agrees_build (c : N) (b : recipe) (o_in : sobj) : bool :=
    recipe_ok b
    && match av_build b with
       | TOk xa tx => obj_eqb (av_obj c (r_ext b) xa tx) (dense o_in)
       | TRaise | TNonStr => false
       | TUnmodelled => true
       end.

  Definition st_j (s : sstep) := match s with SStep j _ _ _ _ _ _ => j end.
  Definition st_op (s : sstep) := match s with SStep _ op _ _ _ _ _ => op end.
  Definition st_gm (s : sstep) := match s with SStep _ _ gm _ _ _ _ => gm end.
  Definition st_out (s : sstep) := match s with SStep _ _ _ _ out _ _ => out end.
  Definition st_bid (s : sstep) := match s with SStep _ _ _ _ _ _ bid => bid end.

  (* the model of a history: the registry follows register_prefix (C12/Prefix.v); serialising is a FUNCTION of the
     instance - every call leaves the instance as it was and writes the tree ser T o (to_string_force_namespace /
     the self-contained variant: up to the order of the attributes, which the prefix rewriting changes) - unless the
     forced prefixes collide with the ones ElementTree hands out (force_collides: xmlns:<p> twice, finding class 9).
     Not restated: a prefix bound to another namespace than the xmlns:xs pseudo attribute of a typed AttributeValue
     declares (pseudo_clash, finding class 4): no agreement demanded on what such a step writes. *)
  Fixpoint agrees_steps (objs : list sobj) (m : nsmap) (steps : list sstep) : bool :=
    match steps with
    | [] => true
    | SStep j op gm after out r _ :: rest =>
        let m' := model_map m op in
        match nth_error objs j with
        | None => false
        | Some so =>
            let o := dense so in
            let c := o_cls o in
            pairs_eqb m' gm && obj_eqb (dense after) o
            && (negb (writes op) || pseudo_clash (step_binds gm op) (to_tree T o)
                || match op, out with
                   | SForce np, _ =>
                       if force_collides m' np (to_tree T o) then negb (is_some out)
                       else match out with
                            | Some t => tree_sim_b (ser T o) t && agree_pres (mparse c t) r
                            | None => false
                            end
                   | SSelf, Some t => tree_sim_b (ser T o) t && agree_pres (mparse c t) r
                   | _, Some t => tree_eqb (ser T o) t && agree_pres (mparse c t) r
                   | _, None => false
                   end)
            && agrees_steps objs m' rest
        end
    end.

  Definition agrees (k : case) : bool :=
    match k with
    | RT c o_in t1 r1 t2 _ r2 _ => agrees_rt c o_in t1 r1 t2 r2
    | DOC c t r t2 r2 _ => agree_pres (mparse c t) r && follow c r t2 r2
    | IMPL _ | IMPLF _ _ => true
    | RTB c b o_in t1 r1 t2 _ r2 _ => agrees_build c b o_in && agrees_rt c o_in t1 r1 t2 r2
    | BRAISE c b => recipe_ok b && match av_build b with TRaise | TUnmodelled => true | _ => false end
    | BNONSTR c b => recipe_ok b && match av_build b with TNonStr | TUnmodelled => true | _ => false end
    | SEQ gm0 objs steps => forallb sparse_ok objs && agrees_steps objs gm0 steps
    end.

  Definition same_obj (r : pres) (o : obj) : bool :=
    match r with POk s => obj_eqb (dense s) o | _ => false end.

  (* parsing gives an instance in the sense of the spec; what that instance serialises to has its children
     in schema order, and parsing it gives the same instance and the same bytes *)
  Definition stable_b (c : N) (r : pres) (t2 : option tree) (r2 : pres) (same23 : bool) : bool :=
    match r with
    | POk s => canonical_b T (dense s) && same_obj r2 (dense s) && same23
               && match t2 with Some t2' => in_order c t2' | None => false end
    | _ => true
    end.

  (* the property, verbatim, on what was observed: serialising and re-parsing yields the same object (children in
     schema order), serialising that again is byte-identical, and once more *)
  Definition roundtrip_b (c : N) (o : obj) (t1 : tree) (r1 : pres) (t2 : option tree) (same12 : bool) (r2 : pres)
             (same23 : bool) : bool :=
    same_obj r1 o && same12 && in_order c t1 && same_obj r2 o && same23
    && match t2 with Some t2' => in_order c t2' | None => false end.

  Definition pres_eqb (a b : pres) : bool :=
    match a, b with
    | POk x, POk y => obj_eqb (dense x) (dense y)
    | PNone, PNone | PRaise, PRaise => true
    | _, _ => false
    end.

  Definition pres_ok (a : pres) : bool := match a with POk _ => true | _ => false end.

  (* the first to_string() / to_string(nspair) of instance j in the history that produced a document *)
  Definition ref_of (steps : list sstep) (j : nat) : option sstep :=
    find (fun s => Nat.eqb (st_j s) j && exact_op (st_op s) && is_some (st_out s)) steps.

  Definition step_key_eqb (a b : sstep) : bool :=
    Nat.eqb (st_j a) (st_j b) && sop_eqb (st_op a) (st_op b) && pairs_eqb (st_gm a) (st_gm b).

  (* the property on one step of a history:
     - the registry stays usable (prefixes pairwise distinct, none of ElementTree's own form: otherwise SOME later
       instance is written with one prefix for two namespaces, Prefix.dup_prefix_breaks);
     - serialising does not change the instance;
     - what is written is a well-formed document, its children are in schema order, and it is the SAME document
       (for every prefix choice; attribute order aside for the prefix-forcing calls) as the first one written for
       this instance: re-parsing yields the same object whenever, however often and next to whatever other
       instance it is serialised;
     - an instance in the sense of the property comes back from the parser as it was built; a prefix-forced
       document loses nothing (unknown children and attributes surface as extensions) *)
  Definition step_ok (objs : list sobj) (steps : list sstep) (s : sstep) : bool :=
    match s with
    | SStep j op gm after out r _ =>
        match nth_error objs j with
        | None => false
        | Some so =>
            let o := dense so in
            let c := o_cls o in
            map_ok_b gm && obj_eqb (dense after) o
            && (negb (writes op)
                || match out with
                   | None => false
                   | Some t =>
                       in_order c t
                       && match ref_of steps j with
                          | Some (SStep _ _ _ _ (Some t0) r0 _) =>
                              if exact_op op then tree_eqb t0 t && pres_eqb r0 r
                              else tree_sim_b t0 t && (pres_ok r || negb (pres_ok r0))
                          | _ => true
                          end
                       && (if exact_op op then negb (canonical_b T o) || same_obj r o
                           else match r with
                                | POk s' => tag_is T c (t_tag t) && nd_b T c t (dense s') && kept c t (dense s')
                                | _ => true
                                end)
                   end)
        end
    end.

  (* the same call on the same instance under the same registry writes the same bytes *)
  Definition bytes_stable (steps : list sstep) : bool :=
    forallb (fun a => forallb (fun b => negb (step_key_eqb a b) || Nat.eqb (st_bid a) (st_bid b)) steps) steps.

  Definition holds_seq (gm0 : nsmap) (objs : list sobj) (steps : list sstep) : bool :=
    map_ok_b gm0 && forallb (step_ok objs steps) steps && bytes_stable steps.

  Definition holds (k : case) : bool :=
    match k with
    | RT c o_in t1 r1 t2 same12 r2 same23 =>
        let o := dense o_in in
        (negb (canonical_b T o) || (same_obj r1 o && same12 && in_order c t1)) && stable_b c r1 t2 r2 same23
        && match r1 with POk s => kept c t1 (dense s) | _ => true end
    | DOC c t r t2 r2 same23 =>
        match r with
        | POk s => tag_is T c (t_tag t) && nd_b T c t (dense s) && kept c t (dense s) && stable_b c r t2 r2 same23
        | _ => true
        end
    | IMPL ok | IMPLF _ ok => ok
    (* an instance built through the public API IS an instance the property speaks about: no guard *)
    | RTB c b o_in t1 r1 t2 same12 r2 same23 =>
        negb (recipe_in_scope b)
        || roundtrip_b c (dense o_in) t1 r1 t2 same12 r2 same23
    | BRAISE _ _ => true
    (* xs:anyType keeps an int / bool / float as it is (the library's own test-suite asserts "the value is
       unchanged"); the property quantifies over text that is a string of XML characters: outside its domain.
       The case only checks that the model knows when this happens (agrees). *)
    | BNONSTR _ _ => true
    | SEQ gm0 objs steps => holds_seq gm0 objs steps
    end.

  (* ---- finding classes (consulted only when [holds] is false) *)
  (* an xsi:type with a colon and an empty prefix or local part ("x:", ":y") somewhere in the document *)
  Fixpoint empty_type_b (t : tree) : bool :=
    match t with
    | Node _ a _ kids =>
        match dget qname_eqb xsi_type a with
        | Some typ => match split_colon typ with
                      | Some (ns, ty) => is_empty ns || is_empty ty
                      | None => false
                      end
        | None => false
        end || existsb empty_type_b kids
    end.

  Fixpoint tree_has_cr (t : tree) : bool :=
    match t with Node _ _ x kids => has_cr x || existsb tree_has_cr kids end.

  Definition cls (k : case) : nat :=
    match k with
    | RT c o_in t1 _ _ _ _ _ =>
        let o := dense o_in in
        if (negb (wf_obj_b T o) || negb (uses_wf_b T c t1)) && bad_known_obj_b T o && bad_known_tree_b T c t1 then 1
        else if negb (wf_obj_b T o) || negb (uses_wf_b T c t1) then 0
        else if negb (no_cr_b o) then 2
        else if empty_type_b t1 then 3 else 0
    | DOC c t _ _ _ _ =>
        if negb (uses_wf_b T c t) && bad_known_tree_b T c t then 1
        else if negb (uses_wf_b T c t) then 0
        else if tree_has_cr t then 2
        else if empty_type_b t then 3 else 0
    | IMPL _ => 0
    | IMPLF k _ => k
    (* judged on what the MODEL of the unchanged building side builds (not on what was observed): a constructor
       that starts to build an instance of class 5/6/7 is not excused by that class *)
    | RTB c b o_in _ _ _ _ _ _ =>
        match av_build b with
        | TOk xa tx =>
            if negb (no_cr_b (av_obj c (r_ext b) xa tx)) then 2 else av_known_class (r_ext b) xa tx
        | TUnmodelled =>      (* a float / date conversion the model does not restate: judged on what was observed *)
            let o := dense o_in in
            if negb (no_cr_b o) then 2 else av_known_class (o_ext o) (o_xattrs o) (o_text o)
        | _ => 0
        end
    | BRAISE _ _ => 0
    | BNONSTR _ _ => 0
    | SEQ _ objs steps =>
        let tree_of j := match nth_error objs j with Some so => to_tree T (dense so) | None => Node (QN None "") [] "" [] end in
        if existsb (fun s => match st_op s with
                             | SForce np => force_collides (st_gm s) np (tree_of (st_j s))
                             | _ => false
                             end) steps then 9
        else if existsb (fun s => writes (st_op s) && pseudo_clash (step_binds (st_gm s) (st_op s)) (tree_of (st_j s))) steps then 4
        else if negb (forallb (fun so => no_cr_b (dense so)) objs) then 2
        else 0
    end.

  Definition explain (k : case) :=
    match k with
    | RT c o_in t1 r1 t2 same12 r2 same23 =>
        (Some (ser T (dense o_in)), mparse c t1, canonical_b T (dense o_in),
         match r1 with POk s => Some (dense s) | _ => None end,
         (* order by the library's table / by the schema files: first and second serialisation *)
         (ordered_b T c t1, xsd_ordered_b T X c t1, match t2 with Some t => in_order c t | None => true end))
    | DOC c t r t2 r2 _ =>
        (None, mparse c t, match r with POk s => nd_b T c t (dense s) && kept c t (dense s) | _ => true end,
         match r with POk s => Some (dense s) | _ => None end,
         (true, true, match t2 with Some t => in_order c t | None => true end))
    | IMPL _ | IMPLF _ _ | BRAISE _ _ | BNONSTR _ _ => (None, MNone, true, None, (true, true, true))
    | SEQ gm0 objs steps =>
        (* registry agrees at every step / usable at every step; instances unchanged; every step ok, bytes stable *)
        (None, MNone, agrees_steps objs gm0 steps, None,
         (forallb (fun s => map_ok_b (st_gm s)) steps,
          forallb (fun s => match s with SStep j _ _ after _ _ _ =>
                              match nth_error objs j with Some so => obj_eqb (dense after) (dense so) | None => false end end) steps,
          forallb (step_ok objs steps) steps && bytes_stable steps))
    | RTB c b o_in t1 r1 t2 same12 r2 same23 =>
        (Some (ser T (dense o_in)), mparse c t1, agrees_build c b o_in && recipe_in_scope b,
         match av_build b with TOk xa tx => Some (av_obj c (r_ext b) xa tx) | _ => None end,
         (same_obj r1 (dense o_in), same12, roundtrip_b c (dense o_in) t1 r1 t2 same12 r2 same23))
    end.
End Corr.

Definition run := run_cases (agrees live_table) (holds live_table live_xsd) (cls live_table).
Definition explain_live := explain live_table live_xsd.
