(* C12/Source2.v — tie to the source TEXT, translator v2 (harness/py2coq2.py, Base/Py2.v).
   coq/gen/C12Src2.v is regenerated on every run from the CURRENT text of saml2/__init__.py and saml2/saml.py.
   For each translated function: a theorem, for ALL inputs of the model's domain, that the translated function
   applied to the encoded input is the encoded output of the hand-written model function it mirrors (C12/Model.v).

     src2_create_class_from_element_tree   root tag check                         parse_root / Corr.mparse
     src2_ec_convert_attribute             ExtensionContainer._convert_...        place_attr, unknown name: dset
     src2_convert_attribute                SamlBase._convert_element_attribute... place_attr
     src2_set_type                         AttributeValueBase.set_type            av_set_type
     src2_get_type                         AttributeValueBase.get_type            dget xsi_type (av_finish's type lookup)
     src2_transfer_to_element_tree         ExtensionElement.transfer_to_...       tree_of_ee (tag, attributes, text)

   Encodings.  Python's dict keys / ElementTree names are strings in Clark notation ("{ns}local"); the model has
   expanded names (qname).  [clark] writes a qname, [unclark] reads a string the way the code does (a leading "{"
   up to the first "}" is the namespace).  The model's domain are the names that ARE such strings: [key_ok q] =
   reading back what was written gives q (and the string is not the reserved field name of the embedding).
   External calls (constructors, methods working on another object) are Section variables; nothing is assumed
   about them except where stated, and each Section ends with an Example instantiating them. *)
Set Default Timeout 20.
From Coq Require Import String Ascii List Bool ZArith Arith Lia NArith.
From Verif Require Import Base.Str Base.Py Base.Py2 Base.Xml Base.ClassTable C12.Model.
From VerifGen Require Import C12Src2.
Import ListNotations.
Open Scope string_scope.
Open Scope list_scope.

(* ================================================================== names *)
Definition clark (q : qname) : string :=
  match q_ns q with
  | None => q_local q
  | Some ns => ("{" ++ ns ++ "}" ++ q_local q)%string
  end.

Definition c_close : ascii := "}"%char.
Definition c_open : ascii := "{"%char.

(* s.split("}", 1) when "}" occurs *)
Fixpoint split_brace (s : string) : option (string * string) :=
  match s with
  | EmptyString => None
  | String c r =>
      if Ascii.eqb c c_close then Some (EmptyString, r)
      else match split_brace r with
           | Some (a, b) => Some (String c a, b)
           | None => None
           end
  end.

Definition unclark (s : string) : qname :=
  match s with
  | String c r =>
      if Ascii.eqb c c_open
      then match split_brace r with Some (ns, l) => QN (Some ns) l | None => QN None s end
      else QN None s
  | EmptyString => QN None s
  end.

Definition key_ok (q : qname) : bool :=
  qname_eqb (unclark (clark q)) q && negb (String.eqb (clark q) "__class__").

Lemma key_ok_back q : key_ok q = true -> unclark (clark q) = q.
Proof. unfold key_ok. rewrite andb_true_iff. intros [H _]. apply qname_eqb_eq. exact H. Qed.

Lemma key_ok_class q : key_ok q = true -> clark q <> "__class__".
Proof. unfold key_ok. rewrite andb_true_iff, negb_true_iff. intros [_ H]. apply String.eqb_neq. exact H. Qed.

Lemma clark_eqb a b : key_ok a = true -> key_ok b = true -> String.eqb (clark a) (clark b) = qname_eqb a b.
Proof.
  intros Ha Hb. destruct (qname_eqb a b) eqn:E.
  - apply qname_eqb_eq in E. subst b. apply String.eqb_refl.
  - apply String.eqb_neq. intros C. apply qname_eqb_neq in E. apply E.
    rewrite <- (key_ok_back a Ha), <- (key_ok_back b Hb), C. reflexivity.
Qed.

(* the names the code itself spells are in the domain *)
Example key_ok_constants :
  forallb key_ok [xsi_type; xsi_nil; xmlns_xs; xmlns_xsd; QN None "Format";
                  QN (Some "urn:oasis:names:tc:SAML:2.0:assertion") "Format";
                  QN (Some "http://www.w3.org/XML/1998/namespace") "lang"] = true.
Proof. vm_compute. reflexivity. Qed.

(* outside: a "local name" that is itself Clark notation (no XML reader delivers it) *)
Example key_ok_refuses : key_ok (QN None "{a}b") = false.
Proof. vm_compute. reflexivity. Qed.

(* ================================================================== dicts keyed by names *)
Definition keys_ok (xa : attrs) : bool := forallb (fun kv => key_ok (fst kv)) xa.

Definition enc_attrs (xa : attrs) : list (string * pyval) :=
  map (fun kv => (clark (fst kv), PStr (snd kv))) xa.

Lemma enc_attrs_is_dict xa : keys_ok xa = true -> is_obj (enc_attrs xa) = false.
Proof.
  destruct xa as [|[k v] r]; [reflexivity|]. cbn [keys_ok forallb fst enc_attrs map is_obj].
  rewrite andb_true_iff. intros [H _]. apply String.eqb_neq. apply key_ok_class. exact H.
Qed.

Lemma enc_dget k xa : key_ok k = true -> keys_ok xa = true ->
  assoc_py (clark k) (enc_attrs xa) = option_map PStr (dget qname_eqb k xa).
Proof.
  intros Hk. induction xa as [|[k' v] r IH]; [reflexivity|].
  cbn [keys_ok forallb fst snd enc_attrs map assoc_py dget]. rewrite andb_true_iff. intros [H1 H2].
  rewrite (clark_eqb k k' Hk H1). destruct (qname_eqb k k'); [reflexivity|]. apply IH. exact H2.
Qed.

Lemma enc_dset k v xa : key_ok k = true -> keys_ok xa = true ->
  set_assoc (clark k) (PStr v) (enc_attrs xa) = enc_attrs (dset qname_eqb k v xa).
Proof.
  intros Hk. induction xa as [|[k' v'] r IH]; [reflexivity|].
  cbn [keys_ok forallb fst snd enc_attrs map set_assoc dset]. rewrite andb_true_iff. intros [H1 H2].
  rewrite (clark_eqb k k' Hk H1). destruct (qname_eqb k k'); cbn [map fst snd]; [reflexivity|].
  f_equal. apply IH. exact H2.
Qed.

Lemma enc_ddel k xa : key_ok k = true -> keys_ok xa = true ->
  del_assoc (clark k) (enc_attrs xa) = enc_attrs (ddel qname_eqb k xa).
Proof.
  intros Hk. induction xa as [|[k' v'] r IH]; [reflexivity|].
  cbn [keys_ok forallb fst snd enc_attrs map del_assoc ddel]. rewrite andb_true_iff. intros [H1 H2].
  rewrite (clark_eqb k k' Hk H1). destruct (qname_eqb k k'); cbn [map fst snd]; [reflexivity|].
  f_equal. apply IH. exact H2.
Qed.

Lemma ddel_missing k (xa : attrs) : dget qname_eqb k xa = None -> ddel qname_eqb k xa = xa.
Proof.
  induction xa as [|[k' v'] r IH]; [reflexivity|]. cbn [dget ddel].
  destruct (qname_eqb k k'); [discriminate|]. intros H. rewrite IH by exact H. reflexivity.
Qed.

Lemma keys_ok_dset k v xa : key_ok k = true -> keys_ok xa = true -> keys_ok (dset qname_eqb k v xa) = true.
Proof.
  intros Hk. induction xa as [|[k' v'] r IH]; cbn [keys_ok forallb fst dset].
  - intros _. rewrite Hk. reflexivity.
  - rewrite andb_true_iff. intros [H1 H2]. destruct (qname_eqb k k'); cbn [forallb fst]; rewrite H1; cbn [andb].
    + exact H2.
    + apply IH. exact H2.
Qed.

Lemma keys_ok_ddel k xa : keys_ok xa = true -> keys_ok (ddel qname_eqb k xa) = true.
Proof.
  induction xa as [|[k' v'] r IH]; cbn [keys_ok forallb fst ddel]; [reflexivity|].
  rewrite andb_true_iff. intros [H1 H2]. destruct (qname_eqb k k'); [exact H2|].
  cbn [forallb fst]. rewrite H1. cbn [andb]. apply IH. exact H2.
Qed.

(* the dict operations of the embedding on an encoded dict are the model's *)
Lemma p2_setitem_enc k v xa : key_ok k = true -> keys_ok xa = true ->
  p2_setitem (PObj (enc_attrs xa)) (PStr (clark k)) (PStr v) = PObj (enc_attrs (dset qname_eqb k v xa)).
Proof.
  intros Hk Hx. rewrite p2_setitem_dict; [|apply enc_attrs_is_dict; exact Hx|apply key_ok_class; exact Hk|reflexivity].
  rewrite enc_dset by assumption. reflexivity.
Qed.

Lemma p2_delitem_enc k xa : key_ok k = true -> keys_ok xa = true ->
  p2_delitem (PObj (enc_attrs xa)) (PStr (clark k))
  = match dget qname_eqb k xa with
    | Some _ => PObj (enc_attrs (ddel qname_eqb k xa))
    | None => PExc "KeyError"
    end.
Proof.
  intros Hk Hx. pose proof (enc_dget k xa Hk Hx) as G. destruct (dget qname_eqb k xa) as [w|]; cbn [option_map] in G.
  - rewrite (p2_delitem_dict _ _ _ (enc_attrs_is_dict xa Hx) G). rewrite enc_ddel by assumption. reflexivity.
  - apply p2_delitem_missing; [apply enc_attrs_is_dict; exact Hx|exact G].
Qed.

Lemma p2_getitem_enc k xa : key_ok k = true -> keys_ok xa = true ->
  p2_getitem (PObj (enc_attrs xa)) (PStr (clark k))
  = match dget qname_eqb k xa with Some v => PStr v | None => PExc "KeyError" end.
Proof.
  intros Hk Hx. rewrite p2_getitem_dict by (apply enc_attrs_is_dict; exact Hx). rewrite enc_dget by assumption.
  destruct (dget qname_eqb k xa); reflexivity.
Qed.

(* ================================================================== instances *)
(* an instance of a SamlBase class as far as the translated methods look at it: its class name, the
   extension_attributes dict, then any other fields *)
Definition enc_self (cls : string) (xa : attrs) (rest : list (string * pyval)) : pyval :=
  PObj (("__class__", PStr cls) :: ("extension_attributes", PObj (enc_attrs xa)) :: rest).

Lemma enc_self_xa cls xa rest : p2_attr (enc_self cls xa rest) "extension_attributes" = PObj (enc_attrs xa).
Proof. reflexivity. Qed.
Lemma enc_self_xa_x cls xa rest : p2_attr_x (enc_self cls xa rest) "extension_attributes" = PObj (enc_attrs xa).
Proof. reflexivity. Qed.
Lemma enc_self_set cls xa xa' rest :
  p2_setattr (enc_self cls xa rest) "extension_attributes" (PObj (enc_attrs xa')) = enc_self cls xa' rest.
Proof. reflexivity. Qed.

(* ================================================================== ExtensionContainer._convert_element_attribute_to_member
   self.extension_attributes[attribute] = value                     model: place_attr, name unknown: dset *)
Theorem src2_ec_convert_attribute_is_model cls xa rest q v :
  keys_ok xa = true -> key_ok q = true ->
  src2_ec_convert_attribute (enc_self cls xa rest) (PStr (clark q)) (PStr v)
  = PList [PNone; enc_self cls (dset qname_eqb q v xa) rest].
Proof.
  intros Hx Hq. unfold src2_ec_convert_attribute.
  rewrite (py_bindh_good _ (PStr v)) by reflexivity. rewrite (py_bindh_good _ (PStr (clark q))) by reflexivity.
  rewrite enc_self_xa, p2_setitem_enc by assumption. rewrite enc_self_set.
  rewrite py_bindh_good by reflexivity. reflexivity.
Qed.

(* ================================================================== AttributeValueBase.set_type / get_type
   model: av_set_type (delete xsi:nil, store xsi:type, add the xmlns:xs / xmlns:xsd pseudo attribute) *)
Lemma step_del cls xa rest k : keys_ok xa = true -> key_ok k = true ->
  p2_setattr (enc_self cls xa rest) "extension_attributes"
             (p2_delitem (p2_attr_x (enc_self cls xa rest) "extension_attributes") (PStr (clark k)))
  = match dget qname_eqb k xa with
    | Some _ => enc_self cls (ddel qname_eqb k xa) rest
    | None => PExc "KeyError"
    end.
Proof.
  intros Hx Hk. rewrite enc_self_xa_x, p2_delitem_enc by assumption.
  destruct (dget qname_eqb k xa); [apply enc_self_set|reflexivity].
Qed.

Lemma step_set cls xa rest k v : keys_ok xa = true -> key_ok k = true ->
  p2_setattr (enc_self cls xa rest) "extension_attributes"
             (p2_setitem (p2_attr_x (enc_self cls xa rest) "extension_attributes") (PStr (clark k)) (PStr v))
  = enc_self cls (dset qname_eqb k v xa) rest.
Proof. intros Hx Hk. rewrite enc_self_xa_x, p2_setitem_enc by assumption. apply enc_self_set. Qed.

Lemma p2_startswith_str s p : p2_startswith (PStr s) (PStr p) = PBool (String.prefix p s).
Proof. reflexivity. Qed.

Lemma is_bad_enc_self cls xa rest : is_bad (enc_self cls xa rest) = false.
Proof. reflexivity. Qed.

Theorem src2_set_type_is_model cls xa rest typ :
  keys_ok xa = true ->
  src2_set_type (enc_self cls xa rest) (PStr typ) = PList [PNone; enc_self cls (av_set_type typ xa) rest].
Proof.
  intros Hx. unfold src2_set_type, av_set_type. cbv zeta.
  change (PStr "{http://www.w3.org/2001/XMLSchema-instance}nil") with (PStr (clark xsi_nil)).
  change (PStr "{http://www.w3.org/2001/XMLSchema-instance}type") with (PStr (clark xsi_type)).
  change (PStr "xmlns:xs") with (PStr (clark xmlns_xs)).
  change (PStr "xmlns:xsd") with (PStr (clark xmlns_xsd)).
  change (PStr "http://www.w3.org/2001/XMLSchema") with (PStr XS_NS).
  rewrite step_del by (assumption || reflexivity).
  (* del self.extension_attributes[XSI_NIL]: present, or KeyError which the handler swallows *)
  assert (Hd : keys_ok (ddel qname_eqb xsi_nil xa) = true) by (apply keys_ok_ddel; exact Hx).
  set (xa1 := ddel qname_eqb xsi_nil xa) in *.
  destruct (dget qname_eqb xsi_nil xa) as [w|] eqn:G.
  2: { rewrite py_bindh_exc. cbn [exc_matches mem String.eqb Ascii.eqb Bool.eqb orb].
       assert (X : xa1 = xa) by (apply ddel_missing; exact G). rewrite <- X.
       rewrite (py_bindh_good _ (PStr typ)) by reflexivity.
       rewrite step_set by (assumption || reflexivity).
       rewrite py_bindh_good by apply is_bad_enc_self.
       assert (H2 : keys_ok (dset qname_eqb xsi_type typ xa1) = true) by (apply keys_ok_dset; [reflexivity|exact Hd]).
       set (xa2 := dset qname_eqb xsi_type typ xa1) in *.
       rewrite !p2_startswith_str.
       destruct (String.prefix "xs:" typ); rewrite p2_branch_bool.
       - rewrite step_set by (assumption || reflexivity). rewrite py_bindh_good by apply is_bad_enc_self.
         assert (H3 : keys_ok (dset qname_eqb xmlns_xs XS_NS xa2) = true) by (apply keys_ok_dset; [reflexivity|exact H2]).
         destruct (String.prefix "xsd:" typ); rewrite p2_branch_bool; [|reflexivity].
         rewrite step_set by (assumption || reflexivity). rewrite py_bindh_good by apply is_bad_enc_self. reflexivity.
       - destruct (String.prefix "xsd:" typ); rewrite p2_branch_bool; [|reflexivity].
         rewrite step_set by (assumption || reflexivity). rewrite py_bindh_good by apply is_bad_enc_self. reflexivity. }
  rewrite py_bindh_good by apply is_bad_enc_self.
  rewrite (py_bindh_good _ (PStr typ)) by reflexivity.
  rewrite step_set by (assumption || reflexivity).
  rewrite py_bindh_good by apply is_bad_enc_self.
  assert (H2 : keys_ok (dset qname_eqb xsi_type typ xa1) = true) by (apply keys_ok_dset; [reflexivity|exact Hd]).
  set (xa2 := dset qname_eqb xsi_type typ xa1) in *.
  rewrite !p2_startswith_str.
  destruct (String.prefix "xs:" typ); rewrite p2_branch_bool.
  - rewrite step_set by (assumption || reflexivity). rewrite py_bindh_good by apply is_bad_enc_self.
    assert (H3 : keys_ok (dset qname_eqb xmlns_xs XS_NS xa2) = true) by (apply keys_ok_dset; [reflexivity|exact H2]).
    destruct (String.prefix "xsd:" typ); rewrite p2_branch_bool; [|reflexivity].
    rewrite step_set by (assumption || reflexivity). rewrite py_bindh_good by apply is_bad_enc_self. reflexivity.
  - destruct (String.prefix "xsd:" typ); rewrite p2_branch_bool; [|reflexivity].
    rewrite step_set by (assumption || reflexivity). rewrite py_bindh_good by apply is_bad_enc_self. reflexivity.
Qed.

(* get_type(): the xsi:type extension attribute, "" when there is none (self._extatt is the empty dict once
   __init__ has run).  av_finish reads the type as [get_type() or "string"]. *)
Definition get_type_m (xa : attrs) : string :=
  match dget qname_eqb xsi_type xa with Some s => s | None => "" end.

Theorem src2_get_type_is_model cls xa rest :
  keys_ok xa = true ->
  src2_get_type (enc_self cls xa (("_extatt", PObj []) :: rest)) = PStr (get_type_m xa).
Proof.
  intros Hx. unfold src2_get_type, get_type_m.
  change (PStr "{http://www.w3.org/2001/XMLSchema-instance}type") with (PStr (clark xsi_type)).
  rewrite enc_self_xa_x, p2_getitem_enc by (assumption || reflexivity).
  destruct (dget qname_eqb xsi_type xa) as [s|]; reflexivity.
Qed.

Lemma get_type_m_av_finish xa :
  (if is_empty (get_type_m xa) then "string" else get_type_m xa)
  = match dget qname_eqb xsi_type xa with
    | Some s => if is_empty s then "string" else s
    | None => "string"
    end.
Proof. unfold get_type_m. destruct (dget qname_eqb xsi_type xa); reflexivity. Qed.

(* ================================================================== SamlBase._convert_element_attribute_to_member
   model: place_attr.  self.__class__.c_attributes is the dict {Clark name: (member, type, required)} of the class
   (an extra parameter of the translated definition); the delegation to ExtensionContainer for an unknown name is
   an external call: the theorem shows WHEN it is made and WITH WHAT, src2_ec_convert_attribute_is_model shows what
   the callee does. *)
Definition enc_ostr (o : option string) : pyval := match o with Some s => PStr s | None => PNone end.

Definition enc_atype (t : attr_type) : pyval :=
  match t with AT_simple s => PStr s | AT_class n => PStr n end.

Definition enc_aspec (a : attr_spec) : string * pyval :=
  (clark (at_name a), PList [PStr (at_member a); enc_atype (at_type a); PBool (at_required a)]).

Definition enc_cattrs (ci : class_info) : pyval := PObj (map enc_aspec (c_attributes ci)).

Definition enc_member (mv : string * option string) : string * pyval := (fst mv, enc_ostr (snd mv)).

(* an instance with its attribute members (aligned list of the model) *)
Definition enc_obj (cls : string) (xa : attrs) (oa : list (string * option string)) (rest : list (string * pyval)) : pyval :=
  enc_self cls xa (map enc_member oa ++ rest).

Definition names_ok_b (ci : class_info) : bool := forallb (fun a => key_ok (at_name a)) (c_attributes ci).
(* member names are ordinary attribute names (no dunder) and not the dict the extensions live in *)
Definition members_plain_b (ci : class_info) : bool :=
  forallb (fun a => dyn_name_ok (at_member a) && negb (String.eqb (at_member a) "extension_attributes")) (c_attributes ci).

Lemma qname_eqb_sym a b : qname_eqb a b = qname_eqb b a.
Proof.
  destruct (qname_eqb b a) eqn:E.
  - apply qname_eqb_eq in E. subst. apply qname_eqb_refl.
  - apply qname_eqb_neq. apply qname_eqb_neq in E. congruence.
Qed.

Lemma assoc_cattrs l q : key_ok q = true -> forallb (fun a => key_ok (at_name a)) l = true ->
  assoc_py (clark q) (map enc_aspec l)
  = option_map (fun a => snd (enc_aspec a)) (find (fun a => qname_eqb (at_name a) q) l).
Proof.
  intros Hq. induction l as [|a r IH]; [reflexivity|]. cbn [forallb map find]. rewrite andb_true_iff. intros [H1 H2].
  unfold enc_aspec at 1. cbn [assoc_py]. rewrite (clark_eqb q (at_name a) Hq H1), qname_eqb_sym.
  destruct (qname_eqb (at_name a) q); [reflexivity|]. apply IH. exact H2.
Qed.

Lemma cattrs_is_dict l : forallb (fun a => key_ok (at_name a)) l = true -> is_obj (map enc_aspec l) = false.
Proof.
  destruct l as [|a r]; [reflexivity|]. cbn [forallb map is_obj enc_aspec]. rewrite andb_true_iff. intros [H _].
  apply String.eqb_neq. apply key_ok_class. exact H.
Qed.

Lemma set_member_absent {A} m (v : A) l : ~ In m (map fst l) -> set_member m v l = l.
Proof.
  unfold set_member. induction l as [|[m' w] r IH]; [reflexivity|]. cbn [map fst In]. intros N.
  destruct (String.eqb m' m) eqn:E.
  - apply String.eqb_eq in E. exfalso. apply N. left. exact E.
  - f_equal. apply IH. intros H. apply N. right. exact H.
Qed.

Lemma set_assoc_members m v oa rest :
  In m (map fst oa) -> NoDup (map fst oa) ->
  set_assoc m (PStr v) (map enc_member oa ++ rest) = map enc_member (set_member m (Some v) oa) ++ rest.
Proof.
  induction oa as [|[m' w] r IH]; [intros []|]. cbn [map fst]. intros HI HN. inversion HN as [|x l Hni Hnd]; subst.
  unfold set_member. cbn [app map enc_member fst snd set_assoc]. rewrite (String.eqb_sym m' m).
  destruct (String.eqb m m') eqn:E.
  - apply String.eqb_eq in E. subst m'. cbn [enc_member fst snd enc_ostr]. f_equal.
    fold (set_member m (Some v) r). rewrite set_member_absent by exact Hni. reflexivity.
  - cbn [enc_member fst snd]. f_equal. fold (set_member m (Some v) r). apply IH; [|exact Hnd].
    destruct HI as [HI|HI]; [|exact HI]. apply String.eqb_neq in E. congruence.
Qed.

Lemma dyn_name_not_class m : dyn_name_ok m = true -> m <> "__class__".
Proof. intros H E. subst m. discriminate H. Qed.

Lemma p2_setattr_dyn_member cls xa oa rest m v :
  dyn_name_ok m = true -> m <> "extension_attributes" -> In m (map fst oa) -> NoDup (map fst oa) ->
  p2_setattr_dyn (enc_obj cls xa oa rest) (PStr m) (PStr v) = enc_obj cls xa (set_member m (Some v) oa) rest.
Proof.
  intros Hd Hx HI HN. unfold p2_setattr_dyn. rewrite s3_good by reflexivity. rewrite Hd.
  unfold enc_obj, enc_self. rewrite p2_setattr_obj; [|apply dyn_name_not_class; exact Hd|reflexivity].
  cbn [set_assoc]. apply String.eqb_neq in Hx. rewrite Hx. rewrite set_assoc_members by assumption. reflexivity.
Qed.

Section ConvertAttribute.
  Variable ec_convert : pyval -> pyval -> pyval -> pyval.     (* ExtensionContainer._convert_element_attribute_to_member *)
  Variable ci : class_info.
  Hypothesis names_ok : names_ok_b ci = true.
  Hypothesis members_plain : members_plain_b ci = true.

  Lemma find_attr_plain q a : find_attr ci q = Some a ->
    dyn_name_ok (at_member a) = true /\ at_member a <> "extension_attributes".
  Proof.
    intros F. apply find_some in F. destruct F as [F _]. unfold members_plain_b in members_plain.
    rewrite forallb_forall in members_plain. specialize (members_plain a F).
    rewrite andb_true_iff, negb_true_iff in members_plain. destruct members_plain as [H1 H2].
    split; [exact H1|apply String.eqb_neq; exact H2].
  Qed.

  Theorem src2_convert_attribute_is_model cls xa oa rest q v :
    key_ok q = true -> NoDup (map fst oa) ->
    (forall a, find_attr ci q = Some a -> In (at_member a) (map fst oa)) ->
    src2_convert_attribute (enc_cattrs ci) ec_convert (enc_obj cls xa oa rest) (PStr (clark q)) (PStr v)
    = match find_attr ci q with
      | Some a => PList [PNone; enc_obj cls xa (set_member (at_member a) (Some v) oa) rest]
      | None => py_bindh (fun n => PList [PExc n; enc_obj cls xa oa rest])
                         (ec_convert (enc_obj cls xa oa rest) (PStr (clark q)) (PStr v))
                         (fun _ => PList [PNone; enc_obj cls xa oa rest])
      end.
  Proof.
    intros Hq HN HI. unfold src2_convert_attribute, enc_cattrs.
    rewrite p2_in_dict by (apply cattrs_is_dict; exact names_ok).
    rewrite p2_getitem_dict by (apply cattrs_is_dict; exact names_ok).
    rewrite assoc_cattrs by (exact Hq || exact names_ok). fold (find_attr ci q).
    destruct (find_attr ci q) as [a|] eqn:F; cbn [option_map]; rewrite p2_branch_bool.
    - destruct (find_attr_plain q a F) as [H1 H2]. cbn [enc_aspec snd].
      change (p2_getitem (PList [PStr (at_member a); enc_atype (at_type a); PBool (at_required a)]) (PInt 0))
        with (PStr (at_member a)).
      rewrite (py_bindh_good _ (PStr (at_member a))) by reflexivity.
      rewrite (py_bindh_good _ (PStr v)) by reflexivity.
      rewrite p2_setattr_dyn_member by (assumption || (apply HI; reflexivity)).
      rewrite py_bindh_good by reflexivity. reflexivity.
    - rewrite (py_bind_good (enc_obj cls xa oa rest)) by reflexivity.
      rewrite (py_bind_good (PStr (clark q))) by reflexivity. rewrite (py_bind_good (PStr v)) by reflexivity.
      reflexivity.
  Qed.

  (* in the model's words: the known branch is place_attr's; the unknown branch hands (self, attribute, value)
     on unchanged, and the callee stores it (src2_ec_convert_attribute_is_model) *)
  Corollary place_attr_cases oa xa q v :
    place_attr ci (oa, xa) (q, v)
    = match find_attr ci q with
      | Some a => (set_member (at_member a) (Some v) oa, xa)
      | None => (oa, dset qname_eqb q v xa)
      end.
  Proof. reflexivity. Qed.
End ConvertAttribute.

(* the hypotheses are satisfiable: a NameID-like class; callee = the translated ExtensionContainer method *)
Definition ex_ci : class_info :=
  {| c_name := "ex.NameID"; c_tag := QN (Some "urn:ex") "NameID"; c_kind := KPlain; c_children := [];
     c_attributes := [ {| at_name := QN None "Format"; at_member := "format"; at_type := AT_simple "anyURI"; at_required := false |};
                       {| at_name := QN (Some "http://www.w3.org/XML/1998/namespace") "lang"; at_member := "lang";
                          at_type := AT_simple "string"; at_required := false |} ];
     c_child_order := []; c_cardinality := []; c_any := None; c_any_attribute := None; c_value_type := None;
     c_parse_defaults := [] |}.

Example convert_attribute_sat :
  names_ok_b ex_ci = true /\ members_plain_b ex_ci = true
  /\ src2_convert_attribute (enc_cattrs ex_ci) src2_ec_convert_attribute
       (enc_obj "NameID" [] [("format", None); ("lang", None)] []) (PStr "Format") (PStr "f")
     = PList [PNone; enc_obj "NameID" [] [("format", Some "f"); ("lang", None)] []]
  /\ (* the qualified look-alike of the schema attribute is NOT the schema attribute (seeded change C12-6) *)
     find_attr ex_ci (QN (Some "urn:ex") "Format") = None.
Proof. vm_compute. repeat split; reflexivity. Qed.

(* ================================================================== create_class_from_element_tree
   the root tag check.  model: parse_root / Corr.mparse: [if qname_eqb (t_tag t) (c_tag ci) then harvest else None].
   target_class() and target.harvest_element_tree(tree) are external (construct, harvest); the instance the
   function returns is the one [construct] made (that harvest fills it in place is aliasing: not modelled). *)
Definition enc_class (ns tag : string) (rest : list (string * pyval)) : pyval :=
  PObj (("__class__", PStr "type") :: ("c_namespace", PStr ns) :: ("c_tag", PStr tag) :: rest).

Definition enc_node (g : qname) (rest : list (string * pyval)) : pyval :=
  PObj (("__class__", PStr "Element") :: ("tag", PStr (clark g)) :: rest).

Lemma append_empty_r s : (s ++ "")%string = s.
Proof. induction s as [|c r IH]; [reflexivity|]. cbn [append]. rewrite IH. reflexivity. Qed.

Lemma fconcat_clark ns tag :
  p2_fconcat [PStr "{"; p2_str (PStr ns); PStr "}"; p2_str (PStr tag)] = PStr (clark (QN (Some ns) tag)).
Proof.
  rewrite !p2_str_str. rewrite !p2_fconcat_cons. cbn [p2_fconcat clark q_ns q_local].
  rewrite append_empty_r. reflexivity.
Qed.

Section CreateClass.
  Variable construct : pyval -> pyval.                 (* target_class() *)
  Variable harvest : pyval -> pyval -> pyval.          (* target.harvest_element_tree(tree) *)

  (* namespace / tag arguments: None (the defaults: the class's own) or given *)
  Theorem src2_create_class_from_element_tree_is_model ns tag crest g trest (ons otag : option string) :
    let ns' := match ons with Some n => n | None => ns end in
    let tag' := match otag with Some t => t | None => tag end in
    key_ok g = true -> key_ok (QN (Some ns') tag') = true ->
    src2_create_class_from_element_tree construct harvest (enc_class ns tag crest) (enc_node g trest)
                                        (enc_ostr ons) (enc_ostr otag)
    = if qname_eqb g (QN (Some ns') tag')
      then py_bind (construct (enc_class ns tag crest))
                   (fun target => py_bind (harvest target (enc_node g trest)) (fun _ => target))
      else PNone.
  Proof.
    intros ns' tag' Hg Hc. unfold src2_create_class_from_element_tree. cbv zeta.
    assert (E : forall (a b : pyval),
               match p2_branch (p2_eq (p2_attr (enc_node g trest) "tag")
                                      (p2_fconcat [PStr "{"; p2_str (PStr ns'); PStr "}"; p2_str (PStr tag')])) with
               | BTrue => a | BFalse => b | BExc n => PExc n | BErr => PErr end
               = if qname_eqb g (QN (Some ns') tag') then a else b).
    { intros a b. rewrite fconcat_clark. change (p2_attr (enc_node g trest) "tag") with (PStr (clark g)).
      rewrite p2_eq_str, p2_branch_bool, (clark_eqb _ _ Hg Hc). destruct (qname_eqb g _); reflexivity. }
    destruct ons as [n|], otag as [t|]; cbn [enc_ostr]; subst ns' tag';
      rewrite ?(p2_is_none_good (PStr _)) by reflexivity; rewrite ?(p2_is_none_good PNone) by reflexivity;
      rewrite !p2_branch_bool;
      try change (p2_attr (enc_class ns tag crest) "c_namespace") with (PStr ns);
      try change (p2_attr (enc_class ns tag crest) "c_tag") with (PStr tag);
      rewrite ?(py_bind_good (PStr _)) by reflexivity; rewrite ?p2_branch_bool;
      try change (p2_attr (enc_class ns tag crest) "c_tag") with (PStr tag);
      rewrite ?(py_bind_good (PStr _)) by reflexivity;
      rewrite E; destruct (qname_eqb g _); try reflexivity;
      destruct (construct (enc_class ns tag crest)) eqn:C; try reflexivity;
      rewrite (py_bind_good (enc_node g trest)) by reflexivity; reflexivity.
  Qed.

  (* in the model's words (parse_root compares the same two names) *)
  Corollary parse_root_check T c ci t :
    class_at T c = Some ci ->
    parse_root T c t = if qname_eqb (t_tag t) (c_tag ci) then Some (Model.harvest T c t) else None.
  Proof. intros H. unfold parse_root. rewrite H. reflexivity. Qed.
End CreateClass.

Example create_class_sat :
  src2_create_class_from_element_tree (fun c => PObj [("__class__", PStr "NameID")]) (fun _ _ => PNone)
    (enc_class "urn:ex" "NameID" []) (enc_node (QN (Some "urn:ex") "NameID") []) PNone PNone
  = PObj [("__class__", PStr "NameID")]
  /\ src2_create_class_from_element_tree (fun c => PObj [("__class__", PStr "NameID")]) (fun _ _ => PNone)
    (enc_class "urn:ex" "NameID" []) (enc_node (QN (Some "urn:other") "NameID") []) PNone PNone
  = PNone.
Proof. vm_compute. split; reflexivity. Qed.

(* ================================================================== ExtensionElement.transfer_to_element_tree
   model: tree_of_ee (tag from namespace + tag, attributes by dict assignment in order, text).  ElementTree.Element("")
   and child.become_child_element_of(element_tree) are external; what the children append is not visible here
   (they work on the new element in place: aliasing), the theorem covers name, attributes and text. *)
Definition enc_ee_obj (ns : option string) (tag : string) (att : attrs) (ks : list pyval) (text : option string) : pyval :=
  PObj [("__class__", PStr "ExtensionElement"); ("namespace", enc_ostr ns); ("tag", PStr tag);
        ("attributes", PObj (enc_attrs att)); ("children", PList ks); ("text", enc_ostr text)].

Definition enc_elem (tag : string) (att : attrs) (text : pyval) : pyval :=
  PObj [("__class__", PStr "Element"); ("tag", PStr tag); ("attrib", PObj (enc_attrs att)); ("text", text)].

Definition attr_body : list pyval -> pyval -> ctl2 :=
  fun st x => match st with
  | [v_element_tree] =>
     (match p2_unpack 2 x with
     | PList [v_key; v_value] => (py_bindS (fun n_20 => (ExcS n_20 [v_element_tree])) v_value (fun a_16 =>
     (py_bindS (fun n_19 => (ExcS n_19 [v_element_tree])) v_key (fun a_17 =>
     (py_bindS (fun n_18 => (ExcS n_18 [v_element_tree])) (p2_setattr v_element_tree "attrib" (p2_setitem (p2_attr v_element_tree "attrib") a_17 a_16)) (fun v_element_tree =>
     (NextS [v_element_tree])))))))
     | PExc n_21 => (ExcS n_21 [v_element_tree])
     | _ => (RetS PErr)
     end)
  | _ => RetS PErr end.

Definition enc_item (kv : qname * string) : pyval := PList [PStr (clark (fst kv)); PStr (snd kv)].

Lemma attr_loop tag text : forall att acc, keys_ok att = true -> keys_ok acc = true ->
  pyfor2 (map enc_item att) [enc_elem tag acc text] attr_body = NextS [enc_elem tag (dset_all qname_eqb acc att) text].
Proof.
  induction att as [|[k v] r IH]; intros acc Ha Hc; [reflexivity|].
  cbn [keys_ok forallb fst] in Ha. apply andb_true_iff in Ha. destruct Ha as [Hk Hr].
  cbn [map pyfor2]. unfold attr_body at 1. unfold enc_item at 1. cbn [fst snd].
  rewrite p2_unpack_list by reflexivity.
  rewrite (py_bindS_good _ (PStr v)) by reflexivity. rewrite (py_bindS_good _ (PStr (clark k))) by reflexivity.
  change (p2_attr (enc_elem tag acc text) "attrib") with (PObj (enc_attrs acc)).
  rewrite p2_setitem_enc by assumption.
  change (p2_setattr (enc_elem tag acc text) "attrib" (PObj (enc_attrs (dset qname_eqb k v acc))))
    with (enc_elem tag (dset qname_eqb k v acc) text).
  rewrite py_bindS_good by reflexivity.
  unfold dset_all. cbn [fold_left fst snd]. apply IH; [exact Hr|apply keys_ok_dset; assumption].
Qed.


Section Transfer.
  Variable new_element : pyval -> pyval.               (* ElementTree.Element *)
  Variable become_child : pyval -> pyval -> pyval.     (* child.become_child_element_of(element_tree) *)
  Hypothesis new_element_spec : new_element (PStr "") = enc_elem "" [] PNone.
  Hypothesis become_child_returns : forall c t, is_bad (become_child c t) = false.

  Definition child_body (el : pyval) : list pyval -> pyval -> ctl2 :=
    fun st x => match st with
    | [] => (py_bindS (fun n_9 => (ExcS n_9 [])) (py_bind el (fun a_8 => (become_child x a_8))) (fun _ => (NextS [])))
    | _ => RetS PErr end.

  Lemma child_loop el ks : is_bad el = false -> pyfor2 ks [] (child_body el) = NextS [].
  Proof.
    intros He. induction ks as [|k r IH]; [reflexivity|]. cbn [pyfor2]. unfold child_body at 1.
    rewrite (py_bind_good el) by exact He. rewrite py_bindS_good by apply become_child_returns. exact IH.
  Qed.

  Lemma items_enc att : keys_ok att = true ->
    p2_items (PObj (enc_attrs att)) = PList (map enc_item att).
  Proof.
    intros H. unfold p2_items, dict_view. rewrite s1_good by reflexivity. rewrite (enc_attrs_is_dict att H).
    unfold enc_attrs. rewrite map_map. reflexivity.
  Qed.

  Theorem src2_transfer_to_element_tree_is_model ns tag att ks text :
    keys_ok att = true ->
    src2_transfer_to_element_tree new_element become_child (enc_ee_obj ns tag att ks text)
    = enc_elem (clark (QN ns tag)) (adict att) (enc_ostr text).
  Proof.
    intros Ha. unfold src2_transfer_to_element_tree. cbv zeta.
    change (p2_attr (enc_ee_obj ns tag att ks text) "tag") with (PStr tag).
    change (p2_attr (enc_ee_obj ns tag att ks text) "namespace") with (enc_ostr ns).
    change (p2_attr (enc_ee_obj ns tag att ks text) "attributes") with (PObj (enc_attrs att)).
    change (p2_attr (enc_ee_obj ns tag att ks text) "children") with (PList ks).
    change (p2_attr (enc_ee_obj ns tag att ks text) "text") with (enc_ostr text).
    rewrite (p2_is_none_good (PStr tag)) by reflexivity. rewrite p2_branch_bool.
    rewrite new_element_spec. rewrite (py_bind_good (enc_elem "" [] PNone)) by reflexivity.
    rewrite items_enc by exact Ha. rewrite (py_bind_good (PList _)) by reflexivity.
    assert (Tail : forall g,
      py_bind (p2_iter_check (PList (map enc_item att)))
        (fun it_11 => match pyfor2 (py_iter2 it_11) [enc_elem g [] PNone] attr_body with
           | NextS st_12 => match st_12 with
               | [v_element_tree] => py_bind (p2_iter_check (PList ks))
                   (fun it_3 => match pyfor2 (py_iter2 it_3) [] (child_body v_element_tree) with
                      | NextS st_4 => match st_4 with
                          | [] => py_bind (enc_ostr text) (fun a_1 =>
                                  py_bind (p2_setattr v_element_tree "text" a_1) (fun v_element_tree => v_element_tree))
                          | _ => PErr end
                      | BrkS _ => PErr
                      | RetS r_6 => r_6
                      | ExcS n_7 st_4 => match st_4 with [] => PExc n_7 | _ => PErr end
                      end)
               | _ => PErr end
           | BrkS _ => PErr
           | RetS r_14 => r_14
           | ExcS n_15 st_12 => match st_12 with [v_element_tree] => PExc n_15 | _ => PErr end
           end)
      = enc_elem g (adict att) (enc_ostr text)).
    { intros g. rewrite p2_iter_check_list. rewrite (py_bind_good (PList _)) by reflexivity. rewrite py_iter2_list.
      rewrite attr_loop by (exact Ha || reflexivity). fold (adict att).
      rewrite p2_iter_check_list. rewrite (py_bind_good (PList _)) by reflexivity. rewrite py_iter2_list.
      rewrite child_loop by reflexivity.
      destruct text as [x|]; cbn [enc_ostr]; reflexivity. }
    destruct ns as [n|]; cbn [enc_ostr].
    - rewrite (p2_is_not_none_good (PStr n)) by reflexivity. rewrite p2_branch_bool.
      rewrite fconcat_clark. rewrite (py_bind_good (PStr _)) by reflexivity.
      change (p2_setattr (enc_elem "" [] PNone) "tag" (PStr (clark (QN (Some n) tag))))
        with (enc_elem (clark (QN (Some n) tag)) [] PNone).
      rewrite (py_bind_good (enc_elem _ _ _)) by reflexivity. exact (Tail _).
    - rewrite (p2_is_not_none_good PNone) by reflexivity. rewrite p2_branch_bool.
      rewrite (py_bind_good (PStr _)) by reflexivity.
      change (p2_setattr (enc_elem "" [] PNone) "tag" (PStr tag)) with (enc_elem (clark (QN None tag)) [] PNone).
      rewrite (py_bind_good (enc_elem _ _ _)) by reflexivity. exact (Tail _).
  Qed.

  (* in the model's words *)
  Corollary tree_of_ee_parts ns tag att kids text :
    t_tag (tree_of_ee (EE ns tag att kids text)) = QN ns tag
    /\ t_attrs (tree_of_ee (EE ns tag att kids text)) = adict att
    /\ t_text (tree_of_ee (EE ns tag att kids text)) = text_str text.
  Proof. repeat split; reflexivity. Qed.
End Transfer.

Example transfer_sat :
  let new_element := fun _ : pyval => enc_elem "" [] PNone in
  let become_child := fun _ _ : pyval => PNone in
  new_element (PStr "") = enc_elem "" [] PNone
  /\ (forall c t, is_bad (become_child c t) = false)
  /\ src2_transfer_to_element_tree new_element become_child
       (enc_ee_obj (Some "urn:x") "ext" [(QN None "a", "1"); (QN (Some "urn:y") "b", "2"); (QN None "a", "3")] [] (Some "t"))
     = enc_elem "{urn:x}ext" [(QN None "a", "3"); (QN (Some "urn:y") "b", "2")] (PStr "t").
Proof. cbv zeta. split; [reflexivity|]. split; [reflexivity|]. vm_compute. reflexivity. Qed.

(* ================================================================== SamlBase._add_members_to_element_tree
   model: to_tree's attribute part, [dset_all (attributes so far) (known_attrs ci oa)]: every attribute member that is
   not None is written (the empty string too), under its schema name, in c_attributes order, by dict assignment.
   The child loop (getattr per member of _get_all_c_children_with_order(), None skipped, a list member element by
   element) only CALLS become_child_element_of on other objects (external; what they append to the tree is aliasing,
   not visible here), as is the final ExtensionContainer._add_members_to_element_tree(self, tree). *)
Definition member_val_ok (v : pyval) : bool :=
  match v with
  | PNone | PList _ => true
  | PObj (("__class__", PStr _) :: _) => true
  | _ => false
  end.

Definition known_attrs_l (l : list attr_spec) (oa : list (string * option string)) : attrs :=
  flat_map (fun a => match get_member (at_member a) oa with
                     | Some (Some v) => [(at_name a, v)]
                     | _ => []
                     end) l.

Definition enc_citem (a : attr_spec) : pyval :=
  PList [PStr (clark (at_name a)); PList [PStr (at_member a); enc_atype (at_type a); PBool (at_required a)]].

Lemma getattr_member cls xa oa rest m :
  dyn_name_ok m = true -> m <> "extension_attributes" -> In m (map fst oa) ->
  p2_getattr_dyn false (enc_obj cls xa oa rest) (PStr m)
  = enc_ostr (match get_member m oa with Some v => v | None => None end).
Proof.
  intros Hd Hx HI. unfold p2_getattr_dyn. rewrite s2_good by reflexivity. rewrite Hd.
  unfold enc_obj, enc_self. change (p2_attr_gen false m ?o) with (p2_attr o m). rewrite p2_attr_obj.
  cbn [assoc_py]. pose proof (dyn_name_not_class m Hd) as Hc. apply String.eqb_neq in Hc, Hx. rewrite Hc, Hx.
  unfold get_member. induction oa as [|[m' w] r IH]; [destruct HI|].
  cbn [map enc_member app assoc_py fst snd find]. rewrite (String.eqb_sym m' m).
  destruct (String.eqb m m') eqn:E; [reflexivity|].
  apply IH. destruct HI as [HI|HI]; [|exact HI]. apply String.eqb_neq in E. cbn [fst] in HI. congruence.
Qed.

Section AddMembers.
  Variable child_order : pyval -> pyval.               (* self._get_all_c_children_with_order() *)
  Variable become_child : pyval -> pyval -> pyval.     (* x.become_child_element_of(tree) *)
  Variable ec_add : pyval -> pyval -> pyval.           (* ExtensionContainer._add_members_to_element_tree(self, tree) *)
  Variable ci : class_info.
  Variable self : pyval.
  Variable names : list string.
  Hypothesis names_ok : names_ok_b ci = true.
  Hypothesis members_plain : members_plain_b ci = true.
  Hypothesis child_order_spec : child_order self = PList (map PStr names).
  Hypothesis become_child_returns : forall c t, is_bad (become_child c t) = false.
  Hypothesis ec_add_returns : forall s t, is_bad (ec_add s t) = false.
  Hypothesis child_members : forall n, In n names -> member_val_ok (p2_getattr_dyn false self (PStr n)) = true.

  Definition kbody (v_tree : pyval) : list pyval -> pyval -> ctl2 :=
    fun st_25 x_26 => match st_25 with [v_member_name; v_member] =>
    (let v_member_name := x_26 in
    (py_bindS (fun n_41 => (ExcS n_41 [v_member_name; v_member])) (p2_getattr_dyn false self v_member_name) (fun v_member =>
    (match p2_branch (p2_is_none v_member) with
    | BTrue => (NextS [v_member_name; v_member])
    | BFalse => (match p2_branch (p2_isinstance v_member ["list"] []) with
    | BTrue => (py_bindS (fun n_36 => (ExcS n_36 [v_member_name; v_member])) (p2_iter_check v_member) (fun it_29 =>
    (match pyfor2 (py_iter2 it_29) [] (fun st_30 x_31 => match st_30 with [] =>
     (let v_instance := x_31 in
     (py_bindS (fun n_35 => (ExcS n_35 [])) (py_bind v_tree (fun a_34 => (become_child v_instance a_34))) (fun _ =>
     (NextS []))))
    | _ => RetS PErr end) with
    | NextS st_30 => match st_30 with [] => (NextS [v_member_name; v_member]) | _ => (RetS PErr) end
    | BrkS _ => (RetS PErr)
    | RetS r_32 => (RetS r_32)
    | ExcS n_33 st_30 => match st_30 with [] => (ExcS n_33 [v_member_name; v_member]) | _ => (RetS PErr) end
    end)))
    | BFalse => (py_bindS (fun n_38 => (ExcS n_38 [v_member_name; v_member])) (py_bind v_tree (fun a_37 => (become_child v_member a_37))) (fun _ =>
    (NextS [v_member_name; v_member])))
    | BExc n_39 => (ExcS n_39 [v_member_name; v_member])
    | BErr => (RetS PErr)
    end)
    | BExc n_40 => (ExcS n_40 [v_member_name; v_member])
    | BErr => (RetS PErr)
    end))))
   | _ => RetS PErr end.

  Lemma inner_loop tree l : is_bad tree = false ->
    pyfor2 l [] (fun st_30 x_31 => match st_30 with [] =>
       (py_bindS (fun n_35 => (ExcS n_35 [])) (py_bind tree (fun a_34 => (become_child x_31 a_34))) (fun _ => (NextS [])))
      | _ => RetS PErr end) = NextS [].
  Proof.
    intros Ht. induction l as [|x r IH]; [reflexivity|]. cbn [pyfor2].
    rewrite (py_bind_good tree) by exact Ht. rewrite py_bindS_good by apply become_child_returns. exact IH.
  Qed.

  Lemma children_loop tree : is_bad tree = false ->
    forall ns a0 b0, (forall n, In n ns -> In n names) ->
    exists a b, pyfor2 (map PStr ns) [a0; b0] (kbody tree) = NextS [a; b].
  Proof.
    intros Ht. induction ns as [|n r IH]; intros a0 b0 Hin; [exists a0, b0; reflexivity|].
    cbn [map pyfor2]. unfold kbody at 1. cbv zeta.
    pose proof (child_members n (Hin n (or_introl eq_refl))) as Hv.
    destruct (p2_getattr_dyn false self (PStr n)) as [| | | |l|f| |] eqn:G; try discriminate Hv.
    - (* None *)
      rewrite py_bindS_good by reflexivity. rewrite (p2_is_none_good PNone) by reflexivity. rewrite p2_branch_bool.
      apply IH. intros m Hm. apply Hin. right. exact Hm.
    - (* a list of instances *)
      rewrite py_bindS_good by reflexivity. rewrite (p2_is_none_good (PList l)) by reflexivity. rewrite p2_branch_bool.
      change (p2_isinstance (PList l) ["list"] []) with (PBool true). rewrite p2_branch_bool.
      rewrite p2_iter_check_list. rewrite py_bindS_good by reflexivity. rewrite py_iter2_list.
      rewrite inner_loop by exact Ht. apply IH. intros m Hm. apply Hin. right. exact Hm.
    - (* one instance *)
      destruct f as [|[k c] f']; [discriminate Hv|]. destruct k as [|k0 k']; [discriminate Hv|].
      assert (Hk : String k0 k' = "__class__" /\ exists cn, c = PStr cn).
      { cbn in Hv. repeat match type of Hv with (match ?x with _ => _ end) = true => destruct x; try discriminate Hv end.
        split; [reflexivity|eexists; reflexivity]. }
      destruct Hk as [Hk [cn Hc]]. rewrite Hk, Hc.
      rewrite py_bindS_good by reflexivity.
      rewrite (p2_is_none_good (PObj _)) by reflexivity. rewrite p2_branch_bool.
      change (p2_isinstance (PObj (("__class__", PStr cn) :: f')) ["list"] []) with (PBool false). rewrite p2_branch_bool.
      rewrite (py_bind_good tree) by exact Ht. rewrite py_bindS_good by apply become_child_returns.
      apply IH. intros m Hm. apply Hin. right. exact Hm.
  Qed.

  Variables (cls : string) (xa : attrs) (oa : list (string * option string)) (rest : list (string * pyval)).
  Hypothesis self_is : self = enc_obj cls xa oa rest.
  Hypothesis members_present : forall a, In a (c_attributes ci) -> In (at_member a) (map fst oa).

  Definition abody : list pyval -> pyval -> ctl2 :=
    fun st_6 x_7 => match st_6 with [v_member_name; v_member_type; v_required; v_member; v_tree] =>
    (match p2_unpack 2 x_7 with
    | PList [v_xml_attribute; v_attribute_info] => (py_bindS (fun n_19 => (ExcS n_19 [v_member_name; v_member_type; v_required; v_member; v_tree])) v_attribute_info (fun a_10 =>
    (match p2_unpack 3 a_10 with
    | PList [v_member_name; v_member_type; v_required] => (py_bindS (fun n_17 => (ExcS n_17 [v_member_name; v_member_type; v_required; v_member; v_tree])) (p2_getattr_dyn false self v_member_name) (fun v_member =>
    (match p2_branch (p2_is_not_none v_member) with
    | BTrue => (py_bindS (fun n_15 => (ExcS n_15 [v_member_name; v_member_type; v_required; v_member; v_tree])) v_member (fun a_11 =>
    (py_bindS (fun n_14 => (ExcS n_14 [v_member_name; v_member_type; v_required; v_member; v_tree])) v_xml_attribute (fun a_12 =>
    (py_bindS (fun n_13 => (ExcS n_13 [v_member_name; v_member_type; v_required; v_member; v_tree])) (p2_setattr v_tree "attrib" (p2_setitem (p2_attr v_tree "attrib") a_12 a_11)) (fun v_tree =>
    (NextS [v_member_name; v_member_type; v_required; v_member; v_tree])))))))
    | BFalse => (NextS [v_member_name; v_member_type; v_required; v_member; v_tree])
    | BExc n_16 => (ExcS n_16 [v_member_name; v_member_type; v_required; v_member; v_tree])
    | BErr => (RetS PErr)
    end)))
    | PExc n_18 => (ExcS n_18 [v_member_name; v_member_type; v_required; v_member; v_tree])
    | _ => (RetS PErr)
    end)))
    | PExc n_20 => (ExcS n_20 [v_member_name; v_member_type; v_required; v_member; v_tree])
    | _ => (RetS PErr)
    end)
   | _ => RetS PErr end.

  Lemma attrs_loop tag text : forall l acc s1 s2 s3 s4,
    (forall a, In a l -> In a (c_attributes ci)) -> keys_ok acc = true ->
    exists t1 t2 t3 t4,
      pyfor2 (map enc_citem l) [s1; s2; s3; s4; enc_elem tag acc text] abody
      = NextS [t1; t2; t3; t4; enc_elem tag (dset_all qname_eqb acc (known_attrs_l l oa)) text].
  Proof.
    induction l as [|a r IH]; intros acc s1 s2 s3 s4 Hin Hacc; [exists s1, s2, s3, s4; reflexivity|].
    assert (Ha : In a (c_attributes ci)) by (apply Hin; left; reflexivity).
    assert (Hr : forall b, In b r -> In b (c_attributes ci)) by (intros b Hb; apply Hin; right; exact Hb).
    pose proof names_ok as NK. unfold names_ok_b in NK. rewrite forallb_forall in NK. specialize (NK a Ha).
    pose proof members_plain as MP. unfold members_plain_b in MP. rewrite forallb_forall in MP. specialize (MP a Ha).
    rewrite andb_true_iff, negb_true_iff in MP. destruct MP as [MP1 MP2]. apply String.eqb_neq in MP2.
    cbn [map pyfor2]. unfold abody at 1. unfold enc_citem at 1.
    rewrite p2_unpack_list by reflexivity. rewrite (py_bindS_good _ (PList _)) by reflexivity.
    rewrite p2_unpack_list by reflexivity.
    rewrite self_is. rewrite getattr_member by (assumption || (apply members_present; exact Ha)).
    cbn [known_attrs_l flat_map]. fold (known_attrs_l r oa).
    destruct (get_member (at_member a) oa) as [[v|]|] eqn:G; cbn [enc_ostr].
    - rewrite py_bindS_good by reflexivity. rewrite (p2_is_not_none_good (PStr v)) by reflexivity. rewrite p2_branch_bool.
      rewrite (py_bindS_good _ (PStr v)) by reflexivity. rewrite (py_bindS_good _ (PStr (clark (at_name a)))) by reflexivity.
      change (p2_attr (enc_elem tag acc text) "attrib") with (PObj (enc_attrs acc)).
      rewrite p2_setitem_enc by assumption.
      change (p2_setattr (enc_elem tag acc text) "attrib" (PObj (enc_attrs (dset qname_eqb (at_name a) v acc))))
        with (enc_elem tag (dset qname_eqb (at_name a) v acc) text).
      rewrite py_bindS_good by reflexivity.
      unfold dset_all. cbn [app fold_left fst snd]. apply IH; [exact Hr|apply keys_ok_dset; assumption].
    - rewrite py_bindS_good by reflexivity. rewrite (p2_is_not_none_good PNone) by reflexivity. rewrite p2_branch_bool.
      cbn [app]. apply IH; assumption.
    - rewrite py_bindS_good by reflexivity. rewrite (p2_is_not_none_good PNone) by reflexivity. rewrite p2_branch_bool.
      cbn [app]. apply IH; assumption.
  Qed.

  (* the known attributes are written in c_attributes order, each member that is not None (the empty string IS
     written), by dict assignment; then ExtensionContainer's part is called with (self, tree) *)
  Theorem src2_add_members_is_model tag acc text :
    keys_ok acc = true ->
    src2_add_members (enc_cattrs ci) child_order become_child ec_add self (enc_elem tag acc text)
    = PList [PNone; enc_elem tag (dset_all qname_eqb acc (known_attrs ci oa)) text].
  Proof.
    intros Hacc. unfold src2_add_members. cbv zeta.
    rewrite child_order_spec, p2_iter_check_list. rewrite (py_bindh_good _ (PList _)) by reflexivity. rewrite py_iter2_list.
    match goal with |- context [pyfor2 (map PStr names) ?st ?b] => change b with (kbody (enc_elem tag acc text)) end.
    destruct (children_loop (enc_elem tag acc text) eq_refl names PErr PErr (fun n H => H)) as (a & b & E).
    rewrite E. clear E.
    assert (Hitems : p2_items (enc_cattrs ci) = PList (map enc_citem (c_attributes ci))).
    { unfold p2_items, dict_view, enc_cattrs. rewrite s1_good by reflexivity.
      rewrite (cattrs_is_dict _ names_ok). rewrite map_map. reflexivity. }
    rewrite Hitems. rewrite (py_bind_good (PList _)) by reflexivity. rewrite p2_iter_check_list.
    rewrite (py_bindh_good _ (PList _)) by reflexivity. rewrite py_iter2_list.
    match goal with |- context [pyfor2 (map enc_citem (c_attributes ci)) ?st ?b] => change b with abody end.
    destruct (attrs_loop tag text (c_attributes ci) acc a PErr PErr b (fun x H => H) Hacc) as (t1 & t2 & t3 & t4 & E).
    fold (known_attrs ci oa) in E. unfold known_attrs_l in E. fold (known_attrs ci oa) in E.
    rewrite E. clear E.
    rewrite (py_bind_good self) by (rewrite self_is; reflexivity). rewrite (py_bind_good (enc_elem _ _ _)) by reflexivity.
    rewrite py_bindh_good by apply ec_add_returns. reflexivity.
  Qed.
End AddMembers.

Example add_members_sat :
  let self := enc_obj "NameID" [] [("format", Some ""); ("lang", Some "en")] [("kid", PNone); ("kids", PList [PNone])] in
  src2_add_members (enc_cattrs ex_ci) (fun _ => PList [PStr "kid"; PStr "kids"]) (fun _ _ => PNone) (fun _ _ => PNone)
                   self (enc_elem "{urn:ex}NameID" [] PNone)
  = (* the EMPTY string is written (seeded change C12-1: "if member:") *)
    PList [PNone; enc_elem "{urn:ex}NameID" [(QN None "Format", ""); (QN (Some "http://www.w3.org/XML/1998/namespace") "lang", "en")] PNone].
Proof. vm_compute. reflexivity. Qed.

(* ================================================================== the live table is inside the domain
   every name the live classes register is a Clark-notation string that reads back as itself, and every attribute
   member is an ordinary attribute name: the hypotheses of src2_convert_attribute_is_model hold for EVERY live class
   (regenerated with the table on every run). *)
From VerifGen Require Import ClassTables.

Definition live_names_ok : bool :=
  forallb (fun ci => names_ok_b ci && members_plain_b ci && key_ok (c_tag ci)
                     && forallb (fun s => key_ok (ch_tag s)) (c_children ci)) live_table.

Lemma live_names_ok_true : live_names_ok = true.
Proof. vm_compute. reflexivity. Qed.

Theorem src2_convert_attribute_live ec_convert c ci cls xa oa rest q v :
  class_at live_table c = Some ci ->
  key_ok q = true -> NoDup (map fst oa) ->
  (forall a, find_attr ci q = Some a -> In (at_member a) (map fst oa)) ->
  src2_convert_attribute (enc_cattrs ci) ec_convert (enc_obj cls xa oa rest) (PStr (clark q)) (PStr v)
  = match find_attr ci q with
    | Some a => PList [PNone; enc_obj cls xa (set_member (at_member a) (Some v) oa) rest]
    | None => py_bindh (fun n => PList [PExc n; enc_obj cls xa oa rest])
                       (ec_convert (enc_obj cls xa oa rest) (PStr (clark q)) (PStr v))
                       (fun _ => PList [PNone; enc_obj cls xa oa rest])
    end.
Proof.
  intros Hc. pose proof live_names_ok_true as L. unfold live_names_ok in L. rewrite forallb_forall in L.
  assert (I : In ci live_table) by (unfold class_at in Hc; eapply nth_error_In; exact Hc).
  specialize (L ci I). rewrite !andb_true_iff in L. destruct L as [[[L1 L2] _] _].
  apply src2_convert_attribute_is_model; assumption.
Qed.
