(* C12/Spec.v — the property, over instances / documents and what can be observed of the
   implementation (the tree an independent XML reader sees in to_string()'s output, the members
   of the object *_from_string returns).  Written from the property text:

   "For every element class ... and every instance built from attribute values, text, child
    elements and foreign extension elements or attributes, serialising and re-parsing yields an
    object with the same attributes, text, children (in schema order) and extensions, and
    serialising that again is byte-identical.  Parsing a well-formed document never drops
    unknown children or attributes (they surface as extensions) ..."                          *)
From Coq Require Import String Ascii List Bool Arith NArith.
From Verif Require Import Base.Str Base.Xml Base.ClassTable C12.Model.
Import ListNotations.
Open Scope string_scope.
Open Scope list_scope.

(* finding class 1 (C12-F1, fixed by 08cd9707): the classes whose table registered xenc:EncryptedKey under the
   namespace "http://www.w3.org/2000/09/xmlenc#" (the element lives in ".../2001/04/xmlenc#"), three of them
   without a member class.  Now EVERY live class must satisfy wf_class (C12/Live.v); the list only lets
   Corr.cls recognise a regression of that fix. *)
Definition known_bad : list string :=
  ["saml2.xmldsig.KeyInfoType_"; "saml2.xmldsig.KeyInfo"; "saml2.xmlenc.OriginatorKeyInfo"; "saml2.xmlenc.RecipientKeyInfo"].

Fixpoint index_of (m : string) (l : list string) : nat :=
  match l with
  | [] => 0
  | x :: r => if String.eqb x m then 0 else S (index_of m r)
  end.

Fixpoint sorted_b (l : list nat) : bool :=
  match l with
  | a :: r => match r with b :: _ => (a <=? b)%nat && sorted_b r | [] => true end
  | [] => true
  end.

Definition is_some {A} (x : option A) : bool := match x with Some _ => true | None => false end.

(* a foreign element as an instance can hold it: attribute names distinct, none of them a namespace
   declaration in disguise, text either absent or non-empty *)
Fixpoint ee_ok (e : ee) : bool :=
  match e with
  | EE _ _ a kids x =>
      attrs_ok a && negb (opt_eqb String.eqb x (Some "")) && forallb ee_ok kids
  end.

Fixpoint ee_no_cr (e : ee) : bool :=
  match e with
  | EE _ _ _ kids x => negb (has_cr (text_str x)) && forallb ee_no_cr kids
  end.

Definition spec_eqb (a b : child_spec) : bool :=
  qname_eqb (ch_tag a) (ch_tag b) && String.eqb (ch_member a) (ch_member b)
  && opt_eqb N.eqb (ch_class a) (ch_class b) && Bool.eqb (ch_list a) (ch_list b).

(* the entry under which the class finds children with s's tag is s itself *)
Definition effective (ci : class_info) (s : child_spec) : bool :=
  match find_child ci (ch_tag s) with Some s' => spec_eqb s' s | None => false end.

Fixpoint last_opt {A} (l : list A) : option A :=
  match l with
  | [] => None
  | [x] => Some x
  | _ :: r => last_opt r
  end.

Fixpoint forallb2 {A B} (f : A -> B -> bool) (l : list A) (m : list B) : bool :=
  match l, m with
  | [], [] => true
  | x :: l', y :: m' => f x y && forallb2 f l' m'
  | _, _ => false
  end.

Section Spec.
  Variable T : table.

  Definition known_tag (ci : class_info) (g : qname) : bool := is_some (find_child ci g).
  Definition known_attr (ci : class_info) (n : qname) : bool := is_some (find_attr ci n).

  (* the extension attributes / text of an AttributeValueBase instance are in the state parsing
     leaves them in (xsi:type and text agree, xsi:nil only on an empty value, ...) *)
  Definition av_fix_b (ext : list ee) (xa : attrs) (tx : option string) : bool :=
    match av_finish (dmem qname_eqb xsi_nil xa) ext (dset_all qname_eqb av_init_xattrs (wire_attrs xa))
                    (norm_eol (text_str tx)) with
    | AvOk xa' tx' => attrs_eqb xa' xa && opt_eqb String.eqb tx' tx
    | _ => false
    end.

  (* the same against the parsing side as it was before fix c1c601fb (finding C12-F5) *)
  Definition av_fix_f5v0_b (ext : list ee) (xa : attrs) (tx : option string) : bool :=
    match av_finish_f5v0 ext (dset_all qname_eqb av_init_xattrs (wire_attrs xa)) (norm_eol (text_str tx)) with
    | AvOk xa' tx' => attrs_eqb xa' xa && opt_eqb String.eqb tx' tx
    | _ => false
    end.

  (* [canonical_b o]: o is an instance of its class as the property means it:
     - its class is in the table;
     - it has exactly the members of its class; a child member holds instances of the member class,
       a singleton member at most one; every one of them is canonical;
     - an attribute whose absence means a default value carries a value;
     - extension elements / attributes are foreign to the class (not names the class knows) *)
  Fixpoint canonical_b (o : obj) : bool :=
    match o with
    | Obj c oa kids ext xa tx =>
        match class_at T c with
        | None => false
        | Some ci =>
            list_eqb String.eqb (map fst oa) (map at_member (c_attributes ci))
            && forallb (fun a => negb (dmem String.eqb (at_member a) (c_parse_defaults ci))
                                 || match get_member (at_member a) oa with Some (Some _) => true | _ => false end)
                       (c_attributes ci)
            && forallb (fun mk => forallb canonical_b (snd mk)) kids
            && forallb2 (fun (mk : string * list obj) s =>
                           String.eqb (fst mk) (ch_member s)
                           && forallb (fun o' => opt_eqb N.eqb (Some (o_cls o')) (ch_class s)) (snd mk)
                           && (ch_list s || (length (snd mk) <=? 1)%nat))
                        kids (c_children ci)
            && forallb (fun e => ee_ok e && negb (known_tag ci (ee_name e))) ext
            && nodup_b qname_eqb (map fst xa)
            && forallb (fun kv => negb (known_attr ci (fst kv))) xa
            && match c_kind ci with
               | KPlain => forallb (fun kv => negb (is_xmlns_name (fst kv))) xa
                           && negb (opt_eqb String.eqb tx (Some ""))
               | KAttrValue => av_fix_b ext xa tx
               end
        end
    end.

  Definition canonical (o : obj) : Prop := canonical_b o = true.

  (* no carriage return in any character data of the instance (finding class 2: ElementTree writes
     it raw, every XML reader then reports a line feed) *)
  Fixpoint no_cr_b (o : obj) : bool :=
    match o with
    | Obj _ _ kids ext _ tx =>
        negb (has_cr (text_str tx)) && forallb ee_no_cr ext
        && forallb (fun mk => forallb no_cr_b (snd mk)) kids
    end.

  (* ---- guards: every class involved parses and serialises consistently (finding class 1 excluded) *)
  Fixpoint wf_obj_b (o : obj) : bool :=
    match o with
    | Obj c _ kids _ _ _ =>
        match class_at T c with Some ci => wf_class T ci | None => false end
        && forallb (fun mk => forallb wf_obj_b (snd mk)) kids
    end.

  (* every inconsistent class of the instance is one of the listed finding class *)
  Fixpoint bad_known_obj_b (o : obj) : bool :=
    match o with
    | Obj c _ kids _ _ _ =>
        match class_at T c with
        | Some ci => wf_class T ci || mem (c_name ci) known_bad
        | None => false
        end
        && forallb (fun mk => forallb bad_known_obj_b (snd mk)) kids
    end.

  Fixpoint bad_known_tree_b (c : N) (t : tree) {struct t} : bool :=
    match t with
    | Node _ _ _ kids =>
        match class_at T c with
        | None => false
        | Some ci =>
            (wf_class T ci || mem (c_name ci) known_bad)
            && forallb (fun k => match find_child ci (t_tag k) with
                                 | Some s => match ch_class s with
                                             | Some c' => bad_known_tree_b c' k
                                             | None => true
                                             end
                                 | None => true
                                 end) kids
        end
    end.

  (* every class met while reading t as class c is consistent *)
  Fixpoint uses_wf_b (c : N) (t : tree) {struct t} : bool :=
    match t with
    | Node _ _ _ kids =>
        match class_at T c with
        | None => false
        | Some ci =>
            wf_class T ci
            && forallb (fun k => match find_child ci (t_tag k) with
                                 | Some s => match ch_class s with
                                             | Some c' => uses_wf_b c' k
                                             | None => false
                                             end
                                 | None => true
                                 end) kids
        end
    end.


  (* ---- "children (in schema order)": in a serialised instance the known children of every element come
     in the order of c_child_order, the foreign ones after them *)
  Definition kid_pos (ci : class_info) (k : tree) : nat :=
    match find_child ci (t_tag k) with
    | Some s => index_of (ch_member s) (child_order ci)
    | None => length (child_order ci)
    end.

  Fixpoint ordered_b (c : N) (t : tree) {struct t} : bool :=
    match t with
    | Node _ _ _ kids =>
        match class_at T c with
        | None => false
        | Some ci =>
            sorted_b (map (kid_pos ci) kids)
            && forallb (fun k => match find_child ci (t_tag k) with
                                 | Some s => match ch_class s with
                                             | Some c' => ordered_b c' k
                                             | None => true
                                             end
                                 | None => true
                                 end) kids
        end
    end.

  (* ---------------------------------------------------------------- nothing unknown is dropped *)
  (* xsi:nil / xsi:type are the two attributes AttributeValueBase manages itself *)
  Definition av_managed (ci : class_info) (n : qname) : bool :=
    match c_kind ci with
    | KPlain => false
    | KAttrValue => qname_eqb n xsi_nil || qname_eqb n xsi_type
    end.

  Definition kids_tagged (g : qname) (t : tree) : list tree :=
    filter (fun k => qname_eqb (t_tag k) g) (t_kids t).

  (* document [t], read as class [c], gave object [o]:
     - every child of t whose tag the class does not know is an extension element of o (all of
       them, in document order, and nothing else);
     - every attribute of t whose name the class does not know is an extension attribute of o with
       that value;
     - o has the child members of its class; for a list member: the children of t with the member's
       tag are, in order, what the member's values were read from, and the same holds inside each
       of them; for a singleton member: the LAST child of t with that tag is what the member's value
       was read from (none: the member is empty), and the same holds inside it. *)
  Inductive nothing_dropped : N -> tree -> obj -> Prop :=
  | ND c ci t o :
      class_at T c = Some ci ->
      o_ext o = map ee_of_tree (filter (fun k => negb (known_tag ci (t_tag k))) (t_kids t)) ->
      (forall n v, In (n, v) (t_attrs t) -> known_attr ci n = false -> av_managed ci n = false ->
                   dget qname_eqb n (o_xattrs o) = Some v) ->
      Forall2 (fun (mk : string * list obj) s =>
                 fst mk = ch_member s /\
                 forall c', ch_class s = Some c' -> find_child ci (ch_tag s) = Some s ->
                   (ch_list s = true ->
                      Forall2 (nothing_dropped c') (kids_tagged (ch_tag s) t) (snd mk)) /\
                   (ch_list s = false ->
                      (forall k, last_opt (kids_tagged (ch_tag s) t) = Some k ->
                                 exists o', snd mk = [o'] /\ nothing_dropped c' k o') /\
                      (last_opt (kids_tagged (ch_tag s) t) = None -> snd mk = [])))
              (o_kids o) (c_children ci) ->
      nothing_dropped c t o.

  (* the same, computable (recursion on the object) *)
  Fixpoint nd_b (c : N) (t : tree) (o : obj) {struct o} : bool :=
    match o with
    | Obj _ _ kids ext xa _ =>
        match class_at T c with
        | None => false
        | Some ci =>
            list_eqb ee_eqb ext (map ee_of_tree (filter (fun k => negb (known_tag ci (t_tag k))) (t_kids t)))
            && forallb (fun kv => known_attr ci (fst kv) || av_managed ci (fst kv)
                                  || opt_eqb String.eqb (dget qname_eqb (fst kv) xa) (Some (snd kv)))
                       (t_attrs t)
            && (fix go (l : list (string * list obj)) (ss : list child_spec) {struct l} : bool :=
                  match l, ss with
                  | [], [] => true
                  | (m, os) :: l', s :: ss' =>
                      String.eqb m (ch_member s)
                      && match ch_class s with
                         | None => true
                         | Some c' =>
                             negb (effective ci s)
                             || (if ch_list s
                                 then (fix zip (p : list obj) (q : list tree) {struct p} : bool :=
                                         match p, q with
                                         | [], [] => true
                                         | o' :: p', k :: q' => nd_b c' k o' && zip p' q'
                                         | _, _ => false
                                         end) os (kids_tagged (ch_tag s) t)
                                 else match last_opt (kids_tagged (ch_tag s) t), os with
                                      | Some k, [o'] => nd_b c' k o'
                                      | None, [] => true
                                      | _, _ => false
                                      end)
                         end
                      && go l' ss'
                  | _, _ => false
                  end) kids (c_children ci)
        end
    end.
End Spec.
