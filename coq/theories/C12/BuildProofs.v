(* C12/BuildProofs.v — the building side of AttributeValueBase (C12/Build.v) against the parsing side
   (Model.av_finish): what the CONSTRUCTOR builds, and what set_text builds on a fresh instance, is exactly what
   parsing the corresponding element delivers; hence it is an instance in the sense of the spec (av_fix_b,
   canonical) and survives the round trip (roundtrip_obj).

     value                        the element parsing would have read
     None / "" / b"" / 0 / False  <AttributeValue xsi:nil="true"/>   (with extension elements: no attribute)
     str x (not empty)            <AttributeValue>x</AttributeValue>
     int n (not 0)                <AttributeValue xsi:type="xs:integer">str(n)</AttributeValue>
     True                         <AttributeValue xsi:type="xs:boolean">true</AttributeValue>

   (float: the model does not restate str(float) / float(str): outside these theorems, checked on the
   implementation.) *)
From Coq Require Import String Ascii List Bool Arith NArith.
From Verif Require Import Base.Str Base.Xml Base.ClassTable C12.Model C12.Spec C12.Build C12.Proofs.
Import ListNotations.
Open Scope string_scope.
Open Scope list_scope.

Definition to_av (r : tres) : av_result :=
  match r with
  | TOk xa tx => AvOk xa tx
  | TRaise | TNonStr => AvRaise
  | TUnmodelled => AvUnmodelled
  end.

(* the xsi:type the corresponding document carries, and its text *)
Definition declared (v : pyv) : attrs :=
  match v with
  | VInt _ _ => [(xsi_type, "xs:integer")]
  | VBool _ => [(xsi_type, "xs:boolean")]
  | VFloat _ _ => [(xsi_type, "xs:float")]
  | _ => []
  end.

Definition py_text (v : pyv) : string :=
  match v with
  | VNone => ""
  | VStr s | VBytes s => s
  | VInt n d => int_text n d
  | VBool b => if b then "true" else "false"
  | VFloat _ s => s
  end.

Definition modelled (v : pyv) : bool := match v with VFloat _ _ => false | _ => true end.

(* ---- int: str(n) is a fixpoint of the integer conversion, has no outer white space, is not empty *)
Lemma int_text_conv n d : pyv_ok (VInt n d) = true ->
  conv_int (int_text n d) = CText (int_text n d) /\ strip (int_text n d) = int_text n d
  /\ is_empty (int_text n d) = false /\ has_cr (int_text n d) = false.
Proof.
  unfold pyv_ok. intros H. apply andb_true_iff in H as [H Hz]. apply andb_true_iff in H as [H Hd].
  apply andb_true_iff in H as [Ha Hn]. apply negb_true_iff in Hn. apply String.eqb_eq in Hd.
  assert (C : conv_int (int_text n d) = CText (int_text n d)).
  { unfold int_text. destruct n.
    - apply conv_int_neg; try assumption. cbn [andb] in Hz. apply negb_true_iff in Hz. exact Hz.
    - apply conv_int_digits; assumption. }
  destruct (conv_int_idem _ _ C) as [_ [Cr [St Ne]]]. auto.
Qed.

(* ---- extension elements only matter through the strip *)
Lemma av_finish_ext_irrelevant ext xa x :
  is_empty x = false -> av_x1 ext x = x -> av_finish_f5v0 ext xa x = av_finish_f5v0 [] xa x.
Proof.
  intros NE X1. unfold av_finish_f5v0. fold (av_x1 ext x). rewrite X1.
  replace (if negb (is_empty x) && nonempty (@nil ee) then strip x else x) with x
    by (cbn [nonempty]; rewrite andb_false_r; reflexivity).
  rewrite NE. reflexivity.
Qed.

(* ---- set_text on a fresh dict: {xsi:type: ""} (inside the constructor) or {xsi:nil: "true"} (a fresh instance) *)
Definition fresh_xa (xa : attrs) : Prop := xa = av_ctor_xa0 \/ xa = av_init_xattrs.

Lemma set_text_fresh_str xa x : fresh_xa xa -> is_empty x = false ->
  to_av (av_set_text (VStr x) xa) = av_finish_f5v0 [] (av_B []) x.
Proof.
  intros F NE. unfold av_finish_f5v0. cbn [nonempty]. rewrite andb_false_r. rewrite NE.
  destruct F as [-> | ->]; unfold av_set_text; cbn [norm_v]; vm_compute av_get_type;
    cbn [is_empty py_type type_to_xsd]; vm_compute split_type; vm_compute type_ok; cbn [negb];
    vm_compute (av_B []); vm_compute dget; cbn [is_empty]; vm_compute split_type; vm_compute type_ok; cbn [negb];
    replace (av_convert "string" x) with (CText x) by reflexivity; cbn [to_av]; reflexivity.
Qed.

Lemma set_text_fresh_int xa n d : fresh_xa xa -> pyv_ok (VInt n d) = true ->
  to_av (av_set_text (VInt n d) xa) = av_finish_f5v0 [] (av_B (declared (VInt n d))) (int_text n d).
Proof.
  intros F OK. destruct (int_text_conv n d OK) as [C [_ [NE _]]].
  unfold av_finish_f5v0. cbn [nonempty]. rewrite andb_false_r. rewrite NE.
  destruct F as [-> | ->]; unfold av_set_text; cbn [norm_v declared]; vm_compute av_get_type;
    cbn [is_empty py_type type_to_xsd]; vm_compute split_type; vm_compute type_ok; cbn [negb];
    vm_compute (String.eqb "integer" "anyType"); vm_compute (valid_type "integer" TInt); cbn [pty_eqb negb];
    vm_compute (av_B [(xsi_type, "xs:integer")]); vm_compute dget; cbn [is_empty]; vm_compute split_type;
    vm_compute type_ok; cbn [negb];
    replace (av_convert "integer" (int_text n d)) with (conv_int (int_text n d)) by reflexivity;
    rewrite C; cbn [to_av]; reflexivity.
Qed.

Lemma set_text_fresh_bool xa b : fresh_xa xa ->
  to_av (av_set_text (VBool b) xa) = av_finish_f5v0 [] (av_B (declared (VBool b))) (py_text (VBool b)).
Proof. intros [-> | ->]; destruct b; vm_compute; reflexivity. Qed.

(* with text, parsing is what it was before fix c1c601fb *)
Lemma av_finish_with_text d ext xa x :
  is_empty (av_x1 ext x) = false -> av_finish d ext xa x = av_finish_f5v0 ext xa x.
Proof. intros NE. unfold av_finish, av_retyped. fold (av_x1 ext x). rewrite NE. reflexivity. Qed.

Theorem set_text_fresh_is_parse xa v :
  fresh_xa xa -> pyv_ok v = true -> modelled v = true -> is_empty (py_text v) = false ->
  to_av (av_set_text v xa) = av_finish (dmem qname_eqb xsi_nil (declared v)) [] (av_B (declared v)) (py_text v).
Proof.
  intros F OK M NE. rewrite av_finish_with_text by (unfold av_x1; cbn [nonempty]; rewrite andb_false_r; exact NE).
  destruct v as [|s|s|n d|b|z s]; cbn [py_text declared] in *; try discriminate.
  - apply set_text_fresh_str; assumption.
  - change (av_set_text (VBytes s) xa) with (av_set_text (VStr s) xa). apply set_text_fresh_str; assumption.
  - apply set_text_fresh_int; assumption.
  - apply set_text_fresh_bool; assumption.
Qed.

(* ---- the constructor *)
Definition ctor_doc_attrs (v : pyv) : attrs := if truthy v then declared v else [].
Definition ctor_doc_text (v : pyv) : string := if truthy v then py_text v else "".

Lemma truthy_text v : pyv_ok v = true -> modelled v = true -> truthy v = true -> is_empty (py_text v) = false.
Proof.
  destruct v as [|s|s|n d|b|z s]; cbn [truthy py_text modelled]; try discriminate; intros OK _ T.
  - apply negb_true_iff. exact T.
  - apply negb_true_iff. exact T.
  - apply (int_text_conv n d OK).
  - destruct b; [reflexivity|discriminate].
Qed.

(* the instance the constructor builds is the instance parsing the corresponding element delivers *)
Theorem ctor_is_parse v ext arg :
  pyv_ok v = true -> modelled v = true ->
  av_x1 ext (ctor_doc_text v) = ctor_doc_text v ->
  to_av (av_ctor v ext arg)
  = av_finish (dmem qname_eqb xsi_nil (ctor_doc_attrs v)) ext (av_B (ctor_doc_attrs v)) (ctor_doc_text v).
Proof.
  intros OK M X1. unfold av_ctor, ctor_doc_attrs, ctor_doc_text in *. destruct (truthy v) eqn:T.
  - pose proof (truthy_text v OK M T) as NE.
    rewrite av_finish_with_text by (rewrite X1; exact NE).
    rewrite (av_finish_ext_irrelevant ext _ _ NE X1).
    rewrite <- (av_finish_with_text (dmem qname_eqb xsi_nil (declared v)) [] _ _)
      by (unfold av_x1; cbn [nonempty]; rewrite andb_false_r; exact NE).
    apply set_text_fresh_is_parse; [left; reflexivity|assumption|assumption|assumption].
  - destruct ext as [|e r]; reflexivity.
Qed.

Lemma declared_clean v :
  NoDup (map fst (ctor_doc_attrs v)) /\ forallb (fun kv => negb (is_xmlns_name (fst kv))) (ctor_doc_attrs v) = true.
Proof.
  unfold ctor_doc_attrs. destruct (truthy v); [|split; [constructor|reflexivity]].
  destruct v; cbn [declared map fst]; split; try reflexivity; repeat constructor; intros [].
Qed.

(* ... hence a fixpoint of the parsing normalisation ... *)
Theorem ctor_fix v ext arg xa tx :
  pyv_ok v = true -> modelled v = true ->
  av_x1 ext (ctor_doc_text v) = ctor_doc_text v -> has_cr (ctor_doc_text v) = false ->
  av_ctor v ext arg = TOk xa tx ->
  av_fix_b ext xa tx = true /\ NoDup (map fst xa) /\ has_cr (text_str tx) = false.
Proof.
  intros OK M X1 CR H. pose proof (ctor_is_parse v ext arg OK M X1) as P. rewrite H in P. cbn [to_av] in P.
  destruct (declared_clean v) as [N X].
  destruct (av_idem ext (ctor_doc_attrs v) (ctor_doc_text v) xa tx N X CR (eq_sym P)) as [A [B [C _]]]. auto.
Qed.

(* ... against the parsing side as it is NOW it survives, and so does every empty value of a declared type:
   set_text("") on a fresh instance is set_type("xs:string") with empty text ... *)
Lemma set_text_empty_state :
  av_set_text (VStr "") av_init_xattrs = TOk (av_set_type "xs:string" av_init_xattrs) (Some "").
Proof. vm_compute. reflexivity. Qed.

Lemma typed_empty_fix t :
  is_empty t = false ->
  av_fix_b [] (av_set_type t av_init_xattrs) (Some "") = true /\ NoDup (map fst (av_set_type t av_init_xattrs)).
Proof.
  intros NE.
  assert (N : NoDup (map fst [(xsi_type, t)])) by (repeat constructor; intros []).
  assert (X : forallb (fun kv : qname * string => negb (is_xmlns_name (fst kv))) [(xsi_type, t)] = true) by reflexivity.
  assert (H : av_finish (dmem qname_eqb xsi_nil [(xsi_type, t)]) [] (av_B [(xsi_type, t)]) ""
              = AvOk (av_set_type t av_init_xattrs) (Some "")).
  { unfold av_finish, av_retyped. cbn [is_empty negb andb nonempty].
    replace (dmem qname_eqb xsi_nil [(xsi_type, t)]) with false by reflexivity.
    replace (av_B [(xsi_type, t)]) with [(xsi_nil, "true"); (xsi_type, t)] by reflexivity.
    replace (av_get_type [(xsi_nil, "true"); (xsi_type, t)]) with t
      by (unfold av_get_type; cbn [dget]; replace (qname_eqb xsi_type xsi_nil) with false by reflexivity;
          rewrite qname_eqb_refl; reflexivity).
    rewrite NE. cbn [negb andb]. unfold av_init_xattrs. rewrite !av_set_type_cons. cbn [dset].
    rewrite qname_eqb_refl. reflexivity. }
  destruct (av_idem [] [(xsi_type, t)] "" _ _ N X eq_refl H) as [F [Nd _]]. auto.
Qed.

(* ... an instance in the sense of the spec, for every class of kind KAttrValue without schema attributes and
   children (every AttributeValueBase subclass of the live table) ... *)
Section Built.
  Variable T : table.
  Variables (c : N) (ci : class_info).
  Hypothesis Hc : class_at T c = Some ci.
  Hypothesis Hkind : c_kind ci = KAttrValue.
  Hypothesis Hattrs : c_attributes ci = [].
  Hypothesis Hkids : c_children ci = [].

  Lemma av_obj_canonical ext xa tx :
    forallb ee_ok ext = true -> NoDup (map fst xa) -> av_fix_b ext xa tx = true ->
    canonical_b T (av_obj c ext xa tx) = true.
  Proof.
    intros E N F. unfold av_obj. cbn [canonical_b]. rewrite Hc, Hattrs, Hkids, Hkind. cbn [map list_eqb forallb forallb2 andb].
    rewrite F, andb_true_r. apply andb_true_iff. split; [apply andb_true_iff; split|].
    - rewrite forallb_forall in E. apply forallb_forall. intros e He. rewrite (E e He).
      unfold known_tag, find_child. rewrite Hkids. reflexivity.
    - apply nodup_q. exact N.
    - apply forallb_forall. intros kv _. unfold known_attr, find_attr. rewrite Hattrs. reflexivity.
  Qed.

  Lemma av_obj_wf ext xa tx : wf_class T ci = true -> wf_obj_b T (av_obj c ext xa tx) = true.
  Proof. intros W. unfold av_obj. cbn [wf_obj_b forallb]. rewrite Hc, W. reflexivity. Qed.

  Lemma av_obj_no_cr ext xa tx :
    forallb ee_no_cr ext = true -> has_cr (text_str tx) = false -> no_cr_b (av_obj c ext xa tx) = true.
  Proof. intros E C. unfold av_obj. cbn [no_cr_b forallb]. rewrite C, E. reflexivity. Qed.

  (* ... and it survives serialisation and parsing unchanged, byte-identical the second time *)
  Theorem ctor_roundtrip v ext arg xa tx :
    wf_class T ci = true ->
    pyv_ok v = true -> modelled v = true ->
    forallb ee_ok ext = true -> forallb ee_no_cr ext = true ->
    av_x1 ext (ctor_doc_text v) = ctor_doc_text v -> has_cr (ctor_doc_text v) = false ->
    av_ctor v ext arg = TOk xa tx ->
    let o := av_obj c ext xa tx in
    canonical T o /\ harvest T c (ser T o) = o /\ harvest_status T c (ser T o) = SOk
    /\ ser T (harvest T c (ser T o)) = ser T o.
  Proof.
    intros W OK M E ECR X1 CR H o.
    destruct (ctor_fix v ext arg xa tx OK M X1 CR H) as [F [N C]].
    assert (Can : canonical_b T o = true) by (apply av_obj_canonical; assumption).
    assert (Wo : wf_obj_b T o = true) by (apply av_obj_wf; exact W).
    assert (No : no_cr_b o = true) by (apply av_obj_no_cr; assumption).
    destruct (roundtrip_obj T o Wo Can No) as [R1 R2]. change (o_cls o) with c in R1, R2.
    split; [exact Can|]. split; [exact R1|]. split; [exact R2|]. rewrite R1. reflexivity.
  Qed.

  (* a fresh instance, then set_text(v) / .text = v *)
  Theorem fresh_set_text_roundtrip v xa tx :
    wf_class T ci = true ->
    pyv_ok v = true -> modelled v = true -> is_empty (py_text v) = false -> has_cr (py_text v) = false ->
    av_set_text v av_init_xattrs = TOk xa tx ->
    let o := av_obj c [] xa tx in
    canonical T o /\ harvest T c (ser T o) = o /\ harvest_status T c (ser T o) = SOk
    /\ ser T (harvest T c (ser T o)) = ser T o.
  Proof.
    intros W OK M NE CR H o.
    pose proof (set_text_fresh_is_parse av_init_xattrs v (or_intror eq_refl) OK M NE) as P. rewrite H in P. cbn [to_av] in P.
    assert (DN : NoDup (map fst (declared v)) /\ forallb (fun kv => negb (is_xmlns_name (fst kv))) (declared v) = true).
    { destruct v; cbn [declared map fst]; split; try reflexivity; repeat constructor; intros []. }
    destruct DN as [N X].
    destruct (av_idem [] (declared v) (py_text v) xa tx N X CR (eq_sym P)) as [F [Nx [C _]]].
    assert (Can : canonical_b T o = true) by (apply av_obj_canonical; [reflexivity|assumption|assumption]).
    assert (Wo : wf_obj_b T o = true) by (apply av_obj_wf; exact W).
    assert (No : no_cr_b o = true) by (apply av_obj_no_cr; [reflexivity|assumption]).
    destruct (roundtrip_obj T o Wo Can No) as [R1 R2]. change (o_cls o) with c in R1, R2.
    split; [exact Can|]. split; [exact R1|]. split; [exact R2|]. rewrite R1. reflexivity.
  Qed.
  (* the empty value of a declared type (a bare set_type(t); set_text("") = set_type("xs:string")): since fix
     c1c601fb it survives serialisation and parsing unchanged *)
  Theorem typed_empty_roundtrip t :
    wf_class T ci = true -> is_empty t = false ->
    let o := av_obj c [] (av_set_type t av_init_xattrs) (Some "") in
    canonical T o /\ harvest T c (ser T o) = o /\ harvest_status T c (ser T o) = SOk
    /\ ser T (harvest T c (ser T o)) = ser T o.
  Proof.
    intros W NE o. destruct (typed_empty_fix t NE) as [F Nd].
    assert (Can : canonical_b T o = true) by (apply av_obj_canonical; [reflexivity|assumption|assumption]).
    assert (Wo : wf_obj_b T o = true) by (apply av_obj_wf; exact W).
    assert (No : no_cr_b o = true) by (apply av_obj_no_cr; reflexivity).
    destruct (roundtrip_obj T o Wo Can No) as [R1 R2]. change (o_cls o) with c in R1, R2.
    split; [exact Can|]. split; [exact R1|]. split; [exact R2|]. rewrite R1. reflexivity.
  Qed.
End Built.

(* ---- the guards are necessary / the classes of Corr.cls are real (faithful model, unchanged code) *)
Definition b_table : table :=
  [ mk_class "V" (q_t "Value") KAttrValue [] [] [] ].

(* class 5 (C12-F5): a fresh instance, then set_text(""): typed, empty, no nil marker.  Against the parsing side as
   it was BEFORE fix c1c601fb this is not a fixpoint (parsing put the marker back) ... *)
Lemma set_text_empty_f5v0_refuted :
  exists xa tx, av_build (Recipe VNone [] [] [OSetText (VStr "")]) = TOk xa tx
                /\ av_typed_empty [] xa tx = true
                /\ av_fix_f5v0_b [] xa tx = false.
Proof. eexists. eexists. split; [vm_compute; reflexivity|]. split; vm_compute; reflexivity. Qed.

(* the same value through the CONSTRUCTOR means "no value" and survives *)
Example ctor_empty_survives :
  av_ctor (VStr "") [] [] = TOk av_init_xattrs (Some "")
  /\ harvest b_table 0%N (ser b_table (av_obj 0%N [] av_init_xattrs (Some ""))) = av_obj 0%N [] av_init_xattrs (Some "").
Proof. split; vm_compute; reflexivity. Qed.

(* class 6: text with outer white space next to an extension element is stripped by parsing *)
Lemma ws_ext_refuted :
  exists e xa tx, av_ctor (VStr " a ") [e] [] = TOk xa tx /\ av_ws_ext [e] xa tx = true
                  /\ harvest b_table 0%N (ser b_table (av_obj 0%N [e] xa tx)) <> av_obj 0%N [e] xa tx.
Proof.
  exists (EE (Some "urn:a") "x" [] [] None). eexists. eexists. split; [vm_compute; reflexivity|].
  split; [vm_compute; reflexivity|]. apply obj_neq. vm_compute. reflexivity.
Qed.

(* class 7: a foreign attribute assigned after the type was set stands behind the xmlns:xs pseudo attribute;
   parsing re-creates the pseudo attribute at the end *)
Lemma xmlns_order_refuted :
  exists xa tx, av_build (Recipe (VStr "a") [] [] [OXAttr (QN None "foo") "bar"]) = TOk xa tx
                /\ av_xmlns_misplaced [] xa tx = true
                /\ harvest b_table 0%N (ser b_table (av_obj 0%N [] xa tx)) <> av_obj 0%N [] xa tx.
Proof.
  eexists. eexists. split; [vm_compute; reflexivity|]. split; [vm_compute; reflexivity|].
  apply obj_neq. vm_compute. reflexivity.
Qed.

(* class 8 (C12-F8, what remains of F5): .text = None on a fresh instance leaves xsi:type="" without nil marker; an
   empty type NAME is not a declared type, parsing marks the element nil *)
(* C12-F10 (FIXED): BEFORE the repair set_text(None) under xs:anyType kept None as the text member (av_set_text_f10v0);
   such an instance is in class 10, serialises like the empty value and comes back with the text "" *)
Lemma anytype_none_v0_refuted :
  exists xa, av_set_text_f10v0 VNone (av_set_type "xs:anyType" av_init_xattrs) = TOk xa None
             /\ av_known_class [] xa None = 10
             /\ o_text (harvest b_table 0%N (ser b_table (av_obj 0%N [] xa None))) = Some ""%string
             /\ ser b_table (harvest b_table 0%N (ser b_table (av_obj 0%N [] xa None))) = ser b_table (av_obj 0%N [] xa None).
Proof. eexists. split; [vm_compute; reflexivity|]. split; [vm_compute; reflexivity|]. split; vm_compute; reflexivity. Qed.

(* ... the same recipe on the code as it is now stores the text "": the typed empty value (class 5, itself repaired:
   C12-F5), which survives the round trip *)
Lemma anytype_none_now :
  exists xa, av_build (Recipe VNone [] [] [OSetType "xs:anyType"; OSetText VNone]) = TOk xa (Some ""%string)
             /\ av_known_class [] xa (Some ""%string) = 5
             /\ harvest b_table 0%N (ser b_table (av_obj 0%N [] xa (Some ""%string))) = av_obj 0%N [] xa (Some ""%string).
Proof. eexists. split; [vm_compute; reflexivity|]. split; vm_compute; reflexivity. Qed.

(* since the repair NO call of set_text, hence no constructor call and no sequence of public calls, leaves None in the
   text member: class 10 is empty on the building side (for ALL values, attribute dicts, recipes) *)
Lemma set_text_some v xa xa' tx : av_set_text v xa = TOk xa' tx -> tx <> None.
Proof.
  unfold av_set_text. destruct (if is_empty _ then _ else split_type _) as [ns ty].
  destruct (negb (type_ok _)); [discriminate|].
  destruct (norm_v v) eqn:Ev.
  all: try (destruct (String.eqb ty "anyType"); [intros H; inversion H; discriminate|]).
  all: try (destruct (negb (pty_eqb _ _)); [discriminate|]).
  all: try (destruct (av_convert ty _); try discriminate).
  all: intros H; inversion H; discriminate.
Qed.

Lemma av_ops_text_some ops : forall xa tx xa' tx',
  tx <> None -> av_ops ops xa tx = TOk xa' tx' -> tx' <> None.
Proof.
  induction ops as [|o r IH]; intros xa tx xa' tx' Htx H; cbn [av_ops] in H.
  - inversion H; subst; exact Htx.
  - destruct o as [v|t| |k w].
    + destruct (av_set_text v xa) as [xa1 tx1| | |] eqn:E; try discriminate.
      eapply IH; [|exact H]. eapply set_text_some; exact E.
    + eapply IH; [exact Htx|exact H].
    + eapply IH; [exact Htx|exact H].
    + eapply IH; [exact Htx|exact H].
Qed.

Lemma av_build_text_some b xa tx : av_build b = TOk xa tx -> tx <> None.
Proof.
  unfold av_build. destruct (av_ctor (r_text b) (r_ext b) (r_arg b)) as [xa0 tx0| | |] eqn:E; try discriminate.
  apply av_ops_text_some. unfold av_ctor in E. destruct (truthy _).
  - eapply set_text_some; exact E.
  - destruct (nonempty _); inversion E; discriminate.
Qed.

Lemma av_build_not_class10 b xa tx : av_build b = TOk xa tx -> av_text_none tx = false.
Proof. intros H. apply av_build_text_some in H. destruct tx; [reflexivity|congruence]. Qed.

(* ... and no document at all is parsed into an AttributeValue whose text member is None *)
Lemma av_parse_text_some T c ci t :
  class_at T c = Some ci -> c_kind ci = KAttrValue -> o_text (harvest T c t) <> None.
Proof.
  intros Hc Hk. destruct t as [g a x kids]. cbn [harvest]. rewrite Hc. unfold assemble. rewrite Hk.
  destruct (av_finish _ _ _ _) as [xa tx| |] eqn:E; cbn [o_text]; try discriminate.
  unfold av_finish in E. destruct (av_retyped _ _ _ _); [inversion E; discriminate|].
  unfold av_finish_f5v0 in E.
  repeat match type of E with
         | (if ?b then _ else _) = _ => destruct b
         | (let '(_, _) := ?p in _) = _ => destruct p
         | match ?c with _ => _ end = _ => destruct c
         end; inversion E; discriminate.
Qed.

Lemma text_none_refuted :
  exists xa tx, av_build (Recipe VNone [] [] [OSetText VNone]) = TOk xa tx
                /\ av_untyped_empty [] xa tx = true
                /\ harvest b_table 0%N (ser b_table (av_obj 0%N [] xa tx)) <> av_obj 0%N [] xa tx.
Proof.
  eexists. eexists. split; [vm_compute; reflexivity|]. split; [vm_compute; reflexivity|].
  apply obj_neq. vm_compute. reflexivity.
Qed.

Example set_text_empty_survives :
  harvest b_table 0%N (ser b_table (av_obj 0%N [] (av_set_type "xs:string" av_init_xattrs) (Some "")))
  = av_obj 0%N [] (av_set_type "xs:string" av_init_xattrs) (Some "").
Proof. vm_compute. reflexivity. Qed.

(* non-vacuity: the constructor theorem applies to a typed value, with an extension element *)
Example ctor_sat :
  exists xa tx, av_ctor (VInt true "12") [EE None "x" [] [] (Some "t")] [(xsi_type, "xs:string")] = TOk xa tx
                /\ dget qname_eqb xsi_type xa = Some "xs:integer" /\ tx = Some "-12".
Proof. eexists. eexists. split; [vm_compute; reflexivity|]. split; reflexivity. Qed.
