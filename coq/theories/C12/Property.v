(* C12/Property.v — property theorems only.  T is an ARBITRARY class table; trees and objects are
   unbounded.  The live tables enter through c12_live_table (re-checked on every run). *)
From Coq Require Import String List Bool NArith.
From Verif Require Import Base.Str Base.Py Base.Py2 Base.Xml Base.ClassTable C12.Model C12.Spec C12.Xsd C12.Proofs C12.Live C12.Source2
  C12.Build C12.BuildProofs C12.XsdKept C12.Prefix.
From Verif Require C12.Corr C12.SeqProofs.     (* not imported: Corr.PNone / Py2.PNone *)
From VerifGen Require Import ClassTables C12Schema C12Src2.
Import ListNotations.

(* serialise, read back with any XML reader, parse: the same instance - for every table, every
   instance all of whose classes are consistent (wf_class), without CR in character data *)
Theorem c12_roundtrip : forall T o,
  wf_obj_b T o = true -> canonical T o -> no_cr_b o = true ->
  harvest T (o_cls o) (ser T o) = o /\ harvest_status T (o_cls o) (ser T o) = SOk.
Proof. exact roundtrip_obj. Qed.
Print Assumptions c12_roundtrip.

Theorem c12_roundtrip_wf_table : forall T o,
  wf_table T = true -> canonical T o -> no_cr_b o = true ->
  harvest T (o_cls o) (ser T o) = o /\ harvest_status T (o_cls o) (ser T o) = SOk.
Proof. exact roundtrip_wf_table. Qed.
Print Assumptions c12_roundtrip_wf_table.

(* ... and serialising that again gives the same document *)
Theorem c12_reserialise : forall T o,
  wf_obj_b T o = true -> canonical T o -> no_cr_b o = true ->
  ser T (harvest T (o_cls o) (ser T o)) = ser T o.
Proof. exact reserialise_same. Qed.
Print Assumptions c12_reserialise.

(* children are written in schema order (c_child_order), foreign elements after them, at every depth *)
Theorem c12_schema_order : forall T o,
  wf_obj_b T o = true -> canonical T o -> ordered_b T (o_cls o) (ser T o) = true.
Proof. exact ser_ordered. Qed.
Print Assumptions c12_schema_order.

(* schema order judged by an oracle that is independent of the library: the ranks of the child element names in the
   content models of the XML Schema files (C12/Xsd.v).  Whenever the order table never contradicts the ranks
   (xsd_consistent_b, decidable), whatever is in the table's order is rank-monotone at every depth ... *)
Theorem c12_xsd_order : forall T X t c,
  xsd_consistent_b T X = true -> ordered_b T c t = true -> xsd_ordered_b T X c t = true.
Proof. exact xsd_order. Qed.
Print Assumptions c12_xsd_order.

(* ... the regenerated obligation: no live class's c_child_order contradicts the shipped schema files ... *)
Theorem c12_live_xsd : xsd_consistent_b live_table live_xsd = true.
Proof. exact live_xsd_ok. Qed.
Print Assumptions c12_live_xsd.

(* ... hence every instance of a live class is serialised with its children in the order of the schema files *)
Theorem c12_live_schema_order : forall o,
  canonical live_table o -> xsd_ordered_b live_table live_xsd (o_cls o) (ser live_table o) = true.
Proof.
  intros o C. apply xsd_order; [exact live_xsd_ok|].
  apply ser_ordered; [apply canonical_wf_table; [exact live_table_ok|exact C]|exact C].
Qed.
Print Assumptions c12_live_schema_order.

(* the oracle has content of its own: a consistent (wf_table) table that writes B before A satisfies its own order
   (ordered_b) and is caught by the ranks, both on the document and by the table obligation *)
Theorem c12_xsd_swap_detected :
  exists T X c t, wf_table T = true /\ ordered_b T c t = true /\ xsd_ordered_b T X c t = false /\ xsd_consistent_b T X = false.
Proof. exact xsd_swap_detected. Qed.
Print Assumptions c12_xsd_swap_detected.

(* parsing never drops what the class does not know: unknown children are exactly the extension
   elements (document order), unknown attributes are extension attributes with their value *)
Theorem c12_unknown_kept : forall T c ci t,
  class_at T c = Some ci -> NoDup (map fst (t_attrs t)) ->
  o_ext (harvest T c t) = map ee_of_tree (filter (fun k => negb (known_tag ci (t_tag k))) (t_kids t))
  /\ (forall n v, In (n, v) (t_attrs t) -> known_attr ci n = false ->
        av_managed ci n = false -> is_xmlns_name n = false -> harvest_status T c t = SOk ->
        dget qname_eqb n (o_xattrs (harvest T c t)) = Some v).
Proof. exact unknown_kept. Qed.
Print Assumptions c12_unknown_kept.

(* ... at every depth: the relation nothing_dropped of Spec.v holds between every document and what
   it is parsed into (along consistent classes; xml readers deliver wf_tree documents) *)
Theorem c12_nothing_dropped : forall T t c,
  uses_wf_b T c t = true -> wf_tree_b t = true -> harvest_status T c t = SOk ->
  nothing_dropped T c t (harvest T c t).
Proof. exact harvest_nd. Qed.
Print Assumptions c12_nothing_dropped.

(* the boolean evaluated on the implementation's output implies the stated relation *)
Theorem c12_nd_check_sound : forall T o c t, nd_b T c t o = true -> nothing_dropped T c t o.
Proof. exact nd_b_sound. Qed.
Print Assumptions c12_nd_check_sound.

(* what parsing delivers is an instance in the sense of the spec *)
Theorem c12_parse_canonical : forall T t c,
  uses_wf_b T c t = true -> wf_tree_b t = true -> harvest_status T c t = SOk ->
  canonical T (harvest T c t) /\ wf_obj_b T (harvest T c t) = true /\ no_cr_b (harvest T c t) = true.
Proof. exact harvest_canonical. Qed.
Print Assumptions c12_parse_canonical.

(* stability for EVERY document an XML reader can deliver: parse, serialise, parse gives the same object,
   and serialising again the same document *)
Theorem c12_stable : forall T c t,
  uses_wf_b T c t = true -> wf_tree_b t = true -> harvest_status T c t = SOk ->
  harvest T c (ser T (harvest T c t)) = harvest T c t
  /\ harvest_status T c (ser T (harvest T c t)) = SOk
  /\ ser T (harvest T c (ser T (harvest T c t))) = ser T (harvest T c t).
Proof. exact stable_tree. Qed.
Print Assumptions c12_stable.

Theorem c12_stable_wf_table : forall T c ci t,
  wf_table T = true -> class_at T c = Some ci ->
  wf_tree_b t = true -> harvest_status T c t = SOk ->
  ser T (harvest T c (ser T (harvest T c t))) = ser T (harvest T c t).
Proof. exact stable_wf_table. Qed.
Print Assumptions c12_stable_wf_table.

(* AttributeValueBase: the xsi:type / xsi:nil / text normalisation is idempotent *)
Theorem c12_attribute_value_idempotent : forall ext xa0 x xa1 tx1,
  NoDup (map fst xa0) -> forallb (fun kv => negb (is_xmlns_name (fst kv))) xa0 = true ->
  has_cr x = false ->
  av_finish (dmem qname_eqb xsi_nil xa0) ext (av_B xa0) x = AvOk xa1 tx1 ->
  av_fix_b ext xa1 tx1 = true.
Proof. intros ext xa0 x xa1 tx1 N X C H. exact (proj1 (av_idem ext xa0 x xa1 tx1 N X C H)). Qed.
Print Assumptions c12_attribute_value_idempotent.

(* ExtensionElement conversion loses nothing *)
Theorem c12_extension_element : forall e, ee_ok e = true -> ee_of_tree (tree_of_ee e) = e.
Proof. exact ee_tree_ee. Qed.
Print Assumptions c12_extension_element.

Theorem c12_extension_tree : forall t, wf_tree_b t = true -> tree_of_ee (ee_of_tree t) = t.
Proof. exact tree_ee_tree. Qed.
Print Assumptions c12_extension_tree.

(* the regenerated table: EVERY live class is consistent (no exception list since fix 08cd9707) *)
Theorem c12_live_table : wf_table live_table = true.
Proof. exact live_table_ok. Qed.
Print Assumptions c12_live_table.

(* hence, for the live classes, without any guard on the classes involved *)
Theorem c12_live_roundtrip : forall o,
  canonical live_table o -> no_cr_b o = true ->
  harvest live_table (o_cls o) (ser live_table o) = o /\ harvest_status live_table (o_cls o) (ser live_table o) = SOk.
Proof. intros o. apply roundtrip_wf_table. exact live_table_ok. Qed.
Print Assumptions c12_live_roundtrip.

Theorem c12_live_stable : forall c ci t,
  class_at live_table c = Some ci -> wf_tree_b t = true -> harvest_status live_table c t = SOk ->
  ser live_table (harvest live_table c (ser live_table (harvest live_table c t))) = ser live_table (harvest live_table c t).
Proof. intros c ci t. apply stable_wf_table. exact live_table_ok. Qed.
Print Assumptions c12_live_stable.

(* the comparisons Coq evaluates on the implementation's output are equalities *)
Theorem c12_obj_eqb : forall a b, obj_eqb a b = true <-> a = b.
Proof. exact obj_eqb_eq. Qed.
Print Assumptions c12_obj_eqb.

Theorem c12_tree_eqb : forall a b, tree_eqb a b = true <-> a = b.
Proof. exact tree_eqb_eq. Qed.
Print Assumptions c12_tree_eqb.

(* the pre-fix behaviour violated the property.  C12-F1 (fixed by 08cd9707): a table that registers a child under a
   tag its class does not carry (the pattern of the old ds:KeyInfo table) loses the member on the round trip *)
Theorem c12_f1_v0_refuted : exists T o, canonical T o /\ no_cr_b o = true /\ harvest T (o_cls o) (ser T o) <> o.
Proof. exact roundtrip_refuted_f1. Qed.
Print Assumptions c12_f1_v0_refuted.

(* C12-F3 (fixed by 49fc7848): before the fix the type name "xs:" erased the text ("secret" -> "") and the result was
   not a fixpoint of the normalisation; now such a name is refused (f3_now_refused) *)
Theorem c12_f3_v0_refuted : exists xa0 x xa1 tx1,
  NoDup (map fst xa0) /\ forallb (fun kv => negb (is_xmlns_name (fst kv))) xa0 = true /\ has_cr x = false /\
  av_finish_v0 [] (av_B xa0) x = AvOk xa1 tx1 /\ tx1 = Some ""%string /\ x <> ""%string /\ av_fix_v0_b [] xa1 tx1 = false.
Proof. exact av_v0_refuted_f3. Qed.
Print Assumptions c12_f3_v0_refuted.

(* open finding C12-F2: the guard on carriage returns is needed *)
Theorem c12_refuted_cr : exists T o, wf_table T = true /\ canonical T o /\ harvest T (o_cls o) (ser T o) <> o.
Proof. exact roundtrip_refuted_cr. Qed.
Print Assumptions c12_refuted_cr.

(* ---------------------------------------------------------------- round 5: the BUILDING side (C12/Build.v)
   What AttributeValueBase.__init__(text=v, extension_elements=ext, extension_attributes=arg) builds is what parsing
   the corresponding element delivers - for every Python value v (None / str / bytes / int / bool; float is outside
   the model), every list of extension elements and every arg (the argument never reaches the instance):
   a falsy v (None, "", b"", 0, False) is <AttributeValue xsi:nil="true"/>, a str is the untyped element with that
   text, an int is xs:integer with str(v), True is xs:boolean "true". *)
Theorem c12_av_ctor_is_parse : forall v ext arg,
  pyv_ok v = true -> modelled v = true ->
  av_x1 ext (ctor_doc_text v) = ctor_doc_text v ->
  to_av (av_ctor v ext arg)
  = av_finish (dmem qname_eqb xsi_nil (ctor_doc_attrs v)) ext (av_B (ctor_doc_attrs v)) (ctor_doc_text v).
Proof. exact ctor_is_parse. Qed.
Print Assumptions c12_av_ctor_is_parse.

(* ... hence an instance in the sense of the spec, which survives serialising and parsing unchanged and
   byte-identically (any table, any class of kind KAttrValue without schema attributes / children; text without CR,
   and without outer white space when there are extension elements: av_x1) *)
Theorem c12_av_ctor_roundtrip : forall T c ci v ext arg xa tx,
  class_at T c = Some ci -> c_kind ci = KAttrValue -> c_attributes ci = [] -> c_children ci = [] ->
  wf_class T ci = true ->
  pyv_ok v = true -> modelled v = true ->
  forallb ee_ok ext = true -> forallb ee_no_cr ext = true ->
  av_x1 ext (ctor_doc_text v) = ctor_doc_text v -> has_cr (ctor_doc_text v) = false ->
  av_ctor v ext arg = TOk xa tx ->
  let o := av_obj c ext xa tx in
  canonical T o /\ harvest T c (ser T o) = o /\ harvest_status T c (ser T o) = SOk
  /\ ser T (harvest T c (ser T o)) = ser T o.
Proof. intros T c ci v ext arg xa tx H1 H2 H3 H4. exact (ctor_roundtrip T c ci H1 H2 H3 H4 v ext arg xa tx). Qed.
Print Assumptions c12_av_ctor_roundtrip.

(* a fresh instance, then set_text(v) / .text = v with a value whose text is not empty *)
Theorem c12_av_fresh_set_text_roundtrip : forall T c ci v xa tx,
  class_at T c = Some ci -> c_kind ci = KAttrValue -> c_attributes ci = [] -> c_children ci = [] ->
  wf_class T ci = true ->
  pyv_ok v = true -> modelled v = true -> is_empty (py_text v) = false -> has_cr (py_text v) = false ->
  av_set_text v av_init_xattrs = TOk xa tx ->
  let o := av_obj c [] xa tx in
  canonical T o /\ harvest T c (ser T o) = o /\ harvest_status T c (ser T o) = SOk
  /\ ser T (harvest T c (ser T o)) = ser T o.
Proof. intros T c ci v xa tx H1 H2 H3 H4. exact (fresh_set_text_roundtrip T c ci H1 H2 H3 H4 v xa tx). Qed.
Print Assumptions c12_av_fresh_set_text_roundtrip.

(* for the live table: every class of kind KAttrValue is such a class (regenerated obligation live_av_plain) *)
Theorem c12_live_av_ctor_roundtrip : forall c ci v ext arg xa tx,
  class_at live_table c = Some ci -> c_kind ci = KAttrValue ->
  pyv_ok v = true -> modelled v = true ->
  forallb ee_ok ext = true -> forallb ee_no_cr ext = true ->
  av_x1 ext (ctor_doc_text v) = ctor_doc_text v -> has_cr (ctor_doc_text v) = false ->
  av_ctor v ext arg = TOk xa tx ->
  let o := av_obj c ext xa tx in
  harvest live_table c (ser live_table o) = o /\ ser live_table (harvest live_table c (ser live_table o)) = ser live_table o.
Proof.
  intros c ci v ext arg xa tx Hc Hk OK M E ECR X1 CR H o.
  pose proof live_av_plain as P. rewrite forallb_forall in P.
  assert (In_ci : In ci live_table) by (unfold class_at in Hc; eapply nth_error_In; exact Hc).
  specialize (P ci In_ci). rewrite Hk in P.
  destruct (c_attributes ci) as [|a ra] eqn:Ea; [|discriminate]. destruct (c_children ci) as [|k rk] eqn:Ek; [|discriminate].
  destruct (ctor_roundtrip live_table c ci Hc Hk Ea Ek v ext arg xa tx (live_classes_wf c ci Hc) OK M E ECR X1 CR H)
    as [_ [R1 [_ R3]]].
  split; [exact R1|exact R3].
Qed.
Print Assumptions c12_live_av_ctor_roundtrip.

(* C12-F5 (fixed by c1c601fb): set_text("") on a fresh instance leaves a typed, empty element without nil marker.
   Against the parsing side as it was before the fix (av_finish_f5v0: the marker came back) it was no fixpoint ... *)
Theorem c12_av_set_text_empty_v0_refuted :
  exists xa tx, av_build (Recipe VNone [] [] [OSetText (VStr "")]) = TOk xa tx
                /\ av_typed_empty [] xa tx = true
                /\ av_fix_f5v0_b [] xa tx = false.
Proof. exact set_text_empty_f5v0_refuted. Qed.
Print Assumptions c12_av_set_text_empty_v0_refuted.

(* ... with the parsing side as it is now (an empty element that declares a type and is not marked nil is the empty
   value of that type) EVERY empty value of a declared type survives: a bare set_type(t) for every non-empty t, and
   set_text("") / .text = "" on a fresh instance, which is set_type("xs:string") (c12_av_set_text_empty_state).
   Outside: an empty type NAME (.text = None, set_type("")) and clear_type() on such an instance - class 8 below. *)
Theorem c12_av_typed_empty_roundtrip : forall T c ci t,
  class_at T c = Some ci -> c_kind ci = KAttrValue -> c_attributes ci = [] -> c_children ci = [] ->
  wf_class T ci = true -> is_empty t = false ->
  let o := av_obj c [] (av_set_type t av_init_xattrs) (Some ""%string) in
  canonical T o /\ harvest T c (ser T o) = o /\ harvest_status T c (ser T o) = SOk
  /\ ser T (harvest T c (ser T o)) = ser T o.
Proof. intros T c ci t H1 H2 H3 H4. exact (typed_empty_roundtrip T c ci H1 H2 H3 H4 t). Qed.
Print Assumptions c12_av_typed_empty_roundtrip.

Theorem c12_av_set_text_empty_state :
  av_set_text (VStr "") av_init_xattrs = TOk (av_set_type "xs:string" av_init_xattrs) (Some ""%string).
Proof. exact set_text_empty_state. Qed.
Print Assumptions c12_av_set_text_empty_state.

(* the guards are necessary (open findings C12-F8 = what remains of F5, C12-F6, C12-F7; faithful model of the code
   as it is): .text = None on a fresh instance leaves xsi:type="" without nil marker, which parsing marks nil *)
Theorem c12_av_text_none_refuted :
  exists xa tx, av_build (Recipe VNone [] [] [OSetText VNone]) = TOk xa tx
                /\ av_untyped_empty [] xa tx = true
                /\ harvest b_table 0%N (ser b_table (av_obj 0%N [] xa tx)) <> av_obj 0%N [] xa tx.
Proof. exact text_none_refuted. Qed.
Print Assumptions c12_av_text_none_refuted.

(* finding C12-F10, FIXED in /repo (to_text of anyType maps None to ""): BEFORE the repair set_text(None) under
   xs:anyType kept None as the text member (to_text was the identity); the instance serialised like the empty value,
   parsing delivered the text "" - the bytes were stable, the object was not ... *)
Theorem c12_av_anytype_none_v0_refuted :
  exists xa, av_set_text_f10v0 VNone (av_set_type "xs:anyType" av_init_xattrs) = TOk xa None
             /\ av_known_class [] xa None = 10
             /\ o_text (harvest b_table 0%N (ser b_table (av_obj 0%N [] xa None))) = Some ""%string
             /\ ser b_table (harvest b_table 0%N (ser b_table (av_obj 0%N [] xa None))) = ser b_table (av_obj 0%N [] xa None).
Proof. exact anytype_none_v0_refuted. Qed.
Print Assumptions c12_av_anytype_none_v0_refuted.

(* ... the same calls on the code as it is now store the text "": the typed empty value, which survives the round trip *)
Theorem c12_av_anytype_none_now :
  exists xa, av_build (Recipe VNone [] [] [OSetType "xs:anyType"; OSetText VNone]) = TOk xa (Some ""%string)
             /\ av_known_class [] xa (Some ""%string) = 5
             /\ harvest b_table 0%N (ser b_table (av_obj 0%N [] xa (Some ""%string))) = av_obj 0%N [] xa (Some ""%string).
Proof. exact anytype_none_now. Qed.
Print Assumptions c12_av_anytype_none_now.

(* ... and since the repair NO recipe at all (any constructor arguments followed by any sequence of set_text / set_type /
   clear_type / item assignments, of any length) builds an AttributeValue whose text member is None: class 10 is empty
   on the building side as it is on the parsing side (next theorem) *)
Theorem c12_av_set_text_some : forall v xa xa' tx, av_set_text v xa = TOk xa' tx -> tx <> None.
Proof. exact set_text_some. Qed.
Print Assumptions c12_av_set_text_some.

Theorem c12_av_build_text_some : forall b xa tx, av_build b = TOk xa tx -> tx <> None.
Proof. exact av_build_text_some. Qed.
Print Assumptions c12_av_build_text_some.

Theorem c12_av_build_not_class10 : forall b xa tx, av_build b = TOk xa tx -> av_text_none tx = false.
Proof. exact av_build_not_class10. Qed.
Print Assumptions c12_av_build_not_class10.

(* ... and the class is exactly "text member None": NO document is parsed into an AttributeValue with text None *)
Theorem c12_av_parse_text_some : forall T c ci t,
  class_at T c = Some ci -> c_kind ci = KAttrValue -> o_text (harvest T c t) <> None.
Proof. exact av_parse_text_some. Qed.
Print Assumptions c12_av_parse_text_some.

Theorem c12_av_ws_ext_refuted :
  exists e xa tx, av_ctor (VStr " a ") [e] [] = TOk xa tx /\ av_ws_ext [e] xa tx = true
                  /\ harvest b_table 0%N (ser b_table (av_obj 0%N [e] xa tx)) <> av_obj 0%N [e] xa tx.
Proof. exact ws_ext_refuted. Qed.
Print Assumptions c12_av_ws_ext_refuted.

Theorem c12_av_xmlns_order_refuted :
  exists xa tx, av_build (Recipe (VStr "a") [] [] [OXAttr (QN None "foo") "bar"]) = TOk xa tx
                /\ av_xmlns_misplaced [] xa tx = true
                /\ harvest b_table 0%N (ser b_table (av_obj 0%N [] xa tx)) <> av_obj 0%N [] xa tx.
Proof. exact xmlns_order_refuted. Qed.
Print Assumptions c12_av_xmlns_order_refuted.

(* ---------------------------------------------------------------- round 5: WHICH children are unknown is said by the
   schema files.  Whenever a table registers only children of the schema's content model (xsd_known_b, decidable),
   "nothing dropped" as the table sees it implies that every child the SCHEMA does not give the element is an
   extension element ... *)
Theorem c12_xsd_kept : forall T X A c t o,
  xsd_known_b T X A = true -> nd_b T c t o = true -> xsd_kept_b T X A c t o = true.
Proof. exact nd_xsd_kept. Qed.
Print Assumptions c12_xsd_kept.

(* ... the regenerated obligation: no live class registers a child its schema type does not have (reviewed
   exceptions: Xsd.xsd_extra_allowed) ... *)
Theorem c12_live_xsd_known : xsd_known_b live_table live_xsd xsd_extra_allowed = true.
Proof. exact live_xsd_known_ok. Qed.
Print Assumptions c12_live_xsd_known.

(* ---------------------------------------------------------------- round 7: the BRACKETS of every child entry of the
   live table agree with the class's own c_cardinality (regenerated obligation Live.live_brackets_ok) ... *)
Theorem c12_live_brackets_card : forallb brackets_ok_b live_table = true.
Proof. exact live_brackets_ok. Qed.
Print Assumptions c12_live_brackets_card.

(* ... so a child a live class declares repeatable (no max, max > 1) is list-valued in the table the model parses along
   (a list member appends every occurrence, only a singleton keeps the last), and a child declared single is a singleton *)
Theorem c12_live_repeatable_is_list : forall c ci s,
  class_at live_table c = Some ci -> In s (c_children ci) -> ch_class s <> None ->
  card_many ci (ch_member s) = Some true -> ch_list s = true.
Proof. exact live_repeatable_is_list. Qed.
Print Assumptions c12_live_repeatable_is_list.

Theorem c12_live_single_is_single : forall c ci s,
  class_at live_table c = Some ci -> In s (c_children ci) -> ch_class s <> None ->
  card_many ci (ch_member s) = Some false -> ch_list s = false.
Proof. exact live_single_is_single. Qed.
Print Assumptions c12_live_single_is_single.

(* ... and a table polluted by a sibling's child (the aliased child table) is consistent in itself, satisfies nd_b,
   and is caught both by the obligation and on the document *)
Theorem c12_xsd_pollution_detected :
  nd_b x_table_polluted 0%N x_doc_s (harvest x_table_polluted 0%N x_doc_s) = true
  /\ xsd_kept_b x_table_polluted x_xsd [] 0%N x_doc_s (harvest x_table_polluted 0%N x_doc_s) = false
  /\ xsd_known_b x_table_polluted x_xsd [] = false
  /\ xsd_kept_b (x_table ["a"; "b"]%string) x_xsd [] 0%N x_doc_s (harvest (x_table ["a"; "b"]%string) 0%N x_doc_s) = true
  /\ xsd_known_b (x_table ["a"; "b"]%string) x_xsd [] = true.
Proof. exact xsd_pollution_detected. Qed.
Print Assumptions c12_xsd_pollution_detected.

(* ---------------------------------------------------------------- tie to the source TEXT (translator v2)
   gen/C12Src2.v is re-translated from saml2/__init__.py and saml2/saml.py on every run; C12/Source2.v proves each
   definition equal to the model function it mirrors, for ALL inputs of the model's domain.  Names travel as Clark
   strings; key_ok q = "the string written for q reads back as q" (every name an XML reader delivers; every name of
   the live table: live_names_ok_true).  External calls are universally quantified functions. *)

(* create_class_from_element_tree: the root tag check of parse_root / mparse *)
Theorem c12_source2_create_class_from_element_tree :
  forall (construct : pyval -> pyval) (harvest : pyval -> pyval -> pyval) ns tag crest g trest (ons otag : option string),
    let ns' := match ons with Some n => n | None => ns end in
    let tag' := match otag with Some t => t | None => tag end in
    key_ok g = true -> key_ok (QN (Some ns') tag') = true ->
    src2_create_class_from_element_tree construct harvest (enc_class ns tag crest) (enc_node g trest)
                                        (enc_ostr ons) (enc_ostr otag)
    = if qname_eqb g (QN (Some ns') tag')
      then py_bind (construct (enc_class ns tag crest))
                   (fun target => py_bind (harvest target (enc_node g trest)) (fun _ => target))
      else PNone.
Proof. exact src2_create_class_from_element_tree_is_model. Qed.
Print Assumptions c12_source2_create_class_from_element_tree.

(* ExtensionContainer._convert_element_attribute_to_member: place_attr for a name the class does not know *)
Theorem c12_source2_ec_convert_attribute : forall cls xa rest q v,
  keys_ok xa = true -> key_ok q = true ->
  src2_ec_convert_attribute (enc_self cls xa rest) (PStr (clark q)) (PStr v)
  = PList [PNone; enc_self cls (dset qname_eqb q v xa) rest].
Proof. exact src2_ec_convert_attribute_is_model. Qed.
Print Assumptions c12_source2_ec_convert_attribute.

(* SamlBase._convert_element_attribute_to_member: place_attr (lookup by EXPANDED name, member stored, or delegation) *)
Theorem c12_source2_convert_attribute :
  forall (ec_convert : pyval -> pyval -> pyval -> pyval) ci,
    names_ok_b ci = true -> members_plain_b ci = true ->
    forall cls xa oa rest q v,
    key_ok q = true -> NoDup (map fst oa) ->
    (forall a, find_attr ci q = Some a -> In (at_member a) (map fst oa)) ->
    src2_convert_attribute (enc_cattrs ci) ec_convert (enc_obj cls xa oa rest) (PStr (clark q)) (PStr v)
    = match find_attr ci q with
      | Some a => PList [PNone; enc_obj cls xa (set_member (at_member a) (Some v) oa) rest]
      | None => py_bindh (fun n => PList [PExc n; enc_obj cls xa oa rest])
                         (ec_convert (enc_obj cls xa oa rest) (PStr (clark q)) (PStr v))
                         (fun _ => PList [PNone; enc_obj cls xa oa rest])
      end.
Proof. exact src2_convert_attribute_is_model. Qed.
Print Assumptions c12_source2_convert_attribute.

(* ... and its hypotheses on the class hold for every class of the regenerated live table *)
Theorem c12_source2_convert_attribute_live : forall ec_convert c ci cls xa oa rest q v,
  class_at live_table c = Some ci ->
  key_ok q = true -> NoDup (map fst oa) ->
  (forall a, find_attr ci q = Some a -> In (at_member a) (map fst oa)) ->
  src2_convert_attribute (enc_cattrs ci) ec_convert (enc_obj cls xa oa rest) (PStr (clark q)) (PStr v)
  = match find_attr ci q with
    | Some a => PList [PNone; enc_obj cls xa (set_member (at_member a) (Some v) oa) rest]
    | None => py_bindh (fun n => PList [PExc n; enc_obj cls xa oa rest])
                       (ec_convert (enc_obj cls xa oa rest) (PStr (clark q)) (PStr v))
                       (fun _ => PList [PNone; enc_obj cls xa oa rest])
    end.
Proof. exact src2_convert_attribute_live. Qed.
Print Assumptions c12_source2_convert_attribute_live.

(* AttributeValueBase.set_type: av_set_type *)
Theorem c12_source2_set_type : forall cls xa rest typ,
  keys_ok xa = true ->
  src2_set_type (enc_self cls xa rest) (PStr typ) = PList [PNone; enc_self cls (av_set_type typ xa) rest].
Proof. exact src2_set_type_is_model. Qed.
Print Assumptions c12_source2_set_type.

(* AttributeValueBase.get_type: the xsi:type extension attribute or "" (av_finish: get_type() or "string") *)
Theorem c12_source2_get_type : forall cls xa rest,
  keys_ok xa = true ->
  src2_get_type (enc_self cls xa (("_extatt", PObj []) :: rest)) = PStr (get_type_m xa).
Proof. exact src2_get_type_is_model. Qed.
Print Assumptions c12_source2_get_type.

(* ExtensionElement.transfer_to_element_tree: name, attributes and text of tree_of_ee *)
Theorem c12_source2_transfer_to_element_tree :
  forall (new_element : pyval -> pyval) (become_child : pyval -> pyval -> pyval),
    new_element (PStr "") = enc_elem "" [] PNone ->
    (forall c t, is_bad (become_child c t) = false) ->
    forall ns tag att ks text,
    keys_ok att = true ->
    src2_transfer_to_element_tree new_element become_child (enc_ee_obj ns tag att ks text)
    = enc_elem (clark (QN ns tag)) (adict att) (enc_ostr text).
Proof. exact src2_transfer_to_element_tree_is_model. Qed.
Print Assumptions c12_source2_transfer_to_element_tree.

(* SamlBase._add_members_to_element_tree: to_tree's attribute part (known_attrs: every member that is not None, the
   empty string included, in c_attributes order, by dict assignment) *)
Theorem c12_source2_add_members :
  forall (child_order : pyval -> pyval) (become_child ec_add : pyval -> pyval -> pyval) ci (self : pyval) (names : list string),
    names_ok_b ci = true -> members_plain_b ci = true ->
    child_order self = PList (map PStr names) ->
    (forall c t, is_bad (become_child c t) = false) ->
    (forall s t, is_bad (ec_add s t) = false) ->
    (forall n, In n names -> member_val_ok (p2_getattr_dyn false self (PStr n)) = true) ->
    forall cls xa oa rest,
    self = enc_obj cls xa oa rest ->
    (forall a, In a (c_attributes ci) -> In (at_member a) (map fst oa)) ->
    forall tag acc text,
    keys_ok acc = true ->
    src2_add_members (enc_cattrs ci) child_order become_child ec_add self (enc_elem tag acc text)
    = PList [PNone; enc_elem tag (dset_all qname_eqb acc (known_attrs ci oa)) text].
Proof. exact src2_add_members_is_model. Qed.
Print Assumptions c12_source2_add_members.

(* ---------------------------------------------------------------- strengthening round 5: HISTORIES of serialisation calls
   (to_string(nspair) / register_prefix / to_string_force_namespace on long-lived instances in one process; C12/Prefix.v,
   Corr.SEQ, C12/SeqProofs.v).

   The process-global prefix registry behind register_prefix (ElementTree.register_namespace, the ValueError for a
   prefix of ElementTree's own form ns<N> ignored): after EVERY history of calls, with any arguments, starting from what
   ElementTree ships with, the registered prefixes are pairwise distinct and none has the reserved form ... *)
Theorem c12_prefix_history : forall hist, map_ok (fold_left register_prefix hist builtin_map).
Proof. intros hist. apply history_ok. exact builtin_ok. Qed.
Print Assumptions c12_prefix_history.

Theorem c12_prefix_history_any : forall m hist, map_ok m -> map_ok (fold_left register_prefix hist m).
Proof. intros m hist. apply history_ok. Qed.
Print Assumptions c12_prefix_history_any.

(* ... and under such a registry the namespace declarations ElementTree writes on the root, for ANY tree (any list of
   namespaces in first-use order), are one per namespace with pairwise distinct prefixes - what is written is
   well-formed and every name reads back in its own namespace *)
Theorem c12_prefix_declarations_distinct : forall m uris,
  map_ok m -> NoDup (map snd (assign m uris [])) /\ NoDup (map fst (assign m uris [])).
Proof. exact assign_nodup. Qed.
Print Assumptions c12_prefix_declarations_distinct.

(* the check Coq evaluates on the OBSERVED registry after every step is that invariant *)
Theorem c12_prefix_map_check : forall m, map_ok_b m = true <-> map_ok m.
Proof. exact map_ok_b_iff. Qed.
Print Assumptions c12_prefix_map_check.

(* the invariant is needed: a registry with one prefix for two namespaces breaks every tree that uses both ... *)
Theorem c12_prefix_dup_breaks : forall m u1 u2 p,
  dget String.eqb u1 m = Some p -> dget String.eqb u2 m = Some p -> u1 <> u2 -> p <> "xml"%string ->
  assign m [u1; u2] [] = [(u1, p); (u2, p)].
Proof. exact dup_prefix_breaks. Qed.
Print Assumptions c12_prefix_dup_breaks.

(* ... and writing the pairs straight into the map (what the ET < 1.3 fallback of register_prefix does) does not keep
   it: the same prefix asked for a second namespace later, or a prefix ns<N>, give a registry under which a tree is
   declared with one prefix twice, where register_prefix keeps the registry usable *)
Theorem c12_prefix_direct_write_refuted :
  (exists np1 np2, map_ok_b (direct_write (direct_write builtin_map np1) np2) = false
                   /\ map_ok_b (register_prefix (register_prefix builtin_map np1) np2) = true)
  /\ (exists np, map_ok_b (direct_write builtin_map np) = false /\ map_ok_b (register_prefix builtin_map np) = true
                 /\ exists uris, nodup_b String.eqb (map snd (assign (direct_write builtin_map np) uris [])) = false).
Proof. exact direct_write_refuted. Qed.
Print Assumptions c12_prefix_direct_write_refuted.

(* every history of to_string() / to_string(nspair) / register_prefix(nspair) calls, of any length, on any number of
   instances in the sense of the property, under a consistent table and from a usable registry: what is observed in
   agreement with the model (the registry follows register_prefix, every call leaves the instance as it was and writes
   ser T o) satisfies the property at every step - registry usable, instance unchanged, the same well-formed document
   in schema order every time, parsed back to the instance that was built (Corr.step_ok) *)
Theorem c12_history : forall T X objs gm0 steps,
  wf_table T = true -> xsd_consistent_b T X = true ->
  Forall (SeqProofs.in_domain T) objs -> map_ok gm0 ->
  (forall s, In s steps -> Corr.writes (Corr.st_op s) = true -> Corr.exact_op (Corr.st_op s) = true) ->
  (forall s so, In s steps -> nth_error objs (Corr.st_j s) = Some so ->
                pseudo_clash (Corr.step_binds (Corr.st_gm s) (Corr.st_op s)) (to_tree T (Corr.dense T so)) = false) ->
  Corr.agrees_steps T objs gm0 steps = true ->
  map_ok_b gm0 && forallb (Corr.step_ok T X objs steps) steps = true.
Proof. intros T X objs gm0 steps W XC. exact (SeqProofs.seq_agrees_holds T X W XC objs gm0 steps). Qed.
Print Assumptions c12_history.

(* for the live classes and the registry ElementTree starts with *)
Theorem c12_live_history : forall objs steps,
  Forall (SeqProofs.in_domain live_table) objs ->
  (forall s, In s steps -> Corr.writes (Corr.st_op s) = true -> Corr.exact_op (Corr.st_op s) = true) ->
  (forall s so, In s steps -> nth_error objs (Corr.st_j s) = Some so ->
                pseudo_clash (Corr.step_binds (Corr.st_gm s) (Corr.st_op s)) (to_tree live_table (Corr.dense live_table so)) = false) ->
  Corr.agrees_steps live_table objs builtin_map steps = true ->
  map_ok_b builtin_map && forallb (Corr.step_ok live_table live_xsd objs steps) steps = true.
Proof. intros objs steps. exact (SeqProofs.seq_agrees_holds_builtin live_table live_xsd live_table_ok live_xsd_ok objs steps). Qed.
Print Assumptions c12_live_history.

(* non-vacuity: to_string({"p": "urn:x"}) followed by to_string() on the nil AttributeValue of the one-class table *)
Theorem c12_history_sat :
  let so := Corr.SO 0%N [] [] [] [(xsi_nil, "true"%string)] (Some ""%string) in
  let t := ser b_table (Corr.dense b_table so) in
  let m := register_prefix builtin_map [("p", "urn:x")]%string in
  let steps := [Corr.SStep 0 (Corr.SNs [("p", "urn:x")]%string) m so (Some t) (Corr.POk so) 1; Corr.SStep 0 Corr.SPlain m so (Some t) (Corr.POk so) 2] in
  SeqProofs.in_domain b_table so /\ Corr.agrees_steps b_table [so] builtin_map steps = true
  /\ Corr.holds_seq b_table [] builtin_map [so] steps = true.
Proof. vm_compute. repeat split; reflexivity. Qed.
Print Assumptions c12_history_sat.
