(* C12/SeqProofs.v — histories of serialisation calls (Corr.SEQ): the model satisfies the property.

   The model of a history (Corr.agrees_steps): the prefix registry follows Prefix.register_prefix, every call leaves
   the instance as it was and writes ser T o.  seq_agrees_holds: for EVERY history of to_string() / to_string(nspair) /
   register_prefix(nspair) calls, of any length, on any number of instances in the sense of the property (canonical, no
   CR) of a consistent table, starting from a usable registry: whatever is observed in agreement with the model
   satisfies the property step by step (Corr.step_ok: registry usable after every call, instance unchanged, the same
   well-formed document in schema order every time, parsed back to the instance that was built).  Put the other way
   round: in this domain a step that breaks the property is a step on which implementation and model disagree.
   The prefix-forcing calls (to_string_force_namespace, the self-contained variant) are outside this theorem: their
   documents are compared up to attribute order, and "nothing dropped" is only proved in the sound direction. *)
From Coq Require Import String List Bool Arith NArith Lia.
From Verif Require Import Base.Str Base.Run Base.Xml Base.ClassTable C12.Model C12.Spec C12.Xsd C12.Proofs C12.Build
  C12.Prefix C12.Corr.
Import ListNotations.

Lemma pair_eqb_eq (a b : string * string) :
  String.eqb (fst a) (fst b) && String.eqb (snd a) (snd b) = true <-> a = b.
Proof.
  destruct a as [a1 a2], b as [b1 b2]. cbn [fst snd]. rewrite andb_true_iff, !String.eqb_eq.
  split; [intros [-> ->]; reflexivity|intros H; inversion H; auto].
Qed.

Lemma pairs_eqb_eq a b : pairs_eqb a b = true <-> a = b.
Proof. unfold pairs_eqb. apply list_eqb_eq. exact pair_eqb_eq. Qed.

Lemma obj_eqb_refl o : obj_eqb o o = true.
Proof. apply obj_eqb_eq. reflexivity. Qed.

Section SeqProofs.
  Variable T : table.
  Variable X : xsd_table.
  Hypothesis WT : wf_table T = true.
  Hypothesis XC : xsd_consistent_b T X = true.

  Definition in_domain (so : sobj) : Prop :=
    canonical_b T (dense T so) = true /\ no_cr_b (dense T so) = true.

  Lemma mparse_ser o : canonical_b T o = true -> no_cr_b o = true -> mparse T (o_cls o) (ser T o) = MOk o.
  Proof.
    intros C N. destruct (roundtrip_wf_table T o WT C N) as [R1 R2]. unfold mparse.
    destruct (class_at T (o_cls o)) as [ci|] eqn:E.
    - rewrite (t_tag_ser T o ci E), qname_eqb_refl, R2, R1. reflexivity.
    - destruct o as [c oa kids ext xa tx]. cbn [o_cls] in E. cbn [canonical_b] in C. rewrite E in C. discriminate.
  Qed.

  Lemma agree_pres_MOk o r : agree_pres T (MOk o) r = true -> exists s, r = POk s /\ dense T s = o.
  Proof.
    destruct r as [s| |]; cbn [agree_pres]; try discriminate. intros H. apply andb_true_iff in H as [_ H].
    apply obj_eqb_eq in H. exists s. split; [reflexivity|symmetry; exact H].
  Qed.

  Lemma in_order_ser o : canonical_b T o = true -> in_order T X (o_cls o) (ser T o) = true.
  Proof.
    intros C. unfold in_order. assert (O : ordered_b T (o_cls o) (ser T o) = true).
    { apply ser_ordered; [apply canonical_wf_table; assumption|exact C]. }
    rewrite O. cbn [andb]. apply xsd_order; assumption.
  Qed.

  (* what agreement with the model says about one step *)
  Definition fact (objs : list sobj) (s : sstep) : Prop :=
    match s with
    | SStep j op gm after out r _ =>
        exists so, nth_error objs j = Some so /\ map_ok gm /\ dense T after = dense T so /\
          (exact_op op = true -> pseudo_clash (step_binds gm op) (to_tree T (dense T so)) = false ->
           out = Some (ser T (dense T so)) /\ exists s', r = POk s' /\ dense T s' = dense T so)
    end.

  Lemma model_map_ok m op : map_ok m -> map_ok (model_map m op).
  Proof. destruct op; cbn [model_map]; intros H; try exact H; apply register_prefix_ok; exact H. Qed.

  Lemma agrees_facts objs : Forall in_domain objs ->
    forall steps m, map_ok m -> agrees_steps T objs m steps = true -> Forall (fact objs) steps.
  Proof.
    intros D. induction steps as [|[j op gm after out r bid] rest IH]; intros m OK A; [constructor|].
    cbn [agrees_steps] in A. destruct (nth_error objs j) as [so|] eqn:Hn; [|discriminate].
    apply andb_true_iff in A as [A Arest]. apply andb_true_iff in A as [A Aout]. apply andb_true_iff in A as [Amap Aaft].
    apply pairs_eqb_eq in Amap. apply obj_eqb_eq in Aaft.
    pose proof (model_map_ok m op OK) as OK'. rewrite Amap in OK'.
    constructor.
    - cbn [fact]. exists so. split; [exact Hn|]. split; [exact OK'|]. split; [exact Aaft|].
      intros Ex NC. rewrite NC in Aout.
      rewrite Forall_forall in D. destruct (D so (nth_error_In _ _ Hn)) as [C N].
      assert (W : writes op = true) by (destruct op; cbn in Ex |- *; congruence).
      rewrite W in Aout. cbn [negb orb] in Aout.
      assert (Aout' : match out with
                      | Some t => tree_eqb (ser T (dense T so)) t
                                  && agree_pres T (mparse T (o_cls (dense T so)) t) r
                      | None => false
                      end = true).
      { destruct op; cbn in Ex; try discriminate; destruct out; exact Aout. }
      destruct out as [t|]; [|discriminate]. apply andb_true_iff in Aout' as [Et Ar]. apply tree_eqb_eq in Et. subst t.
      split; [reflexivity|]. rewrite (mparse_ser _ C N) in Ar. apply agree_pres_MOk. exact Ar.
    - apply (IH (model_map m op)); [rewrite Amap; exact OK'|exact Arest].
  Qed.

  Theorem seq_agrees_holds objs gm0 steps :
    Forall in_domain objs -> map_ok gm0 ->
    (* only to_string() / to_string(nspair) / register_prefix(nspair) *)
    (forall s, In s steps -> writes (st_op s) = true -> exact_op (st_op s) = true) ->
    (* no prefix bound against the xmlns:xs pseudo attribute of a typed AttributeValue (finding class 4) *)
    (forall s so, In s steps -> nth_error objs (st_j s) = Some so ->
                  pseudo_clash (step_binds (st_gm s) (st_op s)) (to_tree T (dense T so)) = false) ->
    agrees_steps T objs gm0 steps = true ->
    map_ok_b gm0 && forallb (step_ok T X objs steps) steps = true.
  Proof.
    intros D OK0 EX NC A. apply andb_true_iff. split; [apply map_ok_b_iff; exact OK0|].
    pose proof (agrees_facts objs D steps gm0 OK0 A) as F. rewrite Forall_forall in F.
    apply forallb_forall. intros s Hs. pose proof (F s Hs) as Fs. pose proof (EX s Hs) as EXs. pose proof (NC s) as NCs.
    destruct s as [j op gm after out r bid]. cbn [st_op st_j st_gm] in EXs, NCs. cbn [fact] in Fs.
    destruct Fs as [so [Hn [OKg [Haft Hex]]]]. specialize (NCs so Hs Hn).
    cbn [step_ok]. rewrite Hn, Haft, obj_eqb_refl. rewrite (proj2 (map_ok_b_iff gm) OKg). cbn [andb].
    destruct (writes op) eqn:W; [|reflexivity]. cbn [negb orb]. specialize (EXs eq_refl).
    destruct (Hex EXs NCs) as [Eo [s' [Er Es']]]. subst out r.
    rewrite Forall_forall in D. destruct (D so (nth_error_In _ _ Hn)) as [C N].
    rewrite (in_order_ser _ C). cbn [andb]. rewrite EXs.
    apply andb_true_iff. split.
    - destruct (ref_of steps j) as [s0|] eqn:R; [|reflexivity].
      unfold ref_of in R. apply find_some in R. destruct R as [Hs0 P].
      apply andb_true_iff in P as [P Pout]. apply andb_true_iff in P as [Pj Pex]. apply Nat.eqb_eq in Pj.
      pose proof (F s0 Hs0) as F0. pose proof (NC s0) as NC0.
      destruct s0 as [j0 op0 gm0' after0 out0 r0 bid0]. cbn [st_j st_op st_out st_gm] in Pj, Pex, Pout, NC0. subst j0.
      cbn [fact] in F0. destruct F0 as [so0 [Hn0 [_ [_ Hex0]]]]. rewrite Hn in Hn0. inversion Hn0; subst so0.
      destruct (Hex0 Pex (NC0 so Hs0 Hn)) as [Eo0 [s0' [Er0 Es0']]]. subst out0 r0.
      rewrite tree_eqb_refl. cbn [andb pres_eqb]. rewrite Es0', Es'. apply obj_eqb_refl.
    - cbn [same_obj]. rewrite Es', obj_eqb_refl. apply orb_true_r.
  Qed.

  (* with the registry ElementTree starts with: any history at all *)
  Corollary seq_agrees_holds_builtin objs steps :
    Forall in_domain objs ->
    (forall s, In s steps -> writes (st_op s) = true -> exact_op (st_op s) = true) ->
    (forall s so, In s steps -> nth_error objs (st_j s) = Some so ->
                  pseudo_clash (step_binds (st_gm s) (st_op s)) (to_tree T (dense T so)) = false) ->
    agrees_steps T objs builtin_map steps = true ->
    map_ok_b builtin_map && forallb (step_ok T X objs steps) steps = true.
  Proof. intros D. apply seq_agrees_holds; [exact D|exact builtin_ok]. Qed.
End SeqProofs.

(* non-vacuity: a two-step history (to_string({"p": "urn:x"}), then to_string()) on an instance of the one-class table
   of Build.v that agrees with the model *)
