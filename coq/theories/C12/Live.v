(* C12/Live.v — the obligation on the regenerated table: every live class parses and serialises consistently.  Re-checked (vm_compute) whenever gen/ClassTables.v changes. *)
From Coq Require Import String List Bool Arith NArith.
From Verif Require Import Base.Str Base.Xml Base.ClassTable C12.Model C12.Spec C12.Xsd.
From VerifGen Require Import ClassTables C12Schema.
Import ListNotations.
Open Scope string_scope.

Lemma live_table_ok : wf_table live_table = true.
Proof. vm_compute. reflexivity. Qed.

Lemma live_classes_wf c ci : class_at live_table c = Some ci -> wf_class live_table ci = true.
Proof. apply wf_table_class. exact live_table_ok. Qed.

Lemma live_table_size : (0 <? length live_table)%nat = true.
Proof. vm_compute. reflexivity. Qed.

(* the order table (c_child_order) of every live class never contradicts the content model the shipped XML Schema
   files give for the class's element / type (gen/C12Schema.v, regenerated from src/saml2/data/schemas/*.xsd) *)
Lemma live_xsd_ok : xsd_consistent_b live_table live_xsd = true.
Proof. vm_compute. reflexivity. Qed.

Lemma live_xsd_size : (0 <? length live_xsd)%nat = true.
Proof. vm_compute. reflexivity. Qed.

(* a live class with a content model registers only children of that model (or one of the reviewed exceptions
   Xsd.xsd_extra_allowed): what the class "knows" is what the schema gives the element *)
Lemma live_xsd_known_ok : xsd_known_b live_table live_xsd xsd_extra_allowed = true.
Proof. vm_compute. reflexivity. Qed.

(* every live class of kind KAttrValue has neither schema attributes nor children (C12/Build.v: av_obj) *)
Lemma live_av_plain : forallb (fun ci => match c_kind ci with
                                        | KAttrValue => match c_attributes ci, c_children ci with [], [] => true | _, _ => false end
                                        | KPlain => true
                                        end) live_table = true.
Proof. vm_compute. reflexivity. Qed.
