(* C12/Live.v — the obligation on the regenerated table: every live class parses and serialises consistently.  Re-checked (vm_compute) whenever gen/ClassTables.v changes. *)
From Coq Require Import String List Bool Arith NArith.
From Verif Require Import Base.Str Base.Xml Base.ClassTable C12.Model C12.Spec C12.Xsd.
From VerifGen Require Import ClassTables C12Schema.
Import ListNotations.
Open Scope string_scope.

Lemma live_table_ok : wf_table live_table = true.
Proof. vm_compute. reflexivity. Qed.

Lemma live_classes_wf c ci : class_at live_table c = Some ci -> wf_class live_table ci = true.
Proof. apply wf_table_class. exact live_table_ok. Qed.

Lemma live_table_size : (0 <? length live_table)%nat = true.
Proof. vm_compute. reflexivity. Qed.

(* the order table (c_child_order) of every live class never contradicts the content model the shipped XML Schema
   files give for the class's element / type (gen/C12Schema.v, regenerated from src/saml2/data/schemas/*.xsd) *)
Lemma live_xsd_ok : xsd_consistent_b live_table live_xsd = true.
Proof. vm_compute. reflexivity. Qed.

Lemma live_xsd_size : (0 <? length live_xsd)%nat = true.
Proof. vm_compute. reflexivity. Qed.

(* a live class with a content model registers only children of that model (or one of the reviewed exceptions
   Xsd.xsd_extra_allowed): what the class "knows" is what the schema gives the element *)
Lemma live_xsd_known_ok : xsd_known_b live_table live_xsd xsd_extra_allowed = true.
Proof. vm_compute. reflexivity. Qed.

(* every live class of kind KAttrValue has neither schema attributes nor children (C12/Build.v: av_obj) *)
Lemma live_av_plain : forallb (fun ci => match c_kind ci with
                                        | KAttrValue => match c_attributes ci, c_children ci with [], [] => true | _, _ => false end
                                        | KPlain => true
                                        end) live_table = true.
Proof. vm_compute. reflexivity. Qed.

(* round 7: the BRACKETS of a child entry (ch_list: ("member", [Class]) versus ("member", Class)) agree with what the class
   declares in c_cardinality (no max, or max > 1: repeatable) - for every child entry with a member class and a cardinality
   entry.  The model parses along ch_list (a list member appends, a singleton keeps the last occurrence): an entry that lost
   its brackets would make model and implementation drop repeated children together. *)
Definition card_many (ci : class_info) (m : string) : option bool :=
  match find (fun p => String.eqb (fst p) m) (c_cardinality ci) with
  | Some (_, (_, None)) => Some true
  | Some (_, (_, Some n)) => Some (1 <? n)%nat
  | None => None
  end.

Definition brackets_ok_b (ci : class_info) : bool :=
  forallb (fun s => match ch_class s, card_many ci (ch_member s) with
                    | Some _, Some b => Bool.eqb b (ch_list s)
                    | _, _ => true
                    end) (c_children ci).

Lemma live_brackets_ok : forallb brackets_ok_b live_table = true.
Proof. vm_compute. reflexivity. Qed.

(* ... hence: a child of a live class that the class declares repeatable is list-valued in the table the model runs on *)
Lemma live_repeatable_is_list c ci s :
  class_at live_table c = Some ci -> In s (c_children ci) -> ch_class s <> None ->
  card_many ci (ch_member s) = Some true -> ch_list s = true.
Proof.
  intros Hc Hs Hk Hm.
  pose proof live_brackets_ok as P. rewrite forallb_forall in P.
  assert (In_ci : In ci live_table) by (unfold class_at in Hc; eapply nth_error_In; exact Hc).
  specialize (P ci In_ci). unfold brackets_ok_b in P. rewrite forallb_forall in P. specialize (P s Hs).
  rewrite Hm in P. destruct (ch_class s); [|contradiction Hk; reflexivity].
  destruct (ch_list s); [reflexivity|discriminate P].
Qed.

(* ... and one the class declares single-valued is a singleton *)
Lemma live_single_is_single c ci s :
  class_at live_table c = Some ci -> In s (c_children ci) -> ch_class s <> None ->
  card_many ci (ch_member s) = Some false -> ch_list s = false.
Proof.
  intros Hc Hs Hk Hm.
  pose proof live_brackets_ok as P. rewrite forallb_forall in P.
  assert (In_ci : In ci live_table) by (unfold class_at in Hc; eapply nth_error_In; exact Hc).
  specialize (P ci In_ci). unfold brackets_ok_b in P. rewrite forallb_forall in P. specialize (P s Hs).
  rewrite Hm in P. destruct (ch_class s); [|contradiction Hk; reflexivity].
  destruct (ch_list s); [discriminate P|reflexivity].
Qed.
