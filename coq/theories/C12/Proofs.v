(* C12/Proofs.v — lemmas for C12.  Everything is generic in the class table T; trees and objects are
   unbounded (nested induction principles tree_ind', ee_ind', obj_ind'). *)
From Coq Require Import String Ascii List Bool Arith NArith Lia.
From Verif Require Import Base.Str Base.Xml Base.ClassTable C12.Model C12.Spec.
Import ListNotations.
Open Scope string_scope.
Open Scope list_scope.

(* ------------------------------------------------------------------ induction principles *)
Section EeInd.
  Variable P : ee -> Prop.
  Hypothesis H : forall ns tag a kids x, Forall P kids -> P (EE ns tag a kids x).
  Fixpoint ee_ind' (e : ee) : P e :=
    match e with
    | EE ns tag a kids x =>
        H ns tag a kids x
          ((fix go (l : list ee) : Forall P l :=
              match l with [] => Forall_nil P | y :: r => Forall_cons y (ee_ind' y) (go r) end) kids)
    end.
End EeInd.

Section ObjInd.
  Variable P : obj -> Prop.
  Hypothesis H : forall c oa kids ext xa tx,
      Forall (fun mk : string * list obj => Forall P (snd mk)) kids -> P (Obj c oa kids ext xa tx).
  Fixpoint obj_ind' (o : obj) : P o :=
    match o with
    | Obj c oa kids ext xa tx =>
        H c oa kids ext xa tx
          ((fix go (l : list (string * list obj)) : Forall (fun mk => Forall P (snd mk)) l :=
              match l with
              | [] => Forall_nil _
              | mk :: r =>
                  Forall_cons mk
                    ((fix go2 (p : list obj) : Forall P p :=
                        match p with [] => Forall_nil P | y :: q => Forall_cons y (obj_ind' y) (go2 q) end) (snd mk))
                    (go r)
              end) kids)
    end.
End ObjInd.

(* ------------------------------------------------------------------ small facts *)
Lemma opt_string_eqb_eq (a b : option string) : opt_eqb String.eqb a b = true <-> a = b.
Proof.
  destruct a, b; cbn [opt_eqb]; try rewrite String.eqb_eq; split; intros H; try congruence; try discriminate.
Qed.

Lemma forallb_Forall {A} (f : A -> bool) l : forallb f l = true <-> Forall (fun x => f x = true) l.
Proof. rewrite forallb_forall, Forall_forall. tauto. Qed.

Lemma forallb_map {A B} (f : B -> bool) (g : A -> B) l : forallb f (map g l) = forallb (fun x => f (g x)) l.
Proof. induction l as [|x r IH]; cbn [map forallb]; [reflexivity|rewrite IH; reflexivity]. Qed.

Lemma text_opt_str x : opt_eqb String.eqb x (Some "") = false -> text_opt (text_str x) = x.
Proof.
  destruct x as [s|]; cbn; [|reflexivity]. destruct s; cbn; [discriminate|reflexivity].
Qed.

Lemma text_str_opt x : text_str (text_opt x) = x.
Proof. destruct x; reflexivity. Qed.

Lemma text_opt_not_empty x : opt_eqb String.eqb (text_opt x) (Some "") = false.
Proof. destruct x; reflexivity. Qed.

(* ------------------------------------------------------------------ equality tests are equality *)
Lemma ee_eqb_eq a : forall b, ee_eqb a b = true <-> a = b.
Proof.
  induction a as [n1 g1 a1 k1 x1 IH] using ee_ind'. intros [n2 g2 a2 k2 x2]. cbn [ee_eqb].
  rewrite !andb_true_iff, !opt_string_eqb_eq, attrs_eqb_eq, String.eqb_eq.
  assert (HK : forall l2,
    (fix go (l1 l2 : list ee) {struct l1} : bool :=
       match l1, l2 with
       | [], [] => true
       | x :: r, y :: s => ee_eqb x y && go r s
       | _, _ => false
       end) k1 l2 = true <-> k1 = l2).
  { induction IH as [|x r Hx Hr IHr]; intros [|y s]; try (split; [discriminate|discriminate]); [tauto|].
    rewrite andb_true_iff, Hx, IHr. split; [intros [-> ->]; reflexivity|intros E; inversion E; auto]. }
  rewrite HK. split; [intros [[[[-> ->] ->] ->] ->]; reflexivity|intros E; inversion E; auto 6].
Qed.

Lemma oattr_eqb_eq a b : oattr_eqb a b = true <-> a = b.
Proof.
  destruct a as [m v], b as [m' v']. unfold oattr_eqb. cbn [fst snd].
  rewrite andb_true_iff, String.eqb_eq, opt_string_eqb_eq. split; [intros [-> ->]; reflexivity|intros E; inversion E; auto].
Qed.

Lemma obj_eqb_eq a : forall b, obj_eqb a b = true <-> a = b.
Proof.
  induction a as [c1 a1 k1 e1 x1 t1 IH] using obj_ind'. intros [c2 a2 k2 e2 x2 t2]. cbn [obj_eqb].
  rewrite !andb_true_iff, N.eqb_eq, opt_string_eqb_eq, attrs_eqb_eq,
    (list_eqb_eq oattr_eqb oattr_eqb_eq), (list_eqb_eq ee_eqb (fun x y => ee_eqb_eq x y)).
  assert (HK : forall l2,
    (fix go (l1 l2 : list (string * list obj)) {struct l1} : bool :=
         match l1, l2 with
         | [], [] => true
         | (m1, os1) :: r, (m2, os2) :: s =>
             String.eqb m1 m2 &&
             (fix go2 (p q : list obj) {struct p} : bool :=
                match p, q with
                | [], [] => true
                | x :: p', y :: q' => obj_eqb x y && go2 p' q'
                | _, _ => false
                end) os1 os2 && go r s
         | _, _ => false
         end) k1 l2 = true <-> k1 = l2).
  { induction IH as [|[m1 os1] r Hx Hr IHr]; intros [|[m2 os2] s]; try (split; [discriminate|discriminate]); [tauto|].
    rewrite !andb_true_iff, String.eqb_eq, IHr.
    assert (HO : forall q,
      (fix go2 (p q : list obj) {struct p} : bool :=
                match p, q with
                | [], [] => true
                | x :: p', y :: q' => obj_eqb x y && go2 p' q'
                | _, _ => false
                end) os1 q = true <-> os1 = q).
    { cbn [snd] in Hx. induction Hx as [|x p Hx1 Hp IHp]; intros [|y q]; try (split; [discriminate|discriminate]); [tauto|].
      rewrite andb_true_iff, Hx1, IHp. split; [intros [-> ->]; reflexivity|intros E; inversion E; auto]. }
    rewrite HO. split; [intros [[-> ->] ->]; reflexivity|intros E; inversion E; auto]. }
  rewrite HK. split; [intros [[[[[-> ->] ->] ->] ->] ->]; reflexivity|intros E; inversion E; auto 7].
Qed.

(* ------------------------------------------------------------------ ExtensionElement <-> tree *)
Lemma nodup_q l : nodup_b qname_eqb l = true <-> NoDup l.
Proof. apply nodup_b_NoDup. apply qname_eqb_eq. Qed.

Lemma nodup_s l : nodup_b String.eqb l = true <-> NoDup l.
Proof. apply nodup_b_NoDup. apply String.eqb_eq. Qed.

Lemma adict_id a : NoDup (map fst a) -> adict a = a.
Proof. intros N. unfold adict. apply (dset_all_nil_fresh qname_eqb qname_eqb_eq). exact N. Qed.

Lemma attrs_ok_nodup a : attrs_ok a = true -> NoDup (map fst a).
Proof. unfold attrs_ok. intros H. apply andb_true_iff in H as [H _]. apply nodup_q. exact H. Qed.

Lemma attrs_ok_noxmlns a : attrs_ok a = true -> forallb (fun kv => negb (is_xmlns_name (fst kv))) a = true.
Proof. unfold attrs_ok. intros H. apply andb_true_iff in H as [_ H]. exact H. Qed.

Lemma wire_attrs_id a : forallb (fun kv => negb (is_xmlns_name (fst kv))) a = true -> wire_attrs a = a.
Proof.
  unfold wire_attrs. induction a as [|kv r IH]; cbn [forallb filter]; [reflexivity|].
  intros H. apply andb_true_iff in H as [H1 H2]. rewrite H1, IH by exact H2. reflexivity.
Qed.

Lemma attrs_ok_adict a : attrs_ok a = true -> adict a = a.
Proof. intros H. apply adict_id, attrs_ok_nodup, H. Qed.

Lemma map_id_Forall {A} (f : A -> A) l : Forall (fun x => f x = x) l -> map f l = l.
Proof. induction 1 as [|x r Hx _ IH]; cbn [map]; [reflexivity|rewrite Hx, IH; reflexivity]. Qed.

Lemma map_map_id_Forall {A B} (f : A -> B) (g : B -> A) l : Forall (fun x => g (f x) = x) l -> map g (map f l) = l.
Proof. induction 1 as [|x r Hx _ IH]; cbn [map]; [reflexivity|rewrite Hx, IH; reflexivity]. Qed.

(* an extension element written to a tree and read back is the same element *)
Lemma ee_tree_ee e : ee_ok e = true -> ee_of_tree (tree_of_ee e) = e.
Proof.
  induction e as [ns tag a kids x IH] using ee_ind'. cbn [ee_ok tree_of_ee ee_of_tree q_ns q_local].
  intros H. apply andb_true_iff in H as [H Hk]. apply andb_true_iff in H as [Ha Hx].
  apply negb_true_iff in Hx. rewrite !(attrs_ok_adict a Ha). rewrite text_opt_str by exact Hx.
  f_equal. apply map_map_id_Forall. rewrite forallb_Forall in Hk.
  clear -IH Hk. induction IH as [|y r Hy _ IHr]; [constructor|]. inversion Hk; subst. constructor; auto.
Qed.

Lemma wire_tree_of_ee e : ee_ok e = true -> ee_no_cr e = true -> wire (tree_of_ee e) = tree_of_ee e.
Proof.
  induction e as [ns tag a kids x IH] using ee_ind'. cbn [ee_ok ee_no_cr tree_of_ee wire].
  intros H N. apply andb_true_iff in H as [H Hk]. apply andb_true_iff in H as [Ha Hx].
  apply andb_true_iff in N as [Nx Nk]. apply negb_true_iff in Nx.
  rewrite (attrs_ok_adict a Ha). rewrite wire_attrs_id by (apply attrs_ok_noxmlns; exact Ha).
  rewrite norm_eol_id by exact Nx. f_equal. rewrite map_map.
  rewrite forallb_Forall in Hk, Nk. clear -IH Hk Nk.
  induction IH as [|y r Hy _ IHr]; cbn [map]; [reflexivity|]. inversion Hk; subst. inversion Nk; subst.
  rewrite Hy, IHr by assumption. reflexivity.
Qed.

(* what an XML reader delivers, kept as an extension element, is written back unchanged *)
Lemma tree_ee_tree t : wf_tree_b t = true -> tree_of_ee (ee_of_tree t) = t.
Proof.
  induction t as [g a x kids IH] using tree_ind'. cbn [wf_tree_b ee_of_tree tree_of_ee].
  intros H. apply andb_true_iff in H as [H Hk]. apply andb_true_iff in H as [Ha _].
  rewrite !(attrs_ok_adict a Ha). rewrite text_str_opt. destruct g as [ns l]. cbn [q_ns q_local].
  f_equal. apply map_map_id_Forall. rewrite forallb_Forall in Hk. clear -IH Hk.
  induction IH as [|y r Hy _ IHr]; [constructor|]. inversion Hk; subst. constructor; auto.
Qed.

Lemma ee_of_tree_ok t : wf_tree_b t = true -> ee_ok (ee_of_tree t) = true /\ ee_no_cr (ee_of_tree t) = true.
Proof.
  induction t as [g a x kids IH] using tree_ind'. cbn [wf_tree_b ee_of_tree ee_ok ee_no_cr].
  intros H. apply andb_true_iff in H as [H Hk]. apply andb_true_iff in H as [Ha Hx].
  rewrite (attrs_ok_adict a Ha). rewrite Ha, text_opt_not_empty, text_str_opt, Hx. cbn [negb andb].
  rewrite forallb_Forall in Hk. rewrite !forallb_map.
  assert (F : Forall (fun k => ee_ok (ee_of_tree k) = true /\ ee_no_cr (ee_of_tree k) = true) kids).
  { clear -IH Hk. induction IH as [|y r Hy _ IHr]; [constructor|]. inversion Hk; subst. constructor; auto. }
  split; apply forallb_Forall; eapply Forall_impl; [|exact F| |exact F]; cbn; intros k [A B]; assumption.
Qed.

(* ------------------------------------------------------------------ member lists *)
Lemma get_member_In {A} (l : list (string * A)) m v :
  NoDup (map fst l) -> In (m, v) l -> get_member m l = Some v.
Proof.
  unfold get_member. induction l as [|[k w] r IH]; cbn [map fst In find]; [contradiction|].
  intros N [H|H].
  - inversion H; subst. rewrite String.eqb_refl. reflexivity.
  - inversion N as [|? ? N1 N2]; subst. destruct (String.eqb k m) eqn:E.
    + apply String.eqb_eq in E. subst. exfalso. apply N1. apply (in_map fst) in H. exact H.
    + apply IH; assumption.
Qed.

Lemma get_member_None {A} (l : list (string * A)) m : ~ In m (map fst l) -> get_member m l = None.
Proof.
  unfold get_member. induction l as [|[k w] r IH]; cbn [map fst In find]; [reflexivity|].
  intros H. destruct (String.eqb k m) eqn:E.
  - apply String.eqb_eq in E. subst. exfalso. apply H. auto.
  - apply IH. tauto.
Qed.

Lemma get_list_In {A} (l : list (string * list A)) m v :
  NoDup (map fst l) -> In (m, v) l -> get_list m l = v.
Proof. intros N H. unfold get_list. rewrite (get_member_In l m v N H). reflexivity. Qed.

Lemma get_list_map {A B} (f : A -> B) (l : list (string * list A)) m :
  get_list m (map (fun mk => (fst mk, map f (snd mk))) l) = map f (get_list m l).
Proof.
  unfold get_list, get_member. induction l as [|[k w] r IH]; cbn [map find fst snd]; [reflexivity|].
  destruct (String.eqb k m); [reflexivity|exact IH].
Qed.

(* an aligned member list is determined by its lookups *)
Lemma aligned_lookup {A} (l : list (string * A)) (g : string -> A) :
  NoDup (map fst l) -> (forall m v, In (m, v) l -> g m = v) ->
  map (fun m => (m, g m)) (map fst l) = l.
Proof.
  intros N H. rewrite map_map. apply map_id_Forall. apply Forall_forall. intros [m v] Hin. cbn [fst].
  rewrite (H m v Hin). reflexivity.
Qed.

Lemma find_NoDup_key {A K} (eqb : K -> K -> bool) (key : A -> K) (l : list A) x :
  (forall a b, eqb a b = true <-> a = b) -> NoDup (map key l) -> In x l ->
  find (fun y => eqb (key y) (key x)) l = Some x.
Proof.
  intros Heq. induction l as [|y r IH]; cbn [map In find]; [contradiction|].
  intros N [H|H].
  - subst. rewrite (proj2 (Heq _ _) eq_refl). reflexivity.
  - inversion N as [|? ? N1 N2]; subst. destruct (eqb (key y) (key x)) eqn:E.
    + apply Heq in E. exfalso. apply N1. rewrite E. apply in_map. exact H.
    + apply IH; assumption.
Qed.

Lemma find_none_key {A K} (eqb : K -> K -> bool) (key : A -> K) (l : list A) k :
  (forall a b, eqb a b = true <-> a = b) -> ~ In k (map key l) -> find (fun y => eqb (key y) k) l = None.
Proof.
  intros Heq. induction l as [|y r IH]; cbn [map In find]; [reflexivity|].
  intros H. destruct (eqb (key y) k) eqn:E.
  - apply Heq in E. exfalso. apply H. auto.
  - apply IH. tauto.
Qed.

Lemma find_some_key {A K} (eqb : K -> K -> bool) (key : A -> K) (l : list A) k x :
  (forall a b, eqb a b = true <-> a = b) -> find (fun y => eqb (key y) k) l = Some x -> In x l /\ key x = k.
Proof.
  intros Heq H. apply find_some in H as [H1 H2]. apply Heq in H2. auto.
Qed.

Lemma smem_In m l : smem m l = true <-> In m l.
Proof. apply (kmem_In String.eqb String.eqb_eq). Qed.

Lemma NoDup_app_l {A} (a b : list A) : NoDup (a ++ b) -> NoDup a.
Proof. induction a as [|x r IH]; cbn [app]; [constructor|]. intros N. inversion N; subst. constructor; [intros H; apply H1; apply in_or_app; auto|auto]. Qed.

Lemma NoDup_app_r {A} (a b : list A) : NoDup (a ++ b) -> NoDup b.
Proof. induction a as [|x r IH]; cbn [app]; [auto|]. intros N. inversion N; subst. auto. Qed.

Lemma fold_left_id {A B} (f : A -> B -> A) l a : (forall x b, In b l -> f x b = x) -> fold_left f l a = a.
Proof.
  revert a. induction l as [|b r IH]; intros a H; cbn [fold_left]; [reflexivity|].
  rewrite H by (left; reflexivity). apply IH. intros x b' Hb. apply H. right. exact Hb.
Qed.

(* ------------------------------------------------------------------ harvest, step by step *)
Section Core.
  Variable T : table.

  Definition classify (ci : class_info) (k : tree) : slot :=
    match find_child ci (t_tag k) with
    | Some s => match ch_class s with
                | Some c' => SKnown s (if tag_is T c' (t_tag k) then Some (harvest T c' k) else None)
                | None => SBroken s
                end
    | None => SUnknown (ee_of_tree k)
    end.

  Lemma harvest_eq c g a x kids ci :
    class_at T c = Some ci -> harvest T c (Node g a x kids) = assemble ci c (map (classify ci) kids) a x.
  Proof. intros E. cbn [harvest]. rewrite E. reflexivity. Qed.

  (* child members seen as a function member -> values *)
  Definition LK (specs : list child_spec) (g : string -> list obj) : list (string * list obj) :=
    map (fun s => (ch_member s, g (ch_member s))) specs.

  Definition stepk (m : string) (acc : list obj) (sl : slot) : list obj :=
    match sl with
    | SKnown s (Some o) => if String.eqb m (ch_member s) then (if ch_list s then acc ++ [o] else [o]) else acc
    | SKnown s None => if String.eqb m (ch_member s) then [] else acc
    | _ => acc
    end.

  Definition unk (sl : slot) : list ee := match sl with SUnknown e => [e] | _ => [] end.

  Lemma LK_ext specs g1 g2 : (forall m, g1 m = g2 m) -> LK specs g1 = LK specs g2.
  Proof. intros H. unfold LK. apply map_ext. intros s. rewrite H. reflexivity. Qed.

  Lemma set_member_LK specs g m v :
    set_member m v (LK specs g) = LK specs (fun m' => if String.eqb m' m then v else g m').
  Proof.
    unfold set_member, LK. rewrite map_map. apply map_ext. intros s. cbn [fst].
    destruct (String.eqb (ch_member s) m); reflexivity.
  Qed.

  Lemma app_member_LK specs g m o :
    app_member m o (LK specs g) = LK specs (fun m' => if String.eqb m' m then g m' ++ [o] else g m').
  Proof.
    unfold app_member, LK. rewrite map_map. apply map_ext. intros s. cbn [fst snd].
    destruct (String.eqb (ch_member s) m); reflexivity.
  Qed.

  Lemma place_LK specs g e sl :
    place (LK specs g, e) sl = (LK specs (fun m => stepk m (g m) sl), e ++ unk sl).
  Proof.
    destruct sl as [s [o|]|s|x]; cbn [place fst snd unk stepk]; rewrite ?app_nil_r.
    - destruct (ch_list s).
      + rewrite app_member_LK. reflexivity.
      + rewrite set_member_LK. reflexivity.
    - rewrite set_member_LK. reflexivity.
    - reflexivity.
    - reflexivity.
  Qed.

  Lemma fold_place_LK specs slots : forall g e,
    fold_left place slots (LK specs g, e) =
    (LK specs (fun m => fold_left (stepk m) slots (g m)), e ++ flat_map unk slots).
  Proof.
    induction slots as [|sl r IH]; intros g e; cbn [fold_left flat_map].
    - rewrite app_nil_r. reflexivity.
    - rewrite place_LK, IH, <- app_assoc. reflexivity.
  Qed.

  (* attribute members seen as a function member -> value *)
  Definition LA (specs : list attr_spec) (h : string -> option string) : list (string * option string) :=
    map (fun a => (at_member a, h (at_member a))) specs.

  Definition stepa (ci : class_info) (m : string) (acc : option string) (kv : qname * string) : option string :=
    match find_attr ci (fst kv) with
    | Some a => if String.eqb m (at_member a) then Some (snd kv) else acc
    | None => acc
    end.

  Definition stepx (ci : class_info) (acc : attrs) (kv : qname * string) : attrs :=
    match find_attr ci (fst kv) with
    | Some _ => acc
    | None => dset qname_eqb (fst kv) (snd kv) acc
    end.

  Lemma set_member_LA specs h m v :
    set_member m v (LA specs h) = LA specs (fun m' => if String.eqb m' m then v else h m').
  Proof.
    unfold set_member, LA. rewrite map_map. apply map_ext. intros s. cbn [fst].
    destruct (String.eqb (at_member s) m); reflexivity.
  Qed.

  Lemma fold_place_attr ci specs al : forall h xa,
    fold_left (place_attr ci) al (LA specs h, xa) =
    (LA specs (fun m => fold_left (stepa ci m) al (h m)), fold_left (stepx ci) al xa).
  Proof.
    induction al as [|kv r IH]; intros h xa; cbn [fold_left]; [reflexivity|].
    unfold place_attr at 2, stepa at 2, stepx at 2. cbn [fst snd].
    destruct (find_attr ci (fst kv)) as [a|].
    - rewrite set_member_LA, IH. reflexivity.
    - rewrite IH. reflexivity.
  Qed.

  Lemma init_kids_LK ci : init_kids ci = LK (c_children ci) (fun _ => []).
  Proof. reflexivity. Qed.

  Lemma init_attrs_LA ci :
    init_attrs ci = LA (c_attributes ci) (fun m => dget String.eqb m (c_parse_defaults ci)).
  Proof. reflexivity. Qed.

  (* the shape of every harvested object *)
  Definition h_kids (ci : class_info) (slots : list slot) : list (string * list obj) :=
    LK (c_children ci) (fun m => fold_left (stepk m) slots []).
  Definition h_ext (slots : list slot) : list ee := flat_map unk slots.
  Definition h_attrs (ci : class_info) (a : attrs) : list (string * option string) :=
    LA (c_attributes ci) (fun m => fold_left (stepa ci m) a (dget String.eqb m (c_parse_defaults ci))).
  Definition h_xattrs (ci : class_info) (a : attrs) : attrs := fold_left (stepx ci) a (init_xattrs ci).

  Lemma assemble_eq ci c slots a x :
    assemble ci c slots a x =
    match c_kind ci with
    | KPlain => Obj c (h_attrs ci a) (h_kids ci slots) (h_ext slots) (h_xattrs ci a) (text_opt x)
    | KAttrValue =>
        match av_finish (dmem qname_eqb xsi_nil a) (h_ext slots) (h_xattrs ci a) x with
        | AvOk xa tx => Obj c (h_attrs ci a) (h_kids ci slots) (h_ext slots) xa tx
        | _ => Obj c (h_attrs ci a) (h_kids ci slots) (h_ext slots) (h_xattrs ci a) (Some "")
        end
    end.
  Proof.
    unfold assemble. rewrite init_kids_LK, init_attrs_LA, fold_place_LK, fold_place_attr. cbn [fst snd app].
    reflexivity.
  Qed.

  Lemma xattrs_of_eq ci a : xattrs_of ci a = h_xattrs ci a.
  Proof. unfold xattrs_of. rewrite init_attrs_LA, fold_place_attr. reflexivity. Qed.

  Lemma ext_of_eq ci kids : ext_of ci kids = h_ext (map (classify ci) kids).
  Proof.
    unfold ext_of, h_ext. induction kids as [|k r IH]; cbn [flat_map map]; [reflexivity|].
    rewrite IH. f_equal. unfold classify. destruct (find_child ci (t_tag k)) as [s|]; [|reflexivity].
    destruct (ch_class s); reflexivity.
  Qed.

  Lemma o_cls_harvest c t : o_cls (harvest T c t) = c.
  Proof.
    destruct t as [g a x kids]. cbn [harvest]. destruct (class_at T c) as [ci|]; [|reflexivity].
    unfold assemble. destruct (c_kind ci); [reflexivity|]. destruct (av_finish _ _ _ _); reflexivity.
  Qed.
End Core.

(* ------------------------------------------------------------------ list plumbing *)
Lemma flat_map_map {A B C} (f : A -> B) (g : B -> list C) l : flat_map g (map f l) = flat_map (fun x => g (f x)) l.
Proof. induction l as [|x r IH]; cbn [map flat_map]; [reflexivity|rewrite IH; reflexivity]. Qed.

Lemma map_flat_map {A B C} (f : B -> C) (g : A -> list B) l : map f (flat_map g l) = flat_map (fun x => map f (g x)) l.
Proof. induction l as [|x r IH]; cbn [map flat_map]; [reflexivity|rewrite map_app, IH; reflexivity]. Qed.

Lemma flat_map_ext_in {A B} (f g : A -> list B) l : (forall x, In x l -> f x = g x) -> flat_map f l = flat_map g l.
Proof.
  induction l as [|x r IH]; cbn [flat_map]; intros H; [reflexivity|].
  rewrite H by (left; reflexivity). rewrite IH; [reflexivity|]. intros y Hy. apply H. right. exact Hy.
Qed.

Lemma members_specs (specs : list child_spec) (order : list string) :
  (forall m, In m order -> In m (map ch_member specs)) ->
  exists ospecs, order = map ch_member ospecs /\ (forall s, In s ospecs -> In s specs).
Proof.
  induction order as [|m r IH]; intros H.
  - exists []. split; [reflexivity|intros s []].
  - destruct IH as [os [E I]]; [intros m' Hm'; apply H; right; exact Hm'|].
    assert (Hm : In m (map ch_member specs)) by (apply H; left; reflexivity).
    apply in_map_iff in Hm as [s [Es Is]]. exists (s :: os). split.
    + cbn [map]. rewrite Es, E. reflexivity.
    + intros s' [<-|Hs']; [exact Is|apply I; exact Hs'].
Qed.

Section Groups.
  Variable vals : child_spec -> list obj.
  Definition group (s : child_spec) : list slot := map (fun o' => SKnown s (Some o')) (vals s).

  Lemma fold_group_other m0 s acc : ch_member s <> m0 -> fold_left (stepk m0) (group s) acc = acc.
  Proof.
    intros N. unfold group. apply fold_left_id. intros x b Hb. apply in_map_iff in Hb as [o' [<- _]].
    cbn [stepk]. destruct (String.eqb m0 (ch_member s)) eqn:E; [apply String.eqb_eq in E; congruence|reflexivity].
  Qed.

  Lemma fold_groups_other m0 ospecs : forall acc,
    (forall s, In s ospecs -> ch_member s <> m0) -> fold_left (stepk m0) (flat_map group ospecs) acc = acc.
  Proof.
    induction ospecs as [|s r IH]; intros acc H; cbn [flat_map fold_left]; [reflexivity|].
    rewrite fold_left_app, fold_group_other by (apply H; left; reflexivity).
    apply IH. intros s' Hs'. apply H. right. exact Hs'.
  Qed.

  Lemma fold_group_list s l : forall acc,
    ch_list s = true ->
    fold_left (stepk (ch_member s)) (map (fun o' => SKnown s (Some o')) l) acc = acc ++ l.
  Proof.
    induction l as [|o' r IH]; intros acc L; cbn [map fold_left]; [rewrite app_nil_r; reflexivity|].
    cbn [stepk]. rewrite String.eqb_refl, L, IH by exact L. rewrite <- app_assoc. reflexivity.
  Qed.

  Lemma fold_group_same s : (ch_list s = true \/ (length (vals s) <= 1)%nat) ->
    fold_left (stepk (ch_member s)) (group s) [] = vals s.
  Proof.
    intros [L|L]; unfold group.
    - rewrite fold_group_list by exact L. reflexivity.
    - destruct (vals s) as [|o1 [|o2 r]]; cbn [map fold_left stepk length] in *; [reflexivity| |lia].
      rewrite String.eqb_refl. destruct (ch_list s); reflexivity.
  Qed.

  Lemma fold_groups_in s0 ospecs :
    NoDup (map ch_member ospecs) -> In s0 ospecs ->
    (ch_list s0 = true \/ (length (vals s0) <= 1)%nat) ->
    fold_left (stepk (ch_member s0)) (flat_map group ospecs) [] = vals s0.
  Proof.
    induction ospecs as [|s r IH]; cbn [map In flat_map]; [contradiction|].
    intros N Hin L. inversion N as [|? ? N1 N2]; subst. rewrite fold_left_app. destruct Hin as [->|Hin].
    - rewrite fold_group_same by exact L. apply fold_groups_other.
      intros s' Hs' E. apply N1. rewrite <- E. apply in_map. exact Hs'.
    - rewrite fold_group_other.
      + apply IH; assumption.
      + intros E. apply N1. rewrite E. apply in_map. exact Hin.
  Qed.
End Groups.

Lemma fold_stepk_unknown m l acc : fold_left (stepk m) (map SUnknown l) acc = acc.
Proof. apply fold_left_id. intros x b Hb. apply in_map_iff in Hb as [e [<- _]]. reflexivity. Qed.

Lemma flat_map_unk_unknown l : flat_map unk (map SUnknown l) = l.
Proof. induction l as [|e r IH]; cbn [map flat_map unk app]; [reflexivity|rewrite IH; reflexivity]. Qed.

Lemma flat_map_unk_known {A} (f : A -> slot) l : (forall x, In x l -> unk (f x) = []) -> flat_map unk (map f l) = [].
Proof.
  induction l as [|x r IH]; cbn [map flat_map]; intros H; [reflexivity|].
  rewrite H by (left; reflexivity). apply IH. intros y Hy. apply H. right. exact Hy.
Qed.

(* ------------------------------------------------------------------ attributes *)
Section AttrFolds.
  Variable ci : class_info.
  Hypothesis Wnames : NoDup (map at_name (c_attributes ci)).

  Lemma find_attr_In a : In a (c_attributes ci) -> find_attr ci (at_name a) = Some a.
  Proof. intros H. unfold find_attr. apply (find_NoDup_key qname_eqb at_name); [apply qname_eqb_eq|exact Wnames|exact H]. Qed.

  Definition emit (oa : list (string * option string)) (a : attr_spec) : attrs :=
    match get_member (at_member a) oa with Some (Some v) => [(at_name a, v)] | _ => [] end.

  Lemma known_attrs_emit oa : known_attrs ci oa = flat_map (emit oa) (c_attributes ci).
  Proof. reflexivity. Qed.

  Lemma fold_stepa_emit_other oa m0 a acc :
    In a (c_attributes ci) -> at_member a <> m0 -> fold_left (stepa ci m0) (emit oa a) acc = acc.
  Proof.
    intros I N. unfold emit. destruct (get_member (at_member a) oa) as [[v|]|]; cbn [fold_left]; try reflexivity.
    unfold stepa. cbn [fst snd]. rewrite find_attr_In by exact I.
    destruct (String.eqb m0 (at_member a)) eqn:E; [apply String.eqb_eq in E; congruence|reflexivity].
  Qed.

  Lemma fold_stepa_emit_same oa a acc :
    In a (c_attributes ci) ->
    fold_left (stepa ci (at_member a)) (emit oa a) acc =
    match get_member (at_member a) oa with Some (Some v) => Some v | _ => acc end.
  Proof.
    intros I. unfold emit. destruct (get_member (at_member a) oa) as [[v|]|]; cbn [fold_left]; try reflexivity.
    unfold stepa. cbn [fst snd]. rewrite find_attr_In by exact I. rewrite String.eqb_refl. reflexivity.
  Qed.

  Lemma fold_stepa_emits_other oa m0 l : forall acc,
    incl l (c_attributes ci) -> (forall a, In a l -> at_member a <> m0) ->
    fold_left (stepa ci m0) (flat_map (emit oa) l) acc = acc.
  Proof.
    induction l as [|a r IH]; intros acc I H; cbn [flat_map fold_left]; [reflexivity|].
    rewrite fold_left_app, fold_stepa_emit_other; [|apply I; left; reflexivity|apply H; left; reflexivity].
    apply IH; [intros x Hx; apply I; right; exact Hx|intros x Hx; apply H; right; exact Hx].
  Qed.

  Lemma fold_stepa_emits_in oa a0 l : forall acc,
    incl l (c_attributes ci) -> NoDup (map at_member l) -> In a0 l ->
    fold_left (stepa ci (at_member a0)) (flat_map (emit oa) l) acc =
    match get_member (at_member a0) oa with Some (Some v) => Some v | _ => acc end.
  Proof.
    induction l as [|a r IH]; intros acc I N Hin; cbn [flat_map map In] in *; [contradiction|].
    inversion N as [|? ? N1 N2]; subst. rewrite fold_left_app. destruct Hin as [->|Hin].
    - rewrite fold_stepa_emit_same by (apply I; left; reflexivity).
      apply fold_stepa_emits_other; [intros x Hx; apply I; right; exact Hx|].
      intros x Hx E. apply N1. rewrite <- E. apply in_map. exact Hx.
    - rewrite fold_stepa_emit_other; [|apply I; left; reflexivity|].
      + apply IH; [intros x Hx; apply I; right; exact Hx|exact N2|exact Hin].
      + intros E. apply N1. rewrite E. apply in_map. exact Hin.
  Qed.

  Lemma fold_stepa_unknown m l acc :
    (forall kv, In kv l -> find_attr ci (fst kv) = None) -> fold_left (stepa ci m) l acc = acc.
  Proof. intros H. apply fold_left_id. intros x kv Hkv. unfold stepa. rewrite H by exact Hkv. reflexivity. Qed.

  Lemma fold_stepx_known l acc :
    (forall kv, In kv l -> find_attr ci (fst kv) <> None) -> fold_left (stepx ci) l acc = acc.
  Proof.
    intros H. apply fold_left_id. intros x kv Hkv. unfold stepx. specialize (H kv Hkv).
    destruct (find_attr ci (fst kv)); [reflexivity|congruence].
  Qed.

  Lemma fold_stepx_unknown l : forall acc,
    (forall kv, In kv l -> find_attr ci (fst kv) = None) -> fold_left (stepx ci) l acc = dset_all qname_eqb acc l.
  Proof.
    unfold dset_all. induction l as [|kv r IH]; intros acc H; cbn [fold_left]; [reflexivity|].
    unfold stepx at 2. rewrite H by (left; reflexivity). apply IH. intros x Hx. apply H. right. exact Hx.
  Qed.

  Lemma emit_names oa l : forall kv, In kv (flat_map (emit oa) l) -> exists a, In a l /\ fst kv = at_name a.
  Proof.
    intros kv H. apply in_flat_map in H as [a [Ia Ha]]. exists a. split; [exact Ia|].
    unfold emit in Ha. destruct (get_member (at_member a) oa) as [[v|]|]; cbn [In] in Ha; try contradiction.
    destruct Ha as [<-|[]]. reflexivity.
  Qed.

  Lemma NoDup_emit_names oa l : NoDup (map at_name l) -> NoDup (map fst (flat_map (emit oa) l)).
  Proof.
    induction l as [|a r IH]; cbn [map flat_map]; intros N; [constructor|]. inversion N as [|? ? N1 N2]; subst.
    rewrite map_app. unfold emit at 1. destruct (get_member (at_member a) oa) as [[v|]|]; cbn [map app fst]; auto.
    constructor; [|auto]. intros H. apply in_map_iff in H as [kv [E Hkv]].
    apply emit_names in Hkv as [a' [Ia' En]]. apply N1. rewrite <- E, En. apply in_map. exact Ia'.
  Qed.
End AttrFolds.

(* ------------------------------------------------------------------ facts packed in the boolean predicates *)
Lemma In_get_list {A} (l : list (string * list A)) m x : In x (get_list m l) -> exists mk, In mk l /\ In x (snd mk).
Proof.
  unfold get_list, get_member. destruct (find _ l) as [kv|] eqn:E; [|intros []].
  intros H. apply find_some in E as [E _]. exists kv. auto.
Qed.

Lemma Forall_kids_vals {A} (P : A -> Prop) (l : list (string * list A)) m :
  Forall (fun mk => Forall P (snd mk)) l -> Forall P (get_list m l).
Proof.
  intros F. apply Forall_forall. intros x Hx. apply In_get_list in Hx as [mk [I1 I2]].
  rewrite Forall_forall in F. specialize (F mk I1). rewrite Forall_forall in F. auto.
Qed.

Lemma forallb_kids_vals {A} (f : A -> bool) (l : list (string * list A)) m :
  forallb (fun mk => forallb f (snd mk)) l = true -> forallb f (get_list m l) = true.
Proof.
  intros F. apply forallb_Forall. apply Forall_kids_vals. apply forallb_Forall in F.
  eapply Forall_impl; [|exact F]. cbn. intros mk H. apply forallb_Forall. exact H.
Qed.

Definition kid_ok (mk : string * list obj) (s : child_spec) : bool :=
  String.eqb (fst mk) (ch_member s)
  && forallb (fun o' => opt_eqb N.eqb (Some (o_cls o')) (ch_class s)) (snd mk)
  && (ch_list s || (length (snd mk) <=? 1)%nat).

Lemma forallb2_kids kids specs :
  forallb2 kid_ok kids specs = true -> NoDup (map ch_member specs) ->
  map fst kids = map ch_member specs /\
  forall s, In s specs ->
    forallb (fun o' => opt_eqb N.eqb (Some (o_cls o')) (ch_class s)) (get_list (ch_member s) kids) = true /\
    (ch_list s = true \/ (length (get_list (ch_member s) kids) <= 1)%nat).
Proof.
  revert specs. induction kids as [|[m os] r IH]; intros [|s specs]; cbn [forallb2]; try discriminate.
  - intros _ _. split; [reflexivity|intros s []].
  - intros H N. apply andb_true_iff in H as [H Hr]. unfold kid_ok in H. cbn [fst snd] in H.
    apply andb_true_iff in H as [H H3]. apply andb_true_iff in H as [H1 H2]. apply String.eqb_eq in H1. subst m.
    cbn [map] in N. inversion N as [|? ? N1 N2]; subst. destruct (IH specs Hr N2) as [E F]. split.
    + cbn [map fst]. rewrite E. reflexivity.
    + intros s' [<-|Hs'].
      * unfold get_list, get_member. cbn [find fst snd]. rewrite String.eqb_refl. split; [exact H2|].
        apply orb_true_iff in H3 as [H3|H3]; [left; exact H3|right; apply Nat.leb_le; exact H3].
      * assert (Hne : String.eqb (ch_member s) (ch_member s') = false).
        { apply String.eqb_neq. intros Eq. apply N1. rewrite Eq. apply in_map. exact Hs'. }
        unfold get_list, get_member. cbn [find fst]. rewrite Hne. apply F. exact Hs'.
Qed.

Lemma fold_right_join_ok l : Forall (fun s => s = SOk) l -> fold_right st_join SOk l = SOk.
Proof. induction 1 as [|x r Hx _ IH]; cbn [fold_right]; [reflexivity|rewrite Hx, IH; reflexivity]. Qed.

Lemma flat_map_unk_nil l : (forall sl, In sl l -> unk sl = []) -> flat_map unk l = [].
Proof.
  induction l as [|x r IH]; cbn [flat_map]; intros H; [reflexivity|].
  rewrite H by (left; reflexivity). apply IH. intros y Hy. apply H. right. exact Hy.
Qed.

Lemma wire_attrs_app a b : wire_attrs (a ++ b) = wire_attrs a ++ wire_attrs b.
Proof. unfold wire_attrs. apply filter_app. Qed.

Lemma to_tree_eq T c ci oa kids ext xa tx :
  class_at T c = Some ci ->
  to_tree T (Obj c oa kids ext xa tx) =
  Node (c_tag ci) (dset_all qname_eqb (adict (known_attrs ci oa)) xa) (text_str tx)
       (flat_map (fun m => map (to_tree T) (get_list m kids)) (child_order ci) ++ map tree_of_ee ext).
Proof.
  intros E. cbn [to_tree]. rewrite E. f_equal. f_equal. apply flat_map_ext_in. intros m _.
  apply (get_list_map (to_tree T)).
Qed.

Lemma t_tag_ser T o ci : class_at T (o_cls o) = Some ci -> t_tag (ser T o) = c_tag ci.
Proof. destruct o as [c oa kids ext xa tx]. cbn [o_cls]. intros E. unfold ser. rewrite (to_tree_eq T c ci) by exact E. reflexivity. Qed.

Record wf_facts (T : table) (ci : class_info) : Prop := {
  wf_tags : NoDup (map ch_tag (c_children ci));
  wf_members : NoDup (map ch_member (c_children ci));
  wf_amembers : NoDup (map at_member (c_attributes ci));
  wf_anames : NoDup (map at_name (c_attributes ci));
  wf_order : NoDup (child_order ci);
  wf_order_all : forall m, In m (map ch_member (c_children ci)) -> In m (child_order ci);
  wf_order_only : forall m, In m (child_order ci) -> In m (map ch_member (c_children ci));
  wf_child_ok : forall s, In s (c_children ci) -> child_ok T s = true;
  wf_defaults : forall kv, In kv (c_parse_defaults ci) -> In (fst kv) (map at_member (c_attributes ci));
  wf_noxmlns : forall a, In a (c_attributes ci) -> is_xmlns_name (at_name a) = false;
  wf_av : c_kind ci = KAttrValue -> forall a, In a (c_attributes ci) -> at_name a <> xsi_type /\ at_name a <> xsi_nil
}.

Lemma wf_class_facts T ci : wf_class T ci = true -> wf_facts T ci.
Proof.
  unfold wf_class. intros H.
  repeat match type of H with (_ && _ = true) => let H' := fresh "W" in apply andb_true_iff in H as [H H'] end.
  unfold qnodup, snodup in *.
  apply nodup_q in H. apply nodup_s in W8. apply nodup_q in W6. apply nodup_s in W5.
  rewrite forallb_forall in W4, W3, W2, W1, W0, W7.
  constructor.
  - exact H.
  - exact (NoDup_app_l _ _ W8).
  - exact (NoDup_app_r _ _ W8).
  - exact W6.
  - exact W5.
  - intros m Hm. apply smem_In. apply W4. exact Hm.
  - intros m Hm. apply smem_In. apply W3. exact Hm.
  - exact W2.
  - intros kv Hkv. apply smem_In. apply W1. exact Hkv.
  - intros a Ha. apply negb_true_iff. apply W0. exact Ha.
  - intros K a Ha. rewrite K in W. rewrite forallb_forall in W. specialize (W a Ha).
    apply negb_true_iff, orb_false_iff in W as [A B]. apply qname_eqb_neq in A, B. auto.
Qed.

(* ------------------------------------------------------------------ round trip *)
Lemma dget_q_app_notin (k : qname) (l1 l2 : attrs) : ~ In k (map fst l1) -> dget qname_eqb k (l1 ++ l2) = dget qname_eqb k l2.
Proof.
  induction l1 as [|[k' v'] r IH]; cbn [app map fst In dget]; [reflexivity|]. intros H.
  destruct (qname_eqb k k') eqn:E; [apply qname_eqb_eq in E; exfalso; apply H; auto|apply IH; tauto].
Qed.

Lemma dget_q_wire_attrs (k : qname) (l : attrs) : is_xmlns_name k = false -> dget qname_eqb k (wire_attrs l) = dget qname_eqb k l.
Proof.
  intros X. unfold wire_attrs. induction l as [|[k' v'] r IH]; cbn [filter fst dget]; [reflexivity|].
  destruct (qname_eqb k k') eqn:E.
  - apply qname_eqb_eq in E. subst k'. rewrite X. cbn [negb dget]. rewrite qname_eqb_refl. reflexivity.
  - destruct (negb (is_xmlns_name k')); cbn [dget]; rewrite ?E; exact IH.
Qed.

Section Roundtrip.
  Variable T : table.

  Definition rt_ok (o : obj) : Prop :=
    harvest T (o_cls o) (ser T o) = o /\ harvest_status T (o_cls o) (ser T o) = SOk.

  Lemma find_child_In ci s : NoDup (map ch_tag (c_children ci)) -> In s (c_children ci) -> find_child ci (ch_tag s) = Some s.
  Proof. intros N H. unfold find_child. apply (find_NoDup_key qname_eqb ch_tag); [apply qname_eqb_eq|exact N|exact H]. Qed.

  (* a child member value, serialised, is recognised as that member's child and read back *)
  Lemma classify_child ci s o' c' :
    wf_facts T ci -> In s (c_children ci) -> ch_class s = Some c' -> o_cls o' = c' -> rt_ok o' ->
    classify T ci (ser T o') = SKnown s (Some o') /\
    (if tag_is T c' (t_tag (ser T o')) then harvest_status T c' (ser T o') else SOk) = SOk.
  Proof.
    intros F Hs Hc Ho [R1 R2]. pose proof (wf_child_ok _ _ F s Hs) as CO. unfold child_ok in CO. rewrite Hc in CO.
    destruct (class_at T c') as [ci'|] eqn:Ec'; [|discriminate]. apply qname_eqb_eq in CO.
    assert (Et : t_tag (ser T o') = ch_tag s) by (rewrite (t_tag_ser T o' ci') by (rewrite Ho; exact Ec'); exact CO).
    unfold classify. rewrite Et, (find_child_In ci s (wf_tags _ _ F) Hs), Hc.
    assert (Eis : tag_is T c' (ch_tag s) = true) by (unfold tag_is; rewrite Ec'; apply qname_eqb_eq; exact CO).
    rewrite Eis. rewrite <- Ho. rewrite R1. split; [reflexivity|exact R2].
  Qed.

  Lemma classify_ext ci e :
    ee_ok e = true -> ee_no_cr e = true -> known_tag ci (ee_name e) = false ->
    classify T ci (wire (tree_of_ee e)) = SUnknown e.
  Proof.
    intros H1 H2 H3. rewrite wire_tree_of_ee by assumption. unfold classify.
    assert (Et : t_tag (tree_of_ee e) = ee_name e) by (destruct e; reflexivity). rewrite Et.
    unfold known_tag in H3. destruct (find_child ci (ee_name e)); [discriminate|]. rewrite ee_tree_ee by exact H1. reflexivity.
  Qed.

  Theorem roundtrip_obj o :
    wf_obj_b T o = true -> canonical_b T o = true -> no_cr_b o = true -> rt_ok o.
  Proof.
    induction o as [c oa kids ext xa tx IH] using obj_ind'. intros W C N.
    cbn [wf_obj_b canonical_b no_cr_b] in W, C, N.
    destruct (class_at T c) as [ci|] eqn:Eci; [|discriminate].
    apply andb_true_iff in W as [Wci Wk].
    pose proof (wf_class_facts T ci Wci) as F.
    apply andb_true_iff in C as [C C8]. apply andb_true_iff in C as [C C7]. apply andb_true_iff in C as [C C6].
    apply andb_true_iff in C as [C C5]. apply andb_true_iff in C as [C C4]. apply andb_true_iff in C as [C C3].
    apply andb_true_iff in C as [C1 C2].
    apply andb_true_iff in N as [N Nk]. apply andb_true_iff in N as [Nx Ne]. apply negb_true_iff in Nx.
    apply (list_eqb_eq String.eqb String.eqb_eq) in C1.
    change (forallb2 kid_ok kids (c_children ci) = true) in C4.
    destruct (forallb2_kids kids (c_children ci) C4 (wf_members _ _ F)) as [Ek Fk].
    apply nodup_q in C6.
    set (vals := fun s : child_spec => get_list (ch_member s) kids).
    (* per child value: class, round trip *)
    assert (Hval : forall s, In s (c_children ci) -> forall o', In o' (vals s) ->
              exists c', ch_class s = Some c' /\ o_cls o' = c' /\ rt_ok o').
    { intros s Hs o' Ho'. destruct (Fk s Hs) as [Fc _]. rewrite forallb_forall in Fc. specialize (Fc o' Ho').
      destruct (ch_class s) as [c'|] eqn:Ec; cbn [opt_eqb] in Fc; [|discriminate]. apply N.eqb_eq in Fc.
      exists c'. split; [reflexivity|]. split; [exact Fc|].
      pose proof (Forall_kids_vals _ kids (ch_member s) IH) as IHs. rewrite Forall_forall in IHs.
      apply IHs; [exact Ho'| | |].
      - pose proof (forallb_kids_vals _ kids (ch_member s) Wk) as X. rewrite forallb_forall in X. apply X. exact Ho'.
      - pose proof (forallb_kids_vals _ kids (ch_member s) C3) as X. rewrite forallb_forall in X. apply X. exact Ho'.
      - pose proof (forallb_kids_vals _ kids (ch_member s) Nk) as X. rewrite forallb_forall in X. apply X. exact Ho'. }
    destruct (members_specs (c_children ci) (child_order ci) (wf_order_only _ _ F)) as [ospecs [Eo Io]].
    (* the serialised tree *)
    unfold rt_ok, ser. cbn [o_cls]. rewrite (to_tree_eq T c ci) by exact Eci. cbn [wire].
    set (known := known_attrs ci oa).
    assert (Nkn : NoDup (map fst known)) by (apply NoDup_emit_names; exact (wf_anames _ _ F)).
    assert (Hkn : forall kv, In kv known -> find_attr ci (fst kv) <> None).
    { intros kv Hkv. apply (emit_names oa) in Hkv as [a [Ia En]]. rewrite En, (find_attr_In ci (wf_anames _ _ F) a Ia). discriminate. }
    assert (Hxa : forall kv, In kv xa -> find_attr ci (fst kv) = None).
    { intros kv Hkv. rewrite forallb_forall in C7. specialize (C7 kv Hkv). apply negb_true_iff in C7.
      unfold known_attr in C7. destruct (find_attr ci (fst kv)); [discriminate|reflexivity]. }
    assert (EA : dset_all qname_eqb (adict known) xa = known ++ xa).
    { rewrite adict_id by exact Nkn. apply (dset_all_fresh qname_eqb qname_eqb_eq); [exact C6|].
      intros k Hk Hk'. apply in_map_iff in Hk as [kv [<- Hkv]]. apply in_map_iff in Hk' as [kv' [E' Hkv']].
      apply (Hkn kv' Hkv'). rewrite E'. apply Hxa. exact Hkv. }
    rewrite EA, wire_attrs_app.
    assert (Ewk : wire_attrs known = known).
    { apply wire_attrs_id. apply forallb_forall. intros kv Hkv. apply (emit_names oa) in Hkv as [a [Ia En]].
      rewrite En. rewrite (wf_noxmlns _ _ F a Ia). reflexivity. }
    rewrite Ewk.
    assert (Hxa' : forall kv, In kv (wire_attrs xa) -> find_attr ci (fst kv) = None).
    { intros kv Hkv. apply filter_In in Hkv as [Hkv _]. apply Hxa. exact Hkv. }
    (* children: slots *)
    set (K := flat_map (fun m => map (to_tree T) (get_list m kids)) (child_order ci)).
    assert (Eslots : map (classify T ci) (map wire (K ++ map tree_of_ee ext)) =
                     flat_map (group vals) ospecs ++ map SUnknown ext).
    { rewrite !map_app. f_equal.
      - unfold K. rewrite Eo, flat_map_map, !map_flat_map. apply flat_map_ext_in. intros s Hs.
        unfold group. rewrite !map_map. apply map_ext_in. intros o' Ho'.
        destruct (Hval s (Io s Hs) o' Ho') as [c' [Ec [Ecl R]]].
        exact (proj1 (classify_child ci s o' c' F (Io s Hs) Ec Ecl R)).
      - rewrite !map_map. apply map_ext_in. intros e He. rewrite forallb_forall in C5, Ne.
        specialize (C5 e He). apply andb_true_iff in C5 as [Ce Cu]. apply negb_true_iff in Cu.
        apply classify_ext; [exact Ce|apply Ne; exact He|exact Cu]. }
    assert (Estat : Forall (fun st => st = SOk)
              (map (fun k => match find_child ci (t_tag k) with
                             | Some s => match ch_class s with
                                         | Some c' => if tag_is T c' (t_tag k) then harvest_status T c' k else SOk
                                         | None => SRaise
                                         end
                             | None => SOk
                             end) (map wire (K ++ map tree_of_ee ext)))).
    { rewrite map_map. apply Forall_forall. intros st Hst. apply in_map_iff in Hst as [k [<- Hk]].
      apply in_app_or in Hk as [Hk|Hk].
      - unfold K in Hk. apply in_flat_map in Hk as [m [Hm Hk]]. apply in_map_iff in Hk as [o' [<- Ho']].
        rewrite Eo in Hm. apply in_map_iff in Hm as [s [<- Hs]].
        destruct (Hval s (Io s Hs) o' Ho') as [c' [Ec [Ecl R]]].
        destruct (classify_child ci s o' c' F (Io s Hs) Ec Ecl R) as [Cl St].
        fold (ser T o'). unfold classify in Cl.
        destruct (find_child ci (t_tag (ser T o'))) as [s'|]; [|discriminate].
        destruct (ch_class s') as [c''|] eqn:Ec''; [|discriminate]. inversion Cl; subst s'.
        rewrite Ec in Ec''. inversion Ec''; subst c''. exact St.
      - apply in_map_iff in Hk as [e [<- He]]. rewrite forallb_forall in C5, Ne.
        specialize (C5 e He). apply andb_true_iff in C5 as [Ce Cu]. apply negb_true_iff in Cu.
        rewrite wire_tree_of_ee by (try exact Ce; apply Ne; exact He).
        assert (Et : t_tag (tree_of_ee e) = ee_name e) by (destruct e; reflexivity). rewrite Et.
        unfold known_tag in Cu. destruct (find_child ci (ee_name e)); [discriminate|reflexivity]. }
    (* members *)
    assert (Ekids : h_kids ci (flat_map (group vals) ospecs ++ map SUnknown ext) = kids).
    { unfold h_kids, LK. rewrite <- (map_map ch_member (fun m => (m, fold_left (stepk m) _ []))), <- Ek.
      apply aligned_lookup; [rewrite Ek; exact (wf_members _ _ F)|].
      intros m v Hmv. rewrite fold_left_app, fold_stepk_unknown.
      assert (Hm : In m (child_order ci)).
      { apply (wf_order_all _ _ F). rewrite <- Ek. apply (in_map fst) in Hmv. exact Hmv. }
      rewrite Eo in Hm. apply in_map_iff in Hm as [s [<- Hs]].
      rewrite (fold_groups_in vals s ospecs); [|rewrite <- Eo; exact (wf_order _ _ F)|exact Hs|exact (proj2 (Fk s (Io s Hs)))].
      unfold vals. apply get_list_In; [rewrite Ek; exact (wf_members _ _ F)|exact Hmv]. }
    assert (Eext : h_ext (flat_map (group vals) ospecs ++ map SUnknown ext) = ext).
    { unfold h_ext. rewrite flat_map_app, flat_map_unk_unknown, flat_map_unk_nil; [reflexivity|].
      intros sl Hsl. apply in_flat_map in Hsl as [s [_ Hsl]]. unfold group in Hsl. apply in_map_iff in Hsl as [o' [<- _]]. reflexivity. }
    (* attributes *)
    assert (Eattrs : h_attrs ci (known ++ wire_attrs xa) = oa).
    { unfold h_attrs, LA.
      set (h := fun m => fold_left (stepa ci m) (known ++ wire_attrs xa) (dget String.eqb m (c_parse_defaults ci))).
      change (map (fun a => (at_member a, h (at_member a))) (c_attributes ci) = oa).
      rewrite <- (map_map at_member (fun m => (m, h m))), <- C1.
      apply aligned_lookup; [rewrite C1; exact (wf_amembers _ _ F)|].
      intros m v Hmv. unfold h. rewrite fold_left_app, (fold_stepa_unknown ci m (wire_attrs xa)) by exact Hxa'.
      assert (Hm : In m (map at_member (c_attributes ci))) by (rewrite <- C1; apply (in_map fst) in Hmv; exact Hmv).
      apply in_map_iff in Hm as [a [<- Ha]]. unfold known. rewrite known_attrs_emit.
      rewrite (fold_stepa_emits_in ci (wf_anames _ _ F) oa a (c_attributes ci));
        [|apply incl_refl|exact (wf_amembers _ _ F)|exact Ha].
      rewrite (get_member_In oa (at_member a) v) by (try exact Hmv; rewrite C1; exact (wf_amembers _ _ F)).
      destruct v as [v|]; [reflexivity|].
      rewrite forallb_forall in C2. specialize (C2 a Ha).
      rewrite (get_member_In oa (at_member a) None) in C2 by (try exact Hmv; rewrite C1; exact (wf_amembers _ _ F)).
      rewrite orb_false_r in C2. apply negb_true_iff in C2. unfold dmem in C2.
      destruct (dget String.eqb (at_member a) (c_parse_defaults ci)); [discriminate|reflexivity]. }
    assert (Exattrs : h_xattrs ci (known ++ wire_attrs xa) = dset_all qname_eqb (init_xattrs ci) (wire_attrs xa)).
    { unfold h_xattrs. rewrite fold_left_app, (fold_stepx_known ci known) by exact Hkn.
      apply fold_stepx_unknown. exact Hxa'. }
    assert (Enil : c_kind ci = KAttrValue ->
                   dmem qname_eqb xsi_nil (known ++ wire_attrs xa) = dmem qname_eqb xsi_nil xa).
    { intros Kd. unfold dmem. rewrite dget_q_app_notin, dget_q_wire_attrs; [reflexivity|reflexivity|].
      intros Hn. apply in_map_iff in Hn as [kv [Ekv Hkv]]. specialize (Hkn kv Hkv). rewrite Ekv in Hkn.
      destruct (find_attr ci xsi_nil) as [a0|] eqn:Fa; [|apply Hkn; reflexivity].
      destruct (find_some_key qname_eqb at_name (c_attributes ci) xsi_nil a0 qname_eqb_eq Fa) as [Ia En].
      destruct (wf_av _ _ F Kd a0 Ia) as [_ Y]. apply Y. exact En. }
    split.
    - rewrite (harvest_eq T c _ _ _ _ ci Eci), Eslots, assemble_eq, Ekids, Eext, Eattrs, Exattrs.
      unfold init_xattrs. destruct (c_kind ci) eqn:Ekind.
      + apply andb_true_iff in C8 as [C8a C8b]. apply negb_true_iff in C8b.
        rewrite (wire_attrs_id xa) by exact C8a.
        rewrite (dset_all_nil_fresh qname_eqb qname_eqb_eq) by exact C6.
        rewrite norm_eol_id by exact Nx. rewrite text_opt_str by exact C8b. reflexivity.
      + unfold av_fix_b in C8. rewrite (Enil eq_refl).
        destruct (av_finish (dmem qname_eqb xsi_nil xa) ext (dset_all qname_eqb av_init_xattrs (wire_attrs xa)) (norm_eol (text_str tx)))
          as [xa' tx'| |]; try discriminate.
        apply andb_true_iff in C8 as [A B]. apply attrs_eqb_eq in A. apply opt_string_eqb_eq in B. subst xa' tx'. reflexivity.
    - cbn [harvest_status]. rewrite Eci.
      rewrite (ext_of_eq T), xattrs_of_eq, Eslots, Eext, Exattrs.
      assert (Eown : match c_kind ci with
                     | KPlain => SOk
                     | KAttrValue =>
                         match av_finish (dmem qname_eqb xsi_nil (known ++ wire_attrs xa)) ext
                                         (dset_all qname_eqb (init_xattrs ci) (wire_attrs xa)) (norm_eol (text_str tx)) with
                         | AvOk _ _ => SOk | AvRaise => SRaise | AvUnmodelled => SUnmodelled end
                     end = SOk).
      { unfold init_xattrs. destruct (c_kind ci) eqn:Ekind; [reflexivity|]. unfold av_fix_b in C8. rewrite (Enil eq_refl).
        destruct (av_finish (dmem qname_eqb xsi_nil xa) ext (dset_all qname_eqb av_init_xattrs (wire_attrs xa)) (norm_eol (text_str tx))); try discriminate.
        reflexivity. }
      rewrite Eown. apply fold_right_join_ok. exact Estat.
  Qed.
End Roundtrip.

(* ------------------------------------------------------------------ more on dicts (qname keys) *)
Lemma dget_ddel_other (d : attrs) k n : n <> k -> dget qname_eqb n (ddel qname_eqb k d) = dget qname_eqb n d.
Proof.
  intros N. induction d as [|[k' v'] r IH]; cbn [ddel dget]; [reflexivity|].
  destruct (qname_eqb k k') eqn:E.
  - apply qname_eqb_eq in E. subst k'. apply qname_eqb_neq in N. rewrite N. reflexivity.
  - cbn [dget]. rewrite IH. reflexivity.
Qed.

Lemma dget_q_dset_same n (v : string) (d : attrs) : dget qname_eqb n (dset qname_eqb n v d) = Some v.
Proof. apply (dget_dset_same qname_eqb qname_eqb_eq). Qed.

Lemma dget_q_dset_other k n (v : string) (d : attrs) : n <> k -> dget qname_eqb n (dset qname_eqb k v d) = dget qname_eqb n d.
Proof. apply (dget_dset_other qname_eqb qname_eqb_eq). Qed.

(* ------------------------------------------------------------------ nothing unknown is dropped (one level) *)
Section Kept.
  Variable T : table.

  Lemma h_ext_classify ci kids :
    h_ext (map (classify T ci) kids) = map ee_of_tree (filter (fun k => negb (known_tag ci (t_tag k))) kids).
  Proof.
    unfold h_ext. induction kids as [|k r IH]; cbn [map flat_map filter]; [reflexivity|].
    rewrite IH. unfold classify at 1, known_tag at 2. destruct (find_child ci (t_tag k)) as [s|]; cbn [is_some negb].
    - destruct (ch_class s); reflexivity.
    - reflexivity.
  Qed.

  Lemma dget_fold_stepx_other ci n l : forall acc,
    ~ In n (map fst l) -> dget qname_eqb n (fold_left (stepx ci) l acc) = dget qname_eqb n acc.
  Proof.
    induction l as [|kv r IH]; intros acc H; cbn [fold_left]; [reflexivity|]. cbn [map In] in H.
    rewrite IH by tauto. unfold stepx. destruct (find_attr ci (fst kv)); [reflexivity|].
    apply dget_q_dset_other. intros E. apply H. left. symmetry. exact E.
  Qed.

  Lemma dget_fold_stepx ci n v l : forall acc,
    NoDup (map fst l) -> In (n, v) l -> find_attr ci n = None ->
    dget qname_eqb n (fold_left (stepx ci) l acc) = Some v.
  Proof.
    induction l as [|kv r IH]; intros acc N I U; cbn [fold_left]; [contradiction|].
    cbn [map] in N. inversion N as [|? ? N1 N2]; subst. destruct I as [->|I].
    - rewrite dget_fold_stepx_other by exact N1. unfold stepx. cbn [fst snd]. rewrite U. apply dget_q_dset_same.
    - apply IH; assumption.
  Qed.

  (* every child / attribute the class does not know is kept as an extension of the object *)
  Theorem unknown_kept c ci t :
    class_at T c = Some ci -> NoDup (map fst (t_attrs t)) ->
    o_ext (harvest T c t) = map ee_of_tree (filter (fun k => negb (known_tag ci (t_tag k))) (t_kids t))
    /\ (forall n v, In (n, v) (t_attrs t) -> known_attr ci n = false ->
          av_managed ci n = false -> is_xmlns_name n = false -> harvest_status T c t = SOk ->
          dget qname_eqb n (o_xattrs (harvest T c t)) = Some v).
  Proof.
    intros E N. destruct t as [g a x kids]. cbn [t_attrs t_kids] in *.
    rewrite (harvest_eq T c g a x kids ci E), assemble_eq.
    assert (X : forall n v, In (n, v) a -> known_attr ci n = false -> dget qname_eqb n (h_xattrs ci a) = Some v).
    { intros n v I U. unfold h_xattrs. apply dget_fold_stepx; [exact N|exact I|].
      unfold known_attr in U. destruct (find_attr ci n); [discriminate|reflexivity]. }
    destruct (c_kind ci) eqn:K.
    - cbn [o_ext o_xattrs]. split; [apply h_ext_classify|]. intros n v I U _ _ _. apply X; assumption.
    - assert (Eext : forall xa tx, o_ext (match av_finish (dmem qname_eqb xsi_nil a) (h_ext (map (classify T ci) kids)) (h_xattrs ci a) x with
                             | AvOk xa' tx' => Obj c (h_attrs ci a) (h_kids ci (map (classify T ci) kids)) (h_ext (map (classify T ci) kids)) xa' tx'
                             | _ => Obj c (h_attrs ci a) (h_kids ci (map (classify T ci) kids)) (h_ext (map (classify T ci) kids)) xa tx
                             end) = h_ext (map (classify T ci) kids)).
      { intros xa tx. destruct (av_finish _ _ _ _); reflexivity. }
      split; [rewrite Eext; apply h_ext_classify|].
      intros n v I U M NX St. unfold av_managed in M. rewrite K in M. apply orb_false_iff in M as [M1 M2].
      apply qname_eqb_neq in M1, M2.
      cbn [harvest_status] in St. rewrite E, K in St. rewrite (ext_of_eq T), xattrs_of_eq in St.
      specialize (X n v I U).
      assert (NX1 : n <> xmlns_xs) by (intros ->; discriminate NX).
      assert (NX2 : n <> xmlns_xsd) by (intros ->; discriminate NX).
      unfold av_finish in *. destruct (av_retyped _ _ _ _).
      { cbn [o_xattrs]. unfold av_set_type.
        repeat match goal with |- context [if ?b then _ else _] => destruct b end;
          rewrite ?dget_q_dset_other by assumption; rewrite dget_ddel_other by exact M1; exact X. }
      unfold av_finish_f5v0 in *.
      set (x1 := if negb (is_empty x) && nonempty (h_ext (map (classify T ci) kids)) then strip x else x) in *.
      destruct (is_empty x1).
      + cbn [o_xattrs]. destruct (nonempty (h_ext (map (classify T ci) kids))); [rewrite dget_ddel_other by exact M1|]; exact X.
      + destruct (split_type _) as [ns ty]. destruct (negb (type_ok _)).
        { exfalso. clear -St. induction (map _ kids) as [|s r IH]; cbn [fold_right] in St; [discriminate|].
          destruct s, (fold_right st_join SRaise r); cbn in St; try discriminate; auto. }
        destruct (av_convert ty x1) as [x2| |].
        * cbn [o_xattrs]. rewrite dget_ddel_other by exact M1. unfold av_set_type.
          repeat match goal with |- context [if ?b then _ else _] => destruct b end;
            rewrite ?dget_q_dset_other by assumption; rewrite dget_ddel_other by exact M1; exact X.
        * exfalso. clear -St. induction (map _ kids) as [|s r IH]; cbn [fold_right] in St; [discriminate|].
          destruct s, (fold_right st_join SRaise r); cbn in St; try discriminate; auto.
        * exfalso. clear -St. induction (map _ kids) as [|s r IH]; cbn [fold_right] in St; [discriminate|].
          destruct s, (fold_right st_join SUnmodelled r); cbn in St; try discriminate; auto.
  Qed.
End Kept.

(* ------------------------------------------------------------------ corollaries *)
Lemma canonical_wf_table T o : wf_table T = true -> canonical_b T o = true -> wf_obj_b T o = true.
Proof.
  intros W. induction o as [c oa kids ext xa tx IH] using obj_ind'. cbn [canonical_b wf_obj_b].
  destruct (class_at T c) as [ci|] eqn:E; [|discriminate]. intros C.
  rewrite (wf_table_class T c ci W E). cbn [andb].
  repeat (apply andb_true_iff in C as [C ?]).
  match goal with H : forallb (fun mk => forallb (canonical_b T) (snd mk)) kids = true |- _ => rename H into C3 end.
  apply forallb_forall. intros mk Hmk. apply forallb_forall. intros o' Ho'.
  rewrite Forall_forall in IH. specialize (IH mk Hmk). rewrite Forall_forall in IH. apply IH; [exact Ho'|].
  rewrite forallb_forall in C3. specialize (C3 mk Hmk). rewrite forallb_forall in C3. apply C3. exact Ho'.
Qed.

Theorem roundtrip_wf_table T o :
  wf_table T = true -> canonical_b T o = true -> no_cr_b o = true ->
  harvest T (o_cls o) (ser T o) = o /\ harvest_status T (o_cls o) (ser T o) = SOk.
Proof. intros W C N. apply roundtrip_obj; [apply canonical_wf_table; assumption|exact C|exact N]. Qed.

Theorem reserialise_same T o :
  wf_obj_b T o = true -> canonical_b T o = true -> no_cr_b o = true ->
  ser T (harvest T (o_cls o) (ser T o)) = ser T o.
Proof. intros W C N. rewrite (proj1 (roundtrip_obj T o W C N)). reflexivity. Qed.

(* ------------------------------------------------------------------ small tables: non-vacuity and refutations *)
Definition mk_class (name : string) (tag : qname) (kind : class_kind) (ch : list child_spec) (at_ : list attr_spec)
  (order : list string) : class_info :=
  {| c_name := name; c_tag := tag; c_kind := kind; c_children := ch; c_attributes := at_; c_child_order := order;
     c_cardinality := []; c_any := None; c_any_attribute := None; c_value_type := None; c_parse_defaults := [] |}.

Definition q_t (l : string) : qname := QN (Some "urn:t") l.
Definition id_attr : attr_spec := {| at_name := QN None "Id"; at_member := "id"; at_type := AT_simple "ID"; at_required := false |}.

(* 0 = Box (Leaf*, One?), 1 = Leaf, 2 = One, 3 = Value (AttributeValueBase) *)
Definition ex_table : table :=
  [ mk_class "t.Box" (q_t "Box") KPlain
      [ {| ch_tag := q_t "Leaf"; ch_member := "leaf"; ch_class := Some 1%N; ch_list := true |};
        {| ch_tag := q_t "One"; ch_member := "one"; ch_class := Some 2%N; ch_list := false |} ]
      [id_attr] ["one"; "leaf"];
    mk_class "t.Leaf" (q_t "Leaf") KPlain [] [id_attr] [];
    mk_class "t.One" (q_t "One") KPlain [] [] [];
    mk_class "t.Value" (q_t "Value") KAttrValue [] [] [] ].

(* the same, but Box registers One under a namespace the element does not live in (the C12-F1 pattern) *)
Definition ex_table_f1 : table :=
  [ mk_class "t.Box" (q_t "Box") KPlain
      [ {| ch_tag := q_t "Leaf"; ch_member := "leaf"; ch_class := Some 1%N; ch_list := true |};
        {| ch_tag := QN (Some "urn:wrong") "One"; ch_member := "one"; ch_class := Some 2%N; ch_list := false |} ]
      [id_attr] ["one"; "leaf"];
    mk_class "t.Leaf" (q_t "Leaf") KPlain [] [id_attr] [];
    mk_class "t.One" (q_t "One") KPlain [] [] [] ].

Definition ex_leaf (id : option string) (text : option string) : obj := Obj 1%N [("id", id)] [] [] [] text.
Definition ex_one : obj := Obj 2%N [] [] [] [] None.
Definition ex_box : obj :=
  Obj 0%N [("id", Some "b<1>")]
      [("leaf", [ex_leaf (Some "x") (Some "a & b"); ex_leaf None None]); ("one", [ex_one])]
      [EE (Some "urn:foreign") "ext" [(QN None "k", "v")] [] (Some "t")]
      [(QN (Some "urn:foreign") "fa", "1")] None.

Example ex_table_wf : wf_table ex_table = true.
Proof. vm_compute. reflexivity. Qed.

Example canonical_sat : wf_obj_b ex_table ex_box = true /\ canonical_b ex_table ex_box = true /\ no_cr_b ex_box = true.
Proof. vm_compute. auto. Qed.

(* children come out in c_child_order (One before Leaf), extensions last *)
Example ex_box_order :
  map t_tag (t_kids (ser ex_table ex_box)) = [q_t "One"; q_t "Leaf"; q_t "Leaf"; QN (Some "urn:foreign") "ext"].
Proof. vm_compute. reflexivity. Qed.

Lemma obj_neq a b : obj_eqb a b = false -> a <> b.
Proof. intros H E. apply obj_eqb_eq in E. congruence. Qed.

(* finding class 1: without wf_class the round trip fails (the member is lost, an extension appears) *)
Lemma roundtrip_refuted_f1 :
  exists T o, canonical_b T o = true /\ no_cr_b o = true /\ harvest T (o_cls o) (ser T o) <> o.
Proof.
  exists ex_table_f1, ex_box. split; [vm_compute; reflexivity|]. split; [vm_compute; reflexivity|].
  apply obj_neq. vm_compute. reflexivity.
Qed.

(* finding class 2: a carriage return in character data does not survive *)
Definition cr_text : string := String "a"%char (String c_cr (String "b"%char EmptyString)).
Lemma roundtrip_refuted_cr :
  exists T o, wf_table T = true /\ canonical_b T o = true /\ harvest T (o_cls o) (ser T o) <> o.
Proof.
  exists ex_table, (ex_leaf None (Some cr_text)). split; [vm_compute; reflexivity|]. split; [vm_compute; reflexivity|].
  apply obj_neq. vm_compute. reflexivity.
Qed.

(* ------------------------------------------------------------------ AttributeValueBase: parsing is idempotent *)
Lemma qname_eqb_sym_b a b : qname_eqb a b = qname_eqb b a.
Proof.
  destruct (qname_eqb a b) eqn:E.
  - apply qname_eqb_eq in E. subst. symmetry. apply qname_eqb_refl.
  - symmetry. apply qname_eqb_neq. apply qname_eqb_neq in E. congruence.
Qed.

Definition not_nil (kv : qname * string) : bool := negb (qname_eqb (fst kv) xsi_nil).

Fixpoint last_nil (l : attrs) (v0 : string) : string :=
  match l with
  | [] => v0
  | (k, v) :: r => if qname_eqb k xsi_nil then last_nil r v else last_nil r v0
  end.

Lemma dset_all_head_nil l : forall acc v0,
  dset_all qname_eqb ((xsi_nil, v0) :: acc) l = (xsi_nil, last_nil l v0) :: dset_all qname_eqb acc (filter not_nil l).
Proof.
  unfold dset_all. induction l as [|[k v] r IH]; intros acc v0; cbn [fold_left filter last_nil]; [reflexivity|].
  unfold not_nil at 1. cbn [fst snd dset]. destruct (qname_eqb k xsi_nil) eqn:E; cbn [negb].
  - rewrite IH. reflexivity.
  - rewrite IH. cbn [fold_left fst snd]. reflexivity.
Qed.

Lemma filter_not_nil_id l : ~ In xsi_nil (map fst l) -> filter not_nil l = l.
Proof.
  induction l as [|[k v] r IH]; cbn [filter map fst In]; [reflexivity|]. intros H.
  unfold not_nil at 1. cbn [fst]. destruct (qname_eqb k xsi_nil) eqn:E.
  - apply qname_eqb_eq in E. exfalso. apply H. left. exact E.
  - cbn [negb]. rewrite IH by tauto. reflexivity.
Qed.

Lemma filter_not_nil_ddel l : NoDup (map fst l) -> filter not_nil l = ddel qname_eqb xsi_nil l.
Proof.
  induction l as [|[k v] r IH]; cbn [filter map fst ddel]; [reflexivity|]. intros N. inversion N as [|? ? N1 N2]; subst.
  unfold not_nil at 1. cbn [fst]. rewrite (qname_eqb_sym_b k xsi_nil). destruct (qname_eqb xsi_nil k) eqn:E; cbn [negb].
  - apply qname_eqb_eq in E. subst k. apply filter_not_nil_id. exact N1.
  - rewrite IH by exact N2. reflexivity.
Qed.

(* ---- strings: strip, carriage returns *)
Lemma last_char_rstrip u b : last_char (rstrip u) = Some b -> is_ws b = false.
Proof.
  induction u as [|c r IH]; cbn [rstrip]; [discriminate|].
  destruct (is_ws c && is_empty (rstrip r)) eqn:E; [discriminate|].
  destruct (rstrip r) as [|d r'] eqn:Er.
  - cbn [last_char]. intros H. inversion H; subst. cbn [is_empty] in E. rewrite andb_true_r in E. exact E.
  - cbn [last_char]. exact IH.
Qed.

Lemma first_char_rstrip u a : first_char (rstrip u) = Some a -> first_char u = Some a.
Proof.
  destruct u as [|c r]; cbn [rstrip first_char]; [discriminate|].
  destruct (is_ws c && is_empty (rstrip r)); cbn [first_char]; [discriminate|auto].
Qed.

Lemma first_char_lstrip s a : first_char (lstrip s) = Some a -> is_ws a = false.
Proof.
  induction s as [|c r IH]; cbn [lstrip]; [discriminate|].
  destruct (is_ws c) eqn:E; [exact IH|]. cbn [first_char]. intros H. inversion H; subst. exact E.
Qed.

Lemma no_outer_ws_strip s : no_outer_ws (strip s) = true.
Proof.
  unfold no_outer_ws, strip. destruct (first_char (rstrip (lstrip s))) as [a|] eqn:Ea; [|reflexivity].
  destruct (last_char (rstrip (lstrip s))) as [b|] eqn:Eb; [|reflexivity].
  apply first_char_rstrip, first_char_lstrip in Ea. apply last_char_rstrip in Eb. rewrite Ea, Eb. reflexivity.
Qed.

Lemma strip_strip s : strip (strip s) = strip s.
Proof. apply strip_id. apply no_outer_ws_strip. Qed.

Lemma any_char_lstrip p s : any_char p (lstrip s) = true -> any_char p s = true.
Proof.
  induction s as [|c r IH]; cbn [lstrip any_char]; [auto|]. destruct (is_ws c); [|auto].
  intros H. rewrite IH by exact H. apply orb_true_r.
Qed.

Lemma any_char_rstrip p s : any_char p (rstrip s) = true -> any_char p s = true.
Proof.
  induction s as [|c r IH]; cbn [rstrip any_char]; [auto|].
  destruct (is_ws c && is_empty (rstrip r)); cbn [any_char]; [discriminate|].
  intros H. apply orb_true_iff in H as [H|H]; [rewrite H; reflexivity|rewrite IH by exact H; apply orb_true_r].
Qed.

Lemma has_cr_strip s : has_cr s = false -> has_cr (strip s) = false.
Proof.
  unfold has_cr, strip. intros H. destruct (any_char _ (rstrip (lstrip s))) eqn:E; [|reflexivity].
  apply any_char_rstrip, any_char_lstrip in E. congruence.
Qed.


(* ---- Python int(str) / str(int) on ASCII literals, as restated by conv_int *)
Lemma digit_facts c : is_digit c = true ->
  Ascii.eqb c c_cr = false /\ is_ws c = false /\ Ascii.eqb c c_us = false /\ (code c <? 128)%nat = true
  /\ Ascii.eqb c "-"%char = false /\ Ascii.eqb c "+"%char = false.
Proof.
  destruct c as [[] [] [] [] [] [] [] []]; vm_compute; intros H; try discriminate H; repeat split.
Qed.

Lemma int_body_digits s : forall p, int_body_ok p s = true ->
  all_chars is_digit (drop_us s) = true /\ (p = false -> is_empty (drop_us s) = false).
Proof.
  induction s as [|c r IH]; intros p; cbn [int_body_ok drop_us all_chars].
  - intros ->. split; [reflexivity|discriminate].
  - destruct (is_digit c) eqn:D.
    + destruct (digit_facts c D) as [_ [_ [U _]]]. rewrite U. cbn [all_chars is_empty]. rewrite D.
      intros H. destruct (IH true H) as [A _]. rewrite A. split; [reflexivity|reflexivity].
    + destruct (Ascii.eqb c c_us) eqn:U; [|discriminate]. intros H. apply andb_true_iff in H as [_ H].
      destruct (IH false H) as [A B]. split; [exact A|intros _; apply B; reflexivity].
Qed.

Lemma drop_zeros_digits s : all_chars is_digit s = true -> is_empty s = false ->
  all_chars is_digit (drop_zeros s) = true /\ is_empty (drop_zeros s) = false /\ drop_zeros (drop_zeros s) = drop_zeros s.
Proof.
  induction s as [|c r IH]; [discriminate|]. cbn [all_chars drop_zeros]. intros A _.
  apply andb_true_iff in A as [Ac Ar]. destruct (Ascii.eqb c c_zero) eqn:Z.
  - destruct r as [|d r'].
    + cbn [all_chars is_empty drop_zeros]. rewrite Ac, Z. auto.
    + apply IH; [exact Ar|reflexivity].
  - cbn [all_chars is_empty drop_zeros]. rewrite Ac, Ar, Z. auto.
Qed.

Lemma digits_body_ok s : all_chars is_digit s = true -> int_body_ok true s = true.
Proof.
  induction s as [|c r IH]; cbn [all_chars int_body_ok]; [reflexivity|]. intros A. apply andb_true_iff in A as [Ac Ar].
  rewrite Ac. apply IH. exact Ar.
Qed.

Lemma digits_body_ok_ne s : all_chars is_digit s = true -> is_empty s = false -> int_body_ok false s = true.
Proof.
  destruct s as [|c r]; [discriminate|]. cbn [all_chars int_body_ok]. intros A _. apply andb_true_iff in A as [Ac Ar].
  rewrite Ac. apply digits_body_ok. exact Ar.
Qed.

Lemma digits_drop_us s : all_chars is_digit s = true -> drop_us s = s.
Proof.
  induction s as [|c r IH]; cbn [all_chars drop_us]; [reflexivity|]. intros A. apply andb_true_iff in A as [Ac Ar].
  destruct (digit_facts c Ac) as [_ [_ [U _]]]. rewrite U, IH by exact Ar. reflexivity.
Qed.

Lemma digits_ascii s : all_chars is_digit s = true -> is_ascii_str s = true.
Proof.
  unfold is_ascii_str. induction s as [|c r IH]; cbn [all_chars]; [reflexivity|]. intros A. apply andb_true_iff in A as [Ac Ar].
  destruct (digit_facts c Ac) as [_ [_ [_ [X _]]]]. rewrite X, IH by exact Ar. reflexivity.
Qed.

Lemma digits_no_cr s : all_chars is_digit s = true -> has_cr s = false.
Proof.
  unfold has_cr. induction s as [|c r IH]; cbn [all_chars any_char]; [reflexivity|]. intros A. apply andb_true_iff in A as [Ac Ar].
  destruct (digit_facts c Ac) as [X _]. rewrite X, IH by exact Ar. reflexivity.
Qed.

Lemma digits_last s b : all_chars is_digit s = true -> last_char s = Some b -> is_digit b = true.
Proof.
  induction s as [|c r IH]; cbn [all_chars last_char]; [discriminate|]. intros A. apply andb_true_iff in A as [Ac Ar].
  destruct r as [|d r']; [intros H; inversion H; subst; exact Ac|apply IH; exact Ar].
Qed.

Lemma digits_strip s : all_chars is_digit s = true -> strip s = s.
Proof.
  intros A. apply strip_id. unfold no_outer_ws. destruct s as [|c r]; [reflexivity|]. cbn [first_char].
  destruct (last_char (String c r)) as [b|] eqn:L; [|reflexivity].
  pose proof (digits_last _ b A L) as Db. cbn [all_chars] in A. apply andb_true_iff in A as [Ac _].
  destruct (digit_facts c Ac) as [_ [W _]]. destruct (digit_facts b Db) as [_ [Wb _]]. rewrite W, Wb. reflexivity.
Qed.

Lemma conv_int_digits d :
  all_chars is_digit d = true -> is_empty d = false -> drop_zeros d = d -> conv_int d = CText d.
Proof.
  intros A N Z. unfold conv_int. rewrite (digits_ascii d A). cbn [negb]. rewrite (digits_strip d A).
  destruct d as [|c r]; [discriminate|]. pose proof A as A'. cbn [all_chars] in A'. apply andb_true_iff in A' as [Ac _].
  destruct (digit_facts c Ac) as [_ [_ [_ [_ [M P]]]]]. rewrite M, P.
  rewrite (digits_body_ok_ne _ A N), (digits_drop_us _ A), Z. cbn [andb]. reflexivity.
Qed.

Lemma conv_int_neg d :
  all_chars is_digit d = true -> is_empty d = false -> drop_zeros d = d -> String.eqb d "0" = false ->
  conv_int (String "-"%char d) = CText (String "-"%char d).
Proof.
  intros A N Z NZ. unfold conv_int.
  assert (As : is_ascii_str (String "-"%char d) = true).
  { pose proof (digits_ascii d A) as X. unfold is_ascii_str in *. cbn [all_chars]. rewrite X. reflexivity. }
  rewrite As. cbn [negb].
  assert (St : strip (String "-"%char d) = String "-"%char d).
  { apply strip_id. unfold no_outer_ws. cbn [first_char]. destruct (last_char (String "-"%char d)) as [b|] eqn:L; [|reflexivity].
    destruct d as [|c r]; [discriminate|]. cbn [last_char] in L. fold (last_char (String c r)) in L.
    pose proof (digits_last _ b A L) as Db. destruct (digit_facts b Db) as [_ [Wb _]]. rewrite Wb. reflexivity. }
  rewrite St. replace (Ascii.eqb "-"%char "-"%char) with true by reflexivity. cbv beta iota.
  rewrite (digits_body_ok_ne _ A N), (digits_drop_us _ A), Z, NZ. reflexivity.
Qed.

(* what conv_int returns is a fixpoint of conv_int, has no CR, no outer whitespace, and is not empty *)
Lemma conv_int_idem x o : conv_int x = CText o ->
  conv_int o = CText o /\ has_cr o = false /\ strip o = o /\ is_empty o = false.
Proof.
  unfold conv_int. destruct (negb (is_ascii_str x)); [discriminate|].
  set (p := match strip x with
            | String c r => if Ascii.eqb c "-"%char then (true, r) else if Ascii.eqb c "+"%char then (false, r) else (false, strip x)
            | EmptyString => (false, strip x)
            end).
  destruct p as [neg body]. destruct (int_body_ok false body) eqn:B; [|discriminate].
  destruct (int_body_digits body false B) as [A NE]. specialize (NE eq_refl).
  destruct (drop_zeros_digits _ A NE) as [A' [NE' Z']].
  set (d := drop_zeros (drop_us body)) in *. intros H. inversion H as [Ho]. clear H.
  destruct (neg && negb (String.eqb d "0")) eqn:C.
  - apply andb_true_iff in C as [_ C]. apply negb_true_iff in C. split; [apply conv_int_neg; assumption|].
    split; [unfold has_cr; cbn [any_char]; fold (has_cr d); rewrite (digits_no_cr d A'); reflexivity|].
    split; [|reflexivity].
    apply strip_id. unfold no_outer_ws. cbn [first_char]. destruct (last_char (String "-"%char d)) as [b|] eqn:L; [|reflexivity].
    destruct d as [|c r]; [discriminate|]. cbn [last_char] in L. fold (last_char (String c r)) in L.
    pose proof (digits_last _ b A' L) as Db. destruct (digit_facts b Db) as [_ [Wb _]]. rewrite Wb. reflexivity.
  - split; [apply conv_int_digits; assumption|]. split; [apply digits_no_cr; exact A'|].
    split; [apply digits_strip; exact A'|exact NE'].
Qed.

Lemma conv_bool_idem x o : conv_bool x = CText o ->
  conv_bool o = CText o /\ has_cr o = false /\ strip o = o /\ is_empty o = false.
Proof.
  unfold conv_bool. destruct (negb (is_ascii_str x)); [discriminate|].
  destruct (String.eqb (lower x) "true") eqn:E1.
  - apply String.eqb_eq in E1. rewrite E1. cbn [orb]. intros H. inversion H; subst. vm_compute. auto.
  - destruct (String.eqb (lower x) "false") eqn:E2; [|discriminate].
    apply String.eqb_eq in E2. rewrite E2. cbn [orb]. intros H. inversion H; subst. vm_compute. auto.
Qed.

(* the conversion of typed attribute-value text is idempotent *)
Lemma av_convert_idem ty x o :
  String.eqb ty "" = false -> av_convert ty x = CText o -> is_empty x = false -> has_cr x = false ->
  av_convert ty o = CText o /\ has_cr o = false /\ is_empty o = false /\ (strip x = x -> strip o = o).
Proof.
  intros T. unfold av_convert. destruct (mem ty ["integer"; "short"; "int"; "long"]).
  - intros H _ _. destruct (conv_int_idem x o H) as [A [B [C D]]]. auto.
  - destruct (String.eqb ty "boolean").
    + intros H _ _. destruct (conv_bool_idem x o H) as [A [B [C D]]]. auto.
    + destruct (mem ty ["float"; "double"; "date"]); [discriminate|]. rewrite T.
      intros H NE NC. inversion H; subst. auto.
Qed.

(* ---- type names *)
Lemma split_colon_spec s : forall a b, split_colon s = Some (a, b) ->
  s = (a ++ String c_colon b)%string /\ split_colon a = None.
Proof.
  induction s as [|c r IH]; intros a b; cbn [split_colon]; [discriminate|].
  destruct (Ascii.eqb c c_colon) eqn:E.
  - intros H. inversion H; subst. apply Ascii.eqb_eq in E. subst c. split; reflexivity.
  - destruct (split_colon r) as [[a' b']|] eqn:Er; [|discriminate]. intros H. inversion H; subst.
    destruct (IH a' b eq_refl) as [-> Ha]. split; [reflexivity|]. cbn [split_colon]. rewrite E, Ha. reflexivity.
Qed.

Lemma split_colon_app a b : split_colon a = None -> split_colon (a ++ String c_colon b)%string = Some (a, b).
Proof.
  induction a as [|c r IH]; cbn [split_colon String.append].
  - intros _. rewrite Ascii.eqb_refl. reflexivity.
  - destruct (Ascii.eqb c c_colon); [discriminate|]. destruct (split_colon r) as [[? ?]|] eqn:E; [discriminate|].
    intros _. rewrite IH by reflexivity. reflexivity.
Qed.

Definition mk_typ (ns ty : string) : string := if is_empty ns then ty else (ns ++ ":" ++ ty)%string.

Lemma is_empty_eqb s : is_empty s = false -> String.eqb s "" = false.
Proof. destruct s; [discriminate|reflexivity]. Qed.

Lemma split_type_idem typ ns ty :
  is_empty typ = false -> type_ok typ = true -> split_type typ = (ns, ty) ->
  is_empty (mk_typ ns ty) = false /\ split_type (mk_typ ns ty) = (ns, ty) /\ String.eqb ty "" = false
  /\ type_ok (mk_typ ns ty) = true.
Proof.
  intros NE OK. unfold split_type, type_ok in *. destruct (split_colon typ) as [[a b]|] eqn:E.
  - intros H. inversion H; subst a b. apply andb_true_iff in OK as [O1 O2]. apply negb_true_iff in O1, O2.
    destruct (split_colon_spec typ ns ty E) as [_ Hn]. unfold mk_typ. rewrite O1.
    change (ns ++ ":" ++ ty)%string with (ns ++ String c_colon ty)%string.
    rewrite (split_colon_app ns ty Hn). rewrite O1, O2.
    split; [destruct ns; [discriminate|reflexivity]|]. split; [reflexivity|]. split; [apply is_empty_eqb; exact O2|reflexivity].
  - destruct (mem typ av_known_types) eqn:K; intros H; inversion H; subst ns ty; clear H.
    + unfold mk_typ. cbn [is_empty]. split; [reflexivity|].
      change ("xs" ++ ":" ++ typ)%string with (String "x" (String "s" (String c_colon typ))).
      cbn [split_colon]. replace (Ascii.eqb "x" c_colon) with false by reflexivity.
      replace (Ascii.eqb "s" c_colon) with false by reflexivity. rewrite Ascii.eqb_refl.
      split; [reflexivity|]. split; [apply is_empty_eqb; exact NE|]. cbn [is_empty negb andb]. rewrite NE. reflexivity.
    + unfold mk_typ. cbn [is_empty]. rewrite E, K. split; [exact NE|]. split; [reflexivity|].
      split; [apply is_empty_eqb; exact NE|reflexivity].
Qed.

(* ---- av_finish, case by case *)
Definition av_x1 (ext : list ee) (x : string) : string := if negb (is_empty x) && nonempty ext then strip x else x.
Definition eff_type (xa : attrs) : string :=
  match dget qname_eqb xsi_type xa with Some s => if is_empty s then "string" else s | None => "string" end.

Lemma av_finish_empty ext xa x : is_empty (av_x1 ext x) = true ->
  av_finish_f5v0 ext xa x = AvOk (if nonempty ext then ddel qname_eqb xsi_nil xa else xa) (Some "").
Proof. intros H. unfold av_finish_f5v0. fold (av_x1 ext x). rewrite H. reflexivity. Qed.

Lemma av_finish_bad_type ext xa x : is_empty (av_x1 ext x) = false -> type_ok (eff_type xa) = false ->
  av_finish_f5v0 ext xa x = AvRaise.
Proof.
  intros H S. unfold av_finish_f5v0. fold (av_x1 ext x). rewrite H. fold (eff_type xa). rewrite S.
  destruct (split_type (eff_type xa)). reflexivity.
Qed.

Lemma av_finish_text ext xa x ns ty : is_empty (av_x1 ext x) = false -> split_type (eff_type xa) = (ns, ty) ->
  type_ok (eff_type xa) = true ->
  av_finish_f5v0 ext xa x =
  match av_convert ty (av_x1 ext x) with
  | CRaise => AvRaise
  | CUnmodelled => AvUnmodelled
  | CText x2 => AvOk (ddel qname_eqb xsi_nil (av_set_type (mk_typ ns ty) xa)) (Some x2)
  end.
Proof.
  intros H S O. unfold av_finish_f5v0. fold (av_x1 ext x). rewrite H. fold (eff_type xa). rewrite S, O. reflexivity.
Qed.

(* ---- dict facts used below *)
Lemma wire_attrs_dset_xmlns k v (d : attrs) : is_xmlns_name k = true -> wire_attrs (dset qname_eqb k v d) = wire_attrs d.
Proof.
  intros X. unfold wire_attrs. induction d as [|[k' v'] r IH]; cbn [dset filter fst].
  - rewrite X. reflexivity.
  - destruct (qname_eqb k k') eqn:E.
    + apply qname_eqb_eq in E. subst k'. cbn [filter fst]. rewrite X. reflexivity.
    + cbn [filter fst]. rewrite IH. reflexivity.
Qed.

Lemma dset_dset_same k (v : string) (d : attrs) : dset qname_eqb k v (dset qname_eqb k v d) = dset qname_eqb k v d.
Proof.
  induction d as [|[k' v'] r IH]; cbn [dset].
  - rewrite qname_eqb_refl. reflexivity.
  - destruct (qname_eqb k k') eqn:E; cbn [dset]; rewrite E; [reflexivity|rewrite IH; reflexivity].
Qed.

Lemma not_in_keys_ddel k (d : attrs) : NoDup (map fst d) -> ~ In k (map fst (ddel qname_eqb k d)).
Proof.
  induction d as [|[k' v'] r IH]; cbn [ddel map fst]; [intros _ []|]. intros N. inversion N as [|? ? N1 N2]; subst.
  destruct (qname_eqb k k') eqn:E.
  - apply qname_eqb_eq in E. subst k'. exact N1.
  - cbn [map fst In]. intros [H|H]; [apply qname_eqb_neq in E; congruence|exact (IH N2 H)].
Qed.

Lemma keys_q_dset k (v : string) (d : attrs) x : In x (map fst (dset qname_eqb k v d)) -> x = k \/ In x (map fst d).
Proof.
  pose proof (keys_dset qname_eqb qname_eqb_eq k v d) as K. unfold keys in K. rewrite K.
  destruct (kmem qname_eqb k (map fst d)); [auto|]. intros H. apply in_app_or in H as [H|[H|[]]]; auto.
Qed.

Lemma last_nil_absent l v0 : ~ In xsi_nil (map fst l) -> last_nil l v0 = v0.
Proof.
  revert v0. induction l as [|[k v] r IH]; intros v0; cbn [last_nil map fst In]; [reflexivity|]. intros H.
  destruct (qname_eqb k xsi_nil) eqn:E; [apply qname_eqb_eq in E; exfalso; apply H; auto|apply IH; tauto].
Qed.

Definition av_B (xa0 : attrs) : attrs := dset_all qname_eqb av_init_xattrs xa0.

Lemma av_B_shape xa0 : NoDup (map fst xa0) ->
  av_B xa0 = (xsi_nil, last_nil xa0 "true") :: ddel qname_eqb xsi_nil xa0.
Proof.
  intros N. unfold av_B, av_init_xattrs. rewrite dset_all_head_nil, (filter_not_nil_ddel xa0 N).
  rewrite (dset_all_nil_fresh qname_eqb qname_eqb_eq); [reflexivity|]. apply NoDup_keys_ddel. exact N.
Qed.

Lemma av_B_clean R : NoDup (map fst R) -> ~ In xsi_nil (map fst R) -> av_B R = (xsi_nil, "true") :: R.
Proof.
  intros N H. rewrite (av_B_shape R N), (last_nil_absent R "true" H).
  rewrite (ddel_absent qname_eqb qname_eqb_eq) by exact H. reflexivity.
Qed.

Definition addx (typ : string) (d : attrs) : attrs :=
  let d1 := if String.prefix "xs:" typ then dset qname_eqb xmlns_xs XS_NS d else d in
  if String.prefix "xsd:" typ then dset qname_eqb xmlns_xsd XS_NS d1 else d1.

Lemma av_set_type_cons typ v R : av_set_type typ ((xsi_nil, v) :: R) = addx typ (dset qname_eqb xsi_type typ R).
Proof. unfold av_set_type, addx. cbn [ddel]. rewrite qname_eqb_refl. reflexivity. Qed.

Lemma wire_attrs_addx typ d : wire_attrs (addx typ d) = wire_attrs d.
Proof.
  unfold addx. destruct (String.prefix "xs:" typ), (String.prefix "xsd:" typ);
    rewrite ?wire_attrs_dset_xmlns by reflexivity; reflexivity.
Qed.

Lemma keys_addx typ d k : In k (map fst (addx typ d)) -> k = xmlns_xs \/ k = xmlns_xsd \/ In k (map fst d).
Proof.
  unfold addx. destruct (String.prefix "xs:" typ), (String.prefix "xsd:" typ); intros H;
    repeat (apply keys_q_dset in H as [H|H]; auto); auto.
Qed.

Lemma NoDup_addx typ d : NoDup (map fst d) -> NoDup (map fst (addx typ d)).
Proof.
  intros N. unfold addx. destruct (String.prefix "xs:" typ), (String.prefix "xsd:" typ);
    repeat apply (NoDup_keys_dset qname_eqb qname_eqb_eq); exact N.
Qed.

Lemma forallb_ddel (f : qname * string -> bool) k (d : attrs) : forallb f d = true -> forallb f (ddel qname_eqb k d) = true.
Proof.
  induction d as [|[k' v'] r IH]; cbn [ddel forallb]; [auto|]. intros H. apply andb_true_iff in H as [H1 H2].
  destruct (qname_eqb k k'); [exact H2|]. cbn [forallb]. rewrite H1, IH by exact H2. reflexivity.
Qed.

Lemma noxmlns_dset k v (d : attrs) :
  is_xmlns_name k = false -> forallb (fun kv => negb (is_xmlns_name (fst kv))) d = true ->
  forallb (fun kv : qname * string => negb (is_xmlns_name (fst kv))) (dset qname_eqb k v d) = true.
Proof.
  intros X. induction d as [|[k' v'] r IH]; cbn [dset forallb fst]; [rewrite X; reflexivity|].
  intros H. apply andb_true_iff in H as [H1 H2]. destruct (qname_eqb k k'); cbn [forallb fst]; rewrite H1; [exact H2|apply IH; exact H2].
Qed.

Lemma av_idem_f5v0 ext xa0 x xa1 tx1 :
  NoDup (map fst xa0) ->
  forallb (fun kv => negb (is_xmlns_name (fst kv))) xa0 = true ->
  has_cr x = false ->
  av_finish_f5v0 ext (av_B xa0) x = AvOk xa1 tx1 ->
  av_fix_f5v0_b ext xa1 tx1 = true /\ NoDup (map fst xa1) /\ has_cr (text_str tx1) = false /\
  (forall k, In k (map fst xa1) ->
     In k (map fst xa0) \/ k = xsi_nil \/ k = xsi_type \/ k = xmlns_xs \/ k = xmlns_xsd) /\
  (nonempty ext = true \/ is_empty (text_str tx1) = false \/ In xsi_nil (map fst xa1)).
Proof.
  intros N X C.
  set (R := ddel qname_eqb xsi_nil xa0).
  assert (NR : NoDup (map fst R)) by (apply NoDup_keys_ddel; exact N).
  assert (NilR : ~ In xsi_nil (map fst R)) by (apply not_in_keys_ddel; exact N).
  assert (XR : forallb (fun kv => negb (is_xmlns_name (fst kv))) R = true) by (apply forallb_ddel; exact X).
  assert (KR : forall k, In k (map fst R) -> In k (map fst xa0)) by (intros k; apply keys_ddel_incl).
  rewrite (av_B_shape xa0 N). fold R. set (vn := last_nil xa0 "true").
  assert (ET : eff_type ((xsi_nil, vn) :: R) = eff_type xa0).
  { unfold eff_type. cbn [dget]. replace (qname_eqb xsi_type xsi_nil) with false by reflexivity.
    unfold R. rewrite dget_ddel_other by discriminate. reflexivity. }
  assert (NB : NoDup (map fst ((xsi_nil, vn) :: R))) by (cbn [map fst]; constructor; assumption).
  assert (XB : forallb (fun kv : qname * string => negb (is_xmlns_name (fst kv))) ((xsi_nil, vn) :: R) = true)
    by (cbn [forallb fst]; rewrite XR; reflexivity).
  destruct (is_empty (av_x1 ext x)) eqn:E1.
  - rewrite (av_finish_empty _ _ _ E1). intros H. inversion H; subst xa1 tx1. clear H.
    assert (Ex : av_x1 ext (norm_eol (text_str (Some ""))) = "") by reflexivity.
    cbn [ddel]; rewrite ?qname_eqb_refl. destruct (nonempty ext) eqn:NE.
    + split.
      * unfold av_fix_f5v0_b. rewrite (wire_attrs_id R XR). fold (av_B R). rewrite (av_B_clean R NR NilR).
        rewrite av_finish_empty by (rewrite Ex; reflexivity). rewrite NE. cbn [ddel]; rewrite ?qname_eqb_refl.
        rewrite (proj2 (attrs_eqb_eq R R) eq_refl). reflexivity.
      * split; [exact NR|]. split; [reflexivity|]. split; [intros k Hk; left; apply KR; exact Hk|left; reflexivity].
    + split.
      * unfold av_fix_f5v0_b. rewrite (wire_attrs_id _ XB). fold (av_B ((xsi_nil, vn) :: R)).
        rewrite (av_B_shape _ NB). cbn [last_nil ddel]; rewrite ?qname_eqb_refl.
        rewrite (last_nil_absent R vn NilR).
        rewrite av_finish_empty by (rewrite Ex; reflexivity). rewrite NE.
        rewrite (proj2 (attrs_eqb_eq _ _) eq_refl). reflexivity.
      * split; [exact NB|]. split; [reflexivity|]. split; [intros k [<-|Hk]; [auto|left; apply KR; exact Hk]|].
        right. right. left. reflexivity.
  - destruct (type_ok (eff_type xa0)) eqn:OK;
      [|rewrite (av_finish_bad_type _ _ _ E1) by (rewrite ET; exact OK); discriminate].
    destruct (split_type (eff_type xa0)) as [ns ty] eqn:S.
    rewrite (av_finish_text _ _ _ ns ty E1) by (rewrite ET; assumption).
    destruct (av_convert ty (av_x1 ext x)) as [x2| |] eqn:CV; try discriminate.
    intros H. inversion H; subst xa1 tx1. clear H.
    assert (TNE : is_empty (eff_type xa0) = false).
    { unfold eff_type. destruct (dget qname_eqb xsi_type xa0) as [s|]; [|reflexivity]. destruct (is_empty s) eqn:Es; [reflexivity|exact Es]. }
    destruct (split_type_idem _ ns ty TNE OK S) as [T1 [T2 [T3 T4]]]. set (typ' := mk_typ ns ty) in *.
    assert (Cx1 : has_cr (av_x1 ext x) = false).
    { unfold av_x1. destruct (negb (is_empty x) && nonempty ext); [apply has_cr_strip; exact C|exact C]. }
    destruct (av_convert_idem ty _ x2 T3 CV E1 Cx1) as [V1 [V2 [V3 V4]]].
    rewrite av_set_type_cons. set (R1 := dset qname_eqb xsi_type typ' R).
    assert (NR1 : NoDup (map fst R1)) by (apply (NoDup_keys_dset qname_eqb qname_eqb_eq); exact NR).
    assert (NilR1 : ~ In xsi_nil (map fst R1)).
    { intros Hk. apply keys_q_dset in Hk as [Hk|Hk]; [discriminate Hk|exact (NilR Hk)]. }
    assert (XR1 : forallb (fun kv : qname * string => negb (is_xmlns_name (fst kv))) R1 = true)
      by (apply noxmlns_dset; [reflexivity|exact XR]).
    assert (NilR3 : ~ In xsi_nil (map fst (addx typ' R1))).
    { intros Hk. apply keys_addx in Hk as [Hk|[Hk|Hk]]; [discriminate Hk|discriminate Hk|exact (NilR1 Hk)]. }
    rewrite (ddel_absent qname_eqb qname_eqb_eq) by exact NilR3.
    split; [|split; [apply NoDup_addx; exact NR1|split; [exact V2|split; [|right; left; exact V3]]]].
    + unfold av_fix_f5v0_b. rewrite wire_attrs_addx, (wire_attrs_id R1 XR1). fold (av_B R1). rewrite (av_B_clean R1 NR1 NilR1).
      cbn [text_str]. rewrite (norm_eol_id x2 V2).
      assert (Ex2 : av_x1 ext x2 = x2).
      { unfold av_x1. destruct (negb (is_empty x2) && nonempty ext) eqn:Q; [|reflexivity].
        apply V4. unfold av_x1. apply andb_true_iff in Q as [_ Q]. rewrite Q, andb_true_r.
        destruct x as [|c0 r0]; [reflexivity|]. cbn [is_empty negb]. apply strip_strip. }
      assert (ET' : eff_type ((xsi_nil, "true") :: R1) = typ').
      { unfold eff_type. cbn [dget]. replace (qname_eqb xsi_type xsi_nil) with false by reflexivity.
        unfold R1. rewrite dget_q_dset_same. rewrite T1. reflexivity. }
      rewrite (av_finish_text _ _ _ ns ty) by (rewrite ?Ex2, ?ET'; assumption).
      rewrite Ex2, V1. fold typ'. rewrite av_set_type_cons. unfold R1 at 1. rewrite dset_dset_same. fold R1.
      rewrite (ddel_absent qname_eqb qname_eqb_eq) by exact NilR3.
      rewrite (proj2 (attrs_eqb_eq _ _) eq_refl). cbn [opt_eqb]. rewrite String.eqb_refl. reflexivity.
    + intros k Hk. apply keys_addx in Hk as [Hk|[Hk|Hk]]; auto 6.
      apply keys_q_dset in Hk as [Hk|Hk]; auto 6.
Qed.

(* ---- the parsing side as it is now (fix c1c601fb): av_finish = the retyping of an empty, typed, not-nil element,
   else the old function *)
Lemma dset_same_value k v (d : attrs) : dget qname_eqb k d = Some v -> dset qname_eqb k v d = d.
Proof.
  induction d as [|[k' v'] r IH]; cbn [dget dset]; [discriminate|].
  destruct (qname_eqb k k') eqn:E.
  - intros H. inversion H; subst. apply qname_eqb_eq in E. subst. reflexivity.
  - intros H. rewrite IH by exact H. reflexivity.
Qed.

Lemma dmem_q_In k (d : attrs) : dmem qname_eqb k d = true <-> In k (map fst d).
Proof.
  unfold dmem. pose proof (dget_None qname_eqb qname_eqb_eq k d) as H. unfold keys in H.
  destruct (dget qname_eqb k d) as [v|] eqn:G.
  - split; [intros _|reflexivity]. apply (dget_In qname_eqb qname_eqb_eq) in G. apply (in_map fst) in G. exact G.
  - split; [discriminate|]. intros I. exfalso. apply (proj1 H eq_refl). exact I.
Qed.

Lemma av_fix_of_f5v0 ext xa tx :
  av_fix_f5v0_b ext xa tx = true ->
  (nonempty ext = true \/ is_empty (text_str tx) = false \/ In xsi_nil (map fst xa)) ->
  has_cr (text_str tx) = false ->
  av_fix_b ext xa tx = true.
Proof.
  intros F D C. unfold av_fix_b, av_finish.
  replace (av_retyped _ _ _ _) with false; [exact F|]. symmetry. unfold av_retyped.
  rewrite (norm_eol_id _ C). destruct (nonempty ext) eqn:NE; [rewrite andb_false_r; reflexivity|].
  rewrite andb_false_r. destruct D as [D|[D|D]]; [discriminate| |].
  - rewrite D. reflexivity.
  - apply dmem_q_In in D. rewrite D. rewrite andb_false_r. reflexivity.
Qed.

Lemma av_idem ext xa0 x xa1 tx1 :
  NoDup (map fst xa0) ->
  forallb (fun kv => negb (is_xmlns_name (fst kv))) xa0 = true ->
  has_cr x = false ->
  av_finish (dmem qname_eqb xsi_nil xa0) ext (av_B xa0) x = AvOk xa1 tx1 ->
  av_fix_b ext xa1 tx1 = true /\ NoDup (map fst xa1) /\ has_cr (text_str tx1) = false /\
  (forall k, In k (map fst xa1) ->
     In k (map fst xa0) \/ k = xsi_nil \/ k = xsi_type \/ k = xmlns_xs \/ k = xmlns_xsd).
Proof.
  intros N X C. unfold av_finish. destruct (av_retyped _ _ _ _) eqn:R.
  - unfold av_retyped in R. apply andb_true_iff in R as [R Rt]. apply andb_true_iff in R as [R Rn].
    apply andb_true_iff in R as [_ Re]. apply negb_true_iff in Rt, Rn, Re.
    destruct ext as [|e0 er]; [clear Re|discriminate Re].
    assert (NilA : ~ In xsi_nil (map fst xa0)).
    { intros I. apply dmem_q_In in I. rewrite I in Rn. discriminate. }
    rewrite (av_B_clean xa0 N NilA) in *.
    set (t := av_get_type ((xsi_nil, "true") :: xa0)) in *.
    assert (Et : dget qname_eqb xsi_type xa0 = Some t).
    { subst t. unfold av_get_type in *. cbn [dget] in *. replace (qname_eqb xsi_type xsi_nil) with false in * by reflexivity.
      destruct (dget qname_eqb xsi_type xa0) as [s0|]; [reflexivity|discriminate Rt]. }
    intros H. inversion H; subst xa1 tx1. clear H.
    rewrite av_set_type_cons, (dset_same_value _ _ _ Et).
    assert (NilX : ~ In xsi_nil (map fst (addx t xa0))).
    { intros Hk. apply keys_addx in Hk as [Hk|[Hk|Hk]]; [discriminate Hk|discriminate Hk|exact (NilA Hk)]. }
    split; [|split; [apply NoDup_addx; exact N|split; [reflexivity|]]].
    + unfold av_fix_b. replace (dmem qname_eqb xsi_nil (addx t xa0)) with false
        by (symmetry; destruct (dmem qname_eqb xsi_nil (addx t xa0)) eqn:D; [apply dmem_q_In in D; contradiction|reflexivity]).
      rewrite wire_attrs_addx, (wire_attrs_id xa0 X). fold (av_B xa0). rewrite (av_B_clean xa0 N NilA).
      cbn [text_str norm_eol]. unfold av_finish, av_retyped. cbn [is_empty negb andb nonempty]. fold t. rewrite Rt. cbn [negb].
      rewrite av_set_type_cons, (dset_same_value _ _ _ Et).
      rewrite (proj2 (attrs_eqb_eq _ _) eq_refl). reflexivity.
    + intros k Hk. apply keys_addx in Hk as [Hk|[Hk|Hk]]; auto 6.
  - intros H. destruct (av_idem_f5v0 ext xa0 x xa1 tx1 N X C H) as [F [N1 [C1 [K1 D1]]]].
    split; [apply av_fix_of_f5v0; assumption|]. auto.
Qed.

(* ------------------------------------------------------------------ what parsing delivers is an instance *)
Lemma st_join_ok a b : st_join a b = SOk -> a = SOk /\ b = SOk.
Proof. destruct a, b; cbn; intros H; try discriminate; auto. Qed.

Lemma fold_right_join_inv own l : fold_right st_join own l = SOk -> own = SOk /\ Forall (fun s => s = SOk) l.
Proof.
  induction l as [|x r IH]; cbn [fold_right]; [intros H; auto|]. intros H. apply st_join_ok in H as [H1 H2].
  destruct (IH H2) as [A B]. auto.
Qed.

Lemma fold_stepx_filter ci a : forall acc,
  fold_left (stepx ci) a acc = dset_all qname_eqb acc (filter (fun kv => negb (known_attr ci (fst kv))) a).
Proof.
  unfold dset_all. induction a as [|kv r IH]; intros acc; cbn [fold_left filter]; [reflexivity|].
  unfold stepx at 2, known_attr at 1. destruct (find_attr ci (fst kv)); cbn [is_some negb fold_left]; apply IH.
Qed.

Lemma NoDup_map_filter {A B} (f : A -> B) (p : A -> bool) l : NoDup (map f l) -> NoDup (map f (filter p l)).
Proof.
  induction l as [|x r IH]; cbn [map filter]; [auto|]. intros N. inversion N as [|? ? N1 N2]; subst.
  destruct (p x); [|auto]. cbn [map]. constructor; [|auto]. intros H. apply N1.
  apply in_map_iff in H as [y [E Hy]]. apply filter_In in Hy as [Hy _]. rewrite <- E. apply in_map. exact Hy.
Qed.

Lemma forallb_filter {A} (f p : A -> bool) l : forallb f l = true -> forallb f (filter p l) = true.
Proof.
  induction l as [|x r IH]; cbn [forallb filter]; [auto|]. intros H. apply andb_true_iff in H as [H1 H2].
  destruct (p x); [cbn [forallb]; rewrite H1|]; auto.
Qed.

Lemma dget_filter (p : qname -> bool) k (l : attrs) :
  p k = true -> dget qname_eqb k (filter (fun kv => p (fst kv)) l) = dget qname_eqb k l.
Proof.
  intros P. induction l as [|[k' v'] r IH]; cbn [filter dget fst]; [reflexivity|].
  destruct (p k') eqn:E; cbn [dget].
  - destruct (qname_eqb k k'); [reflexivity|exact IH].
  - destruct (qname_eqb k k') eqn:Q; [apply qname_eqb_eq in Q; congruence|exact IH].
Qed.

Lemma fold_stepa_some ci m l : forall acc, is_some acc = true -> is_some (fold_left (stepa ci m) l acc) = true.
Proof.
  induction l as [|kv r IH]; intros acc H; cbn [fold_left]; [exact H|]. apply IH. unfold stepa.
  destruct (find_attr ci (fst kv)); [|exact H]. destruct (String.eqb m (at_member a)); [reflexivity|exact H].
Qed.

Section Canon.
  Variable T : table.

  Definition good (o : obj) : Prop := canonical_b T o = true /\ wf_obj_b T o = true /\ no_cr_b o = true.

  Definition slot_good (ci : class_info) (sl : slot) : Prop :=
    match sl with
    | SKnown s (Some o) => In s (c_children ci) /\ ch_class s = Some (o_cls o) /\ good o
    | SUnknown e => ee_ok e = true /\ ee_no_cr e = true /\ known_tag ci (ee_name e) = false
    | _ => False
    end.

  Definition val_good (ci : class_info) (m : string) (o : obj) : Prop :=
    (exists s, In s (c_children ci) /\ ch_member s = m /\ ch_class s = Some (o_cls o)) /\ good o.

  Lemma fold_stepk_good ci m slots : forall acc,
    Forall (slot_good ci) slots -> Forall (val_good ci m) acc -> Forall (val_good ci m) (fold_left (stepk m) slots acc).
  Proof.
    induction slots as [|sl r IH]; intros acc F A; cbn [fold_left]; [exact A|].
    inversion F as [|? ? G F']; subst. apply IH; [exact F'|].
    destruct sl as [s [o|]|s|e]; cbn [stepk slot_good] in *; try contradiction; try exact A.
    destruct G as [G1 [G2 G3]]. destruct (String.eqb m (ch_member s)) eqn:E; [|exact A].
    apply String.eqb_eq in E.
    assert (V : val_good ci m o) by (split; [exists s; auto|exact G3]).
    destruct (ch_list s); [apply Forall_app; split; [exact A|constructor; [exact V|constructor]]|constructor; [exact V|constructor]].
  Qed.

  Lemma fold_stepk_single ci m slots : forall acc,
    Forall (slot_good ci) slots ->
    (forall s, In s (c_children ci) -> ch_member s = m -> ch_list s = false) ->
    (length acc <= 1)%nat -> (length (fold_left (stepk m) slots acc) <= 1)%nat.
  Proof.
    induction slots as [|sl r IH]; intros acc F S L; cbn [fold_left]; [exact L|].
    inversion F as [|? ? G F']; subst. apply IH; [exact F'|exact S|].
    destruct sl as [s [o|]|s|e]; cbn [stepk slot_good] in *; try contradiction; try exact L.
    destruct G as [G1 _]. destruct (String.eqb m (ch_member s)) eqn:E; [|exact L].
    apply String.eqb_eq in E. rewrite (S s G1 (eq_sym E)). cbn. lia.
  Qed.

  Lemma forallb2_LK specs g :
    (forall s, In s specs ->
       forallb (fun o' => opt_eqb N.eqb (Some (o_cls o')) (ch_class s)) (g (ch_member s)) = true /\
       (ch_list s = true \/ (length (g (ch_member s)) <= 1)%nat)) ->
    forallb2 kid_ok (LK specs g) specs = true.
  Proof.
    induction specs as [|s r IH]; intros H; cbn [LK map forallb2]; [reflexivity|].
    destruct (H s (or_introl eq_refl)) as [H1 H2]. unfold kid_ok at 1. cbn [fst snd].
    rewrite String.eqb_refl, H1. cbn [andb].
    assert (E : (ch_list s || (length (g (ch_member s)) <=? 1)%nat) = true).
    { destruct H2 as [H2|H2]; [rewrite H2; reflexivity|apply Nat.leb_le in H2; rewrite H2; apply orb_true_r]. }
    rewrite E. cbn [andb]. apply IH. intros s' Hs'. apply H. right. exact Hs'.
  Qed.

  Lemma get_member_LA specs h a : NoDup (map at_member specs) -> In a specs ->
    get_member (at_member a) (LA specs h) = Some (h (at_member a)).
  Proof.
    intros N I. apply get_member_In.
    - unfold LA. rewrite map_map. cbn [fst]. exact N.
    - unfold LA. apply in_map_iff. exists a. auto.
  Qed.

  Theorem harvest_canonical t : forall c,
    uses_wf_b T c t = true -> wf_tree_b t = true -> harvest_status T c t = SOk ->
    good (harvest T c t).
  Proof.
    induction t as [g a x kids IH] using tree_ind'. intros c U W St.
    cbn [uses_wf_b wf_tree_b harvest_status] in U, W, St.
    destruct (class_at T c) as [ci|] eqn:Eci; [|discriminate].
    apply andb_true_iff in U as [Wci Uk]. pose proof (wf_class_facts T ci Wci) as F.
    apply andb_true_iff in W as [W Wk]. apply andb_true_iff in W as [Wa Wx]. apply negb_true_iff in Wx.
    apply fold_right_join_inv in St as [Sown Ssub].
    rewrite (harvest_eq T c g a x kids ci Eci), assemble_eq.
    (* the slots *)
    assert (SG : Forall (slot_good ci) (map (classify T ci) kids)).
    { rewrite Forall_forall in IH. apply Forall_forall. intros sl Hsl. apply in_map_iff in Hsl as [k [<- Hk]].
      rewrite forallb_forall in Uk, Wk. specialize (Uk k Hk). specialize (Wk k Hk).
      rewrite Forall_forall in Ssub.
      assert (Sk := Ssub _ (in_map _ _ k Hk)). cbn beta in Sk.
      unfold classify. destruct (find_child ci (t_tag k)) as [s|] eqn:Ef.
      - destruct (find_some_key qname_eqb ch_tag (c_children ci) (t_tag k) s qname_eqb_eq Ef) as [Is Et].
        destruct (ch_class s) as [c'|] eqn:Ec; [|discriminate].
        pose proof (wf_child_ok _ _ F s Is) as CO. unfold child_ok in CO. rewrite Ec in CO.
        destruct (class_at T c') as [ci'|] eqn:Ec'; [|discriminate]. apply qname_eqb_eq in CO.
        assert (Eis : tag_is T c' (t_tag k) = true) by (unfold tag_is; rewrite Ec'; apply qname_eqb_eq; congruence).
        rewrite Eis in Sk |- *. cbn [slot_good]. rewrite o_cls_harvest. split; [exact Is|]. split; [exact Ec|].
        apply IH; assumption.
      - cbn [slot_good]. destruct (ee_of_tree_ok k Wk) as [A B]. split; [exact A|]. split; [exact B|].
        unfold known_tag. destruct k as [[kn kl] ? ? ?]. cbn [ee_of_tree ee_name q_ns q_local t_tag] in *. rewrite Ef. reflexivity. }
    set (slots := map (classify T ci) kids) in *.
    (* members *)
    assert (VG : forall m, Forall (val_good ci m) (fold_left (stepk m) slots [])).
    { intros m. apply fold_stepk_good; [exact SG|constructor]. }
    assert (Kcanon : forall (P : obj -> bool), (forall o, good o -> P o = true) ->
              forallb (fun mk : string * list obj => forallb P (snd mk)) (h_kids ci slots) = true).
    { intros P HP. unfold h_kids, LK. rewrite forallb_map. apply forallb_forall. intros s _. cbn [snd].
      apply forallb_forall. intros o Ho. apply HP. specialize (VG (ch_member s)). rewrite Forall_forall in VG.
      exact (proj2 (VG o Ho)). }
    assert (K4 : forallb2 kid_ok (h_kids ci slots) (c_children ci) = true).
    { apply forallb2_LK. intros s Hs. split.
      - apply forallb_forall. intros o Ho. specialize (VG (ch_member s)). rewrite Forall_forall in VG.
        destruct (VG o Ho) as [[s' [Is' [Em Ecl]]] _].
        assert (s' = s).
        { pose proof (wf_members _ _ F) as NM. clear -NM Is' Hs Em.
          induction (c_children ci) as [|y r IHr]; [contradiction|]. cbn [map] in NM. inversion NM as [|? ? N1 N2]; subst.
          destruct Is' as [->|Is'], Hs as [->|Hs]; auto.
          - exfalso. apply N1. first [rewrite Em|rewrite <- Em]. apply in_map. assumption.
          - exfalso. apply N1. first [rewrite <- Em|rewrite Em]. apply in_map. assumption. }
        subst s'. rewrite Ecl. cbn [opt_eqb]. apply N.eqb_refl.
      - destruct (ch_list s) eqn:L; [left; reflexivity|right]. apply (fold_stepk_single ci); [exact SG| |cbn; lia].
        intros s' Is' Em. assert (s' = s).
        { pose proof (wf_members _ _ F) as NM. clear -NM Is' Hs Em.
          induction (c_children ci) as [|y r IHr]; [contradiction|]. cbn [map] in NM. inversion NM as [|? ? N1 N2]; subst.
          destruct Is' as [->|Is'], Hs as [->|Hs]; auto.
          - exfalso. apply N1. first [rewrite Em|rewrite <- Em]. apply in_map. assumption.
          - exfalso. apply N1. first [rewrite <- Em|rewrite Em]. apply in_map. assumption. }
        subst s'. exact L. }
    (* extension elements *)
    assert (Eg : Forall (fun e => ee_ok e = true /\ ee_no_cr e = true /\ known_tag ci (ee_name e) = false) (h_ext slots)).
    { unfold h_ext. clear -SG. induction SG as [|sl r G _ IHr]; cbn [flat_map]; [constructor|].
      apply Forall_app. split; [|exact IHr]. destruct sl as [s [o|]|s|e]; cbn [unk slot_good] in *; try constructor; auto. }
    assert (E5 : forallb (fun e => ee_ok e && negb (known_tag ci (ee_name e))) (h_ext slots) = true).
    { apply forallb_Forall. eapply Forall_impl; [|exact Eg]. cbn. intros e [A [_ B]]. rewrite A, B. reflexivity. }
    assert (E5n : forallb ee_no_cr (h_ext slots) = true).
    { apply forallb_Forall. eapply Forall_impl; [|exact Eg]. cbn. intros e [_ [B _]]. exact B. }
    (* attributes *)
    assert (A1 : list_eqb String.eqb (map fst (h_attrs ci a)) (map at_member (c_attributes ci)) = true).
    { apply (list_eqb_eq String.eqb String.eqb_eq). unfold h_attrs, LA. rewrite map_map. reflexivity. }
    assert (A2 : forallb (fun a0 => negb (dmem String.eqb (at_member a0) (c_parse_defaults ci))
                                   || match get_member (at_member a0) (h_attrs ci a) with Some (Some _) => true | _ => false end)
                         (c_attributes ci) = true).
    { apply forallb_forall. intros a0 Ha0. unfold h_attrs. rewrite (get_member_LA _ _ a0 (wf_amembers _ _ F) Ha0).
      unfold dmem. destruct (dget String.eqb (at_member a0) (c_parse_defaults ci)) as [d|] eqn:D; [|reflexivity].
      cbn [negb orb]. pose proof (fold_stepa_some ci (at_member a0) a (Some d) eq_refl) as X.
      destruct (fold_left (stepa ci (at_member a0)) a (Some d)); [reflexivity|discriminate]. }
    set (xa0 := filter (fun kv => negb (known_attr ci (fst kv))) a).
    assert (Nxa0 : NoDup (map fst xa0)) by (apply NoDup_map_filter, attrs_ok_nodup, Wa).
    assert (Xxa0 : forallb (fun kv => negb (is_xmlns_name (fst kv))) xa0 = true) by (apply forallb_filter, attrs_ok_noxmlns, Wa).
    assert (Uxa0 : forallb (fun kv => negb (known_attr ci (fst kv))) xa0 = true).
    { apply forallb_forall. intros kv Hkv. apply filter_In in Hkv as [_ H]. exact H. }
    assert (Hx : h_xattrs ci a = dset_all qname_eqb (init_xattrs ci) xa0) by (unfold h_xattrs; apply fold_stepx_filter).
    unfold kid_ok in K4.
    destruct (c_kind ci) eqn:Kind.
    - (* plain *)
      unfold init_xattrs in Hx. rewrite Kind in Hx. rewrite (dset_all_nil_fresh qname_eqb qname_eqb_eq _ Nxa0) in Hx.
      unfold good. cbn [canonical_b wf_obj_b no_cr_b]. rewrite Eci, Kind, Wci, A1, A2, K4, E5, E5n, Hx.
      rewrite (Kcanon (canonical_b T)) by (intros o G; exact (proj1 G)).
      rewrite (Kcanon (wf_obj_b T)) by (intros o G; exact (proj1 (proj2 G))).
      rewrite (Kcanon no_cr_b) by (intros o G; exact (proj2 (proj2 G))).
      rewrite (proj2 (nodup_q _) Nxa0), Uxa0, Xxa0, text_opt_not_empty, text_str_opt, Wx. auto.
    - (* AttributeValueBase *)
      rewrite (ext_of_eq T), xattrs_of_eq in Sown. fold slots in Sown.
      unfold init_xattrs in Hx. rewrite Kind in Hx. fold (av_B xa0) in Hx. rewrite Hx in Sown |- *.
      assert (Dn : dmem qname_eqb xsi_nil a = dmem qname_eqb xsi_nil xa0).
      { unfold dmem, xa0. rewrite (dget_filter (fun n => negb (known_attr ci n))); [reflexivity|].
        unfold known_attr. destruct (find_attr ci xsi_nil) as [a0|] eqn:Fa; [|reflexivity].
        destruct (find_some_key qname_eqb at_name (c_attributes ci) xsi_nil a0 qname_eqb_eq Fa) as [Ia En].
        destruct (wf_av _ _ F Kind a0 Ia) as [_ Y]. exfalso. apply Y. exact En. }
      rewrite Dn in Sown |- *.
      destruct (av_finish (dmem qname_eqb xsi_nil xa0) (h_ext slots) (av_B xa0) x) as [xa1 tx1| |] eqn:AF; try discriminate.
      destruct (av_idem (h_ext slots) xa0 x xa1 tx1 Nxa0 Xxa0 Wx AF) as [I1 [I2 [I3 I4]]].
      assert (U1 : forallb (fun kv => negb (known_attr ci (fst kv))) xa1 = true).
      { apply forallb_forall. intros [k v] Hkv. cbn [fst]. apply (in_map fst) in Hkv. cbn [fst] in Hkv.
        assert (NK : forall n, (is_xmlns_name n = true \/ n = xsi_type \/ n = xsi_nil) -> known_attr ci n = false).
        { intros n Hn. unfold known_attr. destruct (find_attr ci n) as [a0|] eqn:Fa; [|reflexivity].
          destruct (find_some_key qname_eqb at_name (c_attributes ci) n a0 qname_eqb_eq Fa) as [Ia En].
          destruct (wf_av _ _ F Kind a0 Ia) as [X Y]. pose proof (wf_noxmlns _ _ F a0 Ia) as Z.
          destruct Hn as [Hn|[Hn|Hn]].
          - rewrite En in Z. rewrite Z in Hn. discriminate.
          - exfalso. apply X. rewrite En. exact Hn.
          - exfalso. apply Y. rewrite En. exact Hn. }
        destruct (I4 k Hkv) as [H|[H|[H|[H|H]]]].
        - apply in_map_iff in H as [kv' [E' H']]. rewrite forallb_forall in Uxa0. specialize (Uxa0 kv' H'). rewrite E' in Uxa0. exact Uxa0.
        - rewrite (NK k) by auto. reflexivity.
        - rewrite (NK k) by auto. reflexivity.
        - rewrite (NK k) by (left; subst k; reflexivity). reflexivity.
        - rewrite (NK k) by (left; subst k; reflexivity). reflexivity. }
      unfold good. cbn [canonical_b wf_obj_b no_cr_b]. rewrite Eci, Kind, Wci, A1, A2, K4, E5, E5n.
      rewrite (Kcanon (canonical_b T)) by (intros o G; exact (proj1 G)).
      rewrite (Kcanon (wf_obj_b T)) by (intros o G; exact (proj1 (proj2 G))).
      rewrite (Kcanon no_cr_b) by (intros o G; exact (proj2 (proj2 G))).
      rewrite (proj2 (nodup_q _) I2), U1, I1, I3. auto.
  Qed.
End Canon.

(* ------------------------------------------------------------------ stability: parse, serialise, parse, serialise *)
Theorem stable_tree T c t :
  uses_wf_b T c t = true -> wf_tree_b t = true -> harvest_status T c t = SOk ->
  harvest T c (ser T (harvest T c t)) = harvest T c t
  /\ harvest_status T c (ser T (harvest T c t)) = SOk
  /\ ser T (harvest T c (ser T (harvest T c t))) = ser T (harvest T c t).
Proof.
  intros U W S. destruct (harvest_canonical T t c U W S) as [C [Wo N]].
  destruct (roundtrip_obj T (harvest T c t) Wo C N) as [R1 R2]. rewrite o_cls_harvest in R1, R2.
  split; [exact R1|]. split; [exact R2|]. rewrite R1. reflexivity.
Qed.

Lemma uses_wf_table T t : forall c ci, wf_table T = true -> class_at T c = Some ci -> uses_wf_b T c t = true.
Proof.
  induction t as [g a x kids IH] using tree_ind'. intros c ci W E. cbn [uses_wf_b]. rewrite E.
  pose proof (wf_table_class T c ci W E) as Wci. rewrite Wci. cbn [andb].
  apply forallb_forall. intros k Hk. destruct (find_child ci (t_tag k)) as [s|] eqn:Ef; [|reflexivity].
  destruct (find_some_key qname_eqb ch_tag (c_children ci) (t_tag k) s qname_eqb_eq Ef) as [Is _].
  pose proof (wf_child_ok _ _ (wf_class_facts T ci Wci) s Is) as CO. unfold child_ok in CO.
  destruct (ch_class s) as [c'|]; [|discriminate]. destruct (class_at T c') as [ci'|] eqn:E'; [|discriminate].
  rewrite Forall_forall in IH. exact (IH k Hk c' ci' W E').
Qed.

Theorem stable_wf_table T c ci t :
  wf_table T = true -> class_at T c = Some ci ->
  wf_tree_b t = true -> harvest_status T c t = SOk ->
  ser T (harvest T c (ser T (harvest T c t))) = ser T (harvest T c t).
Proof.
  intros W E Wt S. exact (proj2 (proj2 (stable_tree T c t (uses_wf_table T t c ci W E) Wt S))).
Qed.

(* finding class 3 (fixed by 49fc7848): the type name "xs:" now raises; before the fix the normalisation
   erased the text and was not idempotent *)
Definition f3_doc : tree := Node (q_t "Value") [(xsi_type, "xs:")] "secret" [].
Example f3_now_refused : harvest_status ex_table 3%N f3_doc = SRaise.
Proof. vm_compute. reflexivity. Qed.

Definition av_fix_v0_b (ext : list ee) (xa : attrs) (tx : option string) : bool :=
  match av_finish_v0 ext (dset_all qname_eqb av_init_xattrs (wire_attrs xa)) (norm_eol (text_str tx)) with
  | AvOk xa' tx' => attrs_eqb xa' xa && opt_eqb String.eqb tx' tx
  | _ => false
  end.

Lemma av_v0_refuted_f3 :
  exists xa0 x xa1 tx1,
    NoDup (map fst xa0) /\ forallb (fun kv => negb (is_xmlns_name (fst kv))) xa0 = true /\ has_cr x = false /\
    av_finish_v0 [] (av_B xa0) x = AvOk xa1 tx1 /\ tx1 = Some "" /\ x <> "" /\ av_fix_v0_b [] xa1 tx1 = false.
Proof.
  exists [(xsi_type, "xs:")], "secret". eexists. eexists.
  split; [repeat constructor; intros []|]. split; [reflexivity|]. split; [reflexivity|].
  split; [vm_compute; reflexivity|]. split; [reflexivity|]. split; [discriminate|]. vm_compute. reflexivity.
Qed.

Example stable_sat :
  uses_wf_b ex_table 0%N (ser ex_table ex_box) = true /\ wf_tree_b (ser ex_table ex_box) = true
  /\ harvest_status ex_table 0%N (ser ex_table ex_box) = SOk.
Proof. vm_compute. auto. Qed.

(* ------------------------------------------------------------------ nothing unknown is dropped, at every depth *)
Lemma last_opt_cons {A} (x : A) l : last_opt (x :: l) = match last_opt l with Some y => Some y | None => Some x end.
Proof.
  destruct l as [|y r]; [reflexivity|]. change (last_opt (x :: y :: r)) with (last_opt (y :: r)).
  destruct (last_opt (y :: r)) eqn:E; [reflexivity|]. exfalso. revert y E. induction r as [|z r IH]; intros y E; [discriminate|].
  change (last_opt (y :: z :: r)) with (last_opt (z :: r)) in E. exact (IH z E).
Qed.

Section Deep.
  Variable T : table.

  Lemma same_member_same_spec ci s s' :
    NoDup (map ch_member (c_children ci)) -> In s (c_children ci) -> In s' (c_children ci) ->
    ch_member s' = ch_member s -> s' = s.
  Proof.
    intros NM Hs Is' Em. induction (c_children ci) as [|y r IHr]; [contradiction|].
    cbn [map] in NM. inversion NM as [|? ? N1 N2]; subst.
    destruct Is' as [->|Is'], Hs as [->|Hs]; auto.
    - exfalso. apply N1. rewrite Em. apply in_map. assumption.
    - exfalso. apply N1. rewrite <- Em. apply in_map. assumption.
  Qed.

  (* how one kid moves the member of an effective spec s *)
  Lemma stepk_classify ci s c' ci' k acc :
    wf_facts T ci -> In s (c_children ci) -> find_child ci (ch_tag s) = Some s ->
    ch_class s = Some c' -> class_at T c' = Some ci' -> c_tag ci' = ch_tag s ->
    stepk (ch_member s) acc (classify T ci k) =
    if qname_eqb (t_tag k) (ch_tag s)
    then (if ch_list s then acc ++ [harvest T c' k] else [harvest T c' k])
    else acc.
  Proof.
    intros F Is Ef Ec Ec' Et. unfold classify. destruct (qname_eqb (t_tag k) (ch_tag s)) eqn:Q.
    - apply qname_eqb_eq in Q. rewrite Q, Ef, Ec.
      assert (Eis : tag_is T c' (ch_tag s) = true) by (unfold tag_is; rewrite Ec'; apply qname_eqb_eq; exact Et).
      rewrite Eis. cbn [stepk]. rewrite String.eqb_refl. reflexivity.
    - destruct (find_child ci (t_tag k)) as [s'|] eqn:Ef'; [|reflexivity].
      destruct (find_some_key qname_eqb ch_tag (c_children ci) (t_tag k) s' qname_eqb_eq Ef') as [Is' Et'].
      assert (Ne : ch_member s' <> ch_member s).
      { intros Em. pose proof (same_member_same_spec ci s s' (wf_members _ _ F) Is Is' Em) as ->.
        apply qname_eqb_neq in Q. congruence. }
      destruct (ch_class s') as [c''|]; [|reflexivity].
      destruct (tag_is T c'' (t_tag k)); cbn [stepk];
        (destruct (String.eqb (ch_member s) (ch_member s')) eqn:E; [apply String.eqb_eq in E; congruence|reflexivity]).
  Qed.

  Lemma fold_stepk_list ci s c' ci' kids : forall acc,
    wf_facts T ci -> In s (c_children ci) -> find_child ci (ch_tag s) = Some s ->
    ch_class s = Some c' -> class_at T c' = Some ci' -> c_tag ci' = ch_tag s -> ch_list s = true ->
    fold_left (stepk (ch_member s)) (map (classify T ci) kids) acc =
    acc ++ map (harvest T c') (filter (fun k => qname_eqb (t_tag k) (ch_tag s)) kids).
  Proof.
    induction kids as [|k r IH]; intros acc F Is Ef Ec Ec' Et L; cbn [map fold_left filter]; [rewrite app_nil_r; reflexivity|].
    rewrite (stepk_classify ci s c' ci' k acc F Is Ef Ec Ec' Et), L, IH by assumption.
    destruct (qname_eqb (t_tag k) (ch_tag s)); [cbn [map]; rewrite <- app_assoc; reflexivity|reflexivity].
  Qed.

  Lemma fold_stepk_last ci s c' ci' kids : forall acc,
    wf_facts T ci -> In s (c_children ci) -> find_child ci (ch_tag s) = Some s ->
    ch_class s = Some c' -> class_at T c' = Some ci' -> c_tag ci' = ch_tag s -> ch_list s = false ->
    fold_left (stepk (ch_member s)) (map (classify T ci) kids) acc =
    match last_opt (filter (fun k => qname_eqb (t_tag k) (ch_tag s)) kids) with
    | Some k => [harvest T c' k]
    | None => acc
    end.
  Proof.
    induction kids as [|k r IH]; intros acc F Is Ef Ec Ec' Et L; cbn [map fold_left filter]; [reflexivity|].
    rewrite (stepk_classify ci s c' ci' k acc F Is Ef Ec Ec' Et), L, IH by assumption.
    destruct (qname_eqb (t_tag k) (ch_tag s)); [|reflexivity]. rewrite last_opt_cons.
    destruct (last_opt (filter _ r)); reflexivity.
  Qed.

  Theorem harvest_nd t : forall c,
    uses_wf_b T c t = true -> wf_tree_b t = true -> harvest_status T c t = SOk ->
    nothing_dropped T c t (harvest T c t).
  Proof.
    induction t as [g a x kids IH] using tree_ind'. intros c U W St.
    pose proof U as U0. pose proof W as W0. pose proof St as St0.
    cbn [uses_wf_b wf_tree_b harvest_status] in U, W, St.
    destruct (class_at T c) as [ci|] eqn:Eci; [|discriminate].
    apply andb_true_iff in U as [Wci Uk]. pose proof (wf_class_facts T ci Wci) as F.
    apply andb_true_iff in W as [W Wk]. apply andb_true_iff in W as [Wa _].
    apply fold_right_join_inv in St as [_ Ssub].
    destruct (unknown_kept T c ci (Node g a x kids) Eci (attrs_ok_nodup a Wa)) as [KE KA].
    apply (ND T c ci); [exact Eci|exact KE| |].
    - intros n v I Un Av. apply KA; [exact I|exact Un|exact Av| |exact St0].
      cbn [t_attrs] in I. pose proof (attrs_ok_noxmlns a Wa) as X. rewrite forallb_forall in X.
      specialize (X (n, v) I). apply negb_true_iff in X. exact X.
    - assert (Ekids : o_kids (harvest T c (Node g a x kids)) = h_kids ci (map (classify T ci) kids)).
      { rewrite (harvest_eq T c g a x kids ci Eci), assemble_eq. destruct (c_kind ci); [reflexivity|].
        destruct (av_finish _ _ _ _); reflexivity. }
      rewrite Ekids. unfold h_kids, LK.
      assert (G : forall specs, incl specs (c_children ci) ->
        Forall2 (fun (mk : string * list obj) s =>
                 fst mk = ch_member s /\
                 forall c', ch_class s = Some c' -> find_child ci (ch_tag s) = Some s ->
                   (ch_list s = true ->
                      Forall2 (nothing_dropped T c') (kids_tagged (ch_tag s) (Node g a x kids)) (snd mk)) /\
                   (ch_list s = false ->
                      (forall k, last_opt (kids_tagged (ch_tag s) (Node g a x kids)) = Some k ->
                                 exists o', snd mk = [o'] /\ nothing_dropped T c' k o') /\
                      (last_opt (kids_tagged (ch_tag s) (Node g a x kids)) = None -> snd mk = [])))
          (map (fun s => (ch_member s, fold_left (stepk (ch_member s)) (map (classify T ci) kids) [])) specs) specs).
      { induction specs as [|s r IHs]; intros I; cbn [map]; constructor.
        - cbn [fst snd]. split; [reflexivity|]. intros c' Ec Ef.
          assert (Is : In s (c_children ci)) by (apply I; left; reflexivity).
          pose proof (wf_child_ok _ _ F s Is) as CO. unfold child_ok in CO. rewrite Ec in CO.
          destruct (class_at T c') as [ci'|] eqn:Ec'; [|discriminate]. apply qname_eqb_eq in CO.
          unfold kids_tagged. cbn [t_kids].
          assert (Hsub : forall k, In k (filter (fun k => qname_eqb (t_tag k) (ch_tag s)) kids) ->
                           nothing_dropped T c' k (harvest T c' k)).
          { intros k Hk. apply filter_In in Hk as [Hk Q]. apply qname_eqb_eq in Q.
            rewrite Forall_forall in IH, Ssub. rewrite forallb_forall in Uk, Wk.
            specialize (Uk k Hk). rewrite Q, Ef, Ec in Uk.
            assert (Sk := Ssub _ (in_map _ _ k Hk)). cbn beta in Sk. rewrite Q, Ef, Ec in Sk.
            assert (Eis : tag_is T c' (ch_tag s) = true) by (unfold tag_is; rewrite Ec'; apply qname_eqb_eq; exact CO).
            rewrite Eis in Sk. apply IH; [exact Hk|exact Uk|apply Wk; exact Hk|exact Sk]. }
          split.
          + intros L. rewrite (fold_stepk_list ci s c' ci' kids [] F Is Ef Ec Ec' CO L). cbn [app].
            induction (filter (fun k => qname_eqb (t_tag k) (ch_tag s)) kids) as [|k r' IHr]; cbn [map]; constructor.
            * apply Hsub. left. reflexivity.
            * apply IHr. intros k' Hk'. apply Hsub. right. exact Hk'.
          + intros L. rewrite (fold_stepk_last ci s c' ci' kids [] F Is Ef Ec Ec' CO L). split.
            * intros k Hl. rewrite Hl. exists (harvest T c' k). split; [reflexivity|]. apply Hsub.
              clear -Hl. induction (filter _ kids) as [|y r' IHr]; [discriminate|].
              rewrite last_opt_cons in Hl. destruct (last_opt r') eqn:E; [right; apply IHr; exact Hl|left; congruence].
            * intros Hl. rewrite Hl. reflexivity.
        - apply IHs. intros s' Hs'. apply I. right. exact Hs'. }
      apply G. apply incl_refl.
  Qed.
End Deep.

(* ------------------------------------------------------------------ the boolean check implies the stated relation *)
Lemma spec_eqb_refl s : spec_eqb s s = true.
Proof.
  unfold spec_eqb. rewrite qname_eqb_refl, String.eqb_refl, Bool.eqb_reflx.
  destruct (ch_class s) as [n|]; cbn [opt_eqb]; [rewrite N.eqb_refl|]; reflexivity.
Qed.

Theorem nd_b_sound T o : forall c t, nd_b T c t o = true -> nothing_dropped T c t o.
Proof.
  induction o as [c0 oa kids ext xa tx IH] using obj_ind'. intros c t H. cbn [nd_b] in H.
  destruct (class_at T c) as [ci|] eqn:Eci; [|discriminate].
  apply andb_true_iff in H as [H H3]. apply andb_true_iff in H as [H1 H2].
  apply (ND T c ci); [exact Eci| | |].
  - cbn [o_ext]. apply (list_eqb_eq ee_eqb (fun x y => ee_eqb_eq x y)). exact H1.
  - intros n v I Un Av. cbn [o_xattrs]. rewrite forallb_forall in H2. specialize (H2 (n, v) I). cbn [fst snd] in H2.
    rewrite Un, Av in H2. cbn [orb] in H2. apply opt_string_eqb_eq. exact H2.
  - cbn [o_kids]. revert H3. generalize (c_children ci) as specs.
    induction IH as [|[m os] r Hos _ IHr]; intros [|s specs] H3; try discriminate; [constructor|].
    apply andb_true_iff in H3 as [H3 Hr]. apply andb_true_iff in H3 as [Hm Hc]. apply String.eqb_eq in Hm.
    constructor; [|apply IHr; exact Hr]. cbn [fst snd]. split; [exact Hm|]. intros c' Ec Ef.
    rewrite Ec in Hc. unfold effective in Hc. rewrite Ef, spec_eqb_refl in Hc. cbn [negb orb] in Hc.
    cbn [snd] in Hos. split.
    + intros L. rewrite L in Hc. revert Hc. generalize (kids_tagged (ch_tag s) t) as ks.
      induction Hos as [|o' p Ho' _ IHp]; intros [|k ks] Hc; try discriminate; [constructor|].
      apply andb_true_iff in Hc as [Hc1 Hc2]. constructor; [apply Ho'; exact Hc1|apply IHp; exact Hc2].
    + intros L. rewrite L in Hc. split.
      * intros k Hl. rewrite Hl in Hc. destruct os as [|o' [|o'' p]]; try discriminate.
        exists o'. split; [reflexivity|]. inversion Hos; subst. auto.
      * intros Hl. rewrite Hl in Hc. destruct os; [reflexivity|discriminate].
Qed.

(* ------------------------------------------------------------------ children are written in schema order *)
Lemma sorted_b_cons a l : sorted_b (a :: l) = true <-> (forall y, In y l -> a <= y) /\ sorted_b l = true.
Proof.
  revert a. induction l as [|b r IH]; intros a.
  - cbn. split; [intros _; split; [intros y []|reflexivity]|reflexivity].
  - change (sorted_b (a :: b :: r)) with ((a <=? b)%nat && sorted_b (b :: r)).
    rewrite andb_true_iff, Nat.leb_le. split.
    + intros [H1 H2]. split; [|exact H2]. intros y [<-|Hy]; [exact H1|].
      apply IH in H2 as [H2 _]. specialize (H2 y Hy). lia.
    + intros [H1 H2]. split; [apply H1; left; reflexivity|exact H2].
Qed.

Lemma sorted_app a b : sorted_b a = true -> sorted_b b = true -> (forall x y, In x a -> In y b -> x <= y) -> sorted_b (a ++ b) = true.
Proof.
  induction a as [|x r IH]; intros Ha Hb H; cbn [app]; [exact Hb|].
  apply sorted_b_cons in Ha as [Ha1 Ha2]. apply sorted_b_cons. split.
  - intros y Hy. apply in_app_or in Hy as [Hy|Hy]; [apply Ha1; exact Hy|apply H; [left; reflexivity|exact Hy]].
  - apply IH; [exact Ha2|exact Hb|]. intros x' y' Hx' Hy'. apply H; [right; exact Hx'|exact Hy'].
Qed.

Lemma sorted_repeat i n : sorted_b (repeat i n) = true.
Proof.
  induction n as [|n IH]; [reflexivity|]. cbn [repeat]. apply sorted_b_cons. split; [|exact IH].
  intros y Hy. apply repeat_spec in Hy. lia.
Qed.

Lemma index_of_app pre m suf : ~ In m pre -> index_of m (pre ++ m :: suf) = length pre.
Proof.
  induction pre as [|x r IH]; cbn [app index_of length In]; intros H.
  - rewrite String.eqb_refl. reflexivity.
  - destruct (String.eqb x m) eqn:E; [apply String.eqb_eq in E; exfalso; apply H; auto|]. rewrite IH by tauto. reflexivity.
Qed.

(* positions of the groups: sorted, and between |pre| and |order| *)
Lemma groups_sorted (n : string -> nat) suf : forall pre,
  NoDup (pre ++ suf) ->
  let l := flat_map (fun m => repeat (index_of m (pre ++ suf)) (n m)) suf in
  sorted_b l = true /\ forall y, In y l -> length pre <= y < length (pre ++ suf).
Proof.
  induction suf as [|m r IH]; intros pre N; cbn zeta.
  - cbn [flat_map]. split; [reflexivity|intros y []].
  - cbn [flat_map].
    assert (Hm : ~ In m pre).
    { intros H. apply NoDup_remove_2 in N. apply N. apply in_or_app. left. exact H. }
    rewrite (index_of_app pre m r Hm).
    assert (E : pre ++ m :: r = (pre ++ [m]) ++ r) by (rewrite <- app_assoc; reflexivity).
    specialize (IH (pre ++ [m])). rewrite <- E in IH. destruct (IH N) as [S B].
    rewrite app_length in B. cbn [length] in B. split.
    + apply sorted_app; [apply sorted_repeat|exact S|]. intros x y Hx Hy. apply repeat_spec in Hx. subst x.
      specialize (B y Hy). lia.
    + intros y Hy. apply in_app_or in Hy as [Hy|Hy].
      * apply repeat_spec in Hy. subst y. rewrite app_length. cbn [length]. lia.
      * specialize (B y Hy). lia.
Qed.

Lemma map_const_repeat {A} (f : A -> nat) l i : (forall x, In x l -> f x = i) -> map f l = repeat i (length l).
Proof.
  induction l as [|x r IH]; intros H; cbn [map length repeat]; [reflexivity|].
  rewrite H by (left; reflexivity). rewrite IH; [reflexivity|]. intros y Hy. apply H. right. exact Hy.
Qed.

Lemma t_tag_wire t : t_tag (wire t) = t_tag t.
Proof. destruct t; reflexivity. Qed.

Theorem ser_ordered T o :
  wf_obj_b T o = true -> canonical_b T o = true -> ordered_b T (o_cls o) (ser T o) = true.
Proof.
  induction o as [c oa kids ext xa tx IH] using obj_ind'. intros W C.
  cbn [wf_obj_b canonical_b] in W, C.
  destruct (class_at T c) as [ci|] eqn:Eci; [|discriminate].
  apply andb_true_iff in W as [Wci Wk]. pose proof (wf_class_facts T ci Wci) as F.
  apply andb_true_iff in C as [C _]. apply andb_true_iff in C as [C _]. apply andb_true_iff in C as [C _].
  apply andb_true_iff in C as [C C5]. apply andb_true_iff in C as [C C4]. apply andb_true_iff in C as [_ C3].
  change (forallb2 kid_ok kids (c_children ci) = true) in C4.
  destruct (forallb2_kids kids (c_children ci) C4 (wf_members _ _ F)) as [Ek Fk].
  destruct (members_specs (c_children ci) (child_order ci) (wf_order_only _ _ F)) as [ospecs [Eo Io]].
  unfold ser. cbn [o_cls]. rewrite (to_tree_eq T c ci) by exact Eci. cbn [wire ordered_b]. rewrite Eci.
  (* facts per child value *)
  assert (Hval : forall s, In s ospecs -> forall o', In o' (get_list (ch_member s) kids) ->
            kid_pos ci (wire (to_tree T o')) = index_of (ch_member s) (child_order ci)
            /\ match find_child ci (t_tag (wire (to_tree T o'))) with
               | Some s' => match ch_class s' with Some c' => ordered_b T c' (wire (to_tree T o')) | None => true end
               | None => true
               end = true).
  { intros s Hs o' Ho'. pose proof (Io s Hs) as Is. destruct (Fk s Is) as [Fc _]. rewrite forallb_forall in Fc.
    specialize (Fc o' Ho'). destruct (ch_class s) as [c'|] eqn:Ec; cbn [opt_eqb] in Fc; [|discriminate].
    apply N.eqb_eq in Fc.
    pose proof (wf_child_ok _ _ F s Is) as CO. unfold child_ok in CO. rewrite Ec in CO.
    destruct (class_at T c') as [ci'|] eqn:Ec'; [|discriminate]. apply qname_eqb_eq in CO.
    assert (Et : t_tag (wire (to_tree T o')) = ch_tag s).
    { fold (ser T o'). rewrite (t_tag_ser T o' ci') by (rewrite Fc; exact Ec'). exact CO. }
    unfold kid_pos. rewrite Et, (find_child_In ci s (wf_tags _ _ F) Is), Ec. split; [reflexivity|].
    rewrite <- Fc. fold (ser T o').
    pose proof (Forall_kids_vals _ kids (ch_member s) IH) as IHs. rewrite Forall_forall in IHs. apply IHs; [exact Ho'| |].
    - pose proof (forallb_kids_vals _ kids (ch_member s) Wk) as X. rewrite forallb_forall in X. apply X. exact Ho'.
    - pose proof (forallb_kids_vals _ kids (ch_member s) C3) as X. rewrite forallb_forall in X. apply X. exact Ho'. }
  assert (Hext : forall e, In e ext ->
            kid_pos ci (wire (tree_of_ee e)) = length (child_order ci)
            /\ find_child ci (t_tag (wire (tree_of_ee e))) = None).
  { intros e He. rewrite forallb_forall in C5. specialize (C5 e He). apply andb_true_iff in C5 as [_ Cu].
    apply negb_true_iff in Cu. unfold known_tag in Cu.
    assert (Et : t_tag (wire (tree_of_ee e)) = ee_name e) by (rewrite t_tag_wire; destruct e; reflexivity).
    unfold kid_pos. rewrite Et. destruct (find_child ci (ee_name e)); [discriminate|auto]. }
  assert (Hm : forall m, In m (child_order ci) -> exists s, In s ospecs /\ ch_member s = m).
  { intros m Hm. rewrite Eo in Hm. apply in_map_iff in Hm as [s [E Hs]]. exists s. auto. }
  set (K := flat_map (fun m => map (to_tree T) (get_list m kids)) (child_order ci)).
  apply andb_true_iff. split.
  - (* positions *)
    rewrite !map_app.
    assert (E1 : map (kid_pos ci) (map wire K) =
                 flat_map (fun m => repeat (index_of m (child_order ci)) (length (get_list m kids))) (child_order ci)).
    { unfold K. rewrite !map_flat_map. apply flat_map_ext_in. intros m Hmo. destruct (Hm m Hmo) as [s [Hs <-]].
      rewrite !map_map. apply map_const_repeat. intros o' Ho'. exact (proj1 (Hval s Hs o' Ho')). }
    assert (E2 : map (kid_pos ci) (map wire (map tree_of_ee ext)) = repeat (length (child_order ci)) (length ext)).
    { rewrite !map_map. apply map_const_repeat. intros e He. exact (proj1 (Hext e He)). }
    rewrite E1, E2.
    destruct (groups_sorted (fun m => length (get_list m kids)) (child_order ci) [] (wf_order _ _ F)) as [S B].
    cbn [app length] in S, B. apply sorted_app; [exact S|apply sorted_repeat|].
    intros x y Hx Hy. apply repeat_spec in Hy. subst y. specialize (B x Hx). lia.
  - rewrite map_app, forallb_app. apply andb_true_iff. split.
    + apply forallb_forall. intros k Hk. apply in_map_iff in Hk as [k0 [<- Hk0]]. unfold K in Hk0.
      apply in_flat_map in Hk0 as [m [Hmo Hk0]]. apply in_map_iff in Hk0 as [o' [<- Ho']].
      destruct (Hm m Hmo) as [s [Hs <-]]. exact (proj2 (Hval s Hs o' Ho')).
    + apply forallb_forall. intros k Hk. rewrite map_map in Hk. apply in_map_iff in Hk as [e [<- He]].
      rewrite (proj2 (Hext e He)). reflexivity.
Qed.
