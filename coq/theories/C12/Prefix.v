(* C12/Prefix.v — the process-global prefix registry behind to_string(nspair) / register_prefix()
   (strengthening round 5, seeded change C12-0).

   SamlBase.register_prefix(nspair) (saml2/__init__.py 532-547) calls, for prefix, uri in nspair.items():
       ElementTree.register_namespace(prefix, uri)        ValueError ignored
   and xml.etree.ElementTree.register_namespace is
       if re.match(r"ns\d+$", prefix): raise ValueError
       for k, v in list(_namespace_map.items()):
           if k == uri or v == prefix: del _namespace_map[k]
       _namespace_map[uri] = prefix
   The map lives as long as the process; every later to_string() of ANY instance reads it:
   ElementTree._namespaces gives a namespace its registered prefix, else "ns%d" % len(namespaces so far), and
   writes one xmlns:<prefix> declaration per namespace on the root element.  The document is well-formed only when
   the prefixes handed out are pairwise distinct.

     nsmap                 the registry: (uri, prefix) in insertion order (a Python dict)
     reg_ns / register_prefix   the two functions above (None = ValueError)
     map_ok                what every history of register_prefix calls preserves: prefixes pairwise distinct,
                           none of the form ElementTree hands out itself
     assign m uris         the prefixes ElementTree declares for the namespaces of a tree (first-use order)
   Theorems: register_prefix_ok / history_ok (any history, from any ok registry), assign_nodup (ok registry =>
   the declarations of EVERY tree are pairwise distinct), builtin_ok; necessity: dup_prefix_breaks,
   direct_write_refuted (writing the pairs into the map without register_namespace breaks map_ok). *)
From Coq Require Import String Ascii List Bool Arith NArith Lia Decimal DecimalString DecimalNat.
From Verif Require Import Base.Str Base.Xml C12.Model.
Import ListNotations.
Open Scope string_scope.
Open Scope list_scope.

Definition nsmap := list (string * string).      (* uri, prefix *)
Definition nspairs := list (string * string).    (* prefix, uri: nspair.items() *)

Lemma seqb_iff (a b : string) : String.eqb a b = true <-> a = b.
Proof. apply String.eqb_eq. Qed.

(* re.match(r"ns\d+$", p), restated for ASCII digits ("$" also matches before one final newline) *)
Fixpoint digits_end (seen : bool) (s : string) : bool :=
  match s with
  | EmptyString => seen
  | String c r => if is_digit c then digits_end true r
                  else seen && Ascii.eqb c c_lf && is_empty r
  end.

Definition reserved_b (p : string) : bool :=
  match p with
  | String c1 (String c2 r) => Ascii.eqb c1 "n"%char && Ascii.eqb c2 "s"%char && digits_end false r
  | _ => false
  end.

(* ElementTree.register_namespace(prefix, uri) *)
Definition reg_keep (p u : string) (kv : string * string) : bool :=
  negb (String.eqb (fst kv) u || String.eqb (snd kv) p).

Definition reg_ns (m : nsmap) (p u : string) : option nsmap :=
  if reserved_b p then None else Some (filter (reg_keep p u) m ++ [(u, p)]).

(* SamlBase.register_prefix(nspair): the ValueError is swallowed *)
Definition reg_step (m : nsmap) (pu : string * string) : nsmap :=
  match reg_ns m (fst pu) (snd pu) with Some m' => m' | None => m end.

Definition register_prefix (m : nsmap) (np : nspairs) : nsmap := fold_left reg_step np m.

(* what xml.etree.ElementTree starts with (Python 3.12; the case files carry the map observed at the start) *)
Definition XML_NS := "http://www.w3.org/XML/1998/namespace".
Definition builtin_map : nsmap :=
  [(XML_NS, "xml"); ("http://www.w3.org/1999/xhtml", "html");
   ("http://www.w3.org/1999/02/22-rdf-syntax-ns#", "rdf"); ("http://schemas.xmlsoap.org/wsdl/", "wsdl");
   ("http://www.w3.org/2001/XMLSchema", "xs"); ("http://www.w3.org/2001/XMLSchema-instance", "xsi");
   ("http://purl.org/dc/elements/1.1/", "dc")].

(* ------------------------------------------------------------------ the invariant *)
Definition map_ok (m : nsmap) : Prop :=
  NoDup (map snd m) /\ NoDup (map fst m) /\ Forall (fun kv => reserved_b (snd kv) = false) m.

Definition map_ok_b (m : nsmap) : bool :=
  nodup_b String.eqb (map snd m) && nodup_b String.eqb (map fst m)
  && forallb (fun kv => negb (reserved_b (snd kv))) m.

Lemma map_ok_b_iff m : map_ok_b m = true <-> map_ok m.
Proof.
  unfold map_ok_b, map_ok. rewrite !andb_true_iff, !(nodup_b_NoDup String.eqb seqb_iff), forallb_forall, Forall_forall.
  split.
  - intros [[A B] C]. split; [exact A|split; [exact B|]]. intros x Hx. apply negb_true_iff. apply C. exact Hx.
  - intros [A [B C]]. split; [split; [exact A|exact B]|]. intros x Hx. apply negb_true_iff. apply C. exact Hx.
Qed.

Lemma NoDup_map_filter {A B} (g : A -> B) (f : A -> bool) l : NoDup (map g l) -> NoDup (map g (filter f l)).
Proof.
  induction l as [|x r IH]; cbn [map filter]; [auto|]. intros N. inversion N as [|? ? N1 N2]; subst.
  destruct (f x); cbn [map]; [|apply IH; exact N2].
  constructor; [|apply IH; exact N2]. intros H. apply N1.
  apply in_map_iff in H. destruct H as [y [E Hy]]. apply filter_In in Hy. apply in_map_iff. exists y. tauto.
Qed.

Lemma reg_ns_ok m p u m' : map_ok m -> reg_ns m p u = Some m' -> map_ok m'.
Proof.
  unfold reg_ns. intros [A [B C]] H. destruct (reserved_b p) eqn:R; [discriminate|]. inversion H; subst; clear H.
  unfold map_ok. rewrite !map_app. cbn [map fst snd]. repeat split.
  - apply NoDup_snoc; [apply NoDup_map_filter; exact A|].
    intros H. apply in_map_iff in H. destruct H as [[u' p'] [E H]]. cbn [snd] in E. subst p'.
    apply filter_In in H. destruct H as [_ H]. unfold reg_keep in H. cbn [fst snd] in H.
    rewrite String.eqb_refl, orb_true_r in H. discriminate.
  - apply NoDup_snoc; [apply NoDup_map_filter; exact B|].
    intros H. apply in_map_iff in H. destruct H as [[u' p'] [E H]]. cbn [fst] in E. subst u'.
    apply filter_In in H. destruct H as [_ H]. unfold reg_keep in H. cbn [fst snd] in H.
    rewrite String.eqb_refl in H. discriminate.
  - apply Forall_app. split.
    + rewrite Forall_forall in *. intros x Hx. apply filter_In in Hx. apply C. tauto.
    + constructor; [exact R|constructor].
Qed.

(* every call of register_prefix, with any argument, keeps the registry usable ... *)
Lemma register_prefix_ok np : forall m, map_ok m -> map_ok (register_prefix m np).
Proof.
  unfold register_prefix. induction np as [|[p u] r IH]; intros m H; cbn [fold_left]; [exact H|].
  apply IH. unfold reg_step. cbn [fst snd]. destruct (reg_ns m p u) eqn:E; [eapply reg_ns_ok; eassumption|exact H].
Qed.

(* ... hence every HISTORY of calls *)
Lemma history_ok hist : forall m, map_ok m -> map_ok (fold_left register_prefix hist m).
Proof.
  induction hist as [|np r IH]; intros m H; cbn [fold_left]; [exact H|]. apply IH. apply register_prefix_ok. exact H.
Qed.

Lemma builtin_ok : map_ok builtin_map.
Proof. apply map_ok_b_iff. vm_compute. reflexivity. Qed.

(* ------------------------------------------------------------------ ElementTree._namespaces *)
Definition auto_prefix (n : nat) : string := "ns" ++ NilEmpty.string_of_uint (Nat.to_uint n).

Fixpoint assign (m : nsmap) (uris : list string) (acc : nsmap) : nsmap :=
  match uris with
  | [] => acc
  | u :: r =>
      if mem u (map fst acc) then assign m r acc
      else let p := match dget String.eqb u m with Some p => p | None => auto_prefix (length acc) end in
           if String.eqb p "xml" then assign m r acc else assign m r (acc ++ [(u, p)])
  end.

Lemma digits_end_uint d : digits_end true (NilEmpty.string_of_uint d) = true.
Proof. induction d; cbn [NilEmpty.string_of_uint digits_end]; try reflexivity; exact IHd. Qed.

Lemma to_uint_nonnil n : Nat.to_uint n <> Nil.
Proof.
  intros H. pose proof (Unsigned.of_to n) as E. rewrite H in E. cbn in E. subst n. vm_compute in H. discriminate.
Qed.

Lemma reserved_auto n : reserved_b (auto_prefix n) = true.
Proof.
  unfold auto_prefix. cbn [append reserved_b]. rewrite !Ascii.eqb_refl. cbn [andb].
  pose proof (to_uint_nonnil n) as H. destruct (Nat.to_uint n) as [|d|d|d|d|d|d|d|d|d|d]; [congruence| ..];
    cbn [NilEmpty.string_of_uint digits_end]; apply digits_end_uint.
Qed.

Lemma auto_inj a b : auto_prefix a = auto_prefix b -> a = b.
Proof.
  unfold auto_prefix. cbn [append]. intros H. inversion H as [H1]. clear H.
  apply Unsigned.to_uint_inj.
  pose proof (NilEmpty.usu (Nat.to_uint a)) as Ea. pose proof (NilEmpty.usu (Nat.to_uint b)) as Eb.
  rewrite H1 in Ea. rewrite Ea in Eb. inversion Eb. reflexivity.
Qed.

Lemma prefix_unique (m : nsmap) u1 u2 p : NoDup (map snd m) -> In (u1, p) m -> In (u2, p) m -> u1 = u2.
Proof.
  induction m as [|[u q] r IH]; cbn [map snd In]; [contradiction|]. intros N H1 H2.
  inversion N as [|? ? N1 N2]; subst.
  destruct H1 as [H1|H1]; destruct H2 as [H2|H2].
  - congruence.
  - inversion H1; subst. exfalso. apply N1. apply in_map_iff. exists (u2, p). auto.
  - inversion H2; subst. exfalso. apply N1. apply in_map_iff. exists (u1, p). auto.
  - apply IH; assumption.
Qed.

Definition assign_inv (m : nsmap) (acc : nsmap) : Prop :=
  NoDup (map snd acc) /\ NoDup (map fst acc) /\
  forall u p, In (u, p) acc -> In (u, p) m \/ exists k, (k < length acc)%nat /\ p = auto_prefix k.

Lemma assign_inv_snoc m acc u p : map_ok m -> assign_inv m acc -> ~ In u (map fst acc) ->
  (In (u, p) m \/ p = auto_prefix (length acc)) -> assign_inv m (acc ++ [(u, p)]).
Proof.
  intros [A [B C]] [I1 [I2 I3]] Hu Hp. unfold assign_inv. rewrite !map_app, app_length. cbn [map fst snd length].
  rewrite Forall_forall in C.
  split; [|split].
  - apply NoDup_snoc; [exact I1|]. intros H. apply in_map_iff in H. destruct H as [[u' p'] [E H]]. cbn [snd] in E. subst p'.
    assert (Hne : u' <> u) by (intros ->; apply Hu; apply in_map_iff; exists (u, p); auto).
    destruct (I3 _ _ H) as [Hm'|[k [Hk Ep]]]; destruct Hp as [G|G].
    + apply Hne. exact (prefix_unique m u' u p A Hm' G).
    + specialize (C _ Hm'). cbn [snd] in C. rewrite G, reserved_auto in C. discriminate.
    + specialize (C _ G). cbn [snd] in C. rewrite Ep, reserved_auto in C. discriminate.
    + rewrite G in Ep. apply auto_inj in Ep. lia.
  - apply NoDup_snoc; assumption.
  - intros u' p' H. apply in_app_or in H. destruct H as [H|[H|[]]].
    + destruct (I3 _ _ H) as [Hm'|[k [Hk Ep]]]; [left; exact Hm'|right; exists k; split; [lia|exact Ep]].
    + inversion H; subst u' p'. destruct Hp as [G|G]; [left; exact G|right; exists (length acc); split; [lia|exact G]].
Qed.

Lemma assign_keeps m uris : forall acc, map_ok m -> assign_inv m acc -> assign_inv m (assign m uris acc).
Proof.
  induction uris as [|u r IH]; intros acc OK I; cbn [assign]; [exact I|].
  destruct (mem u (map fst acc)) eqn:Hm; [apply IH; assumption|].
  assert (Hu : ~ In u (map fst acc)) by (intros H; apply mem_In in H; congruence).
  destruct (dget String.eqb u m) as [q|] eqn:G.
  - destruct (String.eqb q "xml"); [apply IH; assumption|]. apply IH; [exact OK|].
    apply assign_inv_snoc; [exact OK|exact I|exact Hu|left; apply (dget_In String.eqb seqb_iff); exact G].
  - destruct (String.eqb (auto_prefix (length acc)) "xml"); [apply IH; assumption|]. apply IH; [exact OK|].
    apply assign_inv_snoc; [exact OK|exact I|exact Hu|right; reflexivity].
Qed.

(* a usable registry => the namespace declarations ElementTree writes for ANY tree are pairwise distinct
   (one per namespace, no prefix twice) *)
Lemma assign_nodup m uris : map_ok m ->
  NoDup (map snd (assign m uris [])) /\ NoDup (map fst (assign m uris [])).
Proof.
  intros OK. destruct (assign_keeps m uris [] OK) as [A [B _]].
  - unfold assign_inv. cbn [map length]. split; [constructor|split; [constructor|]]. intros ? ? [].
  - split; assumption.
Qed.

(* necessity: a registry that holds one prefix for two namespaces breaks every tree that uses both *)
Lemma dup_prefix_breaks m u1 u2 p :
  dget String.eqb u1 m = Some p -> dget String.eqb u2 m = Some p -> u1 <> u2 -> p <> "xml" ->
  assign m [u1; u2] [] = [(u1, p); (u2, p)].
Proof.
  intros G1 G2 N X. apply String.eqb_neq in X. cbn [assign map fst mem]. rewrite G1, X. change ([] ++ [(u1, p)]) with [(u1, p)].
  cbn [assign]. destruct (mem u2 (map fst [(u1, p)])) eqn:M.
  - apply mem_In in M. cbn in M. destruct M as [M|[]]. congruence.
  - rewrite G2, X. reflexivity.
Qed.

(* what the ET < 1.3 fallback does when it is used for EVERY pair (the seeded change): *)
Definition direct_write (m : nsmap) (np : nspairs) : nsmap :=
  fold_left (fun m pu => dset String.eqb (snd pu) (fst pu) m) np m.

Lemma direct_write_refuted :
  (exists np1 np2, map_ok_b (direct_write (direct_write builtin_map np1) np2) = false
                   /\ map_ok_b (register_prefix (register_prefix builtin_map np1) np2) = true)
  /\ (exists np, map_ok_b (direct_write builtin_map np) = false /\ map_ok_b (register_prefix builtin_map np) = true
                 /\ exists uris, nodup_b String.eqb (map snd (assign (direct_write builtin_map np) uris [])) = false).
Proof.
  split.
  - exists [("p", "urn:x")], [("p", "urn:y")]. vm_compute. split; reflexivity.
  - exists [("ns1", "urn:z")]. split; [vm_compute; reflexivity|split; [vm_compute; reflexivity|]].
    exists ["urn:z"; "urn:other"]. vm_compute. reflexivity.
Qed.

(* ------------------------------------------------------------------ the names of a tree, in the order ElementTree meets them *)
Fixpoint tree_names (t : tree) : list qname :=
  match t with
  | Node g a _ kids => g :: map fst a ++ flat_map tree_names kids
  end.

Definition uris_of (names : list qname) : list string :=
  flat_map (fun q => match q_ns q with Some u => [u] | None => [] end) names.

(* to_string_force_namespace(nspair) (set_prefixes / fixup_element_prefixes): every name in a namespace of the nspair is
   rewritten to "prefix:local" (no longer a qualified name for ElementTree) and xmlns:<prefix> is set on the root for
   EVERY pair; ElementTree then declares prefixes for the namespaces that are left.  When it picks a prefix the nspair
   also uses, the root carries xmlns:<prefix> twice. *)
Definition forced_left (np : nspairs) (t : tree) : list string :=
  filter (fun u => negb (mem u (map snd np))) (uris_of (tree_names t)).

Definition force_collides (m : nsmap) (np : nspairs) (t : tree) : bool :=
  existsb (fun up => mem (snd up) (map fst np)) (assign m (forced_left np t) []).

(* the xs: / xsd: declaration AttributeValueBase.set_type keeps as a pseudo attribute "xmlns:xs" (findings C12-F4/F7):
   prefix and namespace of every such attribute in the tree *)
Fixpoint pseudo_decls (t : tree) : list (string * string) :=
  match t with
  | Node _ a _ kids =>
      flat_map (fun kv => match fst kv with
                          | QN None n => if String.prefix "xmlns:" n then [(substring 6 (String.length n) n, snd kv)] else []
                          | _ => []
                          end) a
      ++ flat_map pseudo_decls kids
  end.

(* some prefix of [binds] (prefix, uri) is also declared by a pseudo attribute of the tree, for another namespace *)
Definition pseudo_clash (binds : list (string * string)) (t : tree) : bool :=
  existsb (fun pv => existsb (fun b => String.eqb (fst b) (fst pv) && negb (String.eqb (snd b) (snd pv))) binds)
          (pseudo_decls t).

(* attribute order is not part of a document: equality of trees up to the order of the attributes of each element *)
Definition attrs_sim_b (a b : attrs) : bool :=
  Nat.eqb (length a) (length b) && forallb (fun kv => existsb (attr_eqb kv) b) a.

Fixpoint tree_sim_b (a b : tree) {struct a} : bool :=
  match a, b with
  | Node g1 a1 x1 k1, Node g2 a2 x2 k2 =>
      qname_eqb g1 g2 && attrs_sim_b a1 a2 && String.eqb x1 x2 &&
      (fix go (l1 l2 : list tree) {struct l1} : bool :=
         match l1, l2 with
         | [], [] => true
         | x :: r, y :: s => tree_sim_b x y && go r s
         | _, _ => false
         end) k1 k2
  end.
