(* C12/Xsd.v — "children (in schema order)" against an oracle that is INDEPENDENT of the library's own
   c_child_order: the content models of the XML Schema files (src/saml2/data/schemas/*.xsd), translated by
   harness/c12.py into gen/C12Schema.v as, per class, a RANK for every child element name:

     sequence (once)          the particles get increasing blocks of ranks
     choice (once)            the alternatives start at the same rank
     anything repeatable      all element names inside share one rank (any interleaving is schema valid)
     one name at two ranks    the ranks between them are merged (over-approximation)

   so that in EVERY schema-valid element the ranks of the children (those that have one) never decrease.
   [xsd_ordered_b] is that necessary condition; it is evaluated on what the implementation writes.
   [xsd_consistent_b] is the (regenerated, vm_compute) obligation that the library's order table never
   contradicts the ranks; under it the order the model writes ([ordered_b], theorem c12_schema_order)
   is rank-monotone: [xsd_order].  Self-contained: Corr.v imports this file, not Proofs.v. *)
From Coq Require Import String List Bool Arith NArith Lia.
From Verif Require Import Base.Str Base.Xml Base.ClassTable C12.Model C12.Spec.
Import ListNotations.
Open Scope list_scope.

(* class index -> (child element name, rank) *)
Definition xsd_table := list (N * list (qname * nat)).

Fixpoint xsd_model (X : xsd_table) (c : N) : list (qname * nat) :=
  match X with
  | [] => []
  | (c', m) :: r => if N.eqb c' c then m else xsd_model r c
  end.

Definition xsd_rank (m : list (qname * nat)) (g : qname) : option nat := dget qname_eqb g m.

(* the ranks of the children that have one, document order *)
Definition ranks_of (m : list (qname * nat)) (kids : list tree) : list nat :=
  flat_map (fun k => match xsd_rank m (t_tag k) with Some r => [r] | None => [] end) kids.

Section Xsd.
  Variable T : table.
  Variable X : xsd_table.

  Fixpoint xsd_ordered_b (c : N) (t : tree) {struct t} : bool :=
    match t with
    | Node _ _ _ kids =>
        match class_at T c with
        | None => false
        | Some ci =>
            sorted_b (ranks_of (xsd_model X c) kids)
            && forallb (fun k => match find_child ci (t_tag k) with
                                 | Some s => match ch_class s with
                                             | Some c' => xsd_ordered_b c' k
                                             | None => true
                                             end
                                 | None => true
                                 end) kids
        end
    end.

  (* position of an element name in the library's order table (= Spec.kid_pos on the name) *)
  Definition pos_of (ci : class_info) (g : qname) : nat :=
    match find_child ci g with
    | Some s => index_of (ch_member s) (child_order ci)
    | None => length (child_order ci)
    end.

  (* the library's order never contradicts the ranks: written earlier-or-together => rank not greater *)
  Definition xsd_class_ok (ci : class_info) (m : list (qname * nat)) : bool :=
    forallb (fun a => forallb (fun b => negb (pos_of ci (fst a) <=? pos_of ci (fst b))%nat || (snd a <=? snd b)%nat) m) m.

  Definition xsd_consistent_b : bool :=
    forallb (fun cm => match class_at T (fst cm) with
                       | Some ci => xsd_class_ok ci (snd cm)
                       | None => false
                       end) X.

  (* the classes whose order table contradicts the schema (for the report) *)
  Definition xsd_bad_classes : list string :=
    flat_map (fun cm => match class_at T (fst cm) with
                        | Some ci => if xsd_class_ok ci (snd cm) then [] else [c_name ci]
                        | None => ["?"%string]
                        end) X.

  Lemma sorted_cons a l : sorted_b (a :: l) = true <-> (forall y, In y l -> a <= y) /\ sorted_b l = true.
  Proof.
    revert a. induction l as [|b r IH]; intros a.
    - cbn. split; [intros _; split; [intros y []|reflexivity]|reflexivity].
    - change (sorted_b (a :: b :: r)) with ((a <=? b)%nat && sorted_b (b :: r)).
      rewrite andb_true_iff, Nat.leb_le. split.
      + intros [H1 H2]. split; [|exact H2]. intros y [<-|Hy]; [exact H1|].
        apply IH in H2 as [H2 _]. specialize (H2 y Hy). lia.
      + intros [H1 H2]. split; [apply H1; left; reflexivity|exact H2].
  Qed.

  Lemma xsd_model_ok c ci :
    xsd_consistent_b = true -> class_at T c = Some ci -> xsd_class_ok ci (xsd_model X c) = true.
  Proof.
    unfold xsd_consistent_b. intros H E. induction X as [|[c' m] r IH]; cbn [xsd_model].
    - reflexivity.
    - cbn [forallb fst snd] in H. apply andb_true_iff in H as [H1 H2].
      destruct (N.eqb c' c) eqn:Ec.
      + apply N.eqb_eq in Ec. subst c'. rewrite E in H1. exact H1.
      + apply IH. exact H2.
  Qed.

  Lemma class_ok_pair ci m g1 r1 g2 r2 :
    xsd_class_ok ci m = true -> xsd_rank m g1 = Some r1 -> xsd_rank m g2 = Some r2 ->
    pos_of ci g1 <= pos_of ci g2 -> r1 <= r2.
  Proof.
    unfold xsd_class_ok, xsd_rank. intros H E1 E2 P.
    apply (dget_In qname_eqb qname_eqb_eq) in E1. apply (dget_In qname_eqb qname_eqb_eq) in E2.
    rewrite forallb_forall in H. specialize (H _ E1). rewrite forallb_forall in H. specialize (H _ E2).
    cbn [fst snd] in H. apply orb_true_iff in H as [H|H].
    - apply negb_true_iff in H. apply Nat.leb_gt in H. lia.
    - apply Nat.leb_le in H. exact H.
  Qed.

  Lemma In_ranks_of m kids y : In y (ranks_of m kids) -> exists k, In k kids /\ xsd_rank m (t_tag k) = Some y.
  Proof.
    unfold ranks_of. intros H. apply in_flat_map in H as [k [Hk Hy]]. exists k. split; [exact Hk|].
    destruct (xsd_rank m (t_tag k)) as [r|]; [destruct Hy as [<-|[]]; reflexivity|destruct Hy].
  Qed.

  (* one element: sorted by the library's positions => sorted by rank *)
  Lemma ranks_sorted ci m kids :
    xsd_class_ok ci m = true -> sorted_b (map (kid_pos ci) kids) = true -> sorted_b (ranks_of m kids) = true.
  Proof.
    intros OK. induction kids as [|k r IH]; intros S; [reflexivity|].
    cbn [map] in S. apply sorted_cons in S as [S1 S2]. specialize (IH S2).
    unfold ranks_of. cbn [flat_map]. fold (ranks_of m r).
    destruct (xsd_rank m (t_tag k)) as [rk|] eqn:Ek; cbn [app]; [|exact IH].
    apply sorted_cons. split; [|exact IH]. intros y Hy.
    apply In_ranks_of in Hy as [k' [Hk' Ey]].
    apply (class_ok_pair ci m (t_tag k) rk (t_tag k') y OK Ek Ey).
    change (pos_of ci (t_tag k)) with (kid_pos ci k). change (pos_of ci (t_tag k')) with (kid_pos ci k').
    apply S1. apply in_map. exact Hk'.
  Qed.

  (* every depth *)
  Theorem xsd_order t : forall c,
    xsd_consistent_b = true -> ordered_b T c t = true -> xsd_ordered_b c t = true.
  Proof.
    induction t as [g a x kids IH] using tree_ind'. intros c HX HO.
    cbn [ordered_b] in HO. cbn [xsd_ordered_b].
    destruct (class_at T c) as [ci|] eqn:Eci; [|discriminate].
    apply andb_true_iff in HO as [HS HK]. apply andb_true_iff. split.
    - apply (ranks_sorted ci); [apply (xsd_model_ok c ci HX Eci)|exact HS].
    - rewrite forallb_forall in HK. apply forallb_forall. intros k Hk. specialize (HK k Hk).
      rewrite Forall_forall in IH.
      destruct (find_child ci (t_tag k)) as [s|]; [|reflexivity].
      destruct (ch_class s) as [c'|]; [|reflexivity].
      apply (IH k Hk); [exact HX|exact HK].
  Qed.

  (* ------------------------------------------------------------------ round 5: WHICH children a class knows.
     "Parsing never drops unknown children (they surface as extensions)" was judged by the library's own
     c_children (Spec.nd_b): a table that registers a child the element's schema type does not have - a child
     table shared with a sibling class by a missing .copy(), say - makes that child "known" for the model and for
     nd_b alike, and the stray member it is stored in is never serialised.  The schema files say which child
     elements an element HAS: a child of the document whose name has no rank in the class's content model is
     unknown, whatever the table says, and must be among the extension elements.
     [A]: the registered children the schema files do not declare, reviewed by hand (xsd_extra_allowed). *)
  Variable A : list (string * qname).

  Definition allowed_extra (ci : class_info) (g : qname) : bool :=
    existsb (fun e => String.eqb (fst e) (c_name ci) && qname_eqb (snd e) g) A.

  (* root level: every child the schema does not give the element is an extension element of the object *)
  Definition xsd_kept_b (c : N) (t : tree) (o : obj) : bool :=
    match class_at T c with
    | None => false
    | Some ci =>
        match xsd_model X c with
        | [] => true                                   (* no content model: no oracle *)
        | m => forallb (fun k => is_some (xsd_rank m (t_tag k)) || allowed_extra ci (t_tag k)
                                 || existsb (ee_eqb (ee_of_tree k)) (o_ext o)) (t_kids t)
        end
    end.

  (* the regenerated obligation: a class with a content model registers only children of that model *)
  Definition xsd_known_class_ok (ci : class_info) (m : list (qname * nat)) : bool :=
    forallb (fun s => is_some (xsd_rank m (ch_tag s)) || allowed_extra ci (ch_tag s)) (c_children ci).

  Definition xsd_known_b : bool :=
    forallb (fun cm => match class_at T (fst cm) with
                       | Some ci => xsd_known_class_ok ci (snd cm)
                       | None => false
                       end) X.

  Definition xsd_overregistered : list (string * qname) :=
    flat_map (fun cm => match class_at T (fst cm) with
                        | Some ci => map (fun s => (c_name ci, ch_tag s))
                                         (filter (fun s => negb (is_some (xsd_rank (snd cm) (ch_tag s)) || allowed_extra ci (ch_tag s)))
                                                 (c_children ci))
                        | None => []
                        end) X.

End Xsd.

(* Registered children that the shipped schema files do not have in the content model of the class - reviewed by
   hand, one reason each (a mutation cannot add itself here: the list is not generated):
   - ds:KeyInfo (and the two xenc key-info elements derived from it) accept xenc:EncryptedKey through the
     schema's <any namespace="##other"> wildcard; pysaml2 registers it as a member (finding C12-F1 was about the
     namespace it was registered under);
   - xenc:AgreementMethod: the schema element is "KA-Nonce", the generated class registers "KA_Nonce" (the
     schema-valid element is an extension element for the class; round trip unaffected);
   - eidas RequestedAttribute: the schema's AttributeValue is in the eidas namespace, the class registers
     saml:AttributeValue (what deployments send);
   - soapenv:Fault: envelope.xsd declares faultcode / faultstring / faultactor / detail unqualified, the class
     registers them in the SOAP namespace (noted in round 2). *)
Definition XENC_NS : string := "http://www.w3.org/2001/04/xmlenc#".
Definition SOAP_NS : string := "http://schemas.xmlsoap.org/soap/envelope/".
Definition xsd_extra_allowed : list (string * qname) :=
  [ ("saml2.xmldsig.KeyInfoType_", QN (Some XENC_NS) "EncryptedKey");
    ("saml2.xmldsig.KeyInfo", QN (Some XENC_NS) "EncryptedKey");
    ("saml2.xmlenc.OriginatorKeyInfo", QN (Some XENC_NS) "EncryptedKey");
    ("saml2.xmlenc.RecipientKeyInfo", QN (Some XENC_NS) "EncryptedKey");
    ("saml2.xmlenc.AgreementMethodType_", QN (Some XENC_NS) "KA_Nonce");
    ("saml2.xmlenc.AgreementMethod", QN (Some XENC_NS) "KA_Nonce");
    ("saml2.extension.requested_attributes.RequestedAttributeType_", QN (Some "urn:oasis:names:tc:SAML:2.0:assertion") "AttributeValue");
    ("saml2.extension.requested_attributes.RequestedAttribute", QN (Some "urn:oasis:names:tc:SAML:2.0:assertion") "AttributeValue");
    ("saml2.schema.soapenv.Fault_", QN (Some SOAP_NS) "faultcode"); ("saml2.schema.soapenv.Fault_", QN (Some SOAP_NS) "faultstring");
    ("saml2.schema.soapenv.Fault_", QN (Some SOAP_NS) "faultactor"); ("saml2.schema.soapenv.Fault_", QN (Some SOAP_NS) "detail");
    ("saml2.schema.soapenv.Fault", QN (Some SOAP_NS) "faultcode"); ("saml2.schema.soapenv.Fault", QN (Some SOAP_NS) "faultstring");
    ("saml2.schema.soapenv.Fault", QN (Some SOAP_NS) "faultactor"); ("saml2.schema.soapenv.Fault", QN (Some SOAP_NS) "detail") ]%string.

(* ---- the oracle has content of its own: a table that writes B before A while the schema says (A, B) is
   consistent in itself (ordered_b holds on what it writes) and is caught by the ranks *)
Definition xq (l : string) : qname := QN (Some "urn:t"%string) l.
Definition x_leaf (name l : string) : class_info :=
  {| c_name := name; c_tag := xq l; c_kind := KPlain; c_children := []; c_attributes := []; c_child_order := [];
     c_cardinality := []; c_any := None; c_any_attribute := None; c_value_type := None; c_parse_defaults := [] |}.
Definition x_box (order : list string) : class_info :=
  {| c_name := "Box"%string; c_tag := xq "Box"; c_kind := KPlain;
     c_children := [ {| ch_tag := xq "A"; ch_member := "a"%string; ch_class := Some 1%N; ch_list := false |};
                     {| ch_tag := xq "B"; ch_member := "b"%string; ch_class := Some 2%N; ch_list := true |} ];
     c_attributes := []; c_child_order := order;
     c_cardinality := []; c_any := None; c_any_attribute := None; c_value_type := None; c_parse_defaults := [] |}.
Definition x_table (order : list string) : table := [x_box order; x_leaf "A" "A"; x_leaf "B" "B"].
Definition x_xsd : xsd_table := [(0%N, [(xq "A", 0); (xq "B", 1)])].
Definition x_leaf_t (l : string) : tree := Node (xq l) [] ""%string [].
Definition x_doc_ab : tree := Node (xq "Box") [] ""%string [x_leaf_t "A"; x_leaf_t "B"; x_leaf_t "B"; Node (QN None "foreign"%string) [] ""%string []].
Definition x_doc_ba : tree := Node (xq "Box") [] ""%string [x_leaf_t "B"; x_leaf_t "A"].

Example xsd_sat :
  xsd_consistent_b (x_table ["a"; "b"]%string) x_xsd = true
  /\ ordered_b (x_table ["a"; "b"]%string) 0%N x_doc_ab = true
  /\ xsd_ordered_b (x_table ["a"; "b"]%string) x_xsd 0%N x_doc_ab = true
  /\ xsd_ordered_b (x_table ["a"; "b"]%string) x_xsd 0%N x_doc_ba = false.
Proof. vm_compute. repeat split. Qed.

Lemma xsd_swap_detected :
  exists T X c t, wf_table T = true /\ ordered_b T c t = true /\ xsd_ordered_b T X c t = false /\ xsd_consistent_b T X = false.
Proof. exists (x_table ["b"; "a"]%string), x_xsd, 0%N, x_doc_ba. vm_compute. repeat split. Qed.

(* a table that registers a child the schema does not give the element (the aliased child table) is consistent in
   itself: the model parses the child into the member, nd_b is satisfied - and both the obligation and the check on
   the document catch it *)
Definition x_box_polluted : class_info :=
  {| c_name := "Box"%string; c_tag := xq "Box"; c_kind := KPlain;
     c_children := [ {| ch_tag := xq "A"; ch_member := "a"%string; ch_class := Some 1%N; ch_list := false |};
                     {| ch_tag := xq "B"; ch_member := "b"%string; ch_class := Some 2%N; ch_list := true |};
                     {| ch_tag := xq "S"; ch_member := "s"%string; ch_class := Some 3%N; ch_list := false |} ];
     c_attributes := []; c_child_order := ["a"; "b"]%string;
     c_cardinality := []; c_any := None; c_any_attribute := None; c_value_type := None; c_parse_defaults := [] |}.
Definition x_table_polluted : table := [x_box_polluted; x_leaf "A" "A"; x_leaf "B" "B"; x_leaf "S" "S"].
Definition x_doc_s : tree := Node (xq "Box") [] ""%string [x_leaf_t "A"; x_leaf_t "S"].

Lemma xsd_pollution_detected :
  nd_b x_table_polluted 0%N x_doc_s (harvest x_table_polluted 0%N x_doc_s) = true
  /\ xsd_kept_b x_table_polluted x_xsd [] 0%N x_doc_s (harvest x_table_polluted 0%N x_doc_s) = false
  /\ xsd_known_b x_table_polluted x_xsd [] = false
  /\ xsd_kept_b (x_table ["a"; "b"]%string) x_xsd [] 0%N x_doc_s (harvest (x_table ["a"; "b"]%string) 0%N x_doc_s) = true
  /\ xsd_known_b (x_table ["a"; "b"]%string) x_xsd [] = true.
Proof. vm_compute. repeat split. Qed.
